// vf/c11_preamble.hpp — length of the documented preamble of an image (C11 quantifies corruption over "every preamble byte")
#ifndef VF_C11_PREAMBLE_HPP
#define VF_C11_PREAMBLE_HPP
#include "families.hpp"
namespace {
namespace fam = vf::fam;
inline size_t preamble_len(int f, const fam::Bytes& img) {
  // the documented preamble: byte 0 holds its length in 4-byte ints (HLL, CPC, KLL, REQ, density) or 8-byte longs (all others);
  // at least the first 8 bytes, at most 64, clipped to the image
  if (img.empty()) return 0;
  size_t unit;
  switch (f) {
    case fam::F_HLL: case fam::F_CPC: case fam::F_KLL_F: case fam::F_KLL_S: case fam::F_REQ_F: case fam::F_REQ_S: case fam::F_DENS: unit = 4; break;
    default: unit = 8;
  }
  size_t p = static_cast<size_t>(img[0] & 0x3f) * unit;
  if (f == fam::F_CM) p = 16;   // count-min: fixed 2-long preamble (byte 0 is the preamble-longs field of the short form)
  p = std::max<size_t>(p, 8);
  return std::min<size_t>(std::min<size_t>(p, 64), img.size());
}
}  // namespace
#endif
