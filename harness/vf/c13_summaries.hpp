// vf/c13_summaries.hpp — summary families used by the C13 (Tuple sketch) harness.
// Each family ("traits") names the real sketch / set-operation types, the policies, and the pure model of a summary:
// MS = std::vector<double> with create / m_update (fold one offered value) / m_merge (union & intersection policy).
//   TrSum  : double, default policies (+=)                      — arithmetic
//   TrRec  : std::vector<int32_t>, append / concatenate         — order recording, NOT commutative: fold order is visible
//   TrInst : instrumented move-aware type (counts copies/moves, flags any read of a moved-from / destroyed / never
//            constructed object, balance of constructions and destructions), order recording payload
//   TrAod  : array_of_doubles (update_array_of_doubles_sketch & co), 1..4 columns
//   TrVec  : generic tuple sketch over std::vector<double> with per-column sum policies (twin of TrAod)
#ifndef VF_C13_SUMMARIES_HPP
#define VF_C13_SUMMARIES_HPP
#include <cstdint>
#include <cstring>
#include <istream>
#include <ostream>
#include <string>
#include <vector>
#include <tuple_sketch.hpp>
#include <tuple_union.hpp>
#include <tuple_intersection.hpp>
#include <tuple_a_not_b.hpp>
#include <array_of_doubles_sketch.hpp>
#include "core.hpp"

namespace c13 {

namespace ds = datasketches;
using MS = std::vector<double>;

// values are small multiples of 0.25: every sum in a case is exact in double arithmetic, in any order
inline double dval(uint64_t x) { return static_cast<double>(static_cast<int64_t>(vf::mix64(x) % 4001) - 2000) * 0.25; }
inline int32_t ival(uint64_t x) { return static_cast<int32_t>(vf::mix64(x ^ 0x1357) >> 34); }
inline std::vector<double> vvals(uint64_t x, int nv) {
  std::vector<double> v(static_cast<size_t>(nv));
  for (int i = 0; i < nv; ++i) v[static_cast<size_t>(i)] = dval(x * 7 + static_cast<uint64_t>(i) + 1);
  return v;
}

// ---------------------------------------------------------------- instrumented type
struct InstStats {
  int64_t live = 0;
  uint64_t copies = 0, moves = 0, bad = 0;
  std::string first_bad;
};
inline InstStats& IS() { static InstStats s; return s; }
inline void inst_bad(const char* what) { InstStats& s = IS(); if (!s.bad++) s.first_bad = what; }

struct Inst {
  static constexpr uint32_t ALIVE = 0xA11CE5u, MOVED = 0x30BEDu, DEAD = 0xDEADu;
  std::vector<int32_t> v;
  uint32_t st;
  const std::vector<int32_t>& get(const char* what) const { if (st != ALIVE) inst_bad(what); return v; }
  Inst() : st(ALIVE) { ++IS().live; }
  Inst(const Inst& o) : v(o.get("copy-construct from a moved-from/destroyed summary")), st(ALIVE) { ++IS().live; ++IS().copies; }
  Inst(Inst&& o) noexcept : st(ALIVE) {
    if (o.st != ALIVE) inst_bad("move-construct from a moved-from/destroyed summary");
    v = std::move(o.v); o.v.clear(); o.st = MOVED; ++IS().live; ++IS().moves;
  }
  Inst& operator=(const Inst& o) {
    if (this != &o) {
      if (st != ALIVE && st != MOVED) inst_bad("copy-assign to a destroyed/unconstructed summary");
      v = o.get("copy-assign from a moved-from/destroyed summary"); st = ALIVE; ++IS().copies;
    }
    return *this;
  }
  Inst& operator=(Inst&& o) noexcept {
    if (this != &o) {
      if (st != ALIVE && st != MOVED) inst_bad("move-assign to a destroyed/unconstructed summary");
      if (o.st != ALIVE) inst_bad("move-assign from a moved-from/destroyed summary");
      v = std::move(o.v); o.v.clear(); o.st = MOVED; st = ALIVE; ++IS().moves;
    }
    return *this;
  }
  ~Inst() {
    if (st != ALIVE && st != MOVED) inst_bad("destructor on a destroyed/unconstructed summary");
    st = DEAD; --IS().live;
  }
};
struct IVal { int32_t x; bool moved = false; };

struct InstUpdPol {
  Inst create() const { return Inst(); }
  void update(Inst& s, const IVal& v) const {
    if (s.st != Inst::ALIVE) inst_bad("update policy applied to a moved-from/destroyed summary");
    if (v.moved) inst_bad("update value read after it was moved from");
    s.v.push_back(v.x);
  }
  void update(Inst& s, IVal&& v) const { update(s, static_cast<const IVal&>(v)); v.moved = true; }
};
struct InstMergePol {
  void operator()(Inst& s, const Inst& o) const {
    if (s.st != Inst::ALIVE) inst_bad("set-operation policy applied to a moved-from/destroyed summary");
    const auto& ov = o.get("set-operation policy read a moved-from/destroyed incoming summary");
    s.v.insert(s.v.end(), ov.begin(), ov.end());
  }
  void operator()(Inst& s, Inst&& o) const {
    (*this)(s, static_cast<const Inst&>(o));
    o.v.clear(); o.st = Inst::MOVED;
  }
};

// ---------------------------------------------------------------- serde for list-like summaries
inline const std::vector<int32_t>& payload(const std::vector<int32_t>& s) { return s; }
inline const std::vector<double>& payload(const std::vector<double>& s) { return s; }
inline const std::vector<int32_t>& payload(const Inst& s) { return s.get("serialize read a moved-from/destroyed summary"); }
inline void emplace(std::vector<int32_t>* raw, std::vector<int32_t>&& v) { new (raw) std::vector<int32_t>(std::move(v)); }
inline void emplace(std::vector<double>* raw, std::vector<double>&& v) { new (raw) std::vector<double>(std::move(v)); }
inline void emplace(Inst* raw, std::vector<int32_t>&& v) { new (raw) Inst(); raw->v = std::move(v); }

template <typename S, typename E>
struct ListSerde {
  void serialize(std::ostream& os, const S* items, unsigned num) const {
    for (unsigned i = 0; i < num; ++i) {
      const std::vector<E>& p = payload(items[i]);
      uint32_t n = static_cast<uint32_t>(p.size());
      os.write(reinterpret_cast<const char*>(&n), 4);
      if (n) os.write(reinterpret_cast<const char*>(p.data()), static_cast<std::streamsize>(n * sizeof(E)));
    }
  }
  void deserialize(std::istream& is, S* items, unsigned num) const {
    for (unsigned i = 0; i < num; ++i) {
      uint32_t n = 0;
      is.read(reinterpret_cast<char*>(&n), 4);
      if (!is.good()) throw std::runtime_error("ListSerde: stream read");
      std::vector<E> p(n);
      if (n) is.read(reinterpret_cast<char*>(p.data()), static_cast<std::streamsize>(n * sizeof(E)));
      if (!is.good()) throw std::runtime_error("ListSerde: stream read");
      emplace(&items[i], std::move(p));
    }
  }
  size_t serialize(void* ptr, size_t capacity, const S* items, unsigned num) const {
    char* out = static_cast<char*>(ptr);
    size_t used = 0;
    for (unsigned i = 0; i < num; ++i) {
      const std::vector<E>& p = payload(items[i]);
      uint32_t n = static_cast<uint32_t>(p.size());
      size_t need = 4 + n * sizeof(E);
      if (used + need > capacity) throw std::out_of_range("ListSerde: capacity");
      std::memcpy(out + used, &n, 4);
      if (n) std::memcpy(out + used + 4, p.data(), n * sizeof(E));
      used += need;
    }
    return used;
  }
  size_t deserialize(const void* ptr, size_t capacity, S* items, unsigned num) const {
    const char* in = static_cast<const char*>(ptr);
    size_t used = 0;
    for (unsigned i = 0; i < num; ++i) {
      if (used + 4 > capacity) throw std::out_of_range("ListSerde: capacity");
      uint32_t n = 0;
      std::memcpy(&n, in + used, 4);
      if (used + 4 + n * sizeof(E) > capacity) throw std::out_of_range("ListSerde: capacity");
      std::vector<E> p(n);
      if (n) std::memcpy(p.data(), in + used + 4, n * sizeof(E));
      used += 4 + n * sizeof(E);
      emplace(&items[i], std::move(p));
    }
    return used;
  }
  size_t size_of_item(const S& item) const { return 4 + payload(item).size() * sizeof(E); }
};

// ---------------------------------------------------------------- shared helpers for the traits
template <typename B>
B configured(B b, uint8_t lg_k, int rf, float p, uint64_t seed) {
  b.set_lg_k(lg_k).set_resize_factor(static_cast<ds::theta_constants::resize_factor>(rf & 3)).set_p(p).set_seed(seed);
  return b;
}
template <typename Compact, typename SerDe>
struct GenericIO {
  static std::vector<uint8_t> to_bytes(const Compact& c) { auto b = c.serialize(0, SerDe()); return std::vector<uint8_t>(b.begin(), b.end()); }
  static Compact from_bytes(const void* p, size_t n, uint64_t seed) { return Compact::deserialize(p, n, seed, SerDe()); }
  static void to_stream(const Compact& c, std::ostream& os) { c.serialize(os, SerDe()); }
  static Compact from_stream(std::istream& is, uint64_t seed) { return Compact::deserialize(is, seed, SerDe()); }
};
template <typename T> struct has_num_values {
  template <typename U> static auto test(int) -> decltype(std::declval<const U&>().get_num_values(), std::true_type());
  template <typename U> static std::false_type test(...);
  static constexpr bool value = decltype(test<typename std::decay<T>::type>(0))::value;
};

// ---------------------------------------------------------------- TrSum
struct TrSum {
  static const char* name() { return "sum"; }
  static constexpr bool commutative = true;
  using Summary = double;
  using Upd = ds::update_tuple_sketch<double>;
  using Compact = ds::compact_tuple_sketch<double>;
  using Base = Compact;
  using Union = ds::tuple_union<double>;
  struct Pol { void operator()(double& a, const double& b) const { a += b; } };
  using Inter = ds::tuple_intersection<double, Pol>;
  using IO = GenericIO<Compact, ds::serde<double>>;
  static Upd make_upd(uint8_t lg_k, int rf, float p, uint64_t seed, int) { return configured(Upd::builder(), lg_k, rf, p, seed).build(); }
  static Union make_union(uint8_t lg_k, int rf, float p, uint64_t seed, int) { return configured(Union::builder(), lg_k, rf, p, seed).build(); }
  static Inter make_inter(uint64_t seed, int) { return Inter(seed); }
  template <typename A, typename B> static Base anotb(uint64_t seed, int, A&& a, const B& b, bool ord) {
    return ds::tuple_a_not_b<double>(seed).compute(std::forward<A>(a), b, ord);
  }
  template <typename Sk> static Compact compact_copy(const Sk& s, bool ord) { return Compact(s, ord); }
  static MS create(int) { return MS{0.0}; }
  static void m_update(MS& s, uint64_t vraw, int) { s[0] += dval(vraw); }
  static void m_merge(MS& s, const MS& o) { s[0] += o[0]; }
  static MS observe(const Summary& s) { return MS{s}; }
  static Summary const_summary(uint64_t vraw, int) { return dval(vraw); }
  template <typename F> static void with_value(uint64_t vraw, int, int mode, F&& f) {
    double d = dval(vraw);
    if (mode % 2 == 0) f(d); else f(dval(vraw));
  }
};

// ---------------------------------------------------------------- TrRec
struct TrRec {
  static const char* name() { return "rec"; }
  static constexpr bool commutative = false;
  using Summary = std::vector<int32_t>;
  struct UpdPol {
    Summary create() const { return Summary(); }
    void update(Summary& s, int32_t v) const { s.push_back(v); }
  };
  struct Pol { void operator()(Summary& a, const Summary& b) const { a.insert(a.end(), b.begin(), b.end()); } };
  using Upd = ds::update_tuple_sketch<Summary, int32_t, UpdPol>;
  using Compact = ds::compact_tuple_sketch<Summary>;
  using Base = Compact;
  using Union = ds::tuple_union<Summary, Pol>;
  using Inter = ds::tuple_intersection<Summary, Pol>;
  using IO = GenericIO<Compact, ListSerde<Summary, int32_t>>;
  static Upd make_upd(uint8_t lg_k, int rf, float p, uint64_t seed, int) { return configured(Upd::builder(), lg_k, rf, p, seed).build(); }
  static Union make_union(uint8_t lg_k, int rf, float p, uint64_t seed, int) { return configured(Union::builder(), lg_k, rf, p, seed).build(); }
  static Inter make_inter(uint64_t seed, int) { return Inter(seed); }
  template <typename A, typename B> static Base anotb(uint64_t seed, int, A&& a, const B& b, bool ord) {
    return ds::tuple_a_not_b<Summary>(seed).compute(std::forward<A>(a), b, ord);
  }
  template <typename Sk> static Compact compact_copy(const Sk& s, bool ord) { return Compact(s, ord); }
  static MS create(int) { return MS(); }
  static void m_update(MS& s, uint64_t vraw, int) { s.push_back(static_cast<double>(ival(vraw))); }
  static void m_merge(MS& s, const MS& o) { s.insert(s.end(), o.begin(), o.end()); }
  static MS observe(const Summary& s) { return MS(s.begin(), s.end()); }
  static Summary const_summary(uint64_t vraw, int) { return Summary{ival(vraw), ival(vraw + 1)}; }
  template <typename F> static void with_value(uint64_t vraw, int, int mode, F&& f) {
    int32_t x = ival(vraw);
    if (mode % 2 == 0) f(x); else f(ival(vraw));
  }
};

// ---------------------------------------------------------------- TrInst
struct TrInst {
  static const char* name() { return "inst"; }
  static constexpr bool commutative = false;
  using Summary = Inst;
  using Upd = ds::update_tuple_sketch<Inst, IVal, InstUpdPol>;
  using Compact = ds::compact_tuple_sketch<Inst>;
  using Base = Compact;
  using Union = ds::tuple_union<Inst, InstMergePol>;
  using Inter = ds::tuple_intersection<Inst, InstMergePol>;
  using IO = GenericIO<Compact, ListSerde<Inst, int32_t>>;
  static Upd make_upd(uint8_t lg_k, int rf, float p, uint64_t seed, int) { return configured(Upd::builder(), lg_k, rf, p, seed).build(); }
  static Union make_union(uint8_t lg_k, int rf, float p, uint64_t seed, int) { return configured(Union::builder(), lg_k, rf, p, seed).build(); }
  static Inter make_inter(uint64_t seed, int) { return Inter(seed); }
  template <typename A, typename B> static Base anotb(uint64_t seed, int, A&& a, const B& b, bool ord) {
    return ds::tuple_a_not_b<Inst>(seed).compute(std::forward<A>(a), b, ord);
  }
  template <typename Sk> static Compact compact_copy(const Sk& s, bool ord) { return Compact(s, ord); }
  static MS create(int) { return MS(); }
  static void m_update(MS& s, uint64_t vraw, int) { s.push_back(static_cast<double>(ival(vraw))); }
  static void m_merge(MS& s, const MS& o) { s.insert(s.end(), o.begin(), o.end()); }
  static MS observe(const Summary& s) { const auto& v = s.get("retained summary is moved-from/destroyed"); return MS(v.begin(), v.end()); }
  static Summary const_summary(uint64_t vraw, int) { Inst s; s.v = {ival(vraw), ival(vraw + 1)}; return s; }
  template <typename F> static void with_value(uint64_t vraw, int, int mode, F&& f) {
    IVal v{ival(vraw)};
    switch (mode % 3) {
      case 0: f(v); if (v.moved) inst_bad("lvalue update value was moved from"); break;
      case 1: f(std::move(v)); break;
      default: f(static_cast<const IVal&>(v));
    }
  }
};

// ---------------------------------------------------------------- TrAod
struct TrAod {
  static const char* name() { return "aod"; }
  static constexpr bool commutative = true;
  using Summary = ds::array<double>;
  using Upd = ds::update_array_of_doubles_sketch;
  using Compact = ds::compact_array_of_doubles_sketch;
  using Base = Compact::Base;  // compact_tuple_sketch<array<double>, std::allocator<double>>
  using Union = ds::array_of_doubles_union;
  struct Pol {
    uint8_t n;
    explicit Pol(uint8_t n = 1) : n(n) {}
    void operator()(Summary& a, const Summary& b) const { for (uint8_t i = 0; i < n; ++i) a[i] += b[i]; }
    uint8_t get_num_values() const { return n; }
  };
  using Inter = ds::array_of_doubles_intersection<Pol>;
  struct IO {
    static std::vector<uint8_t> to_bytes(const Compact& c) { auto b = c.serialize(); return std::vector<uint8_t>(b.begin(), b.end()); }
    static Compact from_bytes(const void* p, size_t n, uint64_t seed) { return Compact::deserialize(p, n, seed); }
    static void to_stream(const Compact& c, std::ostream& os) { c.serialize(os); }
    static Compact from_stream(std::istream& is, uint64_t seed) { return Compact::deserialize(is, seed); }
  };
  static Upd make_upd(uint8_t lg_k, int rf, float p, uint64_t seed, int nv) {
    return configured(Upd::builder(ds::default_array_of_doubles_update_policy(static_cast<uint8_t>(nv))), lg_k, rf, p, seed).build();
  }
  static Union make_union(uint8_t lg_k, int rf, float p, uint64_t seed, int nv) {
    return configured(Union::builder(ds::default_array_of_doubles_union_policy(static_cast<uint8_t>(nv))), lg_k, rf, p, seed).build();
  }
  static Inter make_inter(uint64_t seed, int nv) { return Inter(seed, Pol(static_cast<uint8_t>(nv))); }
  template <typename A, typename B> static Base anotb(uint64_t seed, int nv, A&& a, const B& b, bool ord) {
    if constexpr (has_num_values<A>::value) {
      Compact r = ds::array_of_doubles_a_not_b(seed).compute(std::forward<A>(a), b, ord);
      VF_CHECK(r.get_num_values() == nv, "aod-num-values", "array a_not_b result reports " << int(r.get_num_values()) << " values, expected " << nv);
      return Base(std::move(r));
    } else {
      return ds::tuple_a_not_b<Summary, std::allocator<double>>(seed).compute(std::forward<A>(a), b, ord);
    }
  }
  template <typename Sk> static Compact compact_copy(const Sk& s, bool ord) { return Compact(s, ord); }
  static MS create(int nv) { return MS(static_cast<size_t>(nv), 0.0); }
  static void m_update(MS& s, uint64_t vraw, int nv) { auto v = vvals(vraw, nv); for (int i = 0; i < nv; ++i) s[i] += v[i]; }
  static void m_merge(MS& s, const MS& o) { for (size_t i = 0; i < s.size() && i < o.size(); ++i) s[i] += o[i]; }
  static MS observe(const Summary& s) { MS m(s.size()); for (uint8_t i = 0; i < s.size(); ++i) m[i] = s[i]; return m; }
  static Summary const_summary(uint64_t vraw, int nv) {
    Summary s(static_cast<uint8_t>(nv), 0.0);
    auto v = vvals(vraw, nv);
    for (int i = 0; i < nv; ++i) s[i] = v[i];
    return s;
  }
  template <typename F> static void with_value(uint64_t vraw, int nv, int mode, F&& f) {
    std::vector<double> v = vvals(vraw, nv);
    if (mode % 2 == 0) f(v); else { const double* p = v.data(); f(p); }
  }
};

// ---------------------------------------------------------------- TrVec (generic twin of TrAod)
struct TrVec {
  static const char* name() { return "vec"; }
  static constexpr bool commutative = true;
  using Summary = std::vector<double>;
  struct UpdPol {
    uint8_t n;
    explicit UpdPol(uint8_t n = 1) : n(n) {}
    Summary create() const { return Summary(n, 0.0); }
    void update(Summary& s, const std::vector<double>& v) const { for (uint8_t i = 0; i < n; ++i) s[i] += v[i]; }
  };
  struct Pol {
    uint8_t n;
    explicit Pol(uint8_t n = 1) : n(n) {}
    void operator()(Summary& a, const Summary& b) const { for (uint8_t i = 0; i < n; ++i) a[i] += b[i]; }
  };
  using Upd = ds::update_tuple_sketch<Summary, std::vector<double>, UpdPol>;
  using Compact = ds::compact_tuple_sketch<Summary>;
  using Base = Compact;
  using Union = ds::tuple_union<Summary, Pol>;
  using Inter = ds::tuple_intersection<Summary, Pol>;
  using IO = GenericIO<Compact, ListSerde<Summary, double>>;
  static Upd make_upd(uint8_t lg_k, int rf, float p, uint64_t seed, int nv) { return configured(Upd::builder(UpdPol(static_cast<uint8_t>(nv))), lg_k, rf, p, seed).build(); }
  static Union make_union(uint8_t lg_k, int rf, float p, uint64_t seed, int nv) { return configured(Union::builder(Pol(static_cast<uint8_t>(nv))), lg_k, rf, p, seed).build(); }
  static Inter make_inter(uint64_t seed, int nv) { return Inter(seed, Pol(static_cast<uint8_t>(nv))); }
  template <typename A, typename B> static Base anotb(uint64_t seed, int, A&& a, const B& b, bool ord) {
    return ds::tuple_a_not_b<Summary>(seed).compute(std::forward<A>(a), b, ord);
  }
  template <typename Sk> static Compact compact_copy(const Sk& s, bool ord) { return Compact(s, ord); }
  static MS create(int nv) { return MS(static_cast<size_t>(nv), 0.0); }
  static void m_update(MS& s, uint64_t vraw, int nv) { TrAod::m_update(s, vraw, nv); }
  static void m_merge(MS& s, const MS& o) { TrAod::m_merge(s, o); }
  static MS observe(const Summary& s) { return s; }
  static Summary const_summary(uint64_t vraw, int nv) { return vvals(vraw, nv); }
  template <typename F> static void with_value(uint64_t vraw, int nv, int, F&& f) { std::vector<double> v = vvals(vraw, nv); f(v); }
};

}  // namespace c13
#endif
