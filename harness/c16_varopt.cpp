// C16 — VarOpt samples conserve total weight and keep heavy items exactly.
//
// Model run next to the real objects: every item gets a fresh integer id, its weight is remembered in a table
// (id -> weight), and every sketch object carries a Model with the exact n, the exact total weight (long double;
// integer-valued weights times a power of two, so double sums are exact too), the id ranges it may contain, and the
// ids that are promised to be present with their exact weight whenever they are heavier than the current threshold.
// After every step the sketch is observed through its public API only (get_n / get_k / get_num_samples / iterator /
// estimate_subset_sum / to_string for the H and R counts) and compared with the model:
//   * n, k, emptiness, number of samples = min(n, k); iterator yields exactly that many items
//   * every sample is an input item (nothing extra), no item twice; in exact mode therefore the sample IS the input
//   * first h samples (H region) carry their exact original weight; the remaining r samples all carry tau and are
//     not heavier than tau; every promised item heavier than tau(1+1e-9) is in the H region (nothing missing)
//   * sum of adjusted weights = total input weight (rel 1e-9); tau never decreases
//   * for a sketch fed only by update(): tau = the unique threshold tau_k of the weight multiset (independent
//     computation from the sorted weights; VarOpt_k definition) and the H count matches
//   * estimate_subset_sum: lb <= est <= ub, est = sum of adjusted weights of matching samples, all-true = total
//     (bit-exact for integer weights), exact answers in warm-up
//   * unions: n = sum n_i, total weight = sum of totals, samples <= max_k, H items of inputs heavier than the result's
//     tau are kept exactly, inputs are not modified, the result accepts further updates
//   * serialization points: bytes == stream image, round trip preserves every observation and re-serializes to the
//     same bytes, the deserialized object keeps working
//   * sub "unbiased": R seeded repetitions of one stream (optionally split over 2..3 sketches and united); mean of
//     subset-sum estimates within an empirical-Bernstein bound (delta = 1e-10) of the truth. Weak (statistical).
#include "vf/core.hpp"
#include <var_opt_sketch.hpp>
#include <var_opt_union.hpp>
#include "vf/coin.hpp"
#include <sstream>
#include <iomanip>
#include <limits>
#include <cfloat>
#if defined(VF_ASAN)
#include <sanitizer/lsan_interface.h>
#define VF_LSAN_OFF() __lsan_disable()
#define VF_LSAN_ON() __lsan_enable()
#else
#define VF_LSAN_OFF() ((void)0)
#define VF_LSAN_ON() ((void)0)
#endif

#if defined(VF_ASAN)
// Memory budget: with the default 30-frame allocation contexts ASan's stack depot grows without bound over a long run of
// generated cases (rapidcheck + templates give ever new allocation stacks; measured 1.2 GB after 12k cases, 92 MB with 8
// frames). Options given in ASAN_OPTIONS by the engine still take precedence; the crash stack itself is not shortened.
extern "C" const char* __asan_default_options() { return "malloc_context_size=8:quarantine_size_mb=64"; }
#endif

using namespace datasketches;
using vf::Case; using vf::Op;

namespace {

// ---------------------------------------------------------------- known-finding keys (no whitespace: the engine parses key=\S*)
const char* const K_DESER = "C16|varopt|update-after-deserialize-throws-logic_error|image-of-sampling-mode-sketch(r>0)";
const char* const K_DESER_U = "C16|varopt_union|update-or-get_result-after-union-deserialize-throws-logic_error|gadget-in-sampling-mode(r>0)";
const char* const K_LIGHT_H = "C16|varopt_union|update-after-get_result-throws-logic_error|pseudo-exact-gadget-with-unmarked-item-lighter-than-outer-tau";
const char* const K_XFER = "C16|varopt_union|get_result-throws-logic_error(transferred-weight-mismatch)|pseudo-exact-gadget,equal-tau-inputs,large-weights";
const char* const K_TIE = "C16|varopt|update-throws-logic_error(not-in-valid-estimation-mode)|H-item-equal-to-tau-up-to-rounding,non-dyadic-weights";
const char* const K_TIE_U = "C16|varopt_union|update-or-get_result-throws-logic_error(not-in-valid-estimation-mode)|gadget-H-item-equal-to-tau-up-to-rounding,non-dyadic-weights";
const char* const K_HEAP = "C16|varopt_union|updates-after-get_result-misplace-heavy-items|pseudo-exact-result-whose-H-region-is-not-a-heap";
const char* const K_MARKS = "C16|varopt_union|get_result-after-union-deserialize-reads-uninitialized-marks|gadget-in-sampling-mode-with-marked-H-item";
const char* const K_RESET = "C16|varopt|reset-after-deserialize-writes-past-allocation|warm-up-image-with-fewer-slots-than-initial-allocation,reset,updates";

const double REL = 1e-9;

// ---------------------------------------------------------------- item types
template <class T> struct Codec;
template <> struct Codec<uint64_t> {
  static uint64_t make(uint64_t id) { return id; }
  static uint64_t id_of(const uint64_t& x) { return x; }
};
template <> struct Codec<std::string> {   // short strings (SSO): a moved-from item reads back as "" -> id_of = ~0
  static std::string make(uint64_t id) { return "i" + std::to_string(id); }
  static uint64_t id_of(const std::string& s) {
    if (s.size() < 2 || s[0] != 'i') return ~0ull;
    uint64_t v = 0;
    for (size_t i = 1; i < s.size(); ++i) { if (s[i] < '0' || s[i] > '9') return ~0ull; v = v * 10 + static_cast<uint64_t>(s[i] - '0'); }
    return v;
  }
};

// ---------------------------------------------------------------- per-case globals
struct Global {
  std::vector<double> wt;   // id -> accepted weight (0 = refused / ignored update)
  double scale = 1.0;
  bool exact_scale = true;
  std::set<std::string> labels;
  bool nontrivial = false;
};
Global* G = nullptr;

struct Range { uint64_t lo, hi; };
typedef std::vector<Range> Ranges;
void add_range(Ranges& r, uint64_t lo, uint64_t hi) {
  if (lo >= hi) return;
  if (!r.empty() && r.back().hi == lo) r.back().hi = hi; else r.push_back({lo, hi});
}
bool overlaps(const Ranges& a, const Ranges& b) {
  for (const auto& x : a) for (const auto& y : b) if (x.lo < y.hi && y.lo < x.hi) return true;
  return false;
}
bool in_ranges(const Ranges& r, uint64_t id) {
  for (const auto& x : r) if (id >= x.lo && id < x.hi) return true;
  return false;
}

struct Model {
  uint32_t k = 1;             // stream: the constructor k; union result: upper bound (max_k)
  uint64_t n = 0;
  long double total = 0;
  Ranges member;              // ids that may be sampled
  Ranges exact_r;             // ids fed directly to this object
  std::vector<uint64_t> exact_ids;  // ids that were in the H region of a union input
  bool stream = true;         // fed only by update() since construction / reset
  bool exact = true;          // all weights are integers times a power of two: double sums are exact
  double prev_tau = 0;
  std::vector<uint64_t> prev_h; bool prev_sampling = false;
  const char* deser_key = nullptr;  // object descends from deserialize() of a sampling-mode image
  bool deser_warm = false;          // object descends from deserialize() of a warm-up image
  bool light_h = false;             // observed an H item lighter than tau (union results only)
  bool unheaped = false;            // descends from a union result whose H region (array order = iteration order) is not a min-heap
};

// ---------------------------------------------------------------- observation through the public API
template <class S>
bool field(const S& text, const char* name, double& out) {
  size_t pos = 0;
  const size_t nl = strlen(name);
  while (pos < text.size()) {
    size_t e = text.find('\n', pos);
    if (e == S::npos) e = text.size();
    size_t b = pos;
    while (b < e && text[b] == ' ') ++b;
    if (e - b > nl && text.compare(b, nl, name) == 0) {
      size_t c = b + nl;
      while (c < e && text[c] == ' ') ++c;
      if (c < e && text[c] == ':') { out = atof(std::string(text.begin() + c + 1, text.begin() + e).c_str()); return true; }
    }
    pos = e + 1;
  }
  return false;
}

struct Obs {
  uint64_t n = 0; uint32_t k = 0, ns = 0, h = 0, r = 0, cur = 0; int lg_rf = 3; bool hr_ok = false;
  std::vector<std::pair<uint64_t, double>> s;
  double tau = 0;
  bool same(const Obs& o) const {
    if (n != o.n || k != o.k || ns != o.ns || h != o.h || r != o.r || s.size() != o.s.size()) return false;
    for (size_t i = 0; i < s.size(); ++i) if (s[i].first != o.s[i].first || !(s[i].second == o.s[i].second)) return false;
    return true;
  }
};

template <class T>
Obs observe(const var_opt_sketch<T>& sk) {
  Obs o;
  o.n = sk.get_n(); o.k = sk.get_k(); o.ns = sk.get_num_samples();
  auto txt = sk.to_string();
  double a = 0, b = 0, c = 0, d = 0;
  o.hr_ok = field(txt, "h", a) && field(txt, "r", b) && field(txt, "Current size", c) && field(txt, "Resize factor", d);
  o.h = static_cast<uint32_t>(a); o.r = static_cast<uint32_t>(b); o.cur = static_cast<uint32_t>(c);
  o.lg_rf = d >= 8 ? 3 : d >= 4 ? 2 : d >= 2 ? 1 : 0;
  for (auto it = sk.begin(); it != sk.end(); ++it) {
    auto p = *it;
    o.s.emplace_back(Codec<T>::id_of(p.first), p.second);
    if (o.s.size() > static_cast<size_t>(o.ns) + 4) break;  // runaway iterator: reported by the count check
  }
  if (o.r > 0 && !o.s.empty()) o.tau = o.s.back().second;
  return o;
}

// the unique threshold tau_k of a weight multiset with more than k positive weights (VarOpt_k definition):
// sum_i min(1, w_i / tau) = k. Returns tau; heavy = number of weights > tau.
double tau_ref(std::vector<double>& w, uint32_t k, uint32_t& heavy) {
  std::sort(w.begin(), w.end(), std::greater<double>());
  // suffix sums accumulated from the light end, so that a giant item cannot absorb the rounding of the light ones
  std::vector<long double> suffix(k + 1, 0);
  long double acc = 0;
  for (size_t j = w.size(); j-- > 0;) { acc += w[j]; if (j <= k) suffix[j] = acc; }
  for (uint32_t h = 0; h < k; ++h) {
    long double t = suffix[h] / static_cast<long double>(k - h);
    if (static_cast<long double>(w[h]) <= t) { heavy = h; return static_cast<double>(t); }
  }
  heavy = k; return 0;  // unreachable for n > k
}

template <class T>
Obs check_sketch_impl(const var_opt_sketch<T>& sk, Model& m, const std::string& where) {
  const std::vector<double>& wt = G->wt;
  Obs o = observe(sk);
  VF_CHECK(o.n == m.n, "n", std::setprecision(17) << where << ": get_n " << o.n << " model " << m.n);
  VF_CHECK(sk.is_empty() == (m.n == 0), "is-empty", std::setprecision(17) << where << ": is_empty " << sk.is_empty() << " n " << m.n);
  if (m.stream) VF_CHECK(o.k == m.k, "k", std::setprecision(17) << where << ": get_k " << o.k << " configured " << m.k);
  else VF_CHECK(o.k >= 1 && o.k <= m.k, "union-k-bound", std::setprecision(17) << where << ": result k " << o.k << " exceeds max_k " << m.k);
  VF_CHECK(o.s.size() == o.ns, "iter-count", std::setprecision(17) << where << ": iterator yields " << o.s.size() << (o.s.size() > o.ns ? "+" : "") << " items, get_num_samples " << o.ns);
  VF_CHECK(o.ns == std::min<uint64_t>(m.n, o.k), "num-samples", std::setprecision(17) << where << ": " << o.ns << " samples, n " << m.n << " k " << o.k);
  VF_CHECK(o.hr_ok, "to-string-parse", std::setprecision(17) << where << ": cannot parse to_string(): " << sk.to_string());
  VF_CHECK(o.h + o.r == o.ns, "regions-vs-samples", std::setprecision(17) << where << ": h " << o.h << " + r " << o.r << " != samples " << o.ns);
  VF_CHECK((o.r > 0) == (m.n > o.ns), "sampling-mode", std::setprecision(17) << where << ": r " << o.r << " with n " << m.n << " and " << o.ns << " samples");
  const double tau = o.tau;
  if (o.r > 0) VF_CHECK(tau > 0 && std::isfinite(tau), "tau-positive", std::setprecision(17) << where << ": tau " << tau);
  long double sum = 0;
  std::vector<uint64_t> ids, hid;
  for (size_t i = 0; i < o.s.size(); ++i) {
    const uint64_t id = o.s[i].first; const double a = o.s[i].second;
    if (!(id < wt.size() && wt[id] > 0 && in_ranges(m.member, id)))
      VF_CHECK(false, "sample-not-in-input", std::setprecision(17) << where << ": sample " << i << " has id " << static_cast<int64_t>(id) << " which is not an accepted input of this sketch");
    if (i < o.h) {
      if (!(a == wt[id])) VF_CHECK(false, "heavy-weight-not-exact", std::setprecision(17) << where << ": H sample id " << id << " reports weight " << a << ", input weight " << wt[id]);
      if (o.r > 0 && wt[id] < tau * (1 - REL)) m.light_h = true;
      hid.push_back(id);
    } else {
      if (!(a == tau)) VF_CHECK(false, "reservoir-weight-not-tau", std::setprecision(17) << where << ": R sample id " << id << " reports " << a << " but the last R sample reports " << tau);
      if (!(wt[id] <= tau * (1 + REL))) VF_CHECK(false, "reservoir-item-heavier-than-tau", std::setprecision(17) << where << ": id " << id << " of weight " << wt[id] << " sits in R with tau " << tau);
    }
    sum += a;
    ids.push_back(id);
  }
  vf::count("checks", 2 * o.s.size());
  std::sort(ids.begin(), ids.end());
  for (size_t i = 1; i < ids.size(); ++i) if (ids[i] == ids[i - 1]) VF_CHECK(false, "duplicate-sample", std::setprecision(17) << where << ": id " << ids[i] << " sampled twice");
  std::sort(hid.begin(), hid.end());
  const long double tol = REL * std::max<long double>(m.total, 0) + 1e-300L;
  VF_CHECK(std::fabs(static_cast<double>(sum - m.total)) <= tol, "weight-conservation",
           std::setprecision(17) << where << ": adjusted weights sum to " << static_cast<double>(sum) << ", input total " << static_cast<double>(m.total) << " (n " << m.n << ", h " << o.h << ", r " << o.r << ", tau " << tau << ")");
  if (o.r > 0) {
    // nothing missing: promised items heavier than tau are in H
    const double thr = tau * (1 + REL);
    for (const auto& rg : m.exact_r)
      for (uint64_t id = rg.lo; id < rg.hi; ++id)
        if (wt[id] > thr && !std::binary_search(hid.begin(), hid.end(), id))
          VF_CHECK(false, "heavy-item-missing", std::setprecision(17) << where << ": input id " << id << " of weight " << wt[id] << " > tau " << tau << " is not retained with its exact weight");
    for (uint64_t id : m.exact_ids)
      if (wt[id] > thr && !std::binary_search(hid.begin(), hid.end(), id))
        VF_CHECK(false, "heavy-item-missing", std::setprecision(17) << where << ": id " << id << " of weight " << wt[id] << " was exact in a union input and exceeds tau " << tau << " but is not retained exactly");
    vf::count("checks");
    VF_CHECK(tau >= m.prev_tau * (1 - REL), "tau-monotone", std::setprecision(17) << where << ": tau decreased " << m.prev_tau << " -> " << tau);
    if (m.stream) {
      std::vector<double> ws;
      for (const auto& rg : m.exact_r) for (uint64_t id = rg.lo; id < rg.hi; ++id) if (wt[id] > 0) ws.push_back(wt[id]);
      VF_CHECK(ws.size() == m.n, "model-self-check", "model holds " << ws.size() << " weights for n " << m.n);
      uint32_t heavy = 0;
      const double tr = tau_ref(ws, o.k, heavy);
      VF_CHECK(std::fabs(tau - tr) <= REL * tr, "tau-ref", std::setprecision(17) << where << ": tau " << tau << " but the VarOpt_k threshold of the input weights is " << tr << " (k " << o.k << ", n " << m.n << ")");
      uint32_t lo = 0, hi = 0;
      for (double x : ws) { if (x > tr * (1 + REL)) ++lo; if (x >= tr * (1 - REL)) ++hi; }
      VF_CHECK(o.h >= lo && o.h <= hi, "h-count", std::setprecision(17) << where << ": " << o.h << " items kept exactly, input has between " << lo << " and " << hi << " items above tau " << tr);
    }
    // keep the list of promised ids short: tau never decreases, so lighter ones stay unconstrained
    std::vector<uint64_t> keep;
    for (uint64_t id : m.exact_ids) if (wt[id] >= tau * (1 - 2 * REL)) keep.push_back(id);
    m.exact_ids.swap(keep);
    if (m.prev_sampling) {
      for (uint64_t id : m.prev_h) if (!std::binary_search(hid.begin(), hid.end(), id)) { G->nontrivial = true; break; }
    }
    m.prev_tau = tau;
  }
  m.prev_h = hid; m.prev_sampling = o.r > 0;

  // ---- subset sums
  const uint64_t mid = wt.size() / 2;
  const double total = static_cast<double>(m.total);
  for (int p = 0; p < 7; ++p) {
    auto pred_id = [&](uint64_t id) -> bool {
      switch (p) {
        case 0: return true;
        case 1: return false;
        case 2: return (id & 1) == 0;
        case 3: return id % 3 == 0;
        case 4: return id < mid;
        case 5: return id < wt.size() && wt[id] > tau;
        default: return id < wt.size() && wt[id] <= tau;
      }
    };
    subset_summary ss = sk.estimate_subset_sum([&](const T& x) { return pred_id(Codec<T>::id_of(x)); });
    VF_CHECK(ss.lower_bound <= ss.estimate && ss.estimate <= ss.upper_bound, "subset-bounds-order",
             std::setprecision(17) << where << ": predicate " << p << " lb " << ss.lower_bound << " est " << ss.estimate << " ub " << ss.upper_bound << " (n " << m.n << " h " << o.h << " r " << o.r << ")");
    long double expect = 0;
    for (const auto& s : o.s) if (pred_id(s.first)) expect += s.second;
    VF_CHECK(std::fabs(ss.estimate - static_cast<double>(expect)) <= REL * total, "subset-estimate",
             std::setprecision(17) << where << ": predicate " << p << " estimate " << ss.estimate << " but matching samples carry " << static_cast<double>(expect));
    if (o.r > 0) {
      // (in exact mode the pinned code returns the subset weight in total_sketch_weight; the statement is silent on the field)
      VF_CHECK(std::fabs(ss.total_sketch_weight - total) <= REL * total, "subset-total-weight", std::setprecision(17) << where << ": total_sketch_weight " << ss.total_sketch_weight << " input total " << total);
    } else {
      VF_CHECK(ss.lower_bound == ss.estimate && ss.upper_bound == ss.estimate, "subset-exact-in-warmup", std::setprecision(17) << where << ": exact mode but lb " << ss.lower_bound << " est " << ss.estimate << " ub " << ss.upper_bound);
    }
    if (p == 0) {
      if (m.stream && m.exact) VF_CHECK(ss.estimate == total, "subset-all-exact", std::setprecision(17) << where << ": all-true estimate " << ss.estimate << " != exact integer total " << total);
      else VF_CHECK(std::fabs(ss.estimate - total) <= REL * total, "subset-all", std::setprecision(17) << where << ": all-true estimate " << ss.estimate << " total " << total);
    }
    if (p == 1) VF_CHECK(ss.estimate == 0.0, "subset-none", std::setprecision(17) << where << ": all-false estimate " << ss.estimate);
  }
  return o;
}

template <class T>
Obs check_sketch(const var_opt_sketch<T>& sk, Model& m, const std::string& where) {
  if (!m.unheaped) return check_sketch_impl(sk, m, where);
  try { return check_sketch_impl(sk, m, where); }
  catch (const vf::Failure& f) {
    if (!f.key.empty()) throw;
    vf::fail(f.check, f.msg + " [the sketch descends from a pseudo-exact union result whose H region was not a heap]", K_HEAP);
  }
}

// ---------------------------------------------------------------- feeding
double special_weight(uint64_t sel, double tau) {
  const double t = tau > 0 ? tau : 1.0;
  switch (sel % 16) {
    case 0: return 1.0;
    case 1: return 0.0;
    case 2: return -0.0;
    case 3: return -1.0;
    case 4: return std::numeric_limits<double>::quiet_NaN();
    case 5: return std::numeric_limits<double>::infinity();
    case 6: return -std::numeric_limits<double>::infinity();
    case 7: return 1e-300;
    case 8: return 1099511627776.0;  // 2^40
    case 9: return t;
    case 10: return std::nextafter(t, std::numeric_limits<double>::infinity());
    case 11: return std::nextafter(t, 0.0);
    case 12: return t / 2;
    case 13: return t * 2;
    case 14: return 3.0;
    default: return 1000.0;
  }
}

template <class T>
void feed(var_opt_sketch<T>& sk, Model& m, double w, bool plain_weight) {
  const uint64_t id = G->wt.size();
  const bool invalid = (w < 0.0) || std::isnan(w) || std::isinf(w);
  const bool counted = !invalid && w > 0.0;
  G->wt.push_back(counted ? w : 0.0);
  try {
    if (w == 1.0 && (id % 5) == 0) sk.update(Codec<T>::make(id));             // default weight, rvalue
    else if (id & 1) sk.update(Codec<T>::make(id), w);                       // rvalue
    else { const T item = Codec<T>::make(id); sk.update(item, w); }          // lvalue
    VF_CHECK(!invalid, "invalid-weight-accepted", "update accepted weight " << w);
  } catch (const std::invalid_argument& e) {
    VF_CHECK(invalid, "valid-weight-refused", "update refused weight " << w << ": " << e.what());
    G->labels.insert("invalid-weight-refused");
    return;
  } catch (const std::logic_error& e) {
    if (m.deser_key) VF_CHECK_K(false, "update-logic-error", m.deser_key, "update(weight " << w << ") on a sketch that went through deserialize() throws logic_error: " << e.what());
    if (m.unheaped) VF_CHECK_K(false, "update-logic-error", K_HEAP, "update(weight " << w << ") on a sketch that descends from a pseudo-exact union result with unordered H throws logic_error: " << e.what());
    if (m.light_h) VF_CHECK_K(false, "update-logic-error", K_LIGHT_H, "update(weight " << w << ") on a union result throws logic_error: " << e.what());
    if (std::string(e.what()).find("valid estimation mode") != std::string::npos && !m.exact) {
      // shape of the rounding defect: the lightest H item equals tau up to rounding (the library's own lightness test let it
      // stay in H). The throw happens before the sketch is modified, so the state can still be observed.
      const Obs o = observe(sk);
      double mn = std::numeric_limits<double>::infinity();
      for (uint32_t i = 0; i < o.h && i < o.s.size(); ++i) mn = std::min(mn, o.s[i].second);
      if (o.r > 0 && std::fabs(mn - o.tau) <= REL * o.tau)
        VF_CHECK_K(false, "update-logic-error", K_TIE, std::setprecision(17) << "update(weight " << w << ") throws logic_error: " << e.what() << "; lightest H item " << mn << ", tau " << o.tau << " (k " << o.k << ", n " << m.n << ")");
    }
    VF_CHECK(false, "update-logic-error", "update(weight " << w << ") throws logic_error: " << e.what() << " (n " << m.n << ")");
  }
  if (!counted) { G->labels.insert("zero-weight-ignored"); return; }
  m.n++; m.total += w;
  add_range(m.member, id, id + 1);
  add_range(m.exact_r, id, id + 1);
  if (!plain_weight) m.exact = false;
}

double pattern_weight(int pat, uint64_t i, uint64_t n, uint64_t giant_pos, double cst, vf::Rng& r) {
  switch (pat) {
    case 0: return 1;
    case 1: return static_cast<double>(1 + r.below(100));
    case 2: return std::ldexp(1.0, static_cast<int>(i % 41));
    case 3: { double u = r.unit(); double x = std::floor(1.0 / std::pow(u + 1e-12, 1.5)); return std::min(std::max(x, 1.0), 1099511627776.0); }
    case 4: return static_cast<double>(i + 1);
    case 5: return static_cast<double>(n - i);
    case 6: return i == giant_pos ? 68719476736.0 + 7 : 1;
    case 7: return r.below(3) == 0 ? 0 : static_cast<double>(1 + r.below(10));
    case 8: return (i % 7) == 6 ? 1000 : 1;
    case 9: return std::ldexp(1.0, static_cast<int>(r.below(41)));
    default: return cst;
  }
}
const char* pattern_name(int pat) {
  static const char* n[] = {"uniform", "random", "pow2", "heavy-tail", "increasing", "decreasing", "giant", "zeros", "two-level", "pow2-random", "constant"};
  return n[pat];
}
const int NPAT = 11;

// ---------------------------------------------------------------- the stateful property
template <class T> struct Slot {
  var_opt_sketch<T> sk;
  Model m;
  Slot(uint32_t k, int rf) : sk(k, static_cast<resize_factor>(rf)) { m.k = k; }
};

uint32_t initial_alloc(uint32_t k, uint32_t lg_rf) {
  uint32_t ceil_lg = 0; while ((1ull << ceil_lg) < k) ++ceil_lg;
  const uint32_t lg_min = 3;
  const uint32_t init_lg = ceil_lg <= lg_min ? lg_min : (lg_rf == 0 ? ceil_lg : (ceil_lg - lg_min) % lg_rf + lg_min);
  const uint32_t tgt = 1u << init_lg;
  uint32_t a = (k < (tgt << 1)) ? k : tgt;
  if (a == k) ++a;
  return a;
}

// true when the gadget inside the union (read from the documented serialized layout) has its heap root within rounding
// distance below tau: the shape of the rounding defect K_TIE inside a union
template <class T>
bool union_tie_shape(const var_opt_union<T>& u) {
  try {
    auto b = u.serialize(0);
    if (b.size() < 64 + 8) return false;
    const uint8_t* g = b.data() + 32;              // union preamble: 4 longs, then the gadget image
    if ((g[0] & 0x3f) != 4) return false;          // gadget not in sampling mode
    uint32_t h, r; double wr, w0;
    std::memcpy(&h, g + 16, 4); std::memcpy(&r, g + 20, 4); std::memcpy(&wr, g + 24, 8);
    if (h == 0 || r == 0) return false;
    std::memcpy(&w0, g + 32, 8);
    const double tau = wr / r;
    return w0 < tau && w0 >= tau * (1 - REL);
  } catch (const std::exception&) { return false; }
}

[[noreturn]] void classify_union_throw(const std::logic_error& e, bool u_deser_sampling, const char* what, bool tie_shape) {
  const std::string w = e.what();
  if (w.find("transferred weight") != std::string::npos)
    VF_CHECK_K(false, "union-throws", K_XFER, what << " throws logic_error: " << w);
  if (u_deser_sampling) VF_CHECK_K(false, "union-throws", K_DESER_U, what << " on a deserialized union throws logic_error: " << w);
  if (w.find("valid estimation mode") != std::string::npos && tie_shape)
    VF_CHECK_K(false, "union-throws", K_TIE_U, what << " throws logic_error: " << w << " (gadget heap root equals tau up to rounding)");
  VF_CHECK(false, "union-throws", what << " throws logic_error: " << w);
  throw;  // not reached
}

template <class T>
var_opt_sketch<T> safe_get_result(const var_opt_union<T>& u, bool u_deser_sampling) {
  if (u_deser_sampling) {
    // known on the pinned tree: get_result() of a union deserialized with a sampling-mode gadget either throws (m_ = 1) or,
    // before that, swaps indeterminate mark bytes (UBSan abort). Listed keys stop the case here; otherwise it runs.
    if (vf::known_keys().count(K_DESER_U)) throw vf::KnownSkip(K_DESER_U);
    if (vf::known_keys().count(K_MARKS)) throw vf::KnownSkip(K_MARKS);
  }
#if defined(VF_ASAN)
  {
    // the pinned mark_moving_gadget_coercer leaks two arrays when it throws; probe first with leak tracking off so that a
    // keyed (known) throw does not surface later as an unattributable LeakSanitizer report. The real call below runs with
    // leak tracking on.
    bool threw = false; std::logic_error err("");
    VF_LSAN_OFF();
    try { var_opt_sketch<T> probe = u.get_result(); } catch (const std::logic_error& e) { threw = true; err = e; }
    VF_LSAN_ON();
    if (threw) classify_union_throw(err, u_deser_sampling, "get_result()", true);
  }
#endif
  try { return u.get_result(); } catch (const std::logic_error& e) { classify_union_throw(e, u_deser_sampling, "get_result()", true); }
}

template <class T> struct Ctx {
  std::vector<Slot<T>> slots;
  uint32_t ks[4]; int rfs[4];
};

template <class T>
void probe_update(const var_opt_sketch<T>& sk, const Model& m, const std::string& where) {
  var_opt_sketch<T> cp(sk);
  Model mm = m;
  feed(cp, mm, G->scale, G->exact_scale);
  check_sketch(cp, mm, where + "+probe-update");
  feed(cp, mm, 1000 * G->scale, G->exact_scale);
  check_sketch(cp, mm, where + "+probe-update2");
}

template <class T>
void op_ser(Slot<T>& s, uint64_t mode) {
  static const unsigned hdrs[4] = {0, 0, 1, 8};
  const unsigned hdr = hdrs[(mode >> 2) & 3];
  auto bytes = s.sk.serialize(hdr);
  VF_CHECK(bytes.size() == hdr + s.sk.get_serialized_size_bytes(), "ser-size", "serialize(" << hdr << ") gives " << bytes.size() << " bytes, get_serialized_size_bytes " << s.sk.get_serialized_size_bytes());
  std::ostringstream os; s.sk.serialize(os); const std::string st = os.str();
  VF_CHECK(st.size() == bytes.size() - hdr && std::memcmp(st.data(), bytes.data() + hdr, st.size()) == 0, "ser-bytes-vs-stream", "stream image differs from byte image");
  std::vector<uint8_t> img(bytes.begin() + hdr, bytes.end());
  var_opt_sketch<T> d1 = var_opt_sketch<T>::deserialize(img.data(), img.size());
  std::istringstream is(st);
  var_opt_sketch<T> d2 = var_opt_sketch<T>::deserialize(is);
  Obs o0 = observe(s.sk), o1 = observe(d1), o2 = observe(d2);
  VF_CHECK(o0.same(o1), "roundtrip-observation", "bytes round trip changes the observation (n " << o0.n << "->" << o1.n << ", h " << o0.h << "->" << o1.h << ", r " << o0.r << "->" << o1.r << ")");
  VF_CHECK(o0.same(o2), "roundtrip-observation", "stream round trip changes the observation");
  auto again = d1.serialize(0);
  VF_CHECK(again.size() == img.size() && std::memcmp(again.data(), img.data(), img.size()) == 0, "roundtrip-bytes", "re-serialized image differs");
  const bool sampling = o0.r > 0;
  G->labels.insert(sampling ? "ser-sampling" : (o0.n ? "ser-warmup" : "ser-empty"));
  Model dm = s.m;
  if (sampling) dm.deser_key = K_DESER; else if (o0.n > 0) dm.deser_warm = true;
  { Model tmp = dm; check_sketch(d2, tmp, "deserialized"); }
  if (((mode >> 5) & 3) == 3) { probe_update(d2, dm, "deserialized"); G->labels.insert("deser-then-update"); }
  if ((mode & 1) && ((mode & 128) || !sampling)) {
    if (mode & 16) s.sk = std::move(d2); else s.sk = std::move(d1);
    s.m = dm;
    G->labels.insert("ser-replace");
  }
}

template <class T>
void op_reset(Slot<T>& s, uint64_t mode) {
  if ((mode & 3) == 3 && s.sk.get_num_samples() == s.sk.get_n() && s.sk.get_n() > 0) {
    // reset of an object that came from a warm-up image (its arrays are sized by the image, not by k)
    auto bytes = s.sk.serialize(0);
    s.sk = var_opt_sketch<T>::deserialize(bytes.data(), bytes.size());
    s.m.deser_warm = true;
    check_sketch(s.sk, s.m, "deserialized-before-reset");
    G->labels.insert("reset-of-deserialized-warmup");
  }
  Obs o = observe(s.sk);
  if (o.hr_ok && o.cur < initial_alloc(o.k, static_cast<uint32_t>(o.lg_rf))) {  // only objects descending from a warm-up image (sketch or union gadget)
    G->labels.insert("reset-shrunk-alloc");
    // known defect: reset() keeps the short arrays but records the larger initial size; later updates write past the end.
    // When the key is listed the case stops here; otherwise it goes on and the sanitizer reports the overflow itself.
    if (vf::known_keys().count(K_RESET)) throw vf::KnownSkip(K_RESET);
  }
  s.sk.reset();
  Model nm; nm.k = o.k;
  s.m = nm;
  G->labels.insert("reset");
}

// a sketch fed twice to one union makes ids legitimately appear twice: only the aggregate facts are checked then
template <class T>
Obs check_sketch_union(const var_opt_sketch<T>& sk, Model& m, bool dup, const std::string& where) {
  if (!dup) return check_sketch(sk, m, where);
  Obs o = observe(sk);
  VF_CHECK(o.n == m.n, "n", std::setprecision(17) << where << ": get_n " << o.n << " model " << m.n);
  VF_CHECK(o.k >= 1 && o.k <= m.k, "union-k-bound", std::setprecision(17) << where << ": result k " << o.k << " exceeds max_k " << m.k);
  VF_CHECK(o.s.size() == o.ns && o.ns == std::min<uint64_t>(m.n, o.k), "num-samples", std::setprecision(17) << where << ": " << o.s.size() << " iterated, " << o.ns << " samples, n " << m.n << " k " << o.k);
  long double sum = 0;
  for (size_t i = 0; i < o.s.size(); ++i) {
    const uint64_t id = o.s[i].first;
    if (!(id < G->wt.size() && G->wt[id] > 0 && in_ranges(m.member, id))) VF_CHECK(false, "sample-not-in-input", std::setprecision(17) << where << ": sample id " << static_cast<int64_t>(id) << " is not an input");
    if (i < o.h && !(o.s[i].second == G->wt[id])) VF_CHECK(false, "heavy-weight-not-exact", std::setprecision(17) << where << ": H sample id " << id << " weight " << o.s[i].second << " input " << G->wt[id]);
    sum += o.s[i].second;
  }
  VF_CHECK(std::fabs(static_cast<double>(sum - m.total)) <= REL * static_cast<double>(m.total), "weight-conservation",
           std::setprecision(17) << where << ": adjusted weights sum to " << static_cast<double>(sum) << ", input total " << static_cast<double>(m.total));
  subset_summary ss = sk.estimate_subset_sum([](const T&) { return true; });
  VF_CHECK(ss.lower_bound <= ss.estimate && ss.estimate <= ss.upper_bound && std::fabs(ss.estimate - static_cast<double>(m.total)) <= REL * static_cast<double>(m.total), "subset-all",
           std::setprecision(17) << where << ": all-true estimate " << ss.estimate << " total " << static_cast<double>(m.total));
  return o;
}

template <class T>
void op_union(Ctx<T>& c, const Op& op) {
  vf::Rng r(op.uarg(1));
  const uint64_t mode = op.uarg(2);
  const int nin = 1 + static_cast<int>(r.below(5));
  std::vector<int> in;
  for (int i = 0; i < nin; ++i) in.push_back(static_cast<int>(r.below(4)));
  uint64_t tot_samples = 0;
  for (int i : in) tot_samples += c.slots[i].sk.get_num_samples();
  uint64_t max_k;
  switch (op.uarg(0) % 8) {
    case 0: max_k = 1; break;
    case 1: max_k = 2; break;
    case 2: max_k = 1 + r.below(16); break;
    case 3: max_k = c.ks[0]; break;
    case 4: max_k = 64; break;
    case 5: max_k = std::max<uint64_t>(1, tot_samples); break;
    case 6: max_k = tot_samples + 1; break;
    default: max_k = 200;
  }
  max_k = std::min<uint64_t>(std::max<uint64_t>(max_k, 1), 2000);
  var_opt_union<T> u(static_cast<uint32_t>(max_k));
  bool u_deser_sampling = false;
  if (mode & 32) {  // a used and reset union behaves like a fresh one
    try { u.update(c.slots[in[0]].sk); } catch (const std::logic_error& e) { classify_union_throw(e, false, "union.update()", union_tie_shape(u)); }
    if (mode & 16) {
      // ... also when its first life went deep into sampling mode (more items than max_k, so the gadget carried a reservoir weight)
      var_opt_sketch<T> filler(static_cast<uint32_t>(max_k + 8));
      for (uint64_t i = 0; i < max_k + 8; ++i) filler.update(Codec<T>::make(900000000ull + i), 3.0 + static_cast<double>(i % 4));
      try { u.update(filler); } catch (const std::logic_error& e) { classify_union_throw(e, false, "union.update()", union_tie_shape(u)); }
      G->labels.insert("union-reset-after-sampling");
    }
    u.reset();
    if (mode & 64) u.reset();   // resetting twice is resetting once
    G->labels.insert("union-reset-reuse");
  }
  Model rm; rm.k = static_cast<uint32_t>(max_k); rm.stream = false; rm.exact = false;
  bool any_sampling = false, dup = false;
  for (int j = 0; j < nin; ++j) {
    Slot<T>& s = c.slots[in[j]];
    if (overlaps(rm.member, s.m.member)) dup = true;  // the same ids reach the union twice (same slot again, a copy, or a stored result)
    const Obs so = observe(s.sk);
    try {
      if (mode & 1) { var_opt_sketch<T> cp(s.sk); u.update(std::move(cp)); }
      else {
        u.update(s.sk);
        VF_CHECK(so.same(observe(s.sk)), "union-input-modified", "union.update(const&) changed input slot " << in[j]);
      }
    } catch (const std::logic_error& e) { classify_union_throw(e, u_deser_sampling, "union.update()", union_tie_shape(u)); }
    if (so.r > 0) any_sampling = true;
    rm.n += s.m.n; rm.total += s.m.total;
    for (const auto& rg : s.m.member) rm.member.push_back(rg);
    if (!dup) for (uint32_t i = 0; i < so.h && i < so.s.size(); ++i) rm.exact_ids.push_back(so.s[i].first);
    if (((mode >> 8) & 7) == 7 && j == nin / 2) {
      static const unsigned hdrs[2] = {0, 8};
      const unsigned hdr = hdrs[(mode >> 6) & 1];  // bit 6
      auto bytes = u.serialize(hdr);
      VF_CHECK(bytes.size() == hdr + u.get_serialized_size_bytes(), "union-ser-size", "union serialize gives " << bytes.size() << " bytes, get_serialized_size_bytes " << u.get_serialized_size_bytes());
      std::ostringstream os; u.serialize(os); const std::string st = os.str();
      VF_CHECK(st.size() == bytes.size() - hdr && std::memcmp(st.data(), bytes.data() + hdr, st.size()) == 0, "union-ser-bytes-vs-stream", "union stream image differs from byte image");
      std::vector<uint8_t> img(bytes.begin() + hdr, bytes.end());
      double gr = 0; const bool parsed = field(u.to_string(), "r", gr);
      VF_CHECK(parsed, "to-string-parse", "cannot parse union.to_string()");
      if (mode & 4) { std::istringstream is(st); var_opt_union<T> u2 = var_opt_union<T>::deserialize(is); u = std::move(u2); }
      else { var_opt_union<T> u2 = var_opt_union<T>::deserialize(img.data(), img.size()); u = std::move(u2); }
      auto again = u.serialize(0);
      VF_CHECK(again.size() == img.size() && std::memcmp(again.data(), img.data(), img.size()) == 0, "union-roundtrip-bytes", "union re-serialized image differs");
      if (gr > 0) u_deser_sampling = true;
      G->labels.insert(gr > 0 ? "union-ser-sampling" : "union-ser-exact");
    }
    if ((mode & 8) && j + 1 < nin) {
      var_opt_sketch<T> mid = safe_get_result(u, u_deser_sampling);
      Model tmp = rm;
      if (dup) { tmp.exact_ids.clear(); }
      check_sketch_union(mid, tmp, dup, "union intermediate result");
    }
  }
  // the union's state is a value: it travels through a union with ANOTHER history (fresh, fed, or fed and reset) by copy and by move
  // assignment, in either order, before the result is taken - everything below is checked on the assigned union
  // (exactly one assignment: a second one back into u would restore whatever the first one failed to carry)
  std::unique_ptr<var_opt_union<T>> other;
  const var_opt_union<T>* up = &u;
  if ((mode >> 11) & 1) {
    other.reset(new var_opt_union<T>(static_cast<uint32_t>(1 + (mode >> 12) % 40)));
    if ((mode >> 13) & 1) { try { other->update(c.slots[in[nin - 1]].sk); } catch (const std::logic_error&) {} if ((mode >> 15) & 1) other->reset(); }
    if ((mode >> 14) & 1) *other = u;
    else { var_opt_union<T> tmp(u); *other = std::move(tmp); }
    up = other.get();
    G->labels.insert("union-assigned");
  }
  var_opt_sketch<T> res = safe_get_result(*up, u_deser_sampling);
  if (u_deser_sampling) rm.deser_key = K_DESER_U;
  Obs ro = check_sketch_union(res, rm, dup, "union result");
  if (ro.r > 0) {
    for (uint32_t j = 1; j < ro.h && j < ro.s.size(); ++j) if (ro.s[(j - 1) / 2].second > ro.s[j].second) rm.unheaped = true;
    if (rm.unheaped) G->labels.insert("union-result-H-not-heap");
  }
  // labels
  G->labels.insert("union");
  if (any_sampling) G->labels.insert("union-sampling-input");
  if (dup) G->labels.insert("union-same-input-twice");
  if (any_sampling && tot_samples <= max_k) G->labels.insert("union-pseudo-exact");
  if (ro.r > 0 && ro.k < max_k) G->labels.insert("union-k-decreased");
  if (rm.light_h) G->labels.insert("union-light-item-in-H");
  if (mode & 1) G->labels.insert("union-rvalue");
  // the result is a sketch like any other: it must accept further updates
  if (!dup) probe_update(res, rm, "union result");
  if ((mode & 16) && !dup) {
    Slot<T>& d = c.slots[op.uarg(3) % 4];
    d.sk = std::move(res);
    d.m = rm;
    G->labels.insert("union-result-stored");
  }
}

template <class T>
void prop_main(const Case& cs) {
  Global g; G = &g;
  static const double scales[5] = {1.0, 1.0 / 1048576.0, 4096.0, 0.1, 1234567.1};
  const int ssel = static_cast<int>(static_cast<uint64_t>(cs.get("scale", 0)) % 5);
  g.scale = scales[ssel]; g.exact_scale = ssel < 3;
  vf::own_randomness(static_cast<uint64_t>(cs.get("seed", 0)));
  Ctx<T> c;
  c.slots.reserve(4);
  for (int i = 0; i < 4; ++i) {
    const std::string nm = "k" + std::to_string(i);
    c.ks[i] = static_cast<uint32_t>(std::min<int64_t>(300, std::max<int64_t>(1, cs.get(nm, 4))));
    c.rfs[i] = static_cast<int>((static_cast<uint64_t>(cs.get("rf", 3)) + static_cast<uint64_t>(i)) & 3);
    c.slots.emplace_back(c.ks[i], c.rfs[i]);
    check_sketch(c.slots[i].sk, c.slots[i].m, "fresh");
  }
  uint64_t budget = 60000;  // total updates per case
  for (const Op& op : cs.ops) {
    if (op.name == "bulk") {
      Slot<T>& s = c.slots[op.uarg(0) % 4];
      uint64_t n = std::min<uint64_t>(op.uarg(1) % 5000, budget);
      budget -= n;
      const int pat = static_cast<int>(op.uarg(2) % NPAT);
      vf::Rng r(op.uarg(3));
      const uint64_t giant = r.below(n ? n : 1);
      const double cst = static_cast<double>(2 + r.below(999));
      const uint64_t every = n <= 48 ? 1 : std::max<uint64_t>(1, n / 6);
      for (uint64_t i = 0; i < n; ++i) {
        const double base = pattern_weight(pat, i, n, giant, cst, r);
        feed(s.sk, s.m, base * g.scale, g.exact_scale);
        if ((i + 1) % every == 0 && i + 1 < n) check_sketch(s.sk, s.m, "bulk");
      }
      if (n) g.labels.insert(std::string("pat:") + pattern_name(pat));
      check_sketch(s.sk, s.m, "bulk-end");
    } else if (op.name == "upd") {
      Slot<T>& s = c.slots[op.uarg(0) % 4];
      const uint64_t sel = op.uarg(1) % 16;
      const double w = special_weight(sel, s.m.prev_sampling ? s.m.prev_tau : 0.0);
      feed(s.sk, s.m, w, false);
      if (sel >= 9 && sel <= 11 && s.m.prev_sampling) g.labels.insert("tau-boundary-weight");
      check_sketch(s.sk, s.m, "upd");
    } else if (op.name == "ser") {
      op_ser(c.slots[op.uarg(0) % 4], op.uarg(1));
      check_sketch(c.slots[op.uarg(0) % 4].sk, c.slots[op.uarg(0) % 4].m, "ser");
    } else if (op.name == "copy") {
      const size_t a = op.uarg(0) % 4, b = op.uarg(1) % 4;
      switch (op.uarg(2) % 3) {
        case 0: { var_opt_sketch<T> cp(c.slots[a].sk); c.slots[b].sk = std::move(cp); c.slots[b].m = c.slots[a].m; break; }
        case 1: { c.slots[b].sk = c.slots[a].sk; c.slots[b].m = c.slots[a].m; break; }
        default:
          if (a != b) {
            var_opt_sketch<T> mv(std::move(c.slots[a].sk));
            c.slots[b].sk = std::move(mv); c.slots[b].m = c.slots[a].m;
            c.slots[a].sk = var_opt_sketch<T>(c.ks[a], static_cast<resize_factor>(c.rfs[a]));
            Model nm; nm.k = c.ks[a]; c.slots[a].m = nm;
            check_sketch(c.slots[a].sk, c.slots[a].m, "re-created");
          }
      }
      g.labels.insert("copy");
      check_sketch(c.slots[b].sk, c.slots[b].m, "copy");
    } else if (op.name == "reset") {
      Slot<T>& s = c.slots[op.uarg(0) % 4];
      op_reset(s, op.uarg(1));
      check_sketch(s.sk, s.m, "reset");
    } else if (op.name == "uni") {
      op_union(c, op);
    }
  }
  bool any_sampling = false;
  for (auto& s : c.slots) {
    Obs o = check_sketch(s.sk, s.m, "end");
    if (o.r > 0) { any_sampling = true; if (o.h > 0) g.labels.insert("H-and-R"); else g.labels.insert("R-only"); }
    if (s.m.stream && o.r > 0) g.labels.insert("stream-sampling");
  }
  if (any_sampling) g.labels.insert("sampling");
  if (g.nontrivial) g.labels.insert("heavy-to-light-transition");
  g.labels.insert(g.exact_scale ? "weights-exact" : "weights-inexact");
  for (const auto& l : g.labels) vf::label(l);
  if (any_sampling && g.nontrivial) vf::nontrivial();
  G = nullptr;
}

// ---------------------------------------------------------------- unbiasedness (statistical, weak)
void prop_unbiased(const Case& cs) {
  Global g; G = &g;
  const uint32_t k = static_cast<uint32_t>(std::min<int64_t>(16, std::max<int64_t>(1, cs.get("k", 4))));
  const uint32_t k2 = static_cast<uint32_t>(std::min<int64_t>(16, std::max<int64_t>(1, cs.get("k2", 4))));
  const uint32_t max_k = static_cast<uint32_t>(std::min<int64_t>(40, std::max<int64_t>(1, cs.get("maxk", 8))));
  const uint64_t n = k + 1 + static_cast<uint64_t>(std::min<int64_t>(80, std::max<int64_t>(0, cs.get("extra", 10))));
  const int pat = static_cast<int>(static_cast<uint64_t>(cs.get("pat", 0)) % NPAT);
  const int mode = static_cast<int>(static_cast<uint64_t>(cs.get("mode", 0)) % 3);
  const uint64_t seed = static_cast<uint64_t>(cs.get("seed", 1));
  const int reps = static_cast<int>(std::min<int64_t>(20000, std::max<int64_t>(100, cs.get("reps", 1500))));
  static const double scales[3] = {1.0, 0.1, 4096.0};
  const double scale = scales[static_cast<uint64_t>(cs.get("scale", 0)) % 3];
  vf::Rng r(seed);
  std::vector<double> w(n);
  const uint64_t giant = r.below(n);
  const double cst = static_cast<double>(2 + r.below(999));
  for (uint64_t i = 0; i < n; ++i) {
    double b = pattern_weight(pat, i, n, giant, cst, r);
    if (pat == 2 || pat == 9) b = std::min(b, 1048576.0);
    if (pat == 3) b = std::min(b, 1e6);
    if (pat == 6 && i == giant) b = 5000;
    w[i] = b * scale;
  }
  long double total = 0; for (double x : w) total += x;
  if (!(total > 0)) { G = nullptr; return; }
  std::vector<double> sorted(w); std::sort(sorted.begin(), sorted.end());
  const double median = sorted[n / 2];
  const uint64_t single = r.below(n);
  const int NS = 6;
  auto in_subset = [&](int j, uint64_t i) -> bool {
    switch (j) {
      case 0: return (i & 1) == 0;
      case 1: return i < n / 2;
      case 2: return i >= n - std::max<uint64_t>(1, n / 4);
      case 3: return i == single;
      case 4: return i == n - 1;
      default: return w[i] > median;
    }
  };
  long double truth[NS]; for (int j = 0; j < NS; ++j) { truth[j] = 0; for (uint64_t i = 0; i < n; ++i) if (in_subset(j, i)) truth[j] += w[i]; }
  long double mean[NS] = {0}, m2[NS] = {0};
  const uint64_t cut1 = mode == 0 ? n : (mode == 1 ? n / 2 : n / 3), cut2 = mode == 2 ? 2 * n / 3 : n;
  for (int rep = 0; rep < reps; ++rep) {
    vf::own_randomness(vf::mix64(seed * 7919 + static_cast<uint64_t>(rep)));
    var_opt_sketch<uint64_t> a(k), b(k2), c3(std::max<uint32_t>(1, (k + k2) / 2));
    var_opt_sketch<uint64_t> res(1);
    try {
      for (uint64_t i = 0; i < n; ++i) {
        if (w[i] <= 0) continue;
        if (i < cut1) a.update(i, w[i]); else if (i < cut2) b.update(i, w[i]); else c3.update(i, w[i]);
      }
    } catch (const std::logic_error& e) {
      if (std::string(e.what()).find("valid estimation mode") != std::string::npos && scale == 0.1)
        VF_CHECK_K(false, "update-logic-error", K_TIE, "update throws logic_error: " << e.what() << " (rep " << rep << ")");
      VF_CHECK(false, "update-logic-error", "update throws logic_error: " << e.what() << " (rep " << rep << ")");
    }
    if (mode == 0) res = std::move(a);
    else {
      var_opt_union<uint64_t> u(max_k);
      const var_opt_sketch<uint64_t>* ins[3] = {&a, &b, &c3};
      for (int q = 0; q < (mode == 2 ? 3 : 2); ++q) {
        try { u.update(*ins[q]); } catch (const std::logic_error& e) { classify_union_throw(e, false, "union.update()", union_tie_shape(u)); }
      }
      res = safe_get_result(u, false);
    }
    subset_summary all = res.estimate_subset_sum([](const uint64_t&) { return true; });
    VF_CHECK(std::fabs(all.estimate - static_cast<double>(total)) <= REL * static_cast<double>(total), "subset-all", "rep " << rep << ": all-true estimate " << all.estimate << " total " << static_cast<double>(total));
    for (int j = 0; j < NS; ++j) {
      const double e = res.estimate_subset_sum([&](const uint64_t& id) { return in_subset(j, id); }).estimate;
      const long double d = e - mean[j];
      mean[j] += d / (rep + 1);
      m2[j] += d * (e - mean[j]);
    }
  }
  // empirical Bernstein (Maurer & Pontil 2009): |mean - mu| <= sqrt(2 V ln(2/d) / R) + 7 M ln(2/d) / (3 (R-1)), estimates in [0, M], M = total
  const double L = std::log(2.0 / 1e-10);
  for (int j = 0; j < NS; ++j) {
    const double V = static_cast<double>(m2[j] / (reps - 1));
    const double allow = std::sqrt(2 * V * L / reps) + 7 * static_cast<double>(total) * L / (3.0 * (reps - 1)) + 1e-9 * static_cast<double>(total);
    VF_CHECK(std::fabs(static_cast<double>(mean[j] - truth[j])) <= allow, "unbiased",
             "subset " << j << ": mean estimate " << static_cast<double>(mean[j]) << " over " << reps << " repetitions, truth " << static_cast<double>(truth[j])
             << ", allowance " << allow << " (total " << static_cast<double>(total) << ", mode " << mode << ", k " << k << ", n " << n << ")");
  }
  vf::label(std::string("unbiased-mode:") + (mode == 0 ? "stream" : mode == 1 ? "union2" : "union3"));
  vf::label(std::string("pat:") + pattern_name(pat));
  uint64_t npos = 0; for (double x : w) if (x > 0) ++npos;
  if (npos > k) vf::nontrivial();
  G = nullptr;
}

// ---------------------------------------------------------------- generators
rc::Gen<int64_t> k_gen() {
  return rc::gen::weightedOneOf<int64_t>({{8, vf::range(1, 8)}, {6, vf::range(9, 32)}, {2, vf::range(33, 64)}, {1, vf::range(65, 200)}});
}
rc::Gen<Case> gen_main() {
  using namespace vf;
  auto slot = pick({0, 0, 0, 1, 1, 2, 3});
  auto opg = choose({
      {6, op4("bulk", slot, rc::gen::withSize([](int s) { return range(0, 12 + 3 * s); }), range(0, NPAT - 1), range(0, 1 << 30))},
      {1, op4("bulk", slot, range(200, 3000), range(0, NPAT - 1), range(0, 1 << 30))},
      {3, op2("upd", slot, range(0, 15))},
      {2, op2("ser", slot, range(0, 255))},
      {1, op3("copy", range(0, 3), range(0, 3), range(0, 2))},
      {1, rc::gen::map(range(0, 99), [](int64_t x) { return x < 50 ? Op{"reset", {x & 3, (x >> 2) & 3}} : Op{"upd", {x & 3, 9}}; })},
      {5, op4("uni", range(0, 7), range(0, 1 << 30), range(0, 65535), range(0, 3))},
  });
  return make_case({{"k0", k_gen()}, {"k1", k_gen()}, {"k2", k_gen()}, {"k3", k_gen()},
                    {"rf", range(0, 3)},
                    {"scale", rc::gen::weightedOneOf<int64_t>({{5, rc::gen::just<int64_t>(0)}, {2, rc::gen::just<int64_t>(1)}, {2, rc::gen::just<int64_t>(2)}, {2, rc::gen::just<int64_t>(3)}, {2, rc::gen::just<int64_t>(4)}})},
                    {"seed", range(0, 1 << 30)}},
                   oplist(opg, 3, 0.22));
}
rc::Gen<Case> gen_unbiased() {
  using namespace vf;
  return make_case({{"k", range(1, 12)}, {"k2", range(1, 12)}, {"maxk", range(1, 30)}, {"extra", range(0, 60)}, {"pat", range(0, NPAT - 1)},
                    {"mode", range(0, 2)}, {"scale", range(0, 2)}, {"seed", range(1, 1 << 30)}, {"reps", rc::gen::just<int64_t>(1500)}},
                   rc::gen::just(std::vector<Op>{}));
}

}  // namespace

int main(int argc, char** argv) {
  std::vector<vf::Sub> subs;
  subs.push_back({"main", gen_main, prop_main<uint64_t>, 1.0});
  subs.push_back({"str", gen_main, prop_main<std::string>, 0.25});
  subs.push_back({"unbiased", gen_unbiased, prop_unbiased, 0.04});
  return vf::main_driver(argc, argv, "C16", "c16_varopt",
                         "case = k of 4 sketch slots, resize factor, weight scale, seed of the internal random draws + generated op history (bulk streams in 11 "
                         "weight patterns, single updates with edge weights incl. tau itself, serialization round trips, copies, reset, unions of 1..5 slots "
                         "with generated max_k, optional union round trip / reuse, results stored back and updated further); every object is compared with an "
                         "exact model after every step; non-trivial = some sketch ends in sampling mode (n > k) AND at least one item that was in the "
                         "heavy region H of a sampling sketch at one check had left H at a later check (heavy->light transition); sub 'unbiased': every case "
                         "(n > k, 1500 seeded repetitions) counts; distinct = distinct case text",
                         subs);
}
