// C03 — HLL content is the per-slot max of coupons in every mode and register width.
// Model: set of reference coupons; registers = per-slot maxima. Observation: the sketches' own serialized images,
// decoded by the layout reader in vf/hll_model.hpp.
#include "vf/core.hpp"
#include "vf/items.hpp"
#include "vf/hll_model.hpp"
#include <hll.hpp>

using namespace datasketches;
using vf::Case; using vf::Op;

namespace {

const char* type_name(int t) { return t == 0 ? "HLL_4" : t == 1 ? "HLL_6" : "HLL_8"; }

struct Obs { vf::HllImage im; };

vf::HllImage image_of(const hll_sketch& sk, bool compact) {
  auto bytes = compact ? sk.serialize_compact() : sk.serialize_updatable();
  vf::HllImage im;
  try { im = vf::parse_hll_image(bytes.data(), bytes.size()); }
  catch (const std::runtime_error& e) { VF_CHECK(false, "image-layout", "serialized image does not follow the documented layout: " << e.what()); }
  VF_CHECK(im.consumed == bytes.size() || (!compact && im.mode == 2 && im.type == 0), "image-size", "image has " << bytes.size() << " bytes, layout accounts for " << im.consumed);
  return im;
}

// compares one sketch with the model
void check_sketch(const hll_sketch& sk, const vf::HllModel& m, int lg_k, int type, const char* who, vf::HllImage* out = nullptr) {
  VF_CHECK(sk.is_empty() == m.coupons.empty(), "is-empty", who << ": is_empty " << sk.is_empty() << " model distinct coupons " << m.coupons.size());
  VF_CHECK(sk.get_lg_config_k() == lg_k, "lg-k", who << ": lg_k " << int(sk.get_lg_config_k()));
  VF_CHECK(static_cast<int>(sk.get_target_type()) == type, "target-type", who << ": target type " << int(sk.get_target_type()));
  for (int compact = 0; compact < 2; ++compact) {
    vf::HllImage im = image_of(sk, compact);
    VF_CHECK(im.lg_k == lg_k && im.type == type, "image-header", who << ": image lg_k/type " << im.lg_k << "/" << im.type);
    if (im.mode < 2) {
      VF_CHECK(im.coupons == m.coupons, "coupon-set", who << ": " << (im.mode == 0 ? "LIST" : "SET") << " mode stores " << im.coupons.size() << " coupons, model has " << m.coupons.size());
      VF_CHECK(im.coupon_slots_nonzero == im.coupons.size(), "coupon-duplicate", who << ": a coupon is stored twice");
    } else {
      std::vector<uint8_t> regs = m.registers(lg_k);
      if (im.regs != regs) {
        size_t i = 0; while (i < regs.size() && im.regs[i] == regs[i]) ++i;
        VF_CHECK(false, "registers", who << " (" << type_name(type) << (compact ? " compact" : " updatable") << "): slot " << i << " holds " << int(im.regs[i]) << ", model max " << int(regs[i]));
      }
      int mn = 255; uint32_t cnt = 0;
      for (auto v : regs) { if (v < mn) { mn = v; cnt = 1; } else if (v == mn) ++cnt; }
      if (type == 0) {
        VF_CHECK(im.cur_min == mn, "cur-min", who << ": cur_min " << im.cur_min << " model " << mn);
        VF_CHECK(im.num_at_cur_min == cnt, "num-at-cur-min", who << ": num_at_cur_min " << im.num_at_cur_min << " model " << cnt);
      } else {
        // the 6- and 8-bit arrays store absolute values: cur_min stays 0 and the counter is the number of zero registers
        uint32_t zeros = 0; for (auto v : regs) zeros += v == 0;
        VF_CHECK(im.cur_min == 0, "cur-min", who << ": cur_min " << im.cur_min << " for an absolute-valued array");
        VF_CHECK(im.num_at_cur_min == zeros, "num-at-cur-min", who << ": zero-register counter " << im.num_at_cur_min << " model " << zeros);
      }
      if (type == 0) {
        std::map<uint32_t, uint8_t> exc;
        for (size_t s = 0; s < regs.size(); ++s) if (regs[s] - mn >= 15) exc[static_cast<uint32_t>(s)] = regs[s];
        VF_CHECK(im.aux == exc, "aux-exceptions", who << ": aux table has " << im.aux.size() << " entries, model expects " << exc.size());
        if (!exc.empty()) vf::label("aux-nonempty");
      }
      // kxq accumulators: exact sums of inverse powers of two
      double kxq0 = 0, kxq1 = 0;
      for (auto v : regs) { if (v < 32) kxq0 += std::ldexp(1.0, -v); else kxq1 += std::ldexp(1.0, -v); }
      VF_CHECK(im.kxq0 == kxq0 && im.kxq1 == kxq1, "kxq", who << ": kxq0/kxq1 " << im.kxq0 << "/" << im.kxq1 << " model " << kxq0 << "/" << kxq1);
      if (mn > 0) vf::label("cur-min>0");
    }
    if (out && !compact) *out = im;
  }
  // bounds
  double est = sk.get_estimate();
  double plb = est, pub = est;
  for (uint8_t sd = 1; sd <= 3; ++sd) {
    double lb = sk.get_lower_bound(sd), ub = sk.get_upper_bound(sd);
    VF_CHECK(lb <= est * (1 + 1e-9) && est <= ub * (1 + 1e-9), "bounds-order", who << ": lb " << lb << " est " << est << " ub " << ub << " at " << int(sd));  // 1e-9: see c04
    VF_CHECK(lb <= plb && ub >= pub, "bounds-widen", who << ": interval does not widen at " << int(sd));
    plb = lb; pub = ub;
  }
  for (uint8_t bad : {uint8_t(0), uint8_t(4)}) {
    bool t1 = false, t2 = false;
    try { sk.get_lower_bound(bad); } catch (const std::invalid_argument&) { t1 = true; }
    try { sk.get_upper_bound(bad); } catch (const std::invalid_argument&) { t2 = true; }
    VF_CHECK(t1 && t2, "bounds-reject", who << ": std dev " << int(bad) << " accepted");
  }
  VF_CHECK(std::isfinite(est) && est >= 0 && std::isfinite(sk.get_composite_estimate()), "estimate-finite", who << ": estimate not finite");
  if (m.coupons.empty()) VF_CHECK(est == 0.0 && sk.get_composite_estimate() == 0.0, "estimate-empty", who << ": empty sketch estimate " << est);
}

bool close(double a, double b, double rel) { return std::fabs(a - b) <= rel * std::max(1.0, std::max(std::fabs(a), std::fabs(b))); }

void prop(const Case& cs) {
  int lg_k = static_cast<int>(std::min<int64_t>(21, std::max<int64_t>(4, cs.get("lg_k", 4))));
  int type = static_cast<int>(cs.get("type", 0) % 3);
  bool full = cs.get("full", 0) & 1;
  // three sketches of the three widths fed the same stream, plus one started full size
  std::vector<hll_sketch> sk;
  for (int t = 0; t < 3; ++t) sk.emplace_back(static_cast<uint8_t>(lg_k), static_cast<target_hll_type>(t), false);
  hll_sketch fs(static_cast<uint8_t>(lg_k), static_cast<target_hll_type>(type), true);
  vf::HllModel m;
  std::vector<vf::Item> items;
  uint64_t fresh = 0;
  bool every = lg_k <= 10;
  bool aux_removed = false; size_t prev_aux = 0; int prev_curmin = 0;
  auto feed = [&](const vf::Item& it) {
    for (auto& s : sk) vf::feed(s, it);
    vf::feed(fs, it);
    uint32_t c;
    if (vf::ref_hll_item_coupon(it, c)) m.add(c);
    if (items.size() < 3000000) items.push_back(it);
  };
  auto check_all = [&](const char* after) {
    (void)after;
    vf::HllImage im4;
    check_sketch(sk[0], m, lg_k, 0, "HLL_4", &im4);
    check_sketch(sk[1], m, lg_k, 1, "HLL_6");
    check_sketch(sk[2], m, lg_k, 2, "HLL_8");
    check_sketch(fs, m, lg_k, type, "full-size");
    if (im4.mode == 2) {
      if (im4.cur_min > prev_curmin && im4.aux.size() < prev_aux) aux_removed = true;
      prev_curmin = im4.cur_min; prev_aux = im4.aux.size();
    }
    // mode is a function of the distinct inputs: identical for the three widths
    int m0 = image_of(sk[0], true).mode, m1 = image_of(sk[1], true).mode, m2 = image_of(sk[2], true).mode;
    VF_CHECK(m0 == m1 && m1 == m2, "mode-across-types", "modes differ across widths: " << m0 << m1 << m2);
    if (!m.coupons.empty()) VF_CHECK(image_of(fs, true).mode == 2, "full-size-mode", "sketch started full size is not in HLL mode");
    // estimates agree across widths (same order)
    double c0 = sk[0].get_composite_estimate(), c1 = sk[1].get_composite_estimate(), c2 = sk[2].get_composite_estimate();
    VF_CHECK(close(c0, c1, 1e-12) && close(c1, c2, 1e-12), "composite-across-types", "composite estimates differ across widths: " << c0 << " " << c1 << " " << c2);
    double e0 = sk[0].get_estimate(), e1 = sk[1].get_estimate(), e2 = sk[2].get_estimate();
    VF_CHECK(close(e0, e1, 1e-12) && close(e1, e2, 1e-12), "hip-across-types", "in-order estimates differ across widths: " << e0 << " " << e1 << " " << e2);
    if (m0 == 2) VF_CHECK(close(fs.get_composite_estimate(), c0, 1e-12), "composite-full-size", "composite estimate of full-size start differs: " << fs.get_composite_estimate() << " vs " << c0);
  };
  check_all("build");
  for (const Op& op : cs.ops) {
    if (op.name == "upd") {
      feed(vf::Item{static_cast<int>(op.uarg(0) % vf::T_NTYPES), op.uarg(1)});
    } else if (op.name == "bulk") {
      uint64_t n = op.uarg(0) % 300000;
      int t = (op.uarg(1) & 1) ? vf::T_I64 : vf::T_U64;
      for (uint64_t i = 0; i < n; ++i) feed(vf::Item{t, vf::mix64(0xC03 + fresh++) | 4096});
    } else if (op.name == "pool") {
      const auto& pool = vf::high_pool().keys;
      uint64_t n = op.uarg(0) % 64; uint8_t minv = static_cast<uint8_t>(15 + op.uarg(1) % 6);
      vf::Rng r(op.uarg(2));
      for (uint64_t i = 0; i < n && !pool.empty(); ++i) {
        for (int tries = 0; tries < 50; ++tries) {
          const auto& kv = pool[r.below(pool.size())];
          if (kv.second >= minv) { feed(vf::Item{vf::T_I64, static_cast<uint64_t>(kv.first)}); break; }
        }
      }
      vf::label("high-value-keys");
    } else if (op.name == "twin") {
      // two keys with the same 26-bit coupon address and different values, in either order: two distinct coupons in LIST / SET mode,
      // one slot holding the larger value in HLL mode
      const auto& tp = vf::twin_pool().pairs;
      if (tp.empty()) continue;
      const auto& pr = tp[op.uarg(0) % tp.size()];
      const bool small_first = (op.uarg(1) & 1) != 0;
      feed(vf::Item{vf::T_I64, static_cast<uint64_t>(small_first ? pr.first : pr.second)});
      feed(vf::Item{vf::T_I64, static_cast<uint64_t>(small_first ? pr.second : pr.first)});
      vf::label("twin-address-keys");
    } else if (op.name == "addr0") {
      // a key whose coupon address is 0 (any value): a legitimate coupon in every mode
      const auto& zk = vf::zero_addr_keys();
      if (zk.empty()) continue;
      feed(vf::Item{vf::T_U64, zk[op.uarg(0) % zk.size()]});
      vf::label("zero-address-key");
    } else if (op.name == "level") {
      // one key per slot whose register value is exactly v: when nothing higher was seen, every register of the array holds the same
      // value (HLL_4: cur_min = v with all k registers at cur_min - the state a fresh array is in, except that it is not empty)
      if (lg_k > 8) continue;
      const uint32_t v = 1 + static_cast<uint32_t>(op.uarg(0) % 3), k = 1u << lg_k;
      std::vector<char> filled(k, 0); uint32_t left = k;
      uint64_t key = vf::mix64(op.uarg(1) + 0xC03C03) >> 8;
      for (uint64_t tries = 0; left > 0 && tries < 4000000; ++tries, ++key) {
        vf::Item it{vf::T_U64, key | (1ull << 56)};
        uint32_t c;
        if (!vf::ref_hll_item_coupon(it, c) || (c >> 26) != v) continue;
        uint32_t slot = c & (k - 1);
        if (filled[slot]) continue;
        filled[slot] = 1; --left;
        feed(it);
      }
      vf::label("level-fill");
    } else if (op.name == "dups") {
      uint64_t n = op.uarg(0) % 2000;
      if (items.empty()) continue;
      vf::Rng r(op.uarg(1));
      for (uint64_t i = 0; i < n; ++i) { vf::Item it = items[r.below(items.size())]; feed(it); }
    } else if (op.name == "reset") {
      for (auto& s : sk) s.reset();
      fs.reset();
      m = vf::HllModel(); items.clear(); prev_aux = 0; prev_curmin = 0;
      vf::label("reset");
    } else continue;
    if (every) check_all(op.name.c_str());
  }
  check_all("end");
  int mode = image_of(sk[type], true).mode;
  // conversions: all 9 directions
  for (int from = 0; from < 3; ++from) for (int to = 0; to < 3; ++to) {
    hll_sketch conv(sk[from], static_cast<target_hll_type>(to));
    std::string who = std::string("convert ") + type_name(from) + "->" + type_name(to);
    check_sketch(conv, m, lg_k, to, who.c_str());
    VF_CHECK(close(conv.get_composite_estimate(), sk[from].get_composite_estimate(), 1e-12), "convert-composite", who << ": composite estimate changed");
    VF_CHECK(close(conv.get_estimate(), sk[from].get_estimate(), 1e-12), "convert-estimate", who << ": estimate changed");
  }
  // a converted copy is a sketch of the source's configuration in another register width: after reset() and the same short stream it is
  // again in the same mode as the source treated the same way (a sketch started full size restarts full size, the others in coupon mode)
  if (lg_k <= 14) {
    const size_t nshort = std::min<size_t>(items.size(), 5);
    for (int srcsel = 0; srcsel < 2; ++srcsel) for (int to = 0; to < 3; ++to) {
      const hll_sketch& src = srcsel == 0 ? sk[type] : fs;
      hll_sketch conv(src, static_cast<target_hll_type>(to));
      hll_sketch again(src);
      conv.reset(); again.reset();
      for (size_t i = 0; i < nshort; ++i) { vf::feed(conv, items[i]); vf::feed(again, items[i]); }
      std::string who = std::string(srcsel == 0 ? "" : "full-size ") + type_name(type) + "->" + type_name(to) + " copy after reset";
      VF_CHECK(conv.is_empty() == again.is_empty(), "convert-reset", who << ": emptiness differs from the source treated the same way");
      VF_CHECK(image_of(conv, true).mode == image_of(again, true).mode, "convert-reset", who << ": restarts in mode " << image_of(conv, true).mode << ", the source restarts in mode " << image_of(again, true).mode);
      VF_CHECK(close(conv.get_composite_estimate(), again.get_composite_estimate(), 1e-12), "convert-reset", who << ": composite estimate " << conv.get_composite_estimate() << " vs " << again.get_composite_estimate());
    }
    vf::label("converted-copy-reset");
  }
  // second presentation order
  if (!items.empty() && items.size() < 3000000) {
    std::vector<vf::Item> perm = items;
    vf::Rng r(static_cast<uint64_t>(cs.get("perm", 1)));
    for (size_t i = perm.size(); i > 1; --i) std::swap(perm[i - 1], perm[r.below(i)]);
    hll_sketch p(static_cast<uint8_t>(lg_k), static_cast<target_hll_type>(type), false);
    for (const auto& it : perm) vf::feed(p, it);
    check_sketch(p, m, lg_k, type, "permuted order");
    VF_CHECK(image_of(p, true).mode == mode, "mode-across-orders", "mode depends on presentation order");
    VF_CHECK(close(p.get_composite_estimate(), sk[type].get_composite_estimate(), 1e-12), "composite-across-orders", "composite estimate depends on order: " << p.get_composite_estimate() << " vs " << sk[type].get_composite_estimate());
  }
  vf::label(mode == 0 ? "mode:LIST" : mode == 1 ? "mode:SET" : "mode:HLL");
  vf::label(std::string("type:") + type_name(type));
  if (aux_removed) vf::label("aux-removed-by-shift");
  if (lg_k >= 13) vf::label("lg_k>=13");
  if (mode == 2) vf::nontrivial();
}

rc::Gen<Case> gen_main() {
  using namespace vf;
  auto opg = choose({
      {4, op2("upd", range(0, T_NTYPES - 1), raw_gen())},
      {3, op2("bulk", rc::gen::withSize([](int s) { return range(0, 20 + 40 * s); }), range(0, 1))},
      {2, op2("bulk", range(0, 40), range(0, 1))},
      {2, op3("pool", range(1, 40), range(0, 5), range(0, 1 << 20))},
      {1, op2("level", range(0, 2), range(0, 1 << 20))},
      {2, op2("twin", range(0, 23), range(0, 1))},
      {2, op1("addr0", range(0, 3))},
      {1, op2("dups", range(1, 500), range(0, 1 << 20))},
      {1, rc::gen::map(range(0, 19), [](int64_t x) { return x == 0 ? Op{"reset", {}} : Op{"dups", {50, x}}; })},
  });
  return make_case({{"lg_k", rc::gen::weightedOneOf<int64_t>({{6, range(4, 6)}, {4, range(7, 9)}, {2, range(10, 12)}})},
                    {"type", range(0, 2)}, {"full", range(0, 1)}, {"perm", range(0, 1 << 20)}},
                   oplist(opg, 2, 0.25));
}
// long streams at tiny lg_k: many cur-min shifts, exceptions created and removed
rc::Gen<Case> gen_shift() {
  using namespace vf;
  auto opg = choose({{3, op2("bulk", range(1000, 299999), range(0, 1))}, {3, op3("pool", range(10, 60), range(0, 5), range(0, 1 << 20))}, {1, op2("level", range(0, 2), range(0, 1 << 20))}, {1, op2("upd", range(0, T_NTYPES - 1), raw_gen())}});
  return make_case({{"lg_k", range(4, 7)}, {"type", range(0, 2)}, {"full", range(0, 1)}, {"perm", range(0, 1 << 20)}}, oplist(opg, 2, 0.06));
}
// large lg_k, including transitions list -> set -> hll at 3/4 * 2^(lg_k-3) coupons
rc::Gen<Case> gen_large() {
  using namespace vf;
  auto opg = choose({{3, op2("bulk", range(0, 299999), range(0, 1))}, {1, op2("upd", range(0, T_NTYPES - 1), raw_gen())}, {1, op3("pool", range(1, 40), range(0, 5), range(0, 1 << 20))}});
  return make_case({{"lg_k", range(13, 21)}, {"type", range(0, 2)}, {"full", range(0, 1)}, {"perm", range(0, 1 << 20)}}, oplist(opg, 1, 0.03));
}

}  // namespace

int main(int argc, char** argv) {
  return vf::main_driver(argc, argv, "C03", "c03_hll_content",
                         "case = (lg_k, target type, start_full_size) + generated stream ops (typed updates with edge values, bulk fresh keys, keys from a "
                         "high-coupon-value pool, duplicates, reset); the same stream feeds HLL_4/6/8 sketches and one started full size; their serialized "
                         "images are decoded from the documented layout and compared with the reference coupon/register model after every op, then 9 type "
                         "conversions and a permuted presentation order; non-trivial = HLL mode reached; distinct = distinct case text",
                         {{"main", gen_main, prop, 1.0}, {"shift", gen_shift, prop, 0.08, 60}, {"large", gen_large, prop, 0.04, 60}});
}
