// C06 (part a) — the shared estimator / bound functions obey their inequalities over their whole input domain, and
// every sketch built over a generated stream reports lb <= est <= ub, widening intervals, and exact answers outside
// estimation mode. Dense deterministic grids are enumerated; sketch cases are generated.
#include "vf/core.hpp"
#include "vf/items.hpp"
#include "vf/hll_model.hpp"
#include "vf/ref_icon.hpp"
#include <binomial_bounds.hpp>
#include <theta_sketch.hpp>
#include <theta_union.hpp>
#include <tuple_sketch.hpp>
#include <tuple_union.hpp>
#include <array_of_doubles_sketch.hpp>
#include <hll.hpp>
#include <cpc_sketch.hpp>
#include <cpc_union.hpp>
#include <icon_estimator.hpp>

using namespace datasketches;
using vf::Case; using vf::Op;

namespace {

// ------------------------------------------------------------------ binomial bounds grid
std::vector<double> theta_grid() {
  std::vector<double> t;
  for (int i = 0; i < 600; ++i) t.push_back(std::pow(10.0, -9.0 * (599 - i) / 599.0));  // 1e-9 .. 1, log spaced
  for (double d : {1e-7, 1e-6, 9e-6, 1e-5, 1.1e-5, 2e-5, 1e-4}) t.push_back(1.0 - d);    // around the (1 - 1e-5) switch
  t.push_back(0.5); t.push_back(0.999); t.push_back(std::nextafter(1.0, 0.0));
  return t;
}

void prop_binom(const Case& cs) {
  static const std::vector<double> grid = theta_grid();
  unsigned long long n = static_cast<unsigned long long>(cs.get("n", 0));
  std::vector<double> thetas = grid;
  if (n >= 2 && n <= 120) for (double f : {0.999, 0.9999, 1.0, 1.0001, 1.001}) { double t = f * n / 360.0; if (t > 0 && t <= 1) thetas.push_back(t); }  // n/360 switch
  uint64_t pts = 0;
  for (double theta : thetas) {
    double est = n / theta;
    double plb = est, pub = est;
    for (unsigned sd = 1; sd <= 3; ++sd) {
      double lb = binomial_bounds::get_lower_bound(n, theta, sd);
      double ub = binomial_bounds::get_upper_bound(n, theta, sd);
      VF_CHECK(std::isfinite(lb) && std::isfinite(ub), "binom-finite", "n=" << n << " theta=" << theta << " sd=" << sd << " lb=" << lb << " ub=" << ub);
      VF_CHECK(lb <= est && est <= ub, "binom-bracket", "n=" << n << " theta=" << theta << " sd=" << sd << ": lb " << lb << " est " << est << " ub " << ub);
      VF_CHECK(lb >= static_cast<double>(n), "binom-lb-ge-n", "n=" << n << " theta=" << theta << " sd=" << sd << ": lb " << lb << " below the sample count");
      VF_CHECK(lb <= plb && ub >= pub, "binom-widen", "n=" << n << " theta=" << theta << ": interval shrinks from sd " << sd - 1 << " to " << sd << " (lb " << plb << "->" << lb << ", ub " << pub << "->" << ub << ")");
      plb = lb; pub = ub;
      ++pts;
    }
    // the two closed-form cells of the definition (tail probability delta(kappa) = P(Z > kappa) of the binomial tails):
    //   n = 0: the upper bound is the smallest N with P(no sample retained | N) = (1-theta)^N <= delta
    // (relative 2e-4 on delta: the library tabulates delta with ~6e-5 relative deviation from the exact normal tail, and evaluates
    //  log(1-theta) directly, which loses ~1e-7 at theta = 1e-9)
    //   n = 1: the lower bound is the largest N with P(at least one retained | N) = 1 - (1-theta)^N <= delta
    if (theta < 1.0 && n <= 1) {
      for (unsigned sd = 1; sd <= 3; ++sd) {
        const double delta = 0.5 * std::erfc(sd / std::sqrt(2.0));
        const double l1 = std::log1p(-theta);
        if (n == 0) {
          double ub = binomial_bounds::get_upper_bound(0, theta, sd);
          VF_CHECK(ub * l1 <= std::log(delta * 1.0002), "binom-ub-tail-n0", "n=0 theta=" << theta << " sd=" << sd << ": upper bound " << ub << " leaves P(0 retained | N=ub) = " << std::exp(ub * l1) << " above delta " << delta);
          VF_CHECK((ub - 1) * l1 > std::log(delta * 0.9998) || ub <= 1, "binom-ub-tight-n0", "n=0 theta=" << theta << " sd=" << sd << ": upper bound " << ub << " is not the smallest N with (1-theta)^N <= delta " << delta);
        } else {
          double lb = binomial_bounds::get_lower_bound(1, theta, sd);
          if (lb > 1.0) VF_CHECK(-std::expm1(lb * l1) <= delta * 1.0002, "binom-lb-tail-n1", "n=1 theta=" << theta << " sd=" << sd << ": lower bound " << lb << " leaves P(>=1 retained | N=lb) = " << -std::expm1(lb * l1) << " above delta " << delta);
        }
      }
    }
    if (theta == 1.0) {
      VF_CHECK(binomial_bounds::get_lower_bound(n, theta, 2) == n && binomial_bounds::get_upper_bound(n, theta, 2) == n, "binom-exact-theta1", "theta=1 bounds not exact for n=" << n);
    }
  }
  for (unsigned bad : {0u, 4u, 100u}) {
    bool a = false, b = false;
    try { binomial_bounds::get_lower_bound(n, 0.5, bad); } catch (const std::invalid_argument&) { a = true; }
    try { binomial_bounds::get_upper_bound(n, 0.5, bad); } catch (const std::invalid_argument&) { b = true; }
    VF_CHECK(a && b, "binom-reject-sd", "num_std_devs " << bad << " accepted");
  }
  for (double bad : {-0.1, 1.0000001, 2.0}) {
    bool a = false; try { binomial_bounds::get_lower_bound(n, bad, 1); } catch (const std::invalid_argument&) { a = true; }
    VF_CHECK(a, "binom-reject-theta", "theta " << bad << " accepted");
  }
  vf::count("grid_points", pts);
  if (n >= 2) vf::nontrivial();
  vf::label(n <= 120 ? "n<=120" : "n>120");
}

void enum_binom(std::function<bool(const Case&)> run) {
  long w = vf::env_long("VF_WORKER", 0), nw = std::max<long>(1, vf::env_long("VF_NWORKERS", 1));
  bool thorough = vf::env("VF_TIER") == "thorough";
  std::vector<unsigned long long> ns;
  for (unsigned long long n = 0; n <= 400; ++n) ns.push_back(n);
  for (int i = 0; i < (thorough ? 2000 : 150); ++i) ns.push_back(static_cast<unsigned long long>(400 * std::pow((67108864.0 * 16) / 400.0, (i + 1) / double(thorough ? 2000 : 150))));
  for (size_t i = 0; i < ns.size(); ++i) {
    if (static_cast<long>(i % nw) != w) continue;
    Case c; c.set("n", static_cast<int64_t>(ns[i]));
    if (!run(c)) return;
  }
}

// ------------------------------------------------------------------ ICON estimator grid
void prop_icon(const Case& cs) {
  uint8_t lg_k = static_cast<uint8_t>(std::min<int64_t>(26, std::max<int64_t>(4, cs.get("lg_k", 4))));
  uint64_t k = 1ull << lg_k;
  // C values: dense 0..8k for small k, log sampled above up to the number of cells that can be distinct coupons (k*64)
  std::vector<uint64_t> cvals;
  uint64_t dense_to = std::min<uint64_t>(8 * k, 40000);
  for (uint64_t c = 0; c <= dense_to; ++c) cvals.push_back(c);
  double top = std::min<double>(4294967295.0, 40.0 * k);
  for (int i = 1; i <= 3000; ++i) { uint64_t c = static_cast<uint64_t>(dense_to * std::pow(top / dense_to, i / 3000.0)); if (c > cvals.back()) cvals.push_back(c); }
  // neighbourhood of the polynomial/exponential switch (5.7k or 5.6k)
  double thr = (lg_k < 14 ? 5.7 : 5.6) * k;
  for (int64_t d = -50; d <= 50; ++d) { int64_t c = static_cast<int64_t>(thr) + d; if (c > 0) cvals.push_back(static_cast<uint64_t>(c)); }
  std::sort(cvals.begin(), cvals.end()); cvals.erase(std::unique(cvals.begin(), cvals.end()), cvals.end());
  double prev = -1, prev_inc = -1; uint64_t prevc = 0;
  uint64_t idx = 0, nref = 0;
  for (uint64_t c : cvals) {
    double e = compute_icon_estimate(lg_k, static_cast<uint32_t>(c));
    VF_CHECK(std::isfinite(e), "icon-finite", "lg_k " << int(lg_k) << " C " << c << ": " << e);
    VF_CHECK(e >= static_cast<double>(c), "icon-ge-c", "lg_k " << int(lg_k) << " C " << c << ": estimate " << e << " below the coupon count");
    // against the independent reference (inverse of the expected coupon count): every 16th grid point and the whole neighbourhood of the switch
    if (c >= 2 && ((idx++ & 15) == 0 || std::fabs(static_cast<double>(c) - thr) <= 51)) {
      const double r = vf::ref_icon(lg_k, static_cast<double>(c));
      VF_CHECK(std::fabs(e - r) <= vf::ref_icon_tolerance(r), "icon-vs-reference", "lg_k " << int(lg_k) << " C " << c << ": estimate " << e << ", the cardinality whose expected coupon count is C is " << r << " (tolerance " << vf::ref_icon_tolerance(r) << ")");
      ++nref;
    }
    if (prev >= 0) {
      VF_CHECK(e >= prev, "icon-monotone", "lg_k " << int(lg_k) << ": estimate decreases from C=" << prevc << " (" << prev << ") to C=" << c << " (" << e << ")");
      // continuity (no jump at the polynomial/exponential switch): one step may not be much larger than the step before it
      if (c == prevc + 1 && c > 16 && prev_inc >= 0) VF_CHECK(e - prev <= 3.0 * prev_inc + 1.0 + 0.01 * e, "icon-continuous", "lg_k " << int(lg_k) << ": step from C=" << prevc << " (" << prev << ") to C=" << c << " (" << e << ") after a step of " << prev_inc);
      prev_inc = (c == prevc + 1) ? e - prev : -1;
    }
    prev = e; prevc = c;
  }
  VF_CHECK(compute_icon_estimate(lg_k, 0) == 0.0 && compute_icon_estimate(lg_k, 1) == 1.0, "icon-small", "icon(0)/icon(1)");
  for (int bad : {3, 27}) { bool t = false; try { compute_icon_estimate(static_cast<uint8_t>(bad), 10); } catch (const std::out_of_range&) { t = true; } VF_CHECK(t, "icon-reject-lgk", "lg_k " << bad << " accepted"); }
  vf::count("grid_points", cvals.size());
  vf::count("icon_reference_points", nref);
  vf::nontrivial();
}
void enum_icon(std::function<bool(const Case&)> run) {
  long w = vf::env_long("VF_WORKER", 0), nw = std::max<long>(1, vf::env_long("VF_NWORKERS", 1));
  for (int lg_k = 4; lg_k <= 26; ++lg_k) {
    if ((lg_k - 4) % nw != w) continue;
    Case c; c.set("lg_k", lg_k);
    if (!run(c)) return;
  }
}

// ------------------------------------------------------------------ bounds of real sketches
template <typename S>
void check_interval(const S& sk, const char* who, double est) {
  double plb = est, pub = est;
  for (uint8_t sd = 1; sd <= 3; ++sd) {
    double lb = sk.get_lower_bound(sd), ub = sk.get_upper_bound(sd);
    VF_CHECK(std::isfinite(lb) && std::isfinite(ub) && lb >= 0, "sketch-bounds-finite", who << ": lb " << lb << " ub " << ub);
    VF_CHECK(lb <= est * (1 + 1e-9) && est <= ub * (1 + 1e-9), "sketch-bounds-order", who << ": lb " << lb << " est " << est << " ub " << ub << " at " << int(sd));  // relative 1e-9: HLL lower bound is clamped to an integer the bitmap estimate can round just below
    VF_CHECK(lb <= plb && ub >= pub, "sketch-bounds-widen", who << ": interval shrinks at " << int(sd));
    plb = lb; pub = ub;
  }
}

void prop_sketch(const Case& cs) {
  int fam = static_cast<int>(cs.get("fam", 0) % 4);
  uint64_t n = static_cast<uint64_t>(cs.get("n", 0)) % 400000;
  uint64_t base = vf::mix64(static_cast<uint64_t>(cs.get("base", 1))) >> 8;
  int cfg = static_cast<int>(cs.get("cfg", 0));
  bool est_mode = false;
  if (fam == 0 || fam == 1) {  // theta / tuple (+ union result)
    uint8_t lg_k = static_cast<uint8_t>(5 + cfg % 9);
    // trim() zero, one or two times after the stream (a second trim finds exactly k entries), and streams of exactly k distinct items
    const int trims = (cfg / 512) % 4 == 3 ? 0 : (cfg / 512) % 4;
    if ((cfg / 2048) & 1) { n = 1ull << lg_k; vf::label("exactly-k-distinct-items"); }
    float p = (cfg / 16) % 3 == 0 ? 1.0f : (cfg / 16) % 3 == 1 ? 0.5f : 0.05f;
    if (fam == 0) {
      // every resize factor; half of the cases reuse objects that had an earlier life in estimation mode and were reset
      const auto rf = static_cast<update_theta_sketch::resize_factor>((cfg / 64) % 4);
      const bool reused = (cfg / 256) & 1;
      auto sk = update_theta_sketch::builder().set_lg_k(lg_k).set_p(p).set_resize_factor(rf).build();
      auto sk2 = update_theta_sketch::builder().set_lg_k(lg_k).set_p(p).set_resize_factor(rf).build();
      if (reused) {
        for (uint64_t i = 0; i < (40ull << lg_k) / 10; ++i) { sk.update(base + 7777777 + i); sk2.update(base + 9999999 + i); }
        sk.reset(); sk2.reset();
        vf::label("theta-reused-after-reset");
      }
      for (uint64_t i = 0; i < n; ++i) { sk.update(base + i); if (i % 3 != 0) sk2.update(base + i + n / 2); }
      for (int t = 0; t < trims; ++t) { sk.trim(); VF_CHECK(sk.get_num_retained() <= (1u << lg_k), "theta-trim", "after trim() " << sk.get_num_retained() << " entries retained, k = " << (1u << lg_k)); }
      if (trims) vf::label(trims == 2 ? "trimmed-twice" : "trimmed");
      check_interval(sk, "theta", sk.get_estimate());
      est_mode = sk.is_estimation_mode();
      if (!est_mode) VF_CHECK(sk.get_estimate() == static_cast<double>(n), "theta-exact", "exact mode estimate " << sk.get_estimate() << " for " << n << " distinct");
      // with p = 1 a sketch that has seen at most k distinct items (in this life) cannot have left exact mode
      if (p == 1.0f && n <= (1ull << lg_k)) VF_CHECK(!est_mode && sk.get_estimate() == static_cast<double>(n) && sk.get_lower_bound(3) == static_cast<double>(n) && sk.get_upper_bound(3) == static_cast<double>(n), "theta-exact-up-to-k",
                                                     "p = 1, " << n << " distinct items <= k = " << (1ull << lg_k) << ": estimation mode " << est_mode << ", estimate " << sk.get_estimate() << " [" << sk.get_lower_bound(3) << ", " << sk.get_upper_bound(3) << "]" << (reused ? " (object reused after reset)" : ""));
      auto cmp = sk.compact();
      check_interval(cmp, "theta compact", cmp.get_estimate());
      VF_CHECK(cmp.is_estimation_mode() == est_mode && cmp.is_empty() == sk.is_empty() && cmp.get_estimate() == sk.get_estimate(), "theta-forms-agree", "compact: estimation mode " << cmp.is_estimation_mode() << " empty " << cmp.is_empty() << " estimate " << cmp.get_estimate() << " vs update form " << est_mode << " " << sk.is_empty() << " " << sk.get_estimate());
      if (!cmp.is_estimation_mode()) VF_CHECK(cmp.get_estimate() == static_cast<double>(n), "theta-exact", "compact exact mode estimate " << cmp.get_estimate() << " for " << n << " distinct");
      if (sk.get_num_retained() == 0 && !sk.is_empty()) vf::label("theta-nothing-retained-not-empty");
      auto u = theta_union::builder().set_lg_k(lg_k).set_resize_factor(rf).build();
      if (reused) { u.update(sk2); u.update(sk); auto first = update_theta_sketch::builder().set_lg_k(lg_k).build(); for (uint64_t i = 0; i < (40ull << lg_k) / 10; ++i) first.update(base + 5555555 + i); u.update(first); u.reset(); }
      u.update(sk); u.update(sk2);
      auto r = u.get_result();
      check_interval(r, "theta union result", r.get_estimate());
      if (!r.is_estimation_mode()) {
        uint64_t distinct = n == 0 ? 0 : std::max<uint64_t>(n, n / 2 + n) - 0;  // [base, base+n) u ([base+n/2, base+n/2+n) minus multiples-of-3 offsets): counted below
        (void)distinct;
        std::set<uint64_t> all; for (uint64_t i = 0; i < n; ++i) { all.insert(base + i); if (i % 3 != 0) all.insert(base + i + n / 2); }
        VF_CHECK(r.get_estimate() == static_cast<double>(all.size()), "theta-union-exact", "exact union estimate " << r.get_estimate() << " for " << all.size() << " distinct");
      }
    } else {
      auto sk = update_tuple_sketch<double>::builder().set_lg_k(lg_k).set_p(p).build();
      for (uint64_t i = 0; i < n; ++i) sk.update(base + i, 1.0);
      for (int t = 0; t < trims; ++t) { sk.trim(); VF_CHECK(sk.get_num_retained() <= (1u << lg_k), "tuple-trim", "after trim() " << sk.get_num_retained() << " entries retained, k = " << (1u << lg_k)); }
      check_interval(sk, "tuple", sk.get_estimate());
      est_mode = sk.is_estimation_mode();
      if (!est_mode) VF_CHECK(sk.get_estimate() == static_cast<double>(n), "tuple-exact", "exact mode estimate " << sk.get_estimate() << " for " << n);
      auto cmp = sk.compact();
      check_interval(cmp, "tuple compact", cmp.get_estimate());
      // every other form of the same state reports the same mode, estimate and bounds; a form that claims exact mode reports n
      auto same_as_update = [&](const auto& o, const char* who) {
        VF_CHECK(o.is_estimation_mode() == est_mode && o.is_empty() == sk.is_empty(), "tuple-forms-agree", who << ": estimation mode " << o.is_estimation_mode() << " / empty " << o.is_empty() << ", the update sketch says " << est_mode << " / " << sk.is_empty() << " (n " << n << ", p " << p << ")");
        if (!o.is_estimation_mode()) VF_CHECK(o.get_estimate() == static_cast<double>(n), "tuple-exact", who << ": exact mode estimate " << o.get_estimate() << " for " << n);
        VF_CHECK(o.get_estimate() == sk.get_estimate(), "tuple-forms-agree", who << ": estimate " << o.get_estimate() << " vs " << sk.get_estimate());
        for (uint8_t sd = 1; sd <= 3; ++sd) VF_CHECK(o.get_lower_bound(sd) == sk.get_lower_bound(sd) && o.get_upper_bound(sd) == sk.get_upper_bound(sd), "tuple-forms-agree", who << ": bounds at " << int(sd) << " [" << o.get_lower_bound(sd) << ", " << o.get_upper_bound(sd) << "] vs [" << sk.get_lower_bound(sd) << ", " << sk.get_upper_bound(sd) << "]");
      };
      same_as_update(cmp, "tuple compact");
      same_as_update(sk.compact(false), "tuple compact unordered");
      compact_tuple_sketch<double> conv(sk, (cfg / 64) & 1);
      check_interval(conv, "tuple converted", conv.get_estimate());
      same_as_update(conv, "tuple converted");
      if (sk.get_num_retained() == 0 && !sk.is_empty()) vf::label("tuple-nothing-retained-not-empty");
      {
        auto u = tuple_union<double>::builder().set_lg_k(lg_k).build();
        u.update(sk); u.update(cmp);
        auto r = u.get_result();
        check_interval(r, "tuple union result", r.get_estimate());
        if (!r.is_estimation_mode()) VF_CHECK(r.get_estimate() == static_cast<double>(n), "tuple-union-exact", "exact union estimate " << r.get_estimate() << " for " << n);
        VF_CHECK(r.is_empty() == (n == 0), "tuple-union-empty", "union result is_empty " << r.is_empty() << " for n " << n);
      }
      {
        auto aod = update_array_of_doubles_sketch::builder(1).set_lg_k(lg_k).set_p(p).build();
        const double one = 1.0;
        for (uint64_t i = 0; i < std::min<uint64_t>(n, 3000); ++i) aod.update(base + i, &one);
        const uint64_t m = std::min<uint64_t>(n, 3000);
        check_interval(aod, "aod", aod.get_estimate());
        if (!aod.is_estimation_mode()) VF_CHECK(aod.get_estimate() == static_cast<double>(m), "tuple-exact", "aod exact mode estimate " << aod.get_estimate() << " for " << m);
        auto ac = aod.compact();
        check_interval(ac, "aod compact", ac.get_estimate());
        VF_CHECK(ac.is_estimation_mode() == aod.is_estimation_mode() && ac.is_empty() == aod.is_empty() && ac.get_estimate() == aod.get_estimate(), "tuple-forms-agree",
                 "aod compact: estimation mode " << ac.is_estimation_mode() << " empty " << ac.is_empty() << " estimate " << ac.get_estimate() << " vs update form " << aod.is_estimation_mode() << " " << aod.is_empty() << " " << aod.get_estimate());
        if (!ac.is_estimation_mode()) VF_CHECK(ac.get_estimate() == static_cast<double>(m), "tuple-exact", "aod compact exact mode estimate " << ac.get_estimate() << " for " << m);
      }
    }
  } else if (fam == 2) {  // HLL
    uint8_t lg_k = static_cast<uint8_t>(4 + cfg % 11);
    target_hll_type t = static_cast<target_hll_type>((cfg / 16) % 3);
    hll_sketch sk(lg_k, t), sk2(lg_k, t);
    for (uint64_t i = 0; i < n; ++i) { sk.update(base + i); if (i & 1) sk2.update(base + n + i); }
    check_interval(sk, "hll", sk.get_estimate());
    double ce = sk.get_composite_estimate();
    VF_CHECK(std::isfinite(ce) && ce >= 0, "hll-composite-finite", "composite " << ce);
    auto bytes = sk.serialize_compact();
    int mode = bytes[7] & 3;
    est_mode = mode == 2;
    if (mode < 2 && n > 0) {
      // coupon modes: documented small-range accuracy (coupon RSE 0.409 / 2^13 ~ 5e-5); 1e-3 leaves 20 sigma. The sketch can only
      // count distinct COUPONS (26 address bits + value): two items may share one (about n^2 / 2^28 times per sketch), so the reference
      // count is the number of distinct coupons of the inputs, computed with the independent reference hash
      std::set<uint32_t> coupons;
      for (uint64_t i = 0; i < n; ++i) { uint32_t c; if (vf::ref_hll_item_coupon(vf::Item{vf::T_U64, base + i}, c)) coupons.insert(c); }
      const double d = static_cast<double>(coupons.size());
      if (coupons.size() != n) vf::label("hll-coupon-collision");
      VF_CHECK(std::fabs(sk.get_estimate() - d) <= 1e-3 * d + 1e-6, "hll-coupon-mode-accuracy", "coupon-mode estimate " << sk.get_estimate() << " for " << n << " distinct items with " << coupons.size() << " distinct coupons");
    }
    if (n == 0) VF_CHECK(sk.get_estimate() == 0.0, "hll-empty", "empty estimate");
    if (mode == 2) {
      // estimate can never be below the number of registers that were hit
      uint32_t k = 1u << lg_k;
      hll_sketch s8(sk, HLL_8);
      auto b8 = s8.serialize_updatable();
      uint32_t nz = 0; for (uint32_t i = 0; i < k; ++i) nz += b8[40 + i] != 0;
      VF_CHECK(ce >= nz * (1 - 1e-9), "hll-composite-ge-nonzero", "composite estimate " << ce << " below the number of non-zero registers " << nz);
    }
    hll_union u(lg_k);
    u.update(sk); u.update(sk2);
    check_interval(u, "hll union", u.get_estimate());
    hll_sketch r = u.get_result(t);
    check_interval(r, "hll union result", r.get_estimate());
    // second level: the (out-of-order) result of the first union goes into a union of smaller or equal lg_max_k, as the first
    // HLL-mode input (optionally behind a few direct items, so that the gadget is in LIST mode when it arrives)
    {
      uint8_t lg2 = static_cast<uint8_t>(std::max<int>(4, static_cast<int>(lg_k) - (cfg / 64) % 4));
      hll_union u2(lg2);
      if ((cfg / 256) & 1) for (uint64_t i = 0; i < 3; ++i) u2.update(base + i);
      u2.update(r);
      check_interval(u2, "hll second-level union", u2.get_estimate());
      for (int tt = 0; tt < 3; ++tt) {
        hll_sketch r2 = u2.get_result(static_cast<target_hll_type>(tt));
        check_interval(r2, "hll second-level union result", r2.get_estimate());
        VF_CHECK(r2.is_empty() == (n == 0 && !((cfg / 256) & 1)), "hll-second-level-empty", "second-level result is_empty " << r2.is_empty() << " for n " << n);
      }
      if (lg2 < lg_k) vf::label("hll-second-level-downsampled");
    }
    for (uint8_t sd = 1; sd <= 3; ++sd) {
      double a = hll_sketch::get_rel_err(true, false, lg_k, sd), b = hll_sketch::get_rel_err(false, false, lg_k, sd);
      double c = hll_sketch::get_rel_err(true, true, lg_k, sd), d = hll_sketch::get_rel_err(false, true, lg_k, sd);
      VF_CHECK(std::isfinite(a) && std::isfinite(b) && std::isfinite(c) && std::isfinite(d) && std::fabs(a) < 1.5 && std::fabs(b) < 1.5, "hll-rel-err-finite", "rel err");
    }
  } else {  // CPC
    uint8_t lg_k = static_cast<uint8_t>(4 + cfg % 11);
    cpc_sketch sk(lg_k), sk2(lg_k);
    for (uint64_t i = 0; i < n; ++i) { sk.update(base + i); if (i & 1) sk2.update(base + n + i); }
    double est = sk.get_estimate();
    double plb = est, pub = est;
    for (unsigned kp = 1; kp <= 3; ++kp) {
      double lb = sk.get_lower_bound(kp), ub = sk.get_upper_bound(kp);
      VF_CHECK(lb <= est && est <= ub && lb <= plb && ub >= pub, "cpc-bounds", "cpc lb " << lb << " est " << est << " ub " << ub << " kappa " << kp);
      plb = lb; pub = ub;
    }
    VF_CHECK(est >= sk.get_num_coupons() * (1 - 1e-12), "cpc-est-ge-coupons", "HIP estimate " << est << " below coupon count " << sk.get_num_coupons());
    if (n == 0) VF_CHECK(est == 0.0, "cpc-empty", "empty estimate");
    // no numeric small-range accuracy is documented for CPC (HIP estimate with (row,col) collisions): only est >= coupons is asserted
    cpc_union u(lg_k); u.update(sk); u.update(sk2);
    cpc_sketch r = u.get_result();
    double re = r.get_estimate(); plb = re; pub = re;
    for (unsigned kp = 1; kp <= 3; ++kp) {
      double lb = r.get_lower_bound(kp), ub = r.get_upper_bound(kp);
      VF_CHECK(lb <= re && re <= ub && lb <= plb && ub >= pub, "cpc-union-bounds", "cpc union lb " << lb << " est " << re << " ub " << ub << " kappa " << kp);
      plb = lb; pub = ub;
    }
    est_mode = n * 32 >= 3 * (1ull << lg_k);
  }
  static const char* names[] = {"theta", "tuple", "hll", "cpc"};
  vf::label(std::string("family:") + names[fam]);
  if (est_mode) { vf::label("estimation-mode"); vf::nontrivial(); }
}

rc::Gen<Case> gen_sketch() {
  using namespace vf;
  auto nGen = rc::gen::weightedOneOf<int64_t>({{1, range(0, 3)}, {3, range(4, 300)}, {4, range(300, 20000)}, {1, range(20000, 399999)}});
  return make_case({{"fam", range(0, 3)}, {"cfg", range(0, 4095)}, {"n", nGen}, {"base", range(1, 1 << 30)}}, rc::gen::just(std::vector<Op>{}));
}

}  // namespace

int main(int argc, char** argv) {
  std::vector<vf::Sub> subs;
  vf::Sub b{"binom_grid", nullptr, prop_binom, 1.0, -1, enum_binom};
  vf::Sub i{"icon_grid", nullptr, prop_icon, 1.0, -1, enum_icon};
  subs.push_back(b); subs.push_back(i);
  subs.push_back({"sketch_bounds", gen_sketch, prop_sketch, 1.0});
  return vf::main_driver(argc, argv, "C06", "c06_bounds",
                         "binom_grid: every num_samples in 0..400 plus log-sampled values to 2^30, each against 610+ theta values (log grid 1e-9..1 and the "
                         "neighbourhoods of the internal switch points) x 1..3 std devs; icon_grid: every lg_k 4..26 x dense/log-sampled coupon counts incl. the "
                         "polynomial/exponential switch; sketch_bounds: generated (family, configuration, cardinality) for Theta/Tuple/HLL/CPC sketches and their "
                         "union results. non-trivial = a grid row with n >= 2 / any icon row / a sketch in estimation mode; distinct = distinct case text",
                         subs);
}
