// vf/theta_model.hpp — reference model of Theta sketches as (empty, theta, sorted set of hashes) and of the three set
// operations with the documented empty-set rules. Used by C02 (and the key part of C13).
#ifndef VF_THETA_MODEL_HPP
#define VF_THETA_MODEL_HPP
#include <algorithm>
#include <cstdint>
#include <vector>

namespace vf {

const uint64_t TH_MAX = 0x7fffffffffffffffull;

struct MSk {
  bool empty = true;
  uint64_t theta = TH_MAX;
  std::vector<uint64_t> set;  // sorted ascending, all < theta
};

inline MSk m_restrict(const MSk& a, uint64_t theta) {
  MSk r; r.empty = a.empty; r.theta = std::min(a.theta, theta);
  for (auto h : a.set) if (h < r.theta) r.set.push_back(h);
  return r;
}

// Union of the non-empty inputs presented so far. theta0 = starting theta of the union object (from its p), k its nominal size.
inline MSk m_union(const std::vector<const MSk*>& inputs, uint64_t theta0, uint32_t k) {
  MSk r; r.empty = true; r.theta = theta0;
  uint64_t tmin = theta0;
  std::vector<uint64_t> all;
  for (const MSk* s : inputs) {
    if (s->empty) continue;
    r.empty = false;
    tmin = std::min(tmin, s->theta);
    all.insert(all.end(), s->set.begin(), s->set.end());
  }
  std::sort(all.begin(), all.end());
  all.erase(std::unique(all.begin(), all.end()), all.end());
  std::vector<uint64_t> v;
  for (auto h : all) if (h < tmin) v.push_back(h);
  if (v.size() > k) { r.theta = v[k]; v.resize(k); } else r.theta = tmin;
  r.set = v;
  if (r.empty) r.set.clear();
  return r;
}

// Stateful intersection model following the documented rules in presentation order:
// any empty input makes the result empty (theta = MAX) for good; otherwise theta = min, set = common hashes below theta;
// a result with no entries at theta = MAX is the (exact) empty set and is absorbing.
struct MInter {
  bool valid = false;
  MSk st;  // st.empty=false, theta=MAX initially ("universe")
  MInter() { st.empty = false; st.theta = TH_MAX; }
  void update(const MSk& s) {
    if (st.empty) return;
    if (s.empty) { st.empty = true; st.theta = TH_MAX; st.set.clear(); valid = true; return; }
    st.theta = std::min(st.theta, s.theta);
    if (!valid) {
      valid = true;
      st.set.clear();
      for (auto h : s.set) if (h < st.theta) st.set.push_back(h);
      return;
    }
    bool had_entries = !st.set.empty();
    std::vector<uint64_t> out;
    for (auto h : st.set) if (h < st.theta && std::binary_search(s.set.begin(), s.set.end(), h)) out.push_back(h);
    st.set = out;
    // exact empty: only reached by an actual intersection step that found no match (documented Java-compatible rule)
    if (had_entries && !s.set.empty() && st.set.empty() && st.theta == TH_MAX) st.empty = true;
  }
};

inline MSk m_a_not_b(const MSk& a, const MSk& b) {
  MSk r;
  if (a.empty) { r.empty = true; r.theta = TH_MAX; return r; }
  r.empty = false;
  r.theta = std::min(a.theta, b.empty ? TH_MAX : b.theta);
  for (auto h : a.set) if (h < r.theta && !(!b.empty && std::binary_search(b.set.begin(), b.set.end(), h))) r.set.push_back(h);
  if (r.set.empty() && r.theta == TH_MAX) r.empty = true;
  return r;
}

}  // namespace vf
#endif
