// C10 (a) — the bytes written for any sketch follow the documented layout of its family: an INDEPENDENT reader
// (vf/c10_layout.hpp, written from the layout comments / published formats only, never calling the library's
// deserializers) recovers exactly the logical content the public API reports for the same object.
// States come from vf/families.hpp recipes (22 concrete types); the concrete sketch object behind each Obj is
// queried directly. Both directions: everything the API reports is in the image, and the image holds nothing
// else (consumed == image size, unused bytes zero, counts equal, items equal in the documented order).
#include "vf/families.hpp"
#include "vf/c10_layout.hpp"
#include "vf/ref_hash.hpp"
#include <iomanip>

using vf::Case; using vf::Op;
namespace fam = vf::fam;
namespace L = vf::c10;

namespace {

std::string hex(const fam::Bytes& b, size_t max = 112) {
  static const char* d = "0123456789abcdef"; std::string s;
  for (size_t i = 0; i < b.size() && i < max; ++i) { s += d[b[i] >> 4]; s += d[b[i] & 15]; if ((i & 7) == 7) s += ' '; }
  if (b.size() > max) s += "...";
  return s;
}

// value of "<label> : value" in a to_string() summary (label compared after trimming); found=false if absent
bool field(const std::string& text, const std::string& label, std::string& out) {
  std::istringstream in(text); std::string line;
  while (std::getline(in, line)) {
    size_t c = line.find(':'); if (c == std::string::npos) continue;
    std::string l = line.substr(0, c), v = line.substr(c + 1);
    auto trim = [](std::string& s) { size_t a = s.find_first_not_of(" \t"), b = s.find_last_not_of(" \t\r"); s = a == std::string::npos ? std::string() : s.substr(a, b - a + 1); };
    trim(l); trim(v);
    if (l == label) { out = v; return true; }
  }
  return false;
}
std::string fld(const std::string& text, const std::string& label) { std::string v; if (!field(text, label, v)) return "<absent:" + label + ">"; return v; }
template <typename V> std::string fmt(const V& v) { std::ostringstream o; o << v; return o.str(); }  // the library's own default stream formatting
std::string tf(bool b) { return b ? "true" : "false"; }

struct Ctx { const char* fn; int v; const fam::Bytes& img; std::string who() const { return std::string(fn) + " variant " + std::to_string(v); } };

// the reader itself: every strict prefix of a valid image is outside the layout and must be rejected with std::runtime_error (each prefix is copied
// into an exact-size heap block so that ASan sees any read past its end). All prefixes of small images, a case-derived sample of larger ones.
template <typename F> void prefixes_rejected(const Ctx& c, F f, size_t optional_tail = 0) {
  const size_t n = c.img.size() - optional_tail; std::vector<size_t> cuts;
  if (n <= 96) for (size_t i = 0; i < n; ++i) cuts.push_back(i);
  else { for (size_t i = 0; i < 24; ++i) cuts.push_back(i); for (size_t j = 0; j < 16; ++j) cuts.push_back(24 + vf::mix64(n * 131 + j) % (n - 24)); cuts.push_back(n - 1); }
  for (size_t k : cuts) {
    uint8_t* blk = static_cast<uint8_t*>(malloc(k ? k : 1)); std::memcpy(blk, c.img.data(), k);
    bool threw = false;
    try { (void)f(blk, k); } catch (const std::runtime_error&) { threw = true; } catch (...) { free(blk); throw; }
    free(blk);
    VF_CHECK(threw, "reader-accepts-prefix", c.who() << ": the independent reader accepts the first " << k << " of " << c.img.size() << " bytes as a complete image  image[" << c.img.size() << "]=" << hex(c.img));
    vf::count("prefixes-rejected");
  }
}
template <typename F> auto decode(const Ctx& c, F f, bool prefixes = true) -> decltype(f(c.img.data(), c.img.size())) {
  vf::count("checks");
  try {
    auto im = f(c.img.data(), c.img.size());
    if (prefixes) prefixes_rejected(c, f);
    return im;
  } catch (const std::runtime_error& e) {
    vf::fail("layout-violation", c.who() + ": the independent reader rejects the image: " + e.what() + "  image[" + std::to_string(c.img.size()) + "]=" + hex(c.img));
  }
}
#define WHO c.who() << ": "
#define IMG "  image[" << c.img.size() << "]=" << hex(c.img)
template <typename IM> void common(const Ctx& c, const IM& im) {
  VF_CHECK(im.consumed == c.img.size(), "image-size", WHO << "the documented layout accounts for " << im.consumed << " bytes, the image has " << c.img.size() << IMG);
}
template <typename IM> void common_u(const Ctx& c, const IM& im) {
  common(c, im);
  VF_CHECK(im.unused_nonzero == 0, "unused-bytes", WHO << im.unused_nonzero << " byte(s) the layout documents as unused are not zero" << IMG);
}
void state(const char* s) { vf::label(std::string("state:") + s); }

// Legacy forms of the compact Theta image (serial version 1; serial version 2 with 1, 2 or 3 preamble longs - the Java library before the
// v3 format; the reader claims to accept them and the repository ships four such files). They are derived from the current state: always
// ordered, no empty flag (empty is "no entries and theta = 1.0"), v1 without a seed hash. Every reader must decode them to the same sketch.
void chk_theta_legacy_forms(const Ctx& c, fam::ThetaObj& o) {
  const auto& sk = o.sk;
  const uint64_t MAXT = datasketches::theta_constants::MAX_THETA;
  if (!sk.is_empty() && sk.get_num_retained() == 0 && sk.get_theta64() == MAXT) return;  // not representable without an empty flag
  datasketches::compact_theta_sketch ordered(sk, true);
  const std::string want = fam::ThetaObj::obs(ordered);
  std::vector<uint64_t> e; for (auto it = ordered.begin(); it != ordered.end(); ++it) e.push_back(*it);
  const uint64_t theta = sk.is_empty() ? MAXT : sk.get_theta64();
  const uint16_t sh = sk.get_seed_hash();
  auto put32 = [](fam::Bytes& b, uint32_t v) { for (int i = 0; i < 4; ++i) b.push_back(static_cast<uint8_t>(v >> (8 * i))); };
  auto put64 = [](fam::Bytes& b, uint64_t v) { for (int i = 0; i < 8; ++i) b.push_back(static_cast<uint8_t>(v >> (8 * i))); };
  struct Form { const char* name; fam::Bytes img; };
  std::vector<Form> forms;
  {  // serial version 1: 3 preamble longs, no seed hash
    fam::Bytes b{3, 1, 3, 0, 0, 0, 0, 0};
    put32(b, static_cast<uint32_t>(e.size())); put32(b, 0); put64(b, theta); for (auto h : e) put64(b, h);
    forms.push_back({"serial version 1", b});
  }
  {  // serial version 2, 3 preamble longs
    fam::Bytes b{3, 2, 3, 0, 0, 0, static_cast<uint8_t>(sh & 0xff), static_cast<uint8_t>(sh >> 8)};
    put32(b, static_cast<uint32_t>(e.size())); put32(b, 0); put64(b, theta); for (auto h : e) put64(b, h);
    forms.push_back({"serial version 2 / 3 preamble longs", b});
  }
  if (theta == MAXT && !e.empty()) {  // exact mode: 2 preamble longs
    fam::Bytes b{2, 2, 3, 0, 0, 0, static_cast<uint8_t>(sh & 0xff), static_cast<uint8_t>(sh >> 8)};
    put32(b, static_cast<uint32_t>(e.size())); put32(b, 0); for (auto h : e) put64(b, h);
    forms.push_back({"serial version 2 / 2 preamble longs", b});
  }
  if (sk.is_empty()) forms.push_back({"serial version 2 / 1 preamble long", fam::Bytes{1, 2, 3, 0, 0, 0, static_cast<uint8_t>(sh & 0xff), static_cast<uint8_t>(sh >> 8)}});
  for (const Form& f : forms) {
    std::string o1, o2, o3;
    try {
      o1 = fam::ThetaObj::obs(datasketches::compact_theta_sketch::deserialize(f.img.data(), f.img.size(), o.seed));
      std::istringstream is(std::string(f.img.begin(), f.img.end()), std::ios::binary);
      o2 = fam::ThetaObj::obs(datasketches::compact_theta_sketch::deserialize(is, o.seed));
      o3 = fam::ThetaObj::obs(datasketches::wrapped_compact_theta_sketch::wrap(f.img.data(), f.img.size(), o.seed));
    } catch (const std::exception& ex) {
      VF_CHECK(false, "theta-legacy-form", WHO << "the same content as a '" << f.name << "' image is refused: " << ex.what() << "  image[" << f.img.size() << "]=" << hex(f.img));
    }
    VF_CHECK(o1 == want, "theta-legacy-form", WHO << "the same content as a '" << f.name << "' image decodes (bytes) to a different sketch:\n  " << o1.substr(0, 400) << "\n  expected " << want.substr(0, 400));
    VF_CHECK(o2 == want, "theta-legacy-form", WHO << "the same content as a '" << f.name << "' image decodes (stream) to a different sketch:\n  " << o2.substr(0, 400) << "\n  expected " << want.substr(0, 400));
    VF_CHECK(o3 == want, "theta-legacy-form", WHO << "the same content as a '" << f.name << "' image is wrapped as a different sketch:\n  " << o3.substr(0, 400) << "\n  expected " << want.substr(0, 400));
    vf::count("theta-legacy-forms-checked");
  }
  if (!sk.is_empty() && sk.get_num_retained() == 0) vf::label("theta-legacy:estimating-nothing-retained");
}

// ---------------------------------------------------------------- theta / tuple / aod
void chk_theta(const Ctx& c, fam::ThetaObj& o) {
  auto im = decode(c, L::decode_theta); const auto& sk = o.sk;
  common_u(c, im);
  VF_CHECK(im.pad_bits_nonzero == 0, "theta-pad-bits", WHO << "padding bits after the packed deltas are not zero" << IMG);
  VF_CHECK(im.flags.empty == sk.is_empty(), "theta-empty", WHO << "empty flag " << im.flags.empty << " vs is_empty " << sk.is_empty() << IMG);
  VF_CHECK(im.flags.ordered == sk.is_ordered(), "theta-ordered", WHO << "ordered flag " << im.flags.ordered << " vs is_ordered " << sk.is_ordered() << IMG);
  VF_CHECK(im.seed_hash == sk.get_seed_hash() && im.seed_hash == vf::ref_seed_hash(o.seed), "theta-seed-hash", WHO << "seed hash in image " << im.seed_hash << ", API " << sk.get_seed_hash() << ", published definition " << vf::ref_seed_hash(o.seed));
  VF_CHECK(im.has_theta == sk.is_estimation_mode(), "theta-has-theta", WHO << "theta field present " << im.has_theta << " vs is_estimation_mode " << sk.is_estimation_mode() << IMG);
  if (!sk.is_empty()) VF_CHECK(im.theta == sk.get_theta64(), "theta-theta", WHO << "theta in image " << im.theta << " vs get_theta64 " << sk.get_theta64() << IMG);
  VF_CHECK(im.entries.size() == sk.get_num_retained(), "theta-count", WHO << im.entries.size() << " hashes in the image vs get_num_retained " << sk.get_num_retained() << IMG);
  std::vector<uint64_t> api; for (auto it = sk.begin(); it != sk.end(); ++it) api.push_back(*it);
  VF_CHECK(api == im.entries, "theta-entries", WHO << "hashes decoded from the image differ from the iterated hashes (same order expected)" << IMG);
  vf::label("theta:v" + std::to_string(im.ser_ver) + "/pre" + std::to_string(im.pre_longs));
  state(sk.is_empty() ? "theta/empty" : sk.is_estimation_mode() ? "theta/estimation" : api.size() == 1 ? "theta/single" : "theta/exact");
  if (im.ser_ver == 4) vf::count("theta-v4-entries", im.entries.size());
  else chk_theta_legacy_forms(c, o);
}
void chk_tuple(const Ctx& c, fam::TupleObj& o) {
  auto im = decode(c, L::decode_tuple_double); const auto& sk = o.sk;
  common_u(c, im);
  VF_CHECK(im.flags.empty == sk.is_empty(), "tuple-empty", WHO << "empty flag " << im.flags.empty << " vs is_empty " << sk.is_empty() << IMG);
  VF_CHECK(im.flags.ordered == sk.is_ordered(), "tuple-ordered", WHO << "ordered flag " << im.flags.ordered << " vs is_ordered " << sk.is_ordered() << IMG);
  VF_CHECK(im.seed_hash == sk.get_seed_hash() && im.seed_hash == vf::ref_seed_hash(o.seed), "tuple-seed-hash", WHO << "seed hash in image " << im.seed_hash << ", API " << sk.get_seed_hash() << ", published definition " << vf::ref_seed_hash(o.seed));
  VF_CHECK(im.has_theta == sk.is_estimation_mode(), "tuple-has-theta", WHO << "theta field present " << im.has_theta << " vs is_estimation_mode " << sk.is_estimation_mode() << IMG);
  if (!sk.is_empty()) VF_CHECK(im.theta == sk.get_theta64(), "tuple-theta", WHO << "theta in image " << im.theta << " vs get_theta64 " << sk.get_theta64() << IMG);
  VF_CHECK(im.entries.size() == sk.get_num_retained(), "tuple-count", WHO << im.entries.size() << " entries in the image vs get_num_retained " << sk.get_num_retained() << IMG);
  std::vector<std::pair<uint64_t, double>> api; for (const auto& kv : sk) api.emplace_back(kv.first, kv.second);
  VF_CHECK(api == im.entries, "tuple-entries", WHO << "(hash, summary) pairs decoded from the image differ from the iterated pairs" << IMG);
  state(sk.is_empty() ? "tuple/empty" : sk.is_estimation_mode() ? "tuple/estimation" : api.size() == 1 ? "tuple/single" : "tuple/exact");
}
void chk_aod(const Ctx& c, fam::AodObj& o) {
  auto im = decode(c, L::decode_aod); const auto& sk = o.sk;
  common_u(c, im);
  VF_CHECK(im.f_empty == sk.is_empty(), "aod-empty", WHO << "empty flag " << im.f_empty << " vs is_empty " << sk.is_empty() << IMG);
  VF_CHECK(im.f_ordered == sk.is_ordered(), "aod-ordered", WHO << "ordered flag " << im.f_ordered << " vs is_ordered " << sk.is_ordered() << IMG);
  VF_CHECK(im.f_has_entries == (sk.get_num_retained() > 0), "aod-has-entries", WHO << "has-entries flag " << im.f_has_entries << " vs get_num_retained " << sk.get_num_retained() << IMG);
  VF_CHECK(im.num_values == sk.get_num_values(), "aod-num-values", WHO << "number of values in image " << im.num_values << " vs API " << int(sk.get_num_values()) << IMG);
  VF_CHECK(im.seed_hash == sk.get_seed_hash() && im.seed_hash == vf::ref_seed_hash(o.seed), "aod-seed-hash", WHO << "seed hash in image " << im.seed_hash << ", API " << sk.get_seed_hash() << ", published definition " << vf::ref_seed_hash(o.seed));
  if (!sk.is_empty()) VF_CHECK(im.theta == sk.get_theta64(), "aod-theta", WHO << "theta in image " << im.theta << " vs get_theta64 " << sk.get_theta64() << IMG);
  VF_CHECK(im.keys.size() == sk.get_num_retained(), "aod-count", WHO << im.keys.size() << " entries in the image vs get_num_retained " << sk.get_num_retained() << IMG);
  std::vector<uint64_t> keys; std::vector<std::vector<double>> vals;
  for (const auto& kv : sk) { keys.push_back(kv.first); std::vector<double> row; for (uint8_t i = 0; i < kv.second.size(); ++i) row.push_back(kv.second[i]); vals.push_back(row); }
  VF_CHECK(keys == im.keys, "aod-keys", WHO << "hashes decoded from the image differ from the iterated hashes" << IMG);
  VF_CHECK(vals == im.values, "aod-values", WHO << "value rows decoded from the image differ from the iterated rows" << IMG);
  state(sk.is_empty() ? "aod/empty" : sk.is_estimation_mode() ? "aod/estimation" : "aod/exact");
}

// ---------------------------------------------------------------- HLL
void chk_hll(const Ctx& c, fam::HllObj& o) {
  // shared reader (ignores the zero aux padding of updatable images): no prefix self-test
  vf::HllImage im = decode(c, vf::parse_hll_image, false); const auto& sk = o.sk;
  {
    // the shared reader leaves the aux area of an updatable HLL_4 image without exceptions unaccounted: the published updatable form reserves
    // 4 << LG_AUX_ARR_INTS[lg_k] zero bytes for it (published table below)
    static const int lg_aux[] = {0, 2, 2, 2, 2, 2, 2, 3, 3, 3, 4, 4, 5, 5, 6, 7, 8, 9, 10, 11, 12, 13, 14, 15, 16, 17, 18};
    size_t expect = im.consumed;
    if (im.mode == 2 && im.type == 0 && !im.compact_flag && im.aux_count == 0 && im.lg_k <= 26) {
      size_t pad = size_t(4) << lg_aux[im.lg_k];
      for (size_t i = im.consumed; i < c.img.size() && i < im.consumed + pad; ++i) VF_CHECK(c.img[i] == 0, "hll-empty-aux", WHO << "the empty aux area of the updatable image is not zero at offset " << i << IMG);
      expect += pad; vf::label("hll:empty-aux-area");
    }
    VF_CHECK(expect == c.img.size(), "image-size", WHO << "the documented layout accounts for " << expect << " bytes, the image has " << c.img.size() << IMG);
  }
  static const char* modes[] = {"LIST", "SET", "HLL"}; static const char* types[] = {"HLL_4", "HLL_6", "HLL_8"};
  std::string ts(sk.to_string(true, true, true, false).c_str());
  VF_CHECK(im.lg_k == sk.get_lg_config_k(), "hll-lgk", WHO << "lg_k in image " << im.lg_k << " vs API " << int(sk.get_lg_config_k()) << IMG);
  VF_CHECK(im.type == static_cast<int>(sk.get_target_type()), "hll-type", WHO << "target type in image " << im.type << " vs API " << int(sk.get_target_type()) << IMG);
  VF_CHECK(fld(ts, "Hll Target") == types[im.type], "hll-type-str", WHO << "target type in image " << types[im.type] << " vs to_string " << fld(ts, "Hll Target"));
  VF_CHECK(fld(ts, "Current Mode") == modes[im.mode], "hll-mode", WHO << "mode in image " << modes[im.mode] << " vs to_string " << fld(ts, "Current Mode") << IMG);
  VF_CHECK(im.empty_flag == sk.is_empty(), "hll-empty", WHO << "empty flag " << im.empty_flag << " vs is_empty " << sk.is_empty() << IMG);
  VF_CHECK(im.compact_flag == (c.v == 0), "hll-compact-flag", WHO << "compact flag " << im.compact_flag << " in the " << (c.v == 0 ? "compact" : "updatable") << " form" << IMG);
  VF_CHECK(fld(ts, "OutOfOrder flag") == tf(im.ooo_flag), "hll-ooo", WHO << "out-of-order flag in image " << im.ooo_flag << " vs to_string " << fld(ts, "OutOfOrder flag") << IMG);
  // detail section of to_string: coupons (index key slot value) or registers (slot value)
  std::set<uint32_t> coupons; std::vector<uint8_t> regs(size_t(1) << im.lg_k, 0); size_t detail_rows = 0;
  {
    // fixed-width records: the value column is streamed as a raw byte (uint8_t), so it can be any character including a newline;
    // coupons: index(10) key(10) slot(10) value(6) '\n'; registers: slot(10) value(6) '\n'
    size_t p = ts.find("### HLL sketch data detail"); VF_CHECK(p != std::string::npos, "hll-detail-parse", WHO << "no detail section in to_string");
    p = ts.find('\n', p) + 1; p = ts.find('\n', p) + 1;  // section title, column header
    const size_t rec = im.mode == 2 ? 17 : 37, voff = im.mode == 2 ? 10 : 30;
    while (ts.compare(p, 9, "### End H") != 0) {
      VF_CHECK(p + rec <= ts.size() && ts[p + rec - 1] == '\n', "hll-detail-parse", WHO << "unexpected detail record at offset " << p << ": '" << ts.substr(p, 40) << "'");
      uint8_t val = static_cast<uint8_t>(ts[p + voff]);
      if (im.mode == 2) { unsigned long slot = std::stoul(ts.substr(p, 10)); VF_CHECK(slot < regs.size(), "hll-detail-parse", WHO << "slot " << slot << " out of range"); regs[slot] = val; }
      else { unsigned long key = std::stoul(ts.substr(p + 10, 10)), slot = std::stoul(ts.substr(p + 20, 10)); VF_CHECK(slot == (key & ((1ul << im.lg_k) - 1)), "hll-detail-slot", WHO << "listed slot " << slot << " is not the low lg_k bits of key " << key); coupons.insert((static_cast<uint32_t>(val) << 26) | static_cast<uint32_t>(key)); }
      ++detail_rows; p += rec;
    }
  }
  if (im.mode != 2) {
    VF_CHECK(fld(ts, "Coupon count") == std::to_string(im.coupons.size()), "hll-coupon-count", WHO << im.coupons.size() << " coupons in the image vs to_string " << fld(ts, "Coupon count") << IMG);
    VF_CHECK(coupons == im.coupons && detail_rows == im.coupons.size(), "hll-coupons", WHO << "coupon set decoded from the image (" << im.coupons.size() << ") differs from the coupons the sketch lists (" << detail_rows << ")" << IMG);
    for (uint32_t cp : im.coupons) VF_CHECK((cp >> 26) >= 1 && (cp >> 26) <= 63, "hll-coupon-value", WHO << "coupon " << cp << " has a value outside 1..63");
    vf::label(std::string("hll:") + modes[im.mode] + (c.v ? "/updatable" : "/compact"));
    state(im.coupons.empty() ? "hll/empty" : "hll/exact");
  } else {
    VF_CHECK(regs == im.regs, "hll-registers", WHO << "registers decoded from the image differ from the registers the sketch lists" << IMG);
    VF_CHECK(fld(ts, "CurMin") == std::to_string(im.cur_min), "hll-curmin", WHO << "cur_min in image " << im.cur_min << " vs to_string " << fld(ts, "CurMin") << IMG);
    VF_CHECK(fld(ts, "NumAtCurMin") == std::to_string(im.num_at_cur_min), "hll-numatcurmin", WHO << "num_at_cur_min in image " << im.num_at_cur_min << " vs to_string " << fld(ts, "NumAtCurMin") << IMG);
    uint32_t at_min = 0; double kxq0 = 0, kxq1 = 0; uint8_t rmin = 255;
    for (uint8_t r : im.regs) { if (r == im.cur_min) ++at_min; if (r < rmin) rmin = r; if (r < 32) kxq0 += std::ldexp(1.0, -r); else kxq1 += std::ldexp(1.0, -r); }
    VF_CHECK(at_min == im.num_at_cur_min, "hll-numatcurmin-regs", WHO << "num_at_cur_min " << im.num_at_cur_min << " but " << at_min << " registers hold cur_min " << im.cur_min << IMG);
    if (im.type == 0) VF_CHECK(rmin >= im.cur_min, "hll-curmin-regs", WHO << "a register (" << int(rmin) << ") is below cur_min " << im.cur_min);
    VF_CHECK(std::fabs(kxq0 - im.kxq0) <= 1e-12 * kxq0 + 1e-300 && std::fabs(kxq1 - im.kxq1) <= 1e-12 * kxq1 + 1e-300, "hll-kxq", WHO << "kxq0/kxq1 in image " << im.kxq0 << "/" << im.kxq1 << " vs recomputed from the registers " << kxq0 << "/" << kxq1);
    VF_CHECK(fld(ts, "HipAccum") == fmt(im.hip) && fld(ts, "KxQ0") == fmt(im.kxq0) && fld(ts, "KxQ1") == fmt(im.kxq1), "hll-hip-str", WHO << "hip/kxq0/kxq1 in image " << im.hip << "/" << im.kxq0 << "/" << im.kxq1 << " vs to_string " << fld(ts, "HipAccum") << "/" << fld(ts, "KxQ0") << "/" << fld(ts, "KxQ1"));
    if (!im.ooo_flag) VF_CHECK(im.hip == sk.get_estimate(), "hll-hip", WHO << "hip accumulator in image " << fam::num(im.hip) << " vs get_estimate " << fam::num(sk.get_estimate()));
    if (im.type == 0) { std::string aux = fld(ts, "Aux table?"); VF_CHECK((aux == "true") == (im.aux_count > 0) || (aux == "true" && im.aux_count == 0), "hll-aux", WHO << "aux count in image " << im.aux_count << " vs to_string aux table " << aux); if (im.aux_count) vf::label("hll:aux-exceptions"); }
    vf::label(std::string("hll:HLL/") + types[im.type] + (c.v ? "/updatable" : "/compact"));
    if (im.cur_min > 0) vf::label("hll:curmin>0");
    if (im.ooo_flag) vf::label("hll:out-of-order");
    state("hll/estimation");
  }
}

// ---------------------------------------------------------------- CPC (preamble)
void chk_cpc(const Ctx& c, fam::CpcObj& o) {
  auto im = decode(c, L::decode_cpc); const auto& sk = o.sk;
  common(c, im);
  std::string ts(sk.to_string().c_str());
  VF_CHECK(im.lg_k == sk.get_lg_k(), "cpc-lgk", WHO << "lg_k in image " << im.lg_k << " vs API " << int(sk.get_lg_k()) << IMG);
  VF_CHECK(im.seed_hash == vf::ref_seed_hash(o.seed), "cpc-seed-hash", WHO << "seed hash in image " << im.seed_hash << " vs published definition " << vf::ref_seed_hash(o.seed) << IMG);
  { std::ostringstream h; h << std::hex << im.seed_hash; VF_CHECK(fld(ts, "seed hash") == h.str(), "cpc-seed-hash-str", WHO << "seed hash in image " << h.str() << " vs to_string " << fld(ts, "seed hash")); }
  VF_CHECK(im.empty == sk.is_empty(), "cpc-empty", WHO << "image without table and window (empty) " << im.empty << " vs is_empty " << sk.is_empty() << IMG);
  VF_CHECK(im.num_coupons == sk.get_num_coupons(), "cpc-coupons", WHO << "number of coupons in image " << im.num_coupons << " vs API " << sk.get_num_coupons() << IMG);
  VF_CHECK(fld(ts, "merged") == tf(!im.f_hip), "cpc-hip-flag", WHO << "has-HIP flag " << im.f_hip << " vs to_string merged " << fld(ts, "merged") << IMG);
  VF_CHECK(fld(ts, "interesting col") == std::to_string(im.fi_col), "cpc-ficol", WHO << "first interesting column in image " << im.fi_col << " vs to_string " << fld(ts, "interesting col") << IMG);
  if (im.f_hip && !im.empty) {
    VF_CHECK(im.hip == sk.get_estimate(), "cpc-hip", WHO << "HIP accumulator in image " << fam::num(im.hip) << " vs get_estimate " << fam::num(sk.get_estimate()) << IMG);
    VF_CHECK(fld(ts, "kxp") == fmt(im.kxp) && fld(ts, "HIP estimate") == fmt(im.hip), "cpc-kxp", WHO << "kxp/hip in image " << im.kxp << "/" << im.hip << " vs to_string " << fld(ts, "kxp") << "/" << fld(ts, "HIP estimate") << IMG);
  }
  if (im.f_table && im.f_window) VF_CHECK(fld(ts, "table entries") == std::to_string(im.table_num_entries), "cpc-table-entries", WHO << "table entries in image " << im.table_num_entries << " vs to_string " << fld(ts, "table entries") << IMG);
  // published flavor thresholds: the flags must agree with the flavor implied by (lg_k, number of coupons)
  uint64_t k = 1ull << im.lg_k, cc = im.num_coupons; const char* fl;
  if (cc == 0) fl = "EMPTY"; else if ((cc << 5) < 3 * k) fl = "SPARSE"; else if ((cc << 1) < k) fl = "HYBRID"; else if ((cc << 3) < 27 * k) fl = "PINNED"; else fl = "SLIDING";
  bool low = fl[0] == 'S' && fl[1] == 'P' ? true : fl[0] == 'H';
  if (cc) {
    if (low) VF_CHECK(im.f_table && !im.f_window, "cpc-flavor-flags", WHO << "flavor " << fl << " (C=" << cc << ", lg_k=" << im.lg_k << ") must be written as a table without a window; flags " << im.flags << IMG);
    else VF_CHECK(im.f_window, "cpc-flavor-flags", WHO << "flavor " << fl << " (C=" << cc << ", lg_k=" << im.lg_k << ") must be written with a window; flags " << im.flags << IMG);
  }
  vf::label(std::string("cpc:") + fl + (im.f_hip ? "/hip" : "/merged") + (im.f_table && im.f_window ? "/table+window" : ""));
  state(im.empty ? "cpc/empty" : low ? "cpc/exact" : "cpc/estimation");
}

// ---------------------------------------------------------------- quantile families
template <typename T> std::string show_item(const T& v) { return fam::ItemGen<T>::show(v); }
template <typename SK, typename T> std::vector<std::pair<T, uint64_t>> iterate(const SK& sk) {
  std::vector<std::pair<T, uint64_t>> e; size_t guard = 0;
  for (auto it = sk.begin(); it != sk.end(); ++it) { e.emplace_back((*it).first, static_cast<uint64_t>((*it).second)); if (++guard > 2000000) break; }
  return e;
}
template <typename T> std::string first_diff(const std::vector<std::pair<T, uint64_t>>& a, const std::vector<std::pair<T, uint64_t>>& b) {
  std::ostringstream o; o << "image " << a.size() << " items, API " << b.size() << " items";
  for (size_t i = 0; i < a.size() && i < b.size(); ++i) if (!(a[i] == b[i])) { o << "; first difference at #" << i << ": image (" << show_item(a[i].first) << ", w" << a[i].second << ") vs API (" << show_item(b[i].first) << ", w" << b[i].second << ")"; break; }
  return o.str();
}
template <typename T, typename C> bool sorted_by(const std::vector<T>& v) { C cmp; for (size_t i = 1; i < v.size(); ++i) if (cmp(v[i], v[i - 1])) return false; return true; }

template <typename SK, typename T, typename C> void chk_kll(const Ctx& c, SK& sk, const char* f) {
  auto im = decode(c, L::decode_kll<T>);
  common_u(c, im);
  std::string ts(sk.to_string().c_str());
  VF_CHECK(im.k == sk.get_k(), "kll-k", WHO << "k in image " << im.k << " vs API " << sk.get_k() << IMG);
  VF_CHECK(im.f_empty == sk.is_empty(), "kll-empty", WHO << "empty flag " << im.f_empty << " vs is_empty " << sk.is_empty() << IMG);
  VF_CHECK(im.n == sk.get_n(), "kll-n", WHO << "n in image " << im.n << " vs API " << sk.get_n() << IMG);
  VF_CHECK(im.f_single == (sk.get_n() == 1), "kll-single", WHO << "single-item flag " << im.f_single << " with n " << sk.get_n() << IMG);
  VF_CHECK(fld(ts, "M") == std::to_string(im.m), "kll-m", WHO << "m in image " << int(im.m) << " vs to_string " << fld(ts, "M") << IMG);
  VF_CHECK(fld(ts, "min K") == std::to_string(im.min_k), "kll-mink", WHO << "min_k in image " << im.min_k << " vs to_string " << fld(ts, "min K") << IMG);
  VF_CHECK(fld(ts, "Levels") == std::to_string(im.num_levels), "kll-levels", WHO << "number of levels in image " << int(im.num_levels) << " vs to_string " << fld(ts, "Levels") << IMG);
  VF_CHECK(fld(ts, "Sorted") == tf(im.f_l0_sorted), "kll-l0-sorted", WHO << "level-zero-sorted flag " << im.f_l0_sorted << " vs to_string " << fld(ts, "Sorted") << IMG);
  VF_CHECK((im.num_levels > 1) == sk.is_estimation_mode(), "kll-estimation", WHO << int(im.num_levels) << " levels in image vs is_estimation_mode " << sk.is_estimation_mode());
  VF_CHECK(im.retained == sk.get_num_retained(), "kll-retained", WHO << im.retained << " items in the image vs get_num_retained " << sk.get_num_retained() << IMG);
  if (!sk.is_empty()) {
    VF_CHECK(im.has_minmax && im.min_item == sk.get_min_item() && im.max_item == sk.get_max_item(), "kll-minmax", WHO << "min/max in image " << show_item(im.min_item) << "/" << show_item(im.max_item) << " vs API " << show_item(sk.get_min_item()) << "/" << show_item(sk.get_max_item()) << IMG);
    if (im.f_l0_sorted) VF_CHECK((sorted_by<T, C>(im.level_items[0])), "kll-l0-order", WHO << "level-zero-sorted flag set but level 0 in the image is not sorted" << IMG);
    for (size_t h = 1; h < im.level_items.size(); ++h) VF_CHECK((sorted_by<T, C>(im.level_items[h])), "kll-level-order", WHO << "level " << h << " in the image is not sorted (levels above 0 are documented as sorted)" << IMG);
  }
  std::vector<std::pair<T, uint64_t>> img_items;
  for (size_t h = 0; h < im.level_items.size(); ++h) for (const T& x : im.level_items[h]) img_items.emplace_back(x, 1ull << h);
  auto api = iterate<SK, T>(sk);
  VF_CHECK(img_items == api, "kll-items", WHO << "(item, weight) sequence decoded from the image differs from the iterated one: " << first_diff(img_items, api) << IMG);
  if (im.f_l0_sorted) vf::label("kll:l0-sorted");
  state((std::string(f) + (sk.is_empty() ? "/empty" : im.f_single ? "/single" : sk.is_estimation_mode() ? "/estimation" : "/exact")).c_str());
}

template <typename SK, typename T, typename C> void chk_req(const Ctx& c, SK& sk, const char* f) {
  auto im = decode(c, L::decode_req<T>);
  common_u(c, im);
  std::string ts(sk.to_string(true, false).c_str());
  VF_CHECK(im.k == sk.get_k(), "req-k", WHO << "k in image " << im.k << " vs API " << sk.get_k() << IMG);
  VF_CHECK(im.f_hra == sk.is_HRA(), "req-hra", WHO << "high-rank-accuracy flag " << im.f_hra << " vs is_HRA " << sk.is_HRA() << IMG);
  VF_CHECK(im.f_empty == sk.is_empty(), "req-empty", WHO << "empty flag " << im.f_empty << " vs is_empty " << sk.is_empty() << IMG);
  VF_CHECK(im.n == sk.get_n(), "req-n", WHO << "n from the image " << im.n << " vs API " << sk.get_n() << IMG);
  VF_CHECK(fld(ts, "Sorted") == tf(im.f_l0_sorted), "req-l0-sorted", WHO << "level-zero-sorted flag " << im.f_l0_sorted << " vs to_string " << fld(ts, "Sorted") << IMG);
  VF_CHECK((im.num_levels > 1) == sk.is_estimation_mode(), "req-estimation", WHO << int(im.num_levels) << " levels in image vs is_estimation_mode " << sk.is_estimation_mode());
  if (!im.f_empty) VF_CHECK(fld(ts, "Levels") == std::to_string(im.num_levels), "req-levels", WHO << "number of levels in image " << int(im.num_levels) << " vs to_string " << fld(ts, "Levels") << IMG);
  VF_CHECK(im.f_raw == (sk.get_n() <= 4), "req-raw", WHO << "raw-items flag " << im.f_raw << " with n " << sk.get_n() << " (documented for n <= 4)" << IMG);
  VF_CHECK(im.retained == sk.get_num_retained(), "req-retained", WHO << im.retained << " items in the image vs get_num_retained " << sk.get_num_retained() << IMG);
  std::vector<std::pair<T, uint64_t>> img_items;
  for (size_t h = 0; h < im.levels.size(); ++h) {
    const auto& lv = im.levels[h];
    VF_CHECK(lv.lg_weight == h, "req-lg-weight", WHO << "level " << h << " is written with lg weight " << int(lv.lg_weight) << IMG);
    for (const T& x : lv.items) img_items.emplace_back(x, 1ull << lv.lg_weight);
    if (h > 0 || im.f_l0_sorted) VF_CHECK((sorted_by<T, C>(lv.items)), "req-level-order", WHO << "level " << h << " in the image is not sorted although " << (h ? "levels above 0 are sorted" : "the level-zero-sorted flag is set") << IMG);
  }
  if (!sk.is_empty()) {
    T mn = im.min_item, mx = im.max_item;
    if (!im.has_minmax) { C cmp; mn = mx = img_items[0].first; for (auto& iw : img_items) { if (cmp(iw.first, mn)) mn = iw.first; if (cmp(mx, iw.first)) mx = iw.first; } }
    VF_CHECK(mn == sk.get_min_item() && mx == sk.get_max_item(), "req-minmax", WHO << "min/max " << (im.has_minmax ? "in" : "derived from the items of") << " the image " << show_item(mn) << "/" << show_item(mx) << " vs API " << show_item(sk.get_min_item()) << "/" << show_item(sk.get_max_item()) << IMG);
  }
  auto api = iterate<SK, T>(sk);
  VF_CHECK(img_items == api, "req-items", WHO << "(item, weight) sequence decoded from the image differs from the iterated one: " << first_diff(img_items, api) << IMG);
  // per-level view of to_string(levels): "i: nominal capacity, actual size"; nominal capacity = 2 * sections * nearest_even(section size)
  if (!im.f_empty && !im.f_raw) {
    std::istringstream in(ts); std::string line; bool on = false; size_t h = 0;
    while (std::getline(in, line)) {
      if (line.find("index: nominal capacity") != std::string::npos) { on = true; continue; }
      if (line.find("### End sketch levels") == 0) break;
      if (!on) continue;
      unsigned idx = 0, cap = 0, sz = 0; char ch1 = 0, ch2 = 0; std::istringstream ls(line); ls >> idx >> ch1 >> cap >> ch2 >> sz;
      VF_CHECK(h < im.levels.size() && idx == h && ch1 == ':' && ch2 == ',', "req-levels-parse", WHO << "unexpected level line '" << line << "'");
      const auto& lv = im.levels[h];
      uint32_t sec = static_cast<uint32_t>(std::lround(lv.section_size_raw / 2.0)) << 1;
      VF_CHECK(sz == lv.num_items, "req-level-size", WHO << "level " << h << " has " << lv.num_items << " items in the image, to_string says " << sz << IMG);
      VF_CHECK(cap == 2u * lv.num_sections * sec, "req-level-capacity", WHO << "level " << h << ": sections " << int(lv.num_sections) << " x section size " << lv.section_size_raw << " in the image give nominal capacity " << 2u * lv.num_sections * sec << ", to_string says " << cap << IMG);
      ++h;
    }
    VF_CHECK(h == im.levels.size(), "req-levels-listed", WHO << im.levels.size() << " levels in the image, to_string lists " << h);
  }
  if (im.f_hra) vf::label("req:hra"); if (im.f_l0_sorted) vf::label("req:l0-sorted"); if (im.f_raw) vf::label("req:raw-items");
  state((std::string(f) + (sk.is_empty() ? "/empty" : sk.is_estimation_mode() ? "/estimation" : "/exact")).c_str());
}

// Older writers of the same documented layout (serial version 3 compact without the ORDERED flag, and serial version 2, which has no flags at
// all) store the base buffer in arrival order. The same content in those forms - base buffer reversed, flags / version byte rewritten - must
// decode to the same sketch ("old images stay readable"). float items only (fixed 4-byte items at offset 24).
void chk_qs_legacy_forms(const Ctx& c, const fam::QsF& sk, size_t bb) {
  if (sk.is_empty() || bb < 2 || c.img.size() < 24 + 4 * bb) return;
  bool all_equal = true;
  for (size_t i = 1; i < bb; ++i) if (std::memcmp(c.img.data() + 24, c.img.data() + 24 + 4 * i, 4) != 0) all_equal = false;
  if (all_equal) return;
  const std::string want = fam::observe_quantiles<fam::QsF, float, std::less<float>>(sk, fam::probes_for<float>());
  for (int form = 0; form < 2; ++form) {
    fam::Bytes m = c.img;
    if (form == 0) m[3] = static_cast<uint8_t>(m[3] & ~0x10);   // serial version 3, COMPACT only
    else { m[1] = 2; m[3] = 0; }                                  // serial version 2: always compact, no flags
    for (size_t i = 0; i < bb / 2; ++i) for (int b = 0; b < 4; ++b) std::swap(m[24 + 4 * i + b], m[24 + 4 * (bb - 1 - i) + b]);
    const char* fname = form == 0 ? "v3 compact, not ordered" : "serial version 2";
    auto r1 = fam::QsF::deserialize(m.data(), m.size());
    std::istringstream is(std::string(m.begin(), m.end()), std::ios::binary);
    auto r2 = fam::QsF::deserialize(is);
    std::string o1 = fam::observe_quantiles<fam::QsF, float, std::less<float>>(r1, fam::probes_for<float>());
    std::string o2 = fam::observe_quantiles<fam::QsF, float, std::less<float>>(r2, fam::probes_for<float>());
    VF_CHECK(o1 == want, "qs-legacy-form", WHO << "the same content as a '" << fname << "' image with the base buffer in another order decodes (bytes) to a different sketch:\n  " << o1.substr(0, 400) << "\n  expected " << want.substr(0, 400));
    VF_CHECK(o2 == want, "qs-legacy-form", WHO << "the same content as a '" << fname << "' image with the base buffer in another order decodes (stream) to a different sketch");
    vf::count("qs-legacy-forms-checked");
  }
}
template <typename SK> void chk_qs_legacy(const Ctx&, const SK&, size_t) {}
template <> void chk_qs_legacy<fam::QsF>(const Ctx& c, const fam::QsF& sk, size_t bb) { chk_qs_legacy_forms(c, sk, bb); }

template <typename SK, typename T, typename C> void chk_qs(const Ctx& c, SK& sk, const char* f) {
  auto im = decode(c, L::decode_quantiles<T>);
  common_u(c, im);
  VF_CHECK(im.k == sk.get_k(), "qs-k", WHO << "k in image " << im.k << " vs API " << sk.get_k() << IMG);
  VF_CHECK(im.f_empty == sk.is_empty(), "qs-empty", WHO << "empty flag " << im.f_empty << " vs is_empty " << sk.is_empty() << IMG);
  VF_CHECK(im.n == sk.get_n(), "qs-n", WHO << "n in image " << im.n << " vs API " << sk.get_n() << IMG);
  VF_CHECK(im.f_compact && im.f_sorted, "qs-flags", WHO << "compact and ordered flags are documented as always set; flags " << im.flags << IMG);
  VF_CHECK(im.retained == sk.get_num_retained(), "qs-retained", WHO << im.retained << " items in the image vs get_num_retained " << sk.get_num_retained() << IMG);
  VF_CHECK(!im.levels.empty() == sk.is_estimation_mode(), "qs-estimation", WHO << im.levels.size() << " populated levels in image vs is_estimation_mode " << sk.is_estimation_mode());
  std::vector<std::pair<T, uint64_t>> img_items;
  for (const T& x : im.base_buffer) img_items.emplace_back(x, 1);
  for (const auto& lv : im.levels) for (const T& x : lv.second) img_items.emplace_back(x, 2ull << lv.first);
  if (!sk.is_empty()) {
    VF_CHECK(im.min_item == sk.get_min_item() && im.max_item == sk.get_max_item(), "qs-minmax", WHO << "min/max in image " << show_item(im.min_item) << "/" << show_item(im.max_item) << " vs API " << show_item(sk.get_min_item()) << "/" << show_item(sk.get_max_item()) << IMG);
    VF_CHECK((sorted_by<T, C>(im.base_buffer)), "qs-bb-order", WHO << "ordered flag set but the base buffer in the image is not sorted" << IMG);
    for (const auto& lv : im.levels) VF_CHECK((sorted_by<T, C>(lv.second)), "qs-level-order", WHO << "level " << lv.first << " in the image is not sorted" << IMG);
  }
  auto api = iterate<SK, T>(sk);
  VF_CHECK(img_items == api, "qs-items", WHO << "(item, weight) sequence decoded from the image differs from the iterated one: " << first_diff(img_items, api) << IMG);
  state((std::string(f) + (sk.is_empty() ? "/empty" : sk.is_estimation_mode() ? "/estimation" : "/exact")).c_str());
  chk_qs_legacy<SK>(c, sk, im.base_buffer.size());
}

// ---------------------------------------------------------------- frequent items
template <typename T> void chk_fi(const Ctx& c, fam::FiObj<T>& o, const char* f) {
  auto im = decode(c, L::decode_fi<T>); auto& sk = o.sk;
  common_u(c, im);
  std::string ts(sk.to_string().c_str());
  VF_CHECK(im.f_empty == sk.is_empty() && im.f_empty_bit0 == im.f_empty, "fi-empty", WHO << "empty flag (bit 2) " << im.f_empty << ", bit 0 " << im.f_empty_bit0 << " vs is_empty " << sk.is_empty() << IMG);
  VF_CHECK(im.lg_max == o.lg_max && fld(ts, "lg max map size") == std::to_string(im.lg_max), "fi-lgmax", WHO << "lg max map size in image " << im.lg_max << " vs configured " << int(o.lg_max) << " / to_string " << fld(ts, "lg max map size") << IMG);
  VF_CHECK(fld(ts, "lg cur map size") == std::to_string(im.lg_cur), "fi-lgcur", WHO << "lg current map size in image " << im.lg_cur << " vs to_string " << fld(ts, "lg cur map size") << IMG);
  VF_CHECK(im.num_active == sk.get_num_active_items(), "fi-active", WHO << "active items in image " << im.num_active << " vs API " << sk.get_num_active_items() << IMG);
  VF_CHECK(im.total_weight == sk.get_total_weight(), "fi-total", WHO << "total weight in image " << im.total_weight << " vs API " << sk.get_total_weight() << IMG);
  VF_CHECK(im.offset == sk.get_maximum_error(), "fi-offset", WHO << "offset in image " << im.offset << " vs get_maximum_error " << sk.get_maximum_error() << IMG);
  auto rows = sk.get_frequent_items(datasketches::NO_FALSE_NEGATIVES, 0);
  std::vector<std::pair<T, uint64_t>> api, img(im.rows);
  for (auto& r : rows) {
    api.emplace_back(r.get_item(), r.get_lower_bound());
    VF_CHECK(r.get_upper_bound() == r.get_lower_bound() + im.offset && r.get_estimate() == r.get_upper_bound(), "fi-row-bounds", WHO << "row " << fam::FiItem<T>::show(r.get_item()) << ": estimate/lb/ub " << r.get_estimate() << "/" << r.get_lower_bound() << "/" << r.get_upper_bound() << " with offset " << im.offset);
  }
  std::sort(api.begin(), api.end()); std::sort(img.begin(), img.end());
  VF_CHECK(api == img, "fi-rows", WHO << "(item, weight) multiset decoded from the image (" << img.size() << ") differs from get_frequent_items (" << api.size() << ")" << IMG);
  for (size_t i = 1; i < img.size(); ++i) VF_CHECK(!(img[i].first == img[i - 1].first), "fi-duplicate", WHO << "item " << fam::FiItem<T>::show(img[i].first) << " is stored twice" << IMG);
  uint64_t wsum = 0; for (auto& iw : img) { wsum += iw.second; VF_CHECK(iw.second > 0, "fi-zero-weight", WHO << "an item with weight 0 is stored" << IMG); }
  VF_CHECK(wsum <= im.total_weight, "fi-weight-sum", WHO << "stored weights sum to " << wsum << " above the total weight " << im.total_weight);
  state((std::string(f) + (sk.is_empty() ? "/empty" : im.offset > 0 ? "/estimation" : "/exact")).c_str());
  // the "empty" flag has three historical spellings (bit 2: Java; bit 0: earlier C++ releases; both: the current writer) and the format
  // comment asks readers to accept each of them: the three forms of an empty image must decode, through both readers, to the same sketch
  if (sk.is_empty() && c.img.size() == 8) {
    const std::string want = o.observe();
    for (uint8_t flags : {uint8_t(1), uint8_t(4), uint8_t(5)}) {
      fam::Bytes b = c.img; b[5] = flags;
      std::string o1, o2;
      try {
        o1 = o.from_bytes(b.data(), b.size())->observe();
        std::istringstream is(std::string(b.begin(), b.end()), std::ios::binary);
        o2 = o.from_stream(is)->observe();
      } catch (const std::exception& ex) {
        VF_CHECK(false, "fi-legacy-empty-form", WHO << "an empty image with flags byte " << int(flags) << " is refused: " << ex.what() << "  image=" << hex(b));
      }
      VF_CHECK(o1 == want && o2 == want, "fi-legacy-empty-form", WHO << "an empty image with flags byte " << int(flags) << " decodes to a different sketch");
      vf::count("fi-legacy-empty-forms-checked");
    }
  }
}

// ---------------------------------------------------------------- count-min
void chk_cm(const Ctx& c, fam::CmObj& o) {
  auto im = decode(c, L::decode_count_min); const auto& sk = o.sk;
  common_u(c, im);
  VF_CHECK(im.f_empty == sk.is_empty(), "cm-empty", WHO << "empty flag " << im.f_empty << " vs is_empty " << sk.is_empty() << IMG);
  VF_CHECK(im.num_buckets == sk.get_num_buckets() && im.num_hashes == sk.get_num_hashes(), "cm-shape", WHO << "buckets/hashes in image " << im.num_buckets << "/" << int(im.num_hashes) << " vs API " << sk.get_num_buckets() << "/" << int(sk.get_num_hashes()) << IMG);
  VF_CHECK(im.seed_hash == vf::ref_seed_hash(sk.get_seed()), "cm-seed-hash", WHO << "seed hash in image " << im.seed_hash << " vs published definition for seed " << sk.get_seed() << ": " << vf::ref_seed_hash(sk.get_seed()) << IMG);
  VF_CHECK(im.total_weight == sk.get_total_weight(), "cm-total", WHO << "total weight in image " << im.total_weight << " vs API " << sk.get_total_weight() << IMG);
  std::vector<uint64_t> api(sk.begin(), sk.end());
  if (sk.is_empty()) { for (uint64_t x : api) VF_CHECK(x == 0, "cm-empty-cells", WHO << "empty sketch with a non-zero cell"); }
  else {
    VF_CHECK(api == im.cells, "cm-cells", WHO << "cells decoded from the image differ from the iterated cells" << IMG);
    // every update adds its weight to exactly one cell per row: each row sums to the total weight
    for (unsigned h = 0; h < im.num_hashes; ++h) { uint64_t s = 0; for (uint32_t j = 0; j < im.num_buckets; ++j) s += im.cells[static_cast<size_t>(h) * im.num_buckets + j]; VF_CHECK(s == im.total_weight, "cm-row-sum", WHO << "row " << h << " of the image sums to " << s << ", total weight " << im.total_weight << IMG); }
  }
  state(sk.is_empty() ? "count_min/empty" : "count_min/nonempty");
}

// ---------------------------------------------------------------- VarOpt / union / EBPPS
template <typename T> std::vector<std::pair<T, double>> vo_samples(const L::VoImage<T>& im) {
  std::vector<std::pair<T, double>> s;
  for (uint32_t i = 0; i < im.h; ++i) s.emplace_back(im.h_items[i], im.h_weights[i]);
  double tau = im.r ? im.total_wt_r / im.r : 0; for (uint32_t i = 0; i < im.r; ++i) s.emplace_back(im.r_items[i], tau);
  return s;
}
template <typename T> void chk_vo(const Ctx& c, fam::VoObj<T>& o, const char* f) {
  auto im = decode(c, L::decode_varopt<T>); const auto& sk = o.sk;
  common_u(c, im);
  std::string ts(sk.to_string().c_str());
  VF_CHECK(im.k == sk.get_k(), "vo-k", WHO << "k in image " << im.k << " vs API " << sk.get_k() << IMG);
  VF_CHECK(im.f_empty == sk.is_empty(), "vo-empty", WHO << "empty flag " << im.f_empty << " vs is_empty " << sk.is_empty() << IMG);
  VF_CHECK(!im.f_gadget, "vo-gadget", WHO << "gadget flag set on a plain sketch" << IMG);
  VF_CHECK(im.n == sk.get_n(), "vo-n", WHO << "n in image " << im.n << " vs API " << sk.get_n() << IMG);
  VF_CHECK(im.h + im.r == sk.get_num_samples(), "vo-samples", WHO << "h + r in image " << im.h << " + " << im.r << " vs get_num_samples " << sk.get_num_samples() << IMG);
  VF_CHECK(fld(ts, "h") == std::to_string(im.h) && fld(ts, "r") == std::to_string(im.r), "vo-hr", WHO << "h/r in image " << im.h << "/" << im.r << " vs to_string " << fld(ts, "h") << "/" << fld(ts, "r") << IMG);
  VF_CHECK(fld(ts, "Resize factor") == std::to_string(1 << im.lg_rf), "vo-rf", WHO << "resize factor in image 2^" << im.lg_rf << " vs to_string " << fld(ts, "Resize factor") << IMG);
  VF_CHECK(fld(ts, "weight_r") == fmt(im.total_wt_r), "vo-wtr", WHO << "total weight of R in image " << im.total_wt_r << " vs to_string " << fld(ts, "weight_r") << IMG);
  auto img = vo_samples(im); std::vector<std::pair<T, double>> api;
  for (auto it = sk.begin(); it != sk.end(); ++it) api.emplace_back((*it).first, (*it).second);
  VF_CHECK(api == img, "vo-items", WHO << "(item, weight) sequence decoded from the image (" << img.size() << ", H then R at tau) differs from the iterated samples (" << api.size() << ")" << IMG);
  if (!sk.is_empty()) {
    double tw = im.total_wt_r; for (double w : im.h_weights) tw += w;
    auto ss = sk.estimate_subset_sum([](const T&) { return true; });
    VF_CHECK(std::fabs(ss.total_sketch_weight - tw) <= 1e-9 * tw, "vo-total-weight", WHO << "H weights + R weight in the image " << fam::num(tw) << " vs total_sketch_weight " << fam::num(ss.total_sketch_weight));
  }
  state((std::string(f) + (sk.is_empty() ? "/empty" : im.r > 0 ? "/estimation" : "/exact")).c_str());
}
void chk_vou(const Ctx& c, fam::VouObj& o) {
  auto im = decode(c, L::decode_varopt_union<int64_t>); const auto& u = o.u;
  common(c, im);
  std::string ts(u.to_string().c_str());
  VF_CHECK(im.max_k == o.max_k && fld(ts, "Max k") == std::to_string(im.max_k), "vou-maxk", WHO << "max k in image " << im.max_k << " vs configured " << o.max_k << " / to_string " << fld(ts, "Max k") << IMG);
  VF_CHECK(fld(ts, "n") == std::to_string(im.n), "vou-n", WHO << "n in image " << im.n << " vs to_string " << fld(ts, "n") << IMG);
  vf::rand_seed(4242);
  auto res = u.get_result();
  VF_CHECK(res.get_n() == im.n, "vou-result-n", WHO << "n in image " << im.n << " vs get_result().get_n() " << res.get_n());
  VF_CHECK(im.f_empty == (res.get_n() == 0), "vou-empty", WHO << "empty flag " << im.f_empty << " vs result n " << res.get_n() << IMG);
  if (im.has_gadget) {
    const auto& g = im.gadget;
    VF_CHECK(g.unused_nonzero == 0 && g.mark_pad_nonzero == 0, "vou-gadget-padding", WHO << "padding in the gadget image is not zero" << IMG);
    VF_CHECK(g.f_gadget && !g.f_empty, "vou-gadget-flag", WHO << "gadget flag " << g.f_gadget << ", empty flag " << g.f_empty << " in the embedded gadget" << IMG);
    // the gadget summary is the second "k/h/r" block of to_string
    size_t gs = ts.find("Gadget Summary"); std::string gts = gs == std::string::npos ? std::string() : ts.substr(gs);
    VF_CHECK(fld(gts, "k") == std::to_string(g.k) && fld(gts, "h") == std::to_string(g.h) && fld(gts, "r") == std::to_string(g.r), "vou-gadget-khr", WHO << "gadget k/h/r in image " << g.k << "/" << g.h << "/" << g.r << " vs to_string " << fld(gts, "k") << "/" << fld(gts, "h") << "/" << fld(gts, "r") << IMG);
    VF_CHECK(fld(gts, "weight_r") == fmt(g.total_wt_r), "vou-gadget-wtr", WHO << "gadget weight of R in image " << g.total_wt_r << " vs to_string " << fld(gts, "weight_r"));
    VF_CHECK(fld(gts, "Resize factor") == std::to_string(1 << g.lg_rf), "vou-gadget-rf", WHO << "gadget resize factor in image 2^" << g.lg_rf << " vs to_string " << fld(gts, "Resize factor"));
    double tw = g.total_wt_r; for (double w : g.h_weights) tw += w;
    double rw = 0; std::vector<std::pair<int64_t, double>> api; for (auto it = res.begin(); it != res.end(); ++it) { api.emplace_back((*it).first, (*it).second); rw += (*it).second; }
    VF_CHECK(std::fabs(rw - tw) <= 1e-9 * tw, "vou-total-weight", WHO << "gadget weight in the image " << fam::num(tw) << " vs total weight of get_result() " << fam::num(rw));
    if (g.num_marks == 0) {
      // no marked item in H: the result is documented as a plain copy of the gadget
      VF_CHECK(res.get_k() == g.k, "vou-result-k", WHO << "gadget k in image " << g.k << " vs get_result().get_k() " << res.get_k());
      VF_CHECK(api == vo_samples(g), "vou-result-items", WHO << "gadget without marks: samples decoded from the image (" << g.h + g.r << ") differ from get_result() (" << api.size() << ")" << IMG);
      vf::label("varopt_union:no-marks");
    } else {
      // marked items are resolved into the reservoir: every result item must come from the gadget
      std::multiset<int64_t> pool(g.h_items.begin(), g.h_items.end()); pool.insert(g.r_items.begin(), g.r_items.end());
      for (auto& iw : api) { auto it = pool.find(iw.first); VF_CHECK(it != pool.end(), "vou-result-foreign", WHO << "get_result() holds item " << iw.first << " that is not in the gadget image"); pool.erase(it); }
      vf::label("varopt_union:marks");
    }
    if (im.outer_tau_denom > 0) vf::label("varopt_union:outer-tau");
    state(g.r > 0 ? "varopt_union/estimation" : "varopt_union/exact");
  } else state("varopt_union/empty");
}
void chk_eb(const Ctx& c, fam::EbObj& o) {
  auto im = decode(c, L::decode_ebpps_i64); const auto& sk = o.sk;
  common(c, im);
  std::string ts(sk.to_string().c_str());
  VF_CHECK(im.k == sk.get_k(), "eb-k", WHO << "k in image " << im.k << " vs API " << sk.get_k() << IMG);
  VF_CHECK(im.f_empty == sk.is_empty(), "eb-empty", WHO << "empty flag " << im.f_empty << " vs is_empty " << sk.is_empty() << IMG);
  VF_CHECK(im.n == sk.get_n(), "eb-n", WHO << "n in image " << im.n << " vs API " << sk.get_n() << IMG);
  if (!sk.is_empty()) {
    VF_CHECK(im.cum_wt == sk.get_cumulative_weight(), "eb-cumwt", WHO << "cumulative weight in image " << fam::num(im.cum_wt) << " vs API " << fam::num(sk.get_cumulative_weight()) << IMG);
    VF_CHECK(im.c == sk.get_c(), "eb-c", WHO << "c in image " << fam::num(im.c) << " vs API " << fam::num(sk.get_c()) << IMG);
    VF_CHECK(fld(ts, "wt_mac") == fmt(im.wt_max) && fld(ts, "rho") == fmt(im.rho), "eb-wtmax-rho", WHO << "max weight / rho in image " << im.wt_max << "/" << im.rho << " vs to_string " << fld(ts, "wt_mac") << "/" << fld(ts, "rho") << IMG);
    VF_CHECK(im.rho <= 1.0 / im.wt_max * (1 + 1e-12) && im.rho <= static_cast<double>(im.k) / im.cum_wt * (1 + 1e-12), "eb-rho-bound", WHO << "rho " << fam::num(im.rho) << " exceeds min(1/wt_max, k/cum_wt) = min(" << fam::num(1.0 / im.wt_max) << ", " << fam::num(im.k / im.cum_wt) << ")");
  }
  std::ostringstream ex; ex << "### Sketch Items" << std::endl << "   sample:" << std::endl;
  for (size_t i = 0; i < im.items.size(); ++i) ex << "\t" << i << ":\t" << im.items[i] << std::endl;
  ex << "   partial: "; if (im.has_partial) ex << im.partial << std::endl; else ex << "NULL" << std::endl;
  std::string its(sk.items_to_string().c_str());
  VF_CHECK(its == ex.str(), "eb-items", WHO << "items decoded from the image (" << im.items.size() << " + partial " << im.has_partial << ") differ from items_to_string():\n" << its.substr(0, 600) << IMG);
  if (im.has_partial) vf::label("ebpps:partial-item");
  state(sk.is_empty() ? "ebpps/empty" : sk.get_n() > sk.get_k() ? "ebpps/estimation" : "ebpps/exact");
}

// ---------------------------------------------------------------- t-digest
template <typename T> void chk_td(const Ctx& c, fam::TdObj<T>& o, const char* f) {
  auto im = decode(c, L::decode_tdigest<T>); const auto& sk = o.sk;
  common_u(c, im);
  std::string ts(sk.to_string(true).c_str());
  VF_CHECK(im.k == sk.get_k(), "td-k", WHO << "k in image " << im.k << " vs API " << sk.get_k() << IMG);
  VF_CHECK(im.f_empty == sk.is_empty(), "td-empty", WHO << "empty flag " << im.f_empty << " vs is_empty " << sk.is_empty() << IMG);
  VF_CHECK(im.total_weight == sk.get_total_weight(), "td-weight", WHO << "centroid weights + buffered values in the image " << im.total_weight << " vs get_total_weight " << sk.get_total_weight() << IMG);
  VF_CHECK(im.f_single == (sk.get_total_weight() == 1), "td-single", WHO << "single-value flag " << im.f_single << " with total weight " << sk.get_total_weight() << IMG);
  if (!sk.is_empty()) {
    VF_CHECK(im.min == sk.get_min_value() && im.max == sk.get_max_value(), "td-minmax", WHO << "min/max in image " << fam::num(im.min) << "/" << fam::num(im.max) << " vs API " << fam::num(sk.get_min_value()) << "/" << fam::num(sk.get_max_value()) << IMG);
    VF_CHECK(fld(ts, "Reverse Merge") == tf(im.f_reverse), "td-reverse", WHO << "reverse-merge flag " << im.f_reverse << " vs to_string " << fld(ts, "Reverse Merge") << IMG);
  }
  if (!im.f_empty && !im.f_single) {
    VF_CHECK(fld(ts, "Centroids") == std::to_string(im.num_centroids) && fld(ts, "Buffered") == std::to_string(im.num_buffered), "td-counts", WHO << "centroids/buffered in image " << im.num_centroids << "/" << im.num_buffered << " vs to_string " << fld(ts, "Centroids") << "/" << fld(ts, "Buffered") << IMG);
    if (c.v == 0) VF_CHECK(im.num_buffered == 0, "td-no-buffer", WHO << "the form without buffer holds " << im.num_buffered << " buffered values" << IMG);
    // centroid and buffer lines of to_string(true), in the library's own stream formatting
    std::ostringstream ex;
    if (!im.centroids.empty()) { ex << "Centroids:" << std::endl; int i = 0; for (auto& mw : im.centroids) ex << i++ << ": " << mw.first << ", " << mw.second << std::endl; }
    if (!im.buffer.empty()) { ex << "Buffer:" << std::endl; int i = 0; for (T v : im.buffer) ex << i++ << ": " << v << std::endl; }
    size_t p = ts.find("### End t-Digest summary"); std::string tail = p == std::string::npos ? std::string() : ts.substr(ts.find('\n', p) + 1);
    VF_CHECK(tail == ex.str(), "td-centroids", WHO << "centroids / buffer decoded from the image differ from to_string(true):\n" << tail.substr(0, 500) << "\n-- image --\n" << ex.str().substr(0, 500) << IMG);
    for (size_t i = 1; i < im.centroids.size(); ++i) VF_CHECK(!(im.centroids[i].first < im.centroids[i - 1].first), "td-centroid-order", WHO << "centroid means in the image are not ascending at #" << i << IMG);
    uint64_t cw = 0; for (auto& mw : im.centroids) cw += mw.second;
    VF_CHECK(fld(ts, "Centroids Weight") == fmt(cw), "td-centroids-weight", WHO << "centroid weights in the image sum to " << cw << " vs to_string " << fld(ts, "Centroids Weight"));
    if (im.num_buffered) vf::label("tdigest:with-buffer");
  }
  if (im.f_reverse) vf::label("tdigest:reverse-merge");
  state((std::string(f) + (sk.is_empty() ? "/empty" : im.f_single ? "/single" : o.beyond_exact() ? "/estimation" : "/exact")).c_str());
}

// ---------------------------------------------------------------- Bloom
void chk_bloom(const Ctx& c, fam::BloomObj& o) {
  auto im = decode(c, L::decode_bloom); auto& bf = o.bf;
  common_u(c, im);
  std::string ts(bf.to_string(true).c_str());
  VF_CHECK(im.f_empty == bf.is_empty(), "bloom-empty", WHO << "empty flag " << im.f_empty << " vs is_empty " << bf.is_empty() << IMG);
  VF_CHECK(im.capacity_bits == bf.get_capacity(), "bloom-capacity", WHO << "capacity in image " << im.capacity_bits << " bits vs API " << bf.get_capacity() << IMG);
  VF_CHECK(im.num_hashes == bf.get_num_hashes() && im.seed == bf.get_seed(), "bloom-config", WHO << "hashes/seed in image " << im.num_hashes << "/" << im.seed << " vs API " << bf.get_num_hashes() << "/" << bf.get_seed() << IMG);
  if (!im.f_empty) VF_CHECK(fld(ts, "is_dirty") == tf(im.dirty), "bloom-dirty", WHO << "dirty marker in image " << im.dirty << " vs to_string " << fld(ts, "is_dirty") << IMG);
  // bit array as printed by to_string(true): "<word>: b0..b7 b8..b15 ..." least significant bit first
  std::vector<uint8_t> bits(im.capacity_bits / 8, 0); size_t words = 0;
  {
    std::istringstream in(ts); std::string line; bool on = false;
    while (std::getline(in, line)) {
      if (line.find("### End filter summary") == 0) { on = true; continue; }
      if (!on || line.empty()) continue;
      size_t colon = line.find(':'); VF_CHECK(colon != std::string::npos, "bloom-print-parse", WHO << "unexpected line '" << line << "'");
      uint64_t w = std::stoull(line.substr(0, colon)); size_t bit = 0;
      for (size_t i = colon + 1; i < line.size(); ++i) if (line[i] == '0' || line[i] == '1') { if (line[i] == '1' && w * 8 + bit / 8 < bits.size()) bits[w * 8 + bit / 8] |= static_cast<uint8_t>(1u << (bit & 7)); ++bit; }
      VF_CHECK(bit == 64 && w == words, "bloom-print-parse", WHO << "unexpected line '" << line << "'"); ++words;
    }
  }
  VF_CHECK(words == im.num_longs, "bloom-words", WHO << "bit array of " << im.num_longs << " words in the image, to_string prints " << words);
  std::vector<uint8_t> imgbits = im.bits.empty() ? std::vector<uint8_t>(bits.size(), 0) : im.bits;
  VF_CHECK(imgbits == bits, "bloom-bits", WHO << "bit array decoded from the image differs from the bits the filter prints" << IMG);
  VF_CHECK(fld(ts, "bits_used") == std::to_string(im.popcount), "bloom-bits-used-str", WHO << "bits set in the image array " << im.popcount << " vs to_string " << fld(ts, "bits_used"));
  uint64_t used = bf.get_bits_used();
  VF_CHECK(used == im.popcount, "bloom-bits-used", WHO << "bits set in the image array " << im.popcount << " vs get_bits_used " << used << IMG);
  if (im.dirty) vf::label("bloom:dirty");
  state(im.f_empty ? "bloom/empty" : "bloom/nonempty");
}

// ---------------------------------------------------------------- density
void chk_dens(const Ctx& c, fam::DensObj& o) {
  auto im = decode(c, L::decode_density_float, false); const auto& sk = o.sk;
  {
    // the number of levels is not stored: trailing empty levels (4 zero bytes each) are optional, a prefix without them is the same content
    size_t tail = 0; for (size_t h = im.levels.size(); h > 1 && im.levels[h - 1].empty(); --h) tail += 4;
    prefixes_rejected(c, L::decode_density_float, tail);
    if (tail) vf::label("density:trailing-empty-level");
  }
  common_u(c, im);
  VF_CHECK(im.k == sk.get_k() && im.dim == sk.get_dim(), "dens-config", WHO << "k/dim in image " << im.k << "/" << im.dim << " vs API " << sk.get_k() << "/" << sk.get_dim() << IMG);
  VF_CHECK(im.f_empty == sk.is_empty(), "dens-empty", WHO << "empty flag " << im.f_empty << " vs is_empty " << sk.is_empty() << IMG);
  VF_CHECK(im.n == sk.get_n(), "dens-n", WHO << "n in image " << im.n << " vs API " << sk.get_n() << IMG);
  VF_CHECK(im.num_retained == sk.get_num_retained(), "dens-retained", WHO << "retained in image " << im.num_retained << " vs API " << sk.get_num_retained() << IMG);
  VF_CHECK((im.levels.size() > 1) == sk.is_estimation_mode(), "dens-estimation", WHO << im.levels.size() << " levels in image vs is_estimation_mode " << sk.is_estimation_mode());
  std::vector<std::pair<std::vector<float>, uint64_t>> img, api;
  for (size_t h = 0; h < im.levels.size(); ++h) for (const auto& pt : im.levels[h]) img.emplace_back(pt, 1ull << h);
  for (auto it = sk.begin(); it != sk.end(); ++it) { std::vector<float> p; for (float x : (*it).first) p.push_back(x); api.emplace_back(p, static_cast<uint64_t>((*it).second)); }
  VF_CHECK(img == api, "dens-points", WHO << "(point, weight) sequence decoded from the image (" << img.size() << ") differs from the iterated one (" << api.size() << ")" << IMG);
  state(sk.is_empty() ? "density/empty" : sk.is_estimation_mode() ? "density/estimation" : "density/exact");
}

// ---------------------------------------------------------------- property
typedef fam::QObj<fam::KllF, float, std::less<float>, 0> OKllF; typedef fam::QObj<fam::KllS, std::string, fam::GreaterLen, 0> OKllS;
typedef fam::QObj<fam::ReqF, float, std::less<float>, 1> OReqF; typedef fam::QObj<fam::ReqS, std::string, fam::GreaterLen, 1> OReqS;
typedef fam::QObj<fam::QsF, float, std::less<float>, 2> OQsF; typedef fam::QObj<fam::QsS, std::string, fam::GreaterLen, 2> OQsS;

template <typename O> void presort(fam::Obj& obj, int64_t pre) { auto& sk = static_cast<O&>(obj).sk; if ((pre & 1) && !sk.is_empty()) { (void)sk.get_quantile(0.5, true); vf::label("pre:queried-before-serialize"); } }

void prop(const Case& cs) {
  int f = static_cast<int>(cs.get("fam", 0) % fam::NFAM); if (f < 0) f += fam::NFAM;
  const char* fn = fam::name(f);
  int64_t pre = cs.get("pre", 0);
  fam::P obj = fam::make(cs);
  int nv = obj->variants();
  bool any_nonempty = false;
  for (int v = nv - 1; v >= 0; --v) {
    if (v != nv - 1) obj = fam::make(cs);  // serializers have documented side effects (t-digest compresses, quantiles sorts its buffer)
    // a query before serialization sorts level zero of KLL / REQ (documented side effect): exercises the level-zero-sorted flag
    switch (f) {
      case fam::F_KLL_F: presort<OKllF>(*obj, pre); break; case fam::F_KLL_S: presort<OKllS>(*obj, pre); break;
      case fam::F_REQ_F: presort<OReqF>(*obj, pre); break; case fam::F_REQ_S: presort<OReqS>(*obj, pre); break;
      case fam::F_QS_F: presort<OQsF>(*obj, pre); break; case fam::F_QS_S: presort<OQsS>(*obj, pre); break;
      default: break;
    }
    if (f == fam::F_HLL && (pre & 2)) {
      // a few keys whose register value is >= 15 (found with the reference hash): HLL_4 stores them as aux-table exceptions
      auto& sk = static_cast<fam::HllObj&>(*obj).sk; const auto& pool = vf::high_pool().keys; uint64_t r = static_cast<uint64_t>(cs.get("rnd", 1));
      for (uint64_t i = 0, cnt = 1 + r % 5; i < cnt && !pool.empty(); ++i) sk.update(pool[vf::mix64(r + i) % pool.size()].first);
      vf::label("pre:hll-high-values");
    }
    fam::Bytes img = obj->bytes(0, v);
    Ctx c{fn, v, img};
    {  // both writers produce the documented layout: the stream form is the same image, byte for byte
      const std::string st = obj->stream(v);
      VF_CHECK(st.size() == img.size() && std::memcmp(st.data(), img.data(), img.size()) == 0, "stream-image-equals-bytes-image", WHO << "serialize(ostream) writes " << st.size() << " bytes, serialize() " << img.size() << ", or they differ" << IMG);
    }
    switch (f) {
      case fam::F_THETA: chk_theta(c, static_cast<fam::ThetaObj&>(*obj)); break;
      case fam::F_TUPLE: chk_tuple(c, static_cast<fam::TupleObj&>(*obj)); break;
      case fam::F_AOD: chk_aod(c, static_cast<fam::AodObj&>(*obj)); break;
      case fam::F_HLL: chk_hll(c, static_cast<fam::HllObj&>(*obj)); break;
      case fam::F_CPC: chk_cpc(c, static_cast<fam::CpcObj&>(*obj)); break;
      case fam::F_KLL_F: chk_kll<fam::KllF, float, std::less<float>>(c, static_cast<OKllF&>(*obj).sk, fn); break;
      case fam::F_KLL_S: chk_kll<fam::KllS, std::string, fam::GreaterLen>(c, static_cast<OKllS&>(*obj).sk, fn); break;
      case fam::F_REQ_F: chk_req<fam::ReqF, float, std::less<float>>(c, static_cast<OReqF&>(*obj).sk, fn); break;
      case fam::F_REQ_S: chk_req<fam::ReqS, std::string, fam::GreaterLen>(c, static_cast<OReqS&>(*obj).sk, fn); break;
      case fam::F_QS_F: chk_qs<fam::QsF, float, std::less<float>>(c, static_cast<OQsF&>(*obj).sk, fn); break;
      case fam::F_QS_S: chk_qs<fam::QsS, std::string, fam::GreaterLen>(c, static_cast<OQsS&>(*obj).sk, fn); break;
      case fam::F_FI_I: chk_fi<int64_t>(c, static_cast<fam::FiObj<int64_t>&>(*obj), fn); break;
      case fam::F_FI_S: chk_fi<std::string>(c, static_cast<fam::FiObj<std::string>&>(*obj), fn); break;
      case fam::F_CM: chk_cm(c, static_cast<fam::CmObj&>(*obj)); break;
      case fam::F_VO_I: chk_vo<int64_t>(c, static_cast<fam::VoObj<int64_t>&>(*obj), fn); break;
      case fam::F_VO_S: chk_vo<std::string>(c, static_cast<fam::VoObj<std::string>&>(*obj), fn); break;
      case fam::F_VOU: chk_vou(c, static_cast<fam::VouObj&>(*obj)); break;
      case fam::F_EBPPS: chk_eb(c, static_cast<fam::EbObj&>(*obj)); break;
      case fam::F_TD_D: chk_td<double>(c, static_cast<fam::TdObj<double>&>(*obj), fn); break;
      case fam::F_TD_F: chk_td<float>(c, static_cast<fam::TdObj<float>&>(*obj), fn); break;
      case fam::F_BLOOM: chk_bloom(c, static_cast<fam::BloomObj&>(*obj)); break;
      default: chk_dens(c, static_cast<fam::DensObj&>(*obj)); break;
    }
    // the library's own readers on the image the independent reader has just accounted for: both decode it to the content the API reported
    // (states an open finding is about are left to C09, where the finding is keyed)
    if (obj->finding_key().empty()) {
      const std::string want = obj->observe();
      fam::P r1 = obj->from_bytes(img.data(), img.size());
      std::istringstream is(std::string(img.begin(), img.end()), std::ios::binary);
      fam::P r2 = obj->from_stream(is);
      const std::string o1 = r1->observe(), o2 = r2->observe();
      VF_CHECK(o1 == want, "library-reader-bytes", WHO << "deserialize(bytes) of the image decodes to another sketch:\n  " << o1.substr(0, 500) << "\n  expected " << want.substr(0, 500));
      VF_CHECK(o2 == want, "library-reader-stream", WHO << "deserialize(stream) of the image decodes to another sketch:\n  " << o2.substr(0, 500) << "\n  expected " << want.substr(0, 500));
    }
    vf::count("images"); vf::count("image-bytes", img.size());
    if (vf::stats().case_labels.count(std::string("state:") + fn + "/empty") == 0) any_nonempty = true;
  }
  vf::label(std::string("family:") + fn);
  if (any_nonempty) vf::nontrivial();
}

// recipes as in vf::fam::recipe_gen (same cfg / op vocabulary, interpreted by vf::fam::make), but with batch sizes weighted towards the
// small states whose images have their own layout (single item, raw items, exact mode, LIST/SET coupons, warm-up, buffer-only) and fewer empties
rc::Gen<Case> gen() {
  using namespace vf;
  auto nGen = rc::gen::weightedOneOf<int64_t>({{2, rc::gen::just<int64_t>(0)}, {3, rc::gen::just<int64_t>(1)}, {3, range(2, 12)}, {2, range(13, 60)}, {3, range(61, 300)}, {3, range(300, 3500)}});
  auto mk = [nGen](const char* name) {
    std::string nm(name);
    return rc::gen::map(rc::gen::tuple(nGen, range(0, 7), range(0, 1 << 20), range(0, 63)), [nm](std::tuple<int64_t, int64_t, int64_t, int64_t> t) { return Op{nm, {std::get<0>(t), std::get<1>(t), std::get<2>(t), std::get<3>(t)}}; });
  };
  // one mandatory batch (an op list may come out empty) followed by a size-scaled list of further update / merge batches
  auto ops = rc::gen::map(rc::gen::tuple(choose({{4, mk("u")}, {1, mk("m")}}), oplist(choose({{6, mk("u")}, {1, mk("m")}, {1, mk("mk")}}), 1, 0.05)),
                          [](std::tuple<Op, std::vector<Op>> t) { std::vector<Op> v; v.push_back(std::get<0>(t)); for (auto& o : std::get<1>(t)) v.push_back(o); return v; });
  long only = env_long("C10_FAM", -1);  // development aid (mutant runs): restrict the family
  return make_case({{"fam", only >= 0 ? range(only, only) : range(0, fam::NFAM - 1)}, {"a", range(0, 1 << 16)}, {"b", range(0, 1 << 16)}, {"c", range(0, 1 << 16)},
                    {"seed", rc::gen::weightedOneOf<int64_t>({{3, rc::gen::just<int64_t>(0)}, {1, range(1, 1000)}})}, {"rnd", range(1, 1 << 20)}, {"pre", range(0, 3)}, {"t", range(0, 1)}, {"ls", range(0, 1)}, {"bs", range(0, 1)}, {"hp", rc::gen::weightedOneOf<int64_t>({{2, rc::gen::just<int64_t>(0)}, {1, range(1, 7)}})}},
                   ops);
}

// Field-width boundaries of the compressed Theta image: the retained-entry count is stored in the fewest whole bytes that hold it, so counts
// next to a power of 256 are where the documented width is decided. Deterministic enumeration (exact mode with n distinct keys, and trimmed
// estimation mode with exactly k entries), both image variants, same independent reader and checks as the generated cases.
void prop_theta_boundary(const Case& cs) {
  const uint64_t n = static_cast<uint64_t>(std::max<int64_t>(1, std::min<int64_t>(70000, cs.get("n", 256))));
  const bool est = cs.get("est", 0) & 1;
  uint8_t lg_k = 5; while ((1ull << lg_k) < n) ++lg_k;
  // "none" = the count boundary at zero: a sampling sketch (p = 1e-6) that has seen items but retained none - estimation mode without entries
  const bool none = cs.get("none", 0) & 1;
  auto us = none ? datasketches::update_theta_sketch::builder().set_lg_k(lg_k).set_p(1e-6f).build() : datasketches::update_theta_sketch::builder().set_lg_k(lg_k).build();
  const uint64_t feed = est ? n * 6 : n;
  for (uint64_t i = 0; i < feed; ++i) us.update(static_cast<int64_t>(i * 7 + 3));
  if (est) us.trim();
  if (none && us.get_num_retained() != 0) return;
  fam::ThetaObj o(us.compact(true), datasketches::DEFAULT_SEED, lg_k);
  for (int v = 0; v < 2; ++v) {
    fam::Bytes img = o.bytes(0, v);
    Ctx c{"theta", v, img};
    chk_theta(c, o);
    auto r = datasketches::compact_theta_sketch::deserialize(img.data(), img.size());
    VF_CHECK(fam::ThetaObj::obs(r) == o.observe(), "theta-boundary-readback", WHO << "the library's own reader does not recover the sketch with " << o.sk.get_num_retained() << " entries");
  }
  vf::label(none ? "theta-boundary:nothing-retained" : est ? "theta-boundary:trimmed" : "theta-boundary:exact");
  vf::nontrivial();
}
void enum_theta_boundary(std::function<bool(const Case&)> run) {
  for (int64_t n : {1, 2, 255, 256, 257, 65535, 65536, 65537}) { Case c; c.set("n", n); c.set("est", 0); if (!run(c)) return; }
  for (int64_t n : {256, 65536}) { Case c; c.set("n", n); c.set("est", 1); if (!run(c)) return; }
  for (int64_t n : {1, 3, 40}) { Case c; c.set("n", n); c.set("est", 0); c.set("none", 1); if (!run(c)) return; }
}

}  // namespace

int main(int argc, char** argv) {
  std::vector<vf::Sub> subs;
  subs.push_back({"layout", gen, prop, 1.0});
  { vf::Sub b; b.name = "theta-count-boundaries"; b.prop = prop_theta_boundary; b.enumerate = enum_theta_boundary; subs.push_back(b); }
  return vf::main_driver(argc, argv, "C10", "c10_layout",
                         "case = a recipe (family out of 22 concrete types, configuration, update/merge batches -> reachable state) + optional query before serializing; "
                         "every format variant of the state is serialized and decoded by an independent reader written from the documented layout only (never the library's "
                         "deserializer); checks: the reader accepts the image, accounts for every byte, unused bytes are zero, and configuration, flags, n / counts / weights, "
                         "theta, seed hash (also vs the published definition), min/max, and the retained entries / items / registers / cells / centroids / bits with their weights "
                         "and documented order equal what the public API reports for the same object; non-trivial = image not empty; distinct = distinct case text",
                         subs);
}
