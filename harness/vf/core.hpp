// vf/core.hpp — shared core of every property harness.
//
// A harness is one translation unit that defines one or more "sub-properties". Each has
//   * a rapidcheck generator of vf::Case (a config map plus a list of integer-argument ops), and
//   * a property function void(const Case&) that throws vf::Failure (via VF_CHECK / vf::fail) on a violation.
// The Case has a plain-text form so that: the supervisor can take the last case logged before a sanitizer
// abort, delta-debug it line by line, and replay it without rapidcheck (--replay <file>).
//
// Everything random inside a property must derive from the Case (never from a clock or a private RNG).
#ifndef VF_CORE_HPP
#define VF_CORE_HPP

#include <rapidcheck.h>

#include <algorithm>
#include <cinttypes>
#include <cmath>
#include <cstdint>
#include <cstdio>
#include <cstdlib>
#include <cstring>
#include <exception>
#include <fstream>
#include <functional>
#include <iostream>
#include <map>
#include <set>
#include <sstream>
#include <string>
#include <unordered_set>
#include <utility>
#include <vector>
#include <fcntl.h>
#include <unistd.h>
#include <chrono>

namespace vf {

// ---------------------------------------------------------------- Case
struct Op {
  std::string name;
  std::vector<int64_t> a;
  int64_t arg(size_t i, int64_t dflt = 0) const { return i < a.size() ? a[i] : dflt; }
  uint64_t uarg(size_t i, uint64_t dflt = 0) const { return i < a.size() ? static_cast<uint64_t>(a[i]) : dflt; }
  bool operator==(const Op& o) const { return name == o.name && a == o.a; }
};

struct Case {
  std::vector<std::pair<std::string, int64_t>> cfg;
  std::vector<Op> ops;

  int64_t get(const std::string& k, int64_t dflt = 0) const {
    for (const auto& kv : cfg) if (kv.first == k) return kv.second;
    return dflt;
  }
  void set(const std::string& k, int64_t v) {
    for (auto& kv : cfg) if (kv.first == k) { kv.second = v; return; }
    cfg.emplace_back(k, v);
  }
  std::string text() const {
    std::string s;
    char buf[32];
    for (const auto& kv : cfg) {
      s += "cfg "; s += kv.first; s += ' ';
      snprintf(buf, sizeof buf, "%" PRId64, kv.second); s += buf; s += '\n';
    }
    for (const auto& op : ops) {
      s += "op "; s += op.name;
      for (auto v : op.a) { snprintf(buf, sizeof buf, " %" PRId64, v); s += buf; }
      s += '\n';
    }
    return s;
  }
  // parses "cfg k v" / "op name a b c" lines; anything else is ignored (replay file headers)
  static Case parse(const std::string& text) {
    Case c;
    std::istringstream in(text);
    std::string line;
    while (std::getline(in, line)) {
      std::istringstream ls(line);
      std::string tag; ls >> tag;
      if (tag == "cfg") {
        std::string k; int64_t v = 0; ls >> k >> v; c.cfg.emplace_back(k, v);
      } else if (tag == "op") {
        Op op; ls >> op.name; int64_t v;
        while (ls >> v) op.a.push_back(v);
        c.ops.push_back(op);
      }
    }
    return c;
  }
};

inline std::ostream& operator<<(std::ostream& os, const Case& c) { return os << c.text(); }

// ---------------------------------------------------------------- failures
struct Failure : std::exception {
  std::string check, msg, key;
  Failure(std::string c, std::string m, std::string k = "") : check(std::move(c)), msg(std::move(m)), key(std::move(k)) {}
  const char* what() const noexcept override { return msg.c_str(); }
};
struct KnownSkip : std::exception { std::string key; explicit KnownSkip(std::string k) : key(std::move(k)) {} };

// ---------------------------------------------------------------- stats
struct Stats {
  std::string property, harness, rule;
  uint64_t evaluations = 0;
  std::map<std::string, uint64_t> labels;         // per-case label histogram
  std::map<std::string, uint64_t> counters;       // free-form counters (checks evaluated, ...)
  std::unordered_set<uint64_t> nontrivial;        // hashes of distinct non-trivial cases
  std::vector<std::string> samples;
  std::map<std::string, uint64_t> known_hits;     // open known-finding key -> cases excluded
  std::vector<std::string> notes;
  std::set<std::string> case_labels;              // labels of the current case
  bool case_nontrivial = false;
};
inline Stats& stats() { static Stats s; return s; }
inline void label(const std::string& l) { stats().case_labels.insert(l); }
inline void count(const std::string& c, uint64_t n = 1) { stats().counters[c] += n; }
inline void nontrivial() { stats().case_nontrivial = true; }

inline std::set<std::string>& known_keys() { static std::set<std::string> k; return k; }

[[noreturn]] inline void fail(const std::string& check, const std::string& msg, const std::string& key = "") {
  if (!key.empty() && known_keys().count(key)) throw KnownSkip(key);
  throw Failure(check, msg, key);
}

#define VF_STR2(x) #x
#define VF_STR(x) VF_STR2(x)
// VF_CHECK(cond, "check-id", stream-expression)
#define VF_CHECK(cond, id, msgexpr)                                                    \
  do {                                                                                 \
    ::vf::count("checks");                                                             \
    if (!(cond)) {                                                                     \
      std::ostringstream vf_os_;                                                       \
      vf_os_ << msgexpr << "  [" #cond " @" __FILE__ ":" VF_STR(__LINE__) "]";       \
      ::vf::fail(id, vf_os_.str());                                                    \
    }                                                                                  \
  } while (0)
// same, with a known-finding key
#define VF_CHECK_K(cond, id, key, msgexpr)                                             \
  do {                                                                                 \
    ::vf::count("checks");                                                             \
    if (!(cond)) {                                                                     \
      std::ostringstream vf_os_;                                                       \
      vf_os_ << msgexpr << "  [" #cond " @" __FILE__ ":" VF_STR(__LINE__) "]";       \
      ::vf::fail(id, vf_os_.str(), key);                                               \
    }                                                                                  \
  } while (0)

inline uint64_t fnv1a(const std::string& s) {
  uint64_t h = 1469598103934665603ull;
  for (unsigned char c : s) { h ^= c; h *= 1099511628211ull; }
  return h;
}

// deterministic 64-bit mixer for deriving values from case integers (splitmix64)
inline uint64_t mix64(uint64_t x) {
  x += 0x9e3779b97f4a7c15ull;
  x = (x ^ (x >> 30)) * 0xbf58476d1ce4e5b9ull;
  x = (x ^ (x >> 27)) * 0x94d049bb133111ebull;
  return x ^ (x >> 31);
}
struct Rng {  // small deterministic stream derived from a case value
  uint64_t s;
  explicit Rng(uint64_t seed) : s(seed) {}
  uint64_t next() { s += 0x9e3779b97f4a7c15ull; return mix64(s); }
  uint64_t below(uint64_t n) { return n ? next() % n : 0; }
  double unit() { return (next() >> 11) * (1.0 / 9007199254740992.0); }
};

inline std::string json_escape(const std::string& s) {
  std::string o;
  for (unsigned char c : s) {
    switch (c) {
      case '"': o += "\\\""; break;
      case '\\': o += "\\\\"; break;
      case '\n': o += "\\n"; break;
      case '\t': o += "\\t"; break;
      case '\r': o += "\\r"; break;
      default:
        if (c < 0x20 || c >= 0x7f) { char b[8]; snprintf(b, sizeof b, "\\u%04x", c); o += b; }
        else o += static_cast<char>(c);
    }
  }
  return o;
}

inline std::string env(const char* k, const std::string& d = "") { const char* v = getenv(k); return v ? v : d; }
inline long env_long(const char* k, long d) { const char* v = getenv(k); return v && *v ? atol(v) : d; }

inline void dump_stats(const std::string& path, const std::string& status) {
  if (path.empty()) return;
  const Stats& s = stats();
  std::string tmp = path + ".tmp";
  {
    std::ofstream o(tmp);
    o << "{\n \"property\": \"" << json_escape(s.property) << "\",\n \"harness\": \"" << json_escape(s.harness)
      << "\",\n \"status\": \"" << status << "\",\n \"rule\": \"" << json_escape(s.rule)
      << "\",\n \"evaluations\": " << s.evaluations << ",\n \"labels\": {";
    bool first = true;
    for (const auto& kv : s.labels) { o << (first ? "" : ", ") << "\"" << json_escape(kv.first) << "\": " << kv.second; first = false; }
    o << "},\n \"counters\": {";
    first = true;
    for (const auto& kv : s.counters) { o << (first ? "" : ", ") << "\"" << json_escape(kv.first) << "\": " << kv.second; first = false; }
    o << "},\n \"known_hits\": {";
    first = true;
    for (const auto& kv : s.known_hits) { o << (first ? "" : ", ") << "\"" << json_escape(kv.first) << "\": " << kv.second; first = false; }
    o << "},\n \"nontrivial_hashes\": [";
    first = true;
    for (auto h : s.nontrivial) { o << (first ? "" : ",") << "\"" << std::hex << h << std::dec << "\""; first = false; }
    o << "],\n \"samples\": [";
    first = true;
    for (const auto& x : s.samples) { o << (first ? "" : ", ") << "\"" << json_escape(x) << "\""; first = false; }
    o << "],\n \"notes\": [";
    first = true;
    for (const auto& x : s.notes) { o << (first ? "" : ", ") << "\"" << json_escape(x) << "\""; first = false; }
    o << "]\n}\n";
  }
  rename(tmp.c_str(), path.c_str());
}

// ---------------------------------------------------------------- sub-properties
struct Sub {
  std::string name;
  std::function<rc::Gen<Case>()> gen;          // may be empty for enumerations
  std::function<void(const Case&)> prop;
  double weight = 1.0;                         // share of the case budget
  int max_size = -1;                           // override of rapidcheck's max_size
  // optional deterministic enumeration instead of generation: returns number of cases run; it must call run_case itself
  std::function<void(std::function<bool(const Case&)>)> enumerate;
};

struct RunCtx {
  std::string out_dir, stats_path, cur_path;
  int cur_fd = -1;
  std::string sub;
  // last failure
  bool have_fail = false;
  std::string fail_case, fail_check, fail_msg, fail_key, fail_sub;
};
inline RunCtx& ctx() { static RunCtx c; return c; }

inline void log_current(const std::string& sub, const std::string& text) {
  RunCtx& c = ctx();
  if (c.cur_fd < 0) return;
  std::string s = "sub " + sub + "\n" + text;
  if (ftruncate(c.cur_fd, 0) != 0) return;
  ssize_t r = pwrite(c.cur_fd, s.data(), s.size(), 0);
  (void)r;
}

// Runs one case under bookkeeping. Returns true if it passed (or hit an open known finding).
inline bool run_case(const Sub& sub, const Case& c, bool quiet = false) {
  Stats& s = stats();
  s.case_labels.clear();
  s.case_nontrivial = false;
  std::string text = c.text();
  log_current(sub.name, text);
  bool ok = true;
  try {
    sub.prop(c);
  } catch (const KnownSkip& k) {
    s.known_hits[k.key]++;
    s.case_labels.insert("known-finding-excluded");
  } catch (const Failure& f) {
    ok = false;
    RunCtx& x = ctx();
    x.have_fail = true; x.fail_case = text; x.fail_check = f.check; x.fail_msg = f.msg; x.fail_key = f.key; x.fail_sub = sub.name;
  } catch (const rc::detail::CaseResult&) {
    throw;  // rapidcheck-internal (discard etc.)
  } catch (const rc::GenerationFailure&) {
    throw;
  } catch (const std::exception& e) {
    ok = false;
    RunCtx& x = ctx();
    x.have_fail = true; x.fail_case = text; x.fail_check = "unexpected-exception"; x.fail_msg = e.what(); x.fail_key = ""; x.fail_sub = sub.name;
  }
  s.evaluations++;
  s.labels["sub:" + sub.name]++;
  for (const auto& l : s.case_labels) s.labels[l]++;
  if (ok && s.case_nontrivial) {
    uint64_t h = fnv1a(sub.name + "\n" + text);
    bool fresh = s.nontrivial.insert(h).second;
    if (fresh && (s.samples.size() < 2 || (s.samples.size() < 6 && (s.nontrivial.size() % 97) == 0))) {
      std::string lbl;
      for (const auto& l : s.case_labels) { lbl += l; lbl += ' '; }
      std::string smp = "sub " + sub.name + " labels[" + lbl + "]\n" + text;
      if (smp.size() > 1800) smp = smp.substr(0, 1800) + "...(truncated)";
      s.samples.push_back(smp);
    }
  }
  if (!quiet && (s.evaluations % 200) == 0) dump_stats(ctx().stats_path, "running");
  return ok;
}

inline void write_fail_file(const std::string& path) {
  RunCtx& x = ctx();
  std::ofstream o(path);
  o << "# vf replay\nproperty " << stats().property << "\nharness " << stats().harness << "\nsub " << x.fail_sub
    << "\ncheck " << x.fail_check << "\nkey " << x.fail_key << "\nmsg ";
  std::string m = x.fail_msg;
  std::replace(m.begin(), m.end(), '\n', ' ');
  o << m << "\n" << x.fail_case;
}

// exit codes of a harness process
enum { EXIT_OK = 0, EXIT_FAIL = 3, EXIT_USAGE = 4, EXIT_HEALTH = 5 };

inline int main_driver(int argc, char** argv, const std::string& property, const std::string& harness,
                       const std::string& rule, const std::vector<Sub>& subs) {
  Stats& s = stats();
  s.property = property; s.harness = harness; s.rule = rule;
  // open known findings
  {
    std::string k = env("VF_KNOWN");
    std::istringstream in(k);
    std::string line;
    while (std::getline(in, line)) if (!line.empty()) known_keys().insert(line);
  }
  if (argc >= 3 && std::string(argv[1]) == "--replay") {
    std::ifstream in(argv[2]);
    std::stringstream ss; ss << in.rdbuf();
    std::string text = ss.str();
    std::string subname;
    {
      std::istringstream ls(text); std::string line;
      while (std::getline(ls, line)) if (line.rfind("sub ", 0) == 0) { subname = line.substr(4); break; }
    }
    const Sub* sub = nullptr;
    for (const auto& x : subs) if (x.name == subname) sub = &x;
    if (!sub) { if (subs.size() == 1 && subname.empty()) sub = &subs[0]; else { fprintf(stderr, "unknown sub '%s'\n", subname.c_str()); return EXIT_USAGE; } }
    Case c = Case::parse(text);
    bool ok = run_case(*sub, c, true);
    if (!ok) {
      printf("FAIL sub=%s check=%s key=%s msg=%s\n", sub->name.c_str(), ctx().fail_check.c_str(), ctx().fail_key.c_str(), ctx().fail_msg.c_str());
      return EXIT_FAIL;
    }
    if (!s.known_hits.empty()) printf("KNOWN %s\n", s.known_hits.begin()->first.c_str());
    printf("PASS\n");
    return EXIT_OK;
  }
  RunCtx& x = ctx();
  x.out_dir = env("VF_OUT", ".");
  std::string wid = env("VF_WORKER", "0");
  x.stats_path = x.out_dir + "/stats." + wid + ".json";
  x.cur_path = x.out_dir + "/current." + wid + ".txt";
  x.cur_fd = open(x.cur_path.c_str(), O_CREAT | O_RDWR | O_TRUNC, 0644);
  long cases = env_long("VF_CASES", 100);
  long max_size = env_long("VF_MAXSIZE", 100);
  uint64_t seed = static_cast<uint64_t>(env_long("VF_SEED", 1));
  std::string only = env("VF_ONLY");
  auto t0 = std::chrono::steady_clock::now();
  int rc_exit = EXIT_OK;
  for (size_t si = 0; si < subs.size(); ++si) {
    const Sub& sub = subs[si];
    if (!only.empty() && only != sub.name) continue;
    x.sub = sub.name;
    bool failed = false;
    if (sub.enumerate) {
      sub.enumerate([&](const Case& c) { if (failed) return false; bool ok = run_case(sub, c); if (!ok) failed = true; return ok; });
    } else {
      rc::detail::TestParams params;
      params.seed = mix64(seed * 1000003ull + si);
      params.maxSuccess = static_cast<int>(std::max<long>(1, std::lround(cases * sub.weight)));
      params.maxSize = sub.max_size >= 0 ? sub.max_size : static_cast<int>(max_size);
      params.maxDiscardRatio = 10;
      params.disableShrinking = false;
      rc::detail::TestMetadata md; md.id = harness + "/" + sub.name; md.description = md.id;
      auto gen = sub.gen();
      auto result = rc::detail::checkTestable(
          [&]() {
            Case c = *gen;
            bool ok = run_case(sub, c);
            if (!ok) RC_FAIL(x.fail_check + ": " + x.fail_msg);
          },
          md, params);
      rc::detail::SuccessResult ok;
      if (!result.match(ok)) {
        rc::detail::FailureResult fr;
        if (result.match(fr)) {
          failed = true;
        } else {
          rc::detail::GaveUpResult gu; rc::detail::Error err;
          if (result.match(gu)) { s.notes.push_back("sub " + sub.name + ": rapidcheck gave up: " + gu.description); rc_exit = EXIT_HEALTH; }
          else if (result.match(err)) { s.notes.push_back("sub " + sub.name + ": rapidcheck error: " + err.description); rc_exit = EXIT_HEALTH; }
        }
      }
    }
    if (failed) {
      // the last failing execution is the shrunk case (every accepted shrink step is a failing run)
      std::string fpath = x.out_dir + "/fail." + wid + ".replay";
      write_fail_file(fpath);
      printf("FAIL sub=%s check=%s key=%s file=%s msg=%s\n", x.fail_sub.c_str(), x.fail_check.c_str(), x.fail_key.c_str(), fpath.c_str(), x.fail_msg.c_str());
      dump_stats(x.stats_path, "failed");
      return EXIT_FAIL;
    }
  }
  double wall = std::chrono::duration<double>(std::chrono::steady_clock::now() - t0).count();
  s.counters["wall_ms"] = static_cast<uint64_t>(wall * 1000);
  dump_stats(x.stats_path, rc_exit == EXIT_OK ? "done" : "health");
  return rc_exit;
}

// ---------------------------------------------------------------- generator helpers
// integer in [lo, hi] that does not collapse at small rapidcheck sizes
inline rc::Gen<int64_t> range(int64_t lo, int64_t hi) {
  return rc::gen::resize(1000, rc::gen::inRange<int64_t>(lo, hi + 1));
}
inline rc::Gen<Op> op0(const std::string& n) { return rc::gen::just(Op{n, {}}); }
inline rc::Gen<Op> op1(const std::string& n, rc::Gen<int64_t> a) {
  return rc::gen::map(std::move(a), [n](int64_t x) { return Op{n, {x}}; });
}
inline rc::Gen<Op> op2(const std::string& n, rc::Gen<int64_t> a, rc::Gen<int64_t> b) {
  return rc::gen::map(rc::gen::tuple(std::move(a), std::move(b)), [n](std::tuple<int64_t, int64_t> t) { return Op{n, {std::get<0>(t), std::get<1>(t)}}; });
}
inline rc::Gen<Op> op3(const std::string& n, rc::Gen<int64_t> a, rc::Gen<int64_t> b, rc::Gen<int64_t> c) {
  return rc::gen::map(rc::gen::tuple(std::move(a), std::move(b), std::move(c)),
                      [n](std::tuple<int64_t, int64_t, int64_t> t) { return Op{n, {std::get<0>(t), std::get<1>(t), std::get<2>(t)}}; });
}
inline rc::Gen<Op> op4(const std::string& n, rc::Gen<int64_t> a, rc::Gen<int64_t> b, rc::Gen<int64_t> c, rc::Gen<int64_t> d) {
  return rc::gen::map(rc::gen::tuple(std::move(a), std::move(b), std::move(c), std::move(d)),
                      [n](std::tuple<int64_t, int64_t, int64_t, int64_t> t) { return Op{n, {std::get<0>(t), std::get<1>(t), std::get<2>(t), std::get<3>(t)}}; });
}
// op list whose length scales with the rapidcheck size: up to lo + size*per ops. A variable-length container, so that
// shrinking removes ops (a fixed-length container would only shrink the ops themselves).
inline rc::Gen<std::vector<Op>> oplist(rc::Gen<Op> g, int lo, double per) {
  return rc::gen::withSize([=](int size) {
    int maxn = lo + static_cast<int>(size * per);
    return rc::gen::resize(maxn, rc::gen::container<std::vector<Op>>(rc::gen::resize(size, g)));
  });
}
// weighted choice among op generators
inline rc::Gen<Op> choose(std::vector<std::pair<int, rc::Gen<Op>>> w) {
  std::vector<rc::Gen<Op>> flat;
  for (auto& p : w) for (int i = 0; i < p.first; ++i) flat.push_back(p.second);
  return rc::gen::mapcat(rc::gen::resize(1000, rc::gen::inRange<size_t>(0, flat.size())), [flat](size_t i) { return flat[i]; });
}
inline rc::Gen<int64_t> pick(std::vector<int64_t> v) { return rc::gen::elementOf(v); }
inline rc::Gen<Case> make_case(std::vector<std::pair<std::string, rc::Gen<int64_t>>> cfg, rc::Gen<std::vector<Op>> ops) {
  std::vector<std::string> names;
  std::vector<rc::Gen<int64_t>> gens;
  for (auto& kv : cfg) { names.push_back(kv.first); gens.push_back(kv.second); }
  // sequence the config generators
  rc::Gen<std::vector<int64_t>> cfgvals = rc::gen::exec([gens]() {
    std::vector<int64_t> v;
    for (const auto& g : gens) v.push_back(*g);
    return v;
  });
  return rc::gen::map(rc::gen::tuple(std::move(cfgvals), std::move(ops)), [names](std::tuple<std::vector<int64_t>, std::vector<Op>> t) {
    Case c;
    for (size_t i = 0; i < names.size(); ++i) c.cfg.emplace_back(names[i], std::get<0>(t)[i]);
    c.ops = std::get<1>(t);
    return c;
  });
}

}  // namespace vf

namespace rc {
template <> struct Arbitrary<vf::Op> {
  static Gen<vf::Op> arbitrary() { return gen::just(vf::Op{"nop", {}}); }
};
inline void showValue(const vf::Op& op, std::ostream& os) { os << op.name; for (auto v : op.a) os << ' ' << v; }
inline void showValue(const vf::Case& c, std::ostream& os) { os << c.text(); }
}  // namespace rc

#endif
