// C15 — Bloom filter: no false negatives in any representation; bitwise set algebra.
//
// Model: one bit vector per logical filter state ("store"); an item sets the bits ((h0 + i*h1) >> 1) mod capacity,
// i = 1..num_hashes, h0 = XXH64(canonical bytes, seed), h1 = XXH64(canonical bytes, h0) (reference XXH64 from
// vf/ref_hash.hpp), capacity = num_bits rounded up to a multiple of 64. A store is either owned by one filter object
// or lives in caller memory and is then seen through several "views" (the filter returned by initialize_by_*,
// read-only wraps, writable wraps, copies of those). After every op every live view is compared with the model:
// query() of inserted items (must be true: no false negative) and of arbitrary probes (must equal the model: nothing
// extra), is_empty, exact bits-used (through a copy, so that the observation does not disturb the cached state),
// serialized size, and for caller memory the bit array itself byte by byte.
//
// Known findings on the pinned tree (keys below, patches in out/proposed/C15-*.diff): A update() through caller memory leaves the
// count field of the memory stale; B query_and_update() on a dirty filter stores a stale count and clears the dirty flag;
// C set operations are not refused on read-only views; D capacities of 2^32 bits and more are restored modulo 2^32.
// Half of the cases play a "disciplined caller" (cfg disc: get_bits_used() after update(), and for caller memory a
// query_and_update() of the same item, which pushes the exact count into the memory) so that the search goes on behind A and B.
//
// Views and time. The statement speaks about views *taken at a later time*. A view that was taken earlier and then
// bypassed by a write through another view of the same memory keeps privately cached counters; nothing is promised
// about it, so such views are destroyed (label "stale-view-dropped") and new ones are taken by later ops.
#include "vf/core.hpp"
#include "vf/items.hpp"
#include <bloom_filter.hpp>
#include "vf/coin.hpp"
#include <memory>
#include <sstream>
#include <type_traits>

using namespace datasketches;
using vf::Case; using vf::Op; using vf::Item;

namespace {

// ---------------------------------------------------------------- known-finding keys (see final report / out/proposed)
const char* const KEY_A = "C15|bloom|update()-through-caller-memory|bits-used field (bytes 24..31) left stale|view created from that memory afterwards";
const char* const KEY_B = "C15|bloom|query_and_update()-on-dirty-filter|stale count stored and dirty flag cleared|update() then query_and_update() without recount";
const char* const KEY_C = "C15|bloom|read-only view|invert/union_with/intersect not refused|set operation through non-const copy of wrap()";
const char* const KEY_D = "C15|bloom|capacity >= 2^32 bits|deserialize/wrap shift the 32-bit length in longs by 6 without widening|serialize->restore of a filter of 2^32 or more bits";

// A failing comparison can have more than one known explanation (the two count defects overlap: after update() and
// query_and_update() through the same caller-memory filter either of them alone leaves a wrong count in the memory). Suspicions
// are carried as a mask; a failure is reported under an explanation that is listed as open if there is one, else under the first.
enum : unsigned { SUS_A = 1, SUS_B = 2, SUS_C = 4 };
std::string keyof(unsigned mask) {
  const char* const keys[3] = {KEY_A, KEY_B, KEY_C};
  for (int i = 0; i < 3; ++i) if ((mask >> i & 1) && vf::known_keys().count(keys[i])) return keys[i];
  for (int i = 0; i < 3; ++i) if (mask >> i & 1) return keys[i];
  return std::string();
}
#define CK(cond, id, mask, msgexpr) VF_CHECK_K(cond, id, keyof(mask), msgexpr)

const uint64_t DIRTY = ~0ull;
const size_t MAX_VIEWS = 7;
const size_t MAX_MEMSTORES = 5;
const size_t MAX_MUST = 4000;

// ---------------------------------------------------------------- items
struct Blob { const void* p; size_t n; };

std::string bloom_bytes(uint64_t raw) {  // bytes item; some are empty (documented as ignored)
  if (raw % 29 == 3) return std::string();
  return vf::item_bytes(raw);
}

// value-preserving canonical form: integers as 64-bit two's complement little endian (unsigned zero-extended, signed
// sign-extended), floating point as canonical double bits, strings / arrays as their bytes; empty = ignored
bool canon(const Item& it, std::string& out) {
  auto put64 = [&](uint64_t v) { out.assign(8, '\0'); for (int i = 0; i < 8; ++i) out[i] = static_cast<char>(v >> (8 * i)); };
  switch (it.type) {
    case vf::T_U64: case vf::T_I64: put64(it.raw); return true;
    case vf::T_U32: put64(static_cast<uint32_t>(it.raw)); return true;
    case vf::T_I32: put64(static_cast<uint64_t>(static_cast<int64_t>(static_cast<int32_t>(static_cast<uint32_t>(it.raw))))); return true;
    case vf::T_U16: put64(static_cast<uint16_t>(it.raw)); return true;
    case vf::T_I16: put64(static_cast<uint64_t>(static_cast<int64_t>(static_cast<int16_t>(static_cast<uint16_t>(it.raw))))); return true;
    case vf::T_U8: put64(static_cast<uint8_t>(it.raw)); return true;
    case vf::T_I8: put64(static_cast<uint64_t>(static_cast<int64_t>(static_cast<int8_t>(static_cast<uint8_t>(it.raw))))); return true;
    case vf::T_F64: put64(static_cast<uint64_t>(vf::ref_canonical_double_bits(vf::item_double(it.raw)))); return true;
    case vf::T_F32: put64(static_cast<uint64_t>(vf::ref_canonical_double_bits(static_cast<double>(vf::item_float(it.raw))))); return true;
    case vf::T_STR: out = vf::item_string(it.raw); return !out.empty();
    default: out = bloom_bytes(it.raw); return !out.empty();
  }
}

template <typename Fn>
bool dispatch(const Item& it, Fn&& fn) {
  switch (it.type) {
    case vf::T_U64: return fn(static_cast<uint64_t>(it.raw));
    case vf::T_I64: return fn(static_cast<int64_t>(it.raw));
    case vf::T_U32: return fn(static_cast<uint32_t>(it.raw));
    case vf::T_I32: return fn(static_cast<int32_t>(static_cast<uint32_t>(it.raw)));
    case vf::T_U16: return fn(static_cast<uint16_t>(it.raw));
    case vf::T_I16: return fn(static_cast<int16_t>(static_cast<uint16_t>(it.raw)));
    case vf::T_U8: return fn(static_cast<uint8_t>(it.raw));
    case vf::T_I8: return fn(static_cast<int8_t>(static_cast<uint8_t>(it.raw)));
    case vf::T_F64: return fn(vf::item_double(it.raw));
    case vf::T_F32: return fn(vf::item_float(it.raw));
    case vf::T_STR: return fn(vf::item_string(it.raw));
    default: { std::string b = bloom_bytes(it.raw); return fn(Blob{b.data(), b.size()}); }
  }
}
template <typename T> constexpr bool is_blob() { return std::is_same<typename std::decay<T>::type, Blob>::value; }

bool lib_query(const bloom_filter& f, const Item& it) {
  return dispatch(it, [&](auto v) -> bool { if constexpr (is_blob<decltype(v)>()) return f.query(v.p, v.n); else return f.query(v); });
}
void lib_update(bloom_filter& f, const Item& it) {
  dispatch(it, [&](auto v) -> bool { if constexpr (is_blob<decltype(v)>()) f.update(v.p, v.n); else f.update(v); return false; });
}
bool lib_qau(bloom_filter& f, const Item& it) {
  return dispatch(it, [&](auto v) -> bool { if constexpr (is_blob<decltype(v)>()) return f.query_and_update(v.p, v.n); else return f.query_and_update(v); });
}

// ---------------------------------------------------------------- model
struct Cfg {
  uint64_t cap = 64; uint16_t nh = 1; uint64_t seed = 0;
  bool operator==(const Cfg& o) const { return cap == o.cap && nh == o.nh && seed == o.seed; }
};
inline uint64_t round64(uint64_t n) { return (n + 63) / 64 * 64; }

struct Bits {
  std::vector<uint64_t> w;
  explicit Bits(uint64_t cap = 0) : w(cap / 64, 0) {}
  bool get(uint64_t i) const { return (w[i >> 6] >> (i & 63)) & 1; }
  void set(uint64_t i) { w[i >> 6] |= 1ull << (i & 63); }
  uint64_t popcount() const { uint64_t n = 0; for (uint64_t x : w) n += static_cast<uint64_t>(__builtin_popcountll(x)); return n; }
  uint8_t byte(uint64_t b) const { return static_cast<uint8_t>(w[b >> 3] >> (8 * (b & 7))); }  // bit i lives in byte i>>3, position i&7
};

struct Store {
  Cfg cfg;
  Bits bits;
  bool is_mem = false;
  std::vector<uint8_t> mem; size_t off = 0;  // caller memory; the image starts at mem.data() + off
  unsigned memsus = 0;                       // non-zero: the count field of the memory is expected to be wrong (known findings SUS_*)
  bool mem_dirty = false;                    // count field holds the "dirty" marker
  std::vector<Item> must;                    // items inserted and still guaranteed present
  bool wwrap_update = false;                 // a bit-setting update went through a writable wrap of this memory
  uint8_t* image() { return mem.data() + off; }
  size_t image_len() const { return mem.size() - off; }
};

void indices(const Cfg& c, const std::string& b, std::vector<uint64_t>& out) {
  out.clear();
  const uint64_t h0 = vf::ref_xxh64(b.data(), b.size(), c.seed);
  const uint64_t h1 = vf::ref_xxh64(b.data(), b.size(), h0);
  for (uint64_t i = 1; i <= c.nh; ++i) out.push_back(((h0 + i * h1) >> 1) % c.cap);
}
bool model_query(const Store& s, const Item& it) {
  std::string b; if (!canon(it, b)) return false;
  std::vector<uint64_t> ix; indices(s.cfg, b, ix);
  for (uint64_t i : ix) if (!s.bits.get(i)) return false;
  return true;
}

enum Kind { K_OWNED = 0, K_DIRECT, K_WRAP_RO, K_WRAP_RW, K_DESER };

struct View {
  std::shared_ptr<Store> s;
  std::unique_ptr<bloom_filter> f;
  bool ro = false;
  int kind = K_OWNED;
  unsigned sus = 0;      // non-zero: this view's cached count is expected to be wrong (known findings SUS_*)
  bool dirty_m = false;  // the view may be in the "dirty" state (count to be recomputed)
};

struct Ctx {
  std::vector<View> views;
  std::vector<View> stale_writers;  // writable handles of caller memory that were bypassed by a write through another handle: they are not
                                    // checked any more (their cached state is legitimately stale) but may still WRITE - op "stalew"
  bool stale_write = false;
  std::vector<std::shared_ptr<Store>> memstores;
  Cfg base; uint64_t base_nbits = 64;
  bool disc = false;
  uint64_t step = 0;
  uint32_t types_mask = 0;
  bool nt = false;
  uint64_t fresh = 0;
};

size_t image_size(const Store& s, bool empty) { return empty ? 24 : 32 + s.cfg.cap / 8; }

// ---------------------------------------------------------------- checks
void check_config(const bloom_filter& f, const Store& s, const char* what) {
  VF_CHECK(f.get_capacity() == s.cfg.cap, "config-capacity", what << ": capacity " << f.get_capacity() << " expected " << s.cfg.cap);
  VF_CHECK(f.get_num_hashes() == s.cfg.nh, "config-hashes", what << ": num_hashes " << f.get_num_hashes() << " expected " << s.cfg.nh);
  VF_CHECK(f.get_seed() == s.cfg.seed, "config-seed", what << ": seed " << f.get_seed() << " expected " << s.cfg.seed);
}

void check_mem_bits(Store& s, const char* after) {
  const uint8_t* p = s.image() + 32;
  const uint64_t nbytes = s.cfg.cap / 8;
  for (uint64_t b = 0; b < nbytes; ++b) {
    if (p[b] != s.bits.byte(b))
      VF_CHECK(false, "memory-bit-array", "after " << after << ": byte " << b << " of the bit array in caller memory is " << int(p[b]) << ", model " << int(s.bits.byte(b)));
  }
  vf::count("checks");
}

// full comparison of one view with the model; `nprobe` limits the per-step work
void check_view(Ctx& c, View& v, const char* after, bool full) {
  Store& s = *v.s;
  const bloom_filter& f = *v.f;
  const unsigned key = v.sus;
  const uint64_t pc = s.bits.popcount();
  check_config(f, s, after);
  VF_CHECK(f.is_read_only() == v.ro, "read-only-flag", "after " << after << ": is_read_only " << f.is_read_only() << " expected " << v.ro);
  VF_CHECK(f.is_wrapped() == s.is_mem, "wrapped-flag", "after " << after << ": is_wrapped " << f.is_wrapped() << " expected " << s.is_mem);
  VF_CHECK(f.is_memory_owned() == !s.is_mem, "owned-flag", "after " << after << ": is_memory_owned " << f.is_memory_owned());
  if (s.is_mem) VF_CHECK(f.get_wrapped_memory() == s.image(), "wrapped-memory", "get_wrapped_memory differs from the caller's pointer");
  CK(f.is_empty() == (pc == 0), "is-empty", key, "after " << after << ": is_empty " << f.is_empty() << " but the model has " << pc << " bits set (kind " << v.kind << ")");
  CK(f.get_serialized_size_bytes() == image_size(s, pc == 0), "serialized-size", key, "after " << after << ": get_serialized_size_bytes " << f.get_serialized_size_bytes() << " expected " << image_size(s, pc == 0));
  // inserted items: no false negative
  vf::Rng r(vf::mix64(c.step * 7919 + 13));
  const size_t nm = s.must.size();
  const size_t nchk = full ? nm : std::min<size_t>(nm, 24);
  for (size_t i = 0; i < nchk; ++i) {
    const Item& it = full ? s.must[i] : s.must[(i < 4 && nm > i) ? nm - 1 - i : r.below(nm)];
    bool q = lib_query(f, it);
    CK(q, "false-negative", key, "after " << after << ": inserted item (" << vf::item_type_name(it.type) << ", raw " << it.raw << ") reported absent by view kind " << v.kind
       << " (model " << model_query(s, it) << ", bits set " << pc << ")");
  }
  // arbitrary probes: nothing extra, nothing missing
  const int np = full ? 64 : 12;
  for (int i = 0; i < np; ++i) {
    Item it{static_cast<int>(r.below(vf::T_NTYPES)), (i & 1) ? r.below(4096) : r.next()};
    bool q = lib_query(f, it), m = model_query(s, it);
    CK(q == m, "query-vs-model", key, "after " << after << ": query(" << vf::item_type_name(it.type) << ", raw " << it.raw << ") = " << q << ", model " << m << " (bits set " << pc << " of " << s.cfg.cap << ")");
  }
  // a copy is one more view; its exact count is read without disturbing the cached state of v
  {
    bloom_filter cp(f);
    uint64_t used = cp.get_bits_used();
    CK(used == pc, "bits-used", key, "after " << after << ": get_bits_used (through a copy) " << used << ", model popcount " << pc << " (kind " << v.kind << ")");
    VF_CHECK(cp.is_read_only() == v.ro, "copy-read-only", "copy of a " << (v.ro ? "read-only" : "writable") << " filter reports is_read_only " << cp.is_read_only());
    for (size_t i = 0; i < std::min<size_t>(nm, 4); ++i) {
      const Item& it = s.must[r.below(nm)];
      CK(lib_query(cp, it), "false-negative-copy", key, "after " << after << ": inserted item reported absent by a copy");
    }
    VF_CHECK(cp.is_compatible(f) && f.is_compatible(cp), "copy-compatible", "copy not compatible with its source");
  }
  if (s.is_mem) check_mem_bits(s, after);
  v.sus = 0;  // the suspicion that this view's count is wrong (known finding) is refuted by the comparison above
}

void check_all(Ctx& c, const char* after, bool full) {
  for (auto& v : c.views) check_view(c, v, after, full);
}

// ---------------------------------------------------------------- view bookkeeping
View& add_view(Ctx& c, View&& v) {
  if (c.views.size() >= MAX_VIEWS) c.views.erase(c.views.begin());
  c.views.push_back(std::move(v));
  return c.views.back();
}
void remember_memstore(Ctx& c, const std::shared_ptr<Store>& s) {
  if (c.memstores.size() >= MAX_MEMSTORES) c.memstores.erase(c.memstores.begin());
  c.memstores.push_back(s);
}
// a write went through view index vi: every other view of the same memory is bypassed from now on
void drop_bypassed(Ctx& c, size_t vi) {
  Store* s = c.views[vi].s.get();
  if (!s->is_mem) return;
  std::vector<View> keep;
  bool dropped = false;
  for (size_t i = 0; i < c.views.size(); ++i) {
    if (i != vi && c.views[i].s.get() == s) {
      dropped = true;
      // a handle that is in the dirty state (it did a plain update) stays usable as a writer
      if (!c.views[i].ro && c.views[i].dirty_m && c.views[i].sus == 0 && c.stale_writers.size() < 3) c.stale_writers.push_back(std::move(c.views[i]));
      continue;
    }
    keep.push_back(std::move(c.views[i]));
  }
  c.views = std::move(keep);
  if (dropped) vf::label("stale-view-dropped");
}
size_t index_of(Ctx& c, const View* v) { return static_cast<size_t>(v - c.views.data()); }

void exact_count_written(View& v) {  // reset / union / intersect / invert recompute the count and store it
  v.sus = 0; v.dirty_m = false;
  if (v.s->is_mem) { v.s->memsus = 0; v.s->mem_dirty = false; }
}

// ---------------------------------------------------------------- creation
Cfg variant_cfg(const Ctx& c, int64_t variant, uint64_t x, uint64_t& nbits) {
  Cfg g = c.base; nbits = c.base_nbits;
  switch (variant % 6) {
    case 0: case 1: break;                                            // compatible
    case 2: g.seed = c.base.seed + 1 + x % 3; break;                  // other seed
    case 3: g.nh = static_cast<uint16_t>(c.base.nh % 12 + 1); break;  // other number of hashes
    case 4: nbits = 1 + x % 3000; g.cap = round64(nbits); break;      // other size (may round to the same capacity)
    default: nbits = c.base.cap - x % 64; g.cap = round64(nbits); break;  // other num_bits, same capacity: compatible
  }
  return g;
}

std::shared_ptr<Store> new_store(const Cfg& g) {
  auto s = std::make_shared<Store>();
  s->cfg = g; s->bits = Bits(g.cap);
  return s;
}

void op_new(Ctx& c, const Op& op) {
  const int kind = static_cast<int>(op.uarg(0) % 8);
  uint64_t nbits;
  Cfg g = variant_cfg(c, op.arg(1) < 0 ? 0 : op.arg(1), op.uarg(2), nbits);
  const uint64_t x = op.uarg(2);
  using B = bloom_filter::builder;
  VF_CHECK(bloom_filter::get_serialized_size_bytes(nbits) == 32 + g.cap / 8, "static-size", "get_serialized_size_bytes(" << nbits << ") = " << bloom_filter::get_serialized_size_bytes(nbits));
  if (kind <= 1 || kind == 7) {  // owned
    auto s = new_store(g);
    View v; v.s = s; v.kind = K_OWNED;
    if (kind == 7) {  // library-chosen seed (drawn from the library's generator, owned by the case)
      v.f.reset(new bloom_filter(B::create_by_size(nbits, g.nh)));
      s->cfg.seed = v.f->get_seed();
      vf::label("random-seed");
    } else {
      v.f.reset(new bloom_filter(B::create_by_size(nbits, g.nh, g.seed)));
    }
    add_view(c, std::move(v));
  } else if (kind <= 4) {  // caller memory
    auto s = new_store(g);
    s->is_mem = true;
    const size_t need = 32 + g.cap / 8;
    s->off = (kind == 3) ? (x >> 8) % 24 : 0;
    const size_t slack = (kind == 3) ? (x >> 16) % 40 : 0;
    s->mem.assign(s->off + need + slack, 0xA5);  // junk: the constructor must overwrite what it uses
    if (kind == 4) {  // too small: refused
      bool refused = false;
      size_t shortlen = need - 1 - (x >> 8) % std::min<size_t>(need - 1, 40);
      try { bloom_filter t = B::initialize_by_size(s->image(), shortlen, nbits, g.nh, g.seed); (void)t; }
      catch (const std::invalid_argument&) { refused = true; }
      VF_CHECK(refused, "short-memory-refused", "initialize_by_size accepted " << shortlen << " bytes for a filter that needs " << need);
      vf::label("short-memory-refused");
      return;
    }
    View v; v.s = s; v.kind = K_DIRECT;
    v.f.reset(new bloom_filter(B::initialize_by_size(s->image(), s->image_len(), nbits, g.nh, g.seed)));
    remember_memstore(c, s);
    add_view(c, std::move(v));
    vf::label("caller-memory");
  } else {  // by accuracy (owned: 5, caller memory: 6)
    static const double ps[] = {0.5, 0.3, 0.1, 0.03, 0.01, 1e-3, 1e-5};
    const uint64_t n = 1 + x % 400;
    const double p = ps[(x >> 12) % 7];
    const uint64_t sb = B::suggest_num_filter_bits(n, p);
    const uint16_t sh = B::suggest_num_hashes(p);
    VF_CHECK(sb >= 1 && sh >= 1, "suggest-positive", "suggested bits " << sb << " hashes " << sh);
    Cfg a; a.cap = round64(sb); a.nh = sh; a.seed = g.seed;
    auto s = new_store(a);
    View v; v.s = s;
    if (kind == 5) {
      v.kind = K_OWNED;
      v.f.reset(new bloom_filter(B::create_by_accuracy(n, p, a.seed)));
    } else {
      s->is_mem = true; s->mem.assign(32 + a.cap / 8, 0x5A);
      v.kind = K_DIRECT;
      v.f.reset(new bloom_filter(B::initialize_by_accuracy(s->image(), s->image_len(), n, p, a.seed)));
      remember_memstore(c, s);
      vf::label("caller-memory");
    }
    add_view(c, std::move(v));
    vf::label("by-accuracy");
  }
  check_view(c, c.views.back(), "new", false);
  VF_CHECK(c.views.back().f->is_empty(), "new-empty", "a new filter is not empty");
}

// marks NT when a view is taken from memory that has seen updates through a writable wrap
void note_fresh_view(Ctx& c, const Store& s, const char* how) {
  if (s.wwrap_update) { c.nt = true; vf::label("view-after-wwrap-update"); vf::label(std::string("fresh:") + how); }
}

// new view of caller memory: mode 0 = wrap (read-only), 1 = writable_wrap, 2 = deserialize(bytes) from the memory
void view_from_memory(Ctx& c, std::shared_ptr<Store> s, int mode) {
  View v;
  v.sus = s->memsus;
  v.dirty_m = s->mem_dirty || s->memsus != 0;
  if (mode == 0) {
    v.s = s; v.kind = K_WRAP_RO; v.ro = true;
    v.f.reset(new bloom_filter(bloom_filter::wrap(s->image(), s->image_len())));
    vf::label("wrap-ro");
  } else if (mode == 1) {
    v.s = s; v.kind = K_WRAP_RW;
    v.f.reset(new bloom_filter(bloom_filter::writable_wrap(s->image(), s->image_len())));
    vf::label("wrap-rw");
  } else {
    auto o = new_store(s->cfg);
    o->bits = s->bits; o->must = s->must;
    v.s = o; v.kind = K_DESER;
    v.f.reset(new bloom_filter(bloom_filter::deserialize(s->image(), s->image_len())));
    vf::label("deserialize-memory");
  }
  View& nv = add_view(c, std::move(v));
  check_view(c, nv, mode == 0 ? "wrap" : mode == 1 ? "writable_wrap" : "deserialize(memory)", false);
  s->memsus = 0;  // the count field of the memory was just read and found right (or marked "recompute")
  note_fresh_view(c, *s, mode == 0 ? "wrap" : mode == 1 ? "writable_wrap" : "deserialize");
}

// serialize view vi, verify the image, restore it: mode 0 deserialize(bytes), 1 deserialize(stream), 2 wrap, 3 writable_wrap
void op_ser(Ctx& c, size_t vi, int mode, unsigned hdr) {
  View& v = c.views[vi];       // note: v dangles once a view is added below; everything needed later is copied first
  std::shared_ptr<Store> sp = v.s;
  Store& s = *sp;
  const bool src_wwrap = s.wwrap_update;
  const unsigned vsus = v.sus;
  const uint64_t pc = s.bits.popcount();
  const bool empty = pc == 0;
  std::vector<uint8_t> img;
  const bool stream = (mode == 1);
  if (stream) {
    std::ostringstream os(std::ios::binary);
    v.f->serialize(os);
    std::string str = os.str();
    img.assign(str.begin(), str.end());
    hdr = 0;
    vf::label("ser-stream");
  } else {
    auto bytes = v.f->serialize(hdr);
    img.assign(bytes.begin(), bytes.end());
    vf::label("ser-bytes");
  }
  CK(img.size() == hdr + image_size(s, empty), "image-size", vsus, "serialized " << img.size() << " bytes, expected " << hdr + image_size(s, empty) << " (bits set " << pc << ")");
  for (unsigned i = 0; i < hdr; ++i) VF_CHECK(img[i] == 0, "header-blank", "header byte " << i << " is " << int(img[i]));
  const uint8_t* p = img.data() + hdr;
  VF_CHECK(p[0] == (empty ? 3 : 4) && p[1] == 1 && p[2] == 21 && p[3] == (empty ? 4 : 0), "image-preamble", "preamble bytes " << int(p[0]) << " " << int(p[1]) << " " << int(p[2]) << " " << int(p[3]));
  {
    uint16_t nh; uint64_t seed; uint32_t longs;
    std::memcpy(&nh, p + 4, 2); std::memcpy(&seed, p + 8, 8); std::memcpy(&longs, p + 16, 4);
    VF_CHECK(nh == s.cfg.nh && seed == s.cfg.seed && longs == s.cfg.cap / 64, "image-config", "image holds hashes " << nh << " seed " << seed << " longs " << longs);
  }
  bool img_dirty = false;
  if (!empty) {
    uint64_t cnt; std::memcpy(&cnt, p + 24, 8);
    img_dirty = (cnt == DIRTY);
    CK(cnt == DIRTY || cnt == pc, "image-count", vsus, "image count field " << cnt << ", model popcount " << pc);
    for (uint64_t b = 0; b < s.cfg.cap / 8; ++b)
      if (p[32 + b] != s.bits.byte(b)) VF_CHECK(false, "image-bit-array", "byte " << b << " of the serialized bit array is " << int(p[32 + b]) << ", model " << int(s.bits.byte(b)));
    vf::count("checks");
  }
  // restore
  if (mode <= 1) {
    auto o = new_store(s.cfg);
    o->bits = s.bits; o->must = s.must;
    View nv; nv.s = o; nv.kind = K_DESER; nv.sus = vsus; nv.dirty_m = img_dirty;
    if (stream) {
      std::istringstream is(std::string(img.begin(), img.end()), std::ios::binary);
      nv.f.reset(new bloom_filter(bloom_filter::deserialize(is)));
    } else {
      nv.f.reset(new bloom_filter(bloom_filter::deserialize(img.data() + hdr, img.size() - hdr)));
    }
    View& r = add_view(c, std::move(nv));
    check_view(c, r, stream ? "deserialize(stream)" : "deserialize(bytes)", false);
    if (src_wwrap) { c.nt = true; vf::label("view-after-wwrap-update"); vf::label("fresh:serialize-deserialize"); }
    return;
  }
  // the image becomes new caller memory
  auto o = new_store(s.cfg);
  o->bits = s.bits; o->must = s.must;
  if (empty) {
    // the 24-byte empty form holds no bit array: wrap() hands out a detached empty filter, writable_wrap refuses
    if (mode == 2) {
      const bloom_filter w = bloom_filter::wrap(img.data() + hdr, img.size() - hdr);
      VF_CHECK(w.is_empty(), "wrap-empty-image", "wrap of an empty image is not empty");
      check_config(w, s, "wrap(empty image)");
      VF_CHECK(!w.query(static_cast<uint64_t>(1)), "wrap-empty-image", "wrap of an empty image reports an item");
    } else {
      bool refused = false;
      try { bloom_filter w = bloom_filter::writable_wrap(img.data() + hdr, img.size() - hdr); VF_CHECK(w.is_empty(), "wrap-empty-image", "writable wrap of an empty image is not empty"); }
      catch (const std::invalid_argument&) { refused = true; }
      if (refused) vf::label("wwrap-empty-refused");
    }
    vf::label("empty-image");
    return;
  }
  o->is_mem = true; o->mem = std::move(img); o->off = hdr;
  o->memsus = vsus; o->mem_dirty = img_dirty;
  remember_memstore(c, o);
  view_from_memory(c, o, mode == 2 ? 0 : 1);
  if (src_wwrap) { c.nt = true; vf::label("view-after-wwrap-update"); vf::label("fresh:serialize-wrap"); }
}

// ---------------------------------------------------------------- writes
bool expect_refusal_ro(View& v, const char* what, const std::function<void(bloom_filter&)>& fn, unsigned key) {
  bool refused = false;
  try { fn(*v.f); } catch (const std::logic_error&) { refused = true; }
  CK(refused, "read-only-write-refused", key, what << " through a read-only view was not refused");
  vf::label("ro-refused");
  return refused;
}

// one update / query_and_update through view index vi (writable)
void do_insert(Ctx& c, size_t vi, const Item& it, bool qau) {
  View& v = c.views[vi];
  Store& s = *v.s;
  std::string b;
  const bool eff = canon(it, b);
  bool prior = false;
  std::vector<uint64_t> ix;
  uint64_t newbits = 0;
  if (eff) {
    indices(s.cfg, b, ix);
    prior = true;
    for (uint64_t i : ix) { if (!s.bits.get(i)) { prior = false; ++newbits; s.bits.set(i); } }
    if (s.must.size() < MAX_MUST) s.must.push_back(it);
  } else {
    vf::label("ignored-empty-item");
  }
  if (qau) {
    bool r = lib_qau(*v.f, it);
    VF_CHECK(r == prior, "query-and-update-return", "query_and_update(" << vf::item_type_name(it.type) << ", raw " << it.raw << ") returned " << r << ", the model's prior answer is " << prior);
  } else {
    lib_update(*v.f, it);
  }
  c.types_mask |= 1u << it.type;
  if (!eff) return;
  if (v.kind == K_WRAP_RW && newbits > 0) { s.wwrap_update = true; vf::label("wwrap-update"); }
  if (!qau) {
    v.dirty_m = true;
    if (s.is_mem) {
      s.mem_dirty = true;  // a correct implementation marks the count in memory as "to be recomputed"; the pinned tree leaves it stale (A)
      if (newbits > 0) s.memsus |= SUS_A;
    }
  } else if (v.dirty_m) {
    // B on the pinned tree: a stale count is stored (also into the memory) and the dirty state is lost; a correct implementation stays
    // dirty and leaves the count field alone. dirty_m stays set: "may be dirty".
    v.sus |= SUS_B;
    if (s.is_mem) s.memsus |= SUS_B | (newbits > 0 ? SUS_A : 0);  // with B alone repaired the memory still lacks the "recompute" mark that update() owed it (A)
  } else if (s.is_mem && newbits > 0) {
    s.memsus = v.sus; s.mem_dirty = false;  // exact count written through (nothing needs writing when no bit changed)
  }
}

// "disciplined" caller: recount after update(), and push the count into caller memory by a query_and_update of the same item
void settle(Ctx& c, size_t vi, const Item& last) {
  View& v = c.views[vi];
  Store& s = *v.s;
  uint64_t used = v.f->get_bits_used();
  CK(used == s.bits.popcount(), "bits-used-direct", v.sus, "get_bits_used " << used << ", model popcount " << s.bits.popcount());
  v.dirty_m = false;
  if (s.is_mem) do_insert(c, vi, last, true);
}

// selectors 0..6 address a view by position; larger ones prefer a writable wrap when there is one
size_t pick_view(Ctx& c, uint64_t sel) {
  if (sel >= MAX_VIEWS) for (size_t k = 0; k < c.views.size(); ++k) { size_t i = (sel + k) % c.views.size(); if (c.views[i].kind == K_WRAP_RW && !c.views[i].ro) return i; }
  return static_cast<size_t>(sel % c.views.size());
}
// next writable view at or after sel (or npos)
size_t pick_writable(Ctx& c, uint64_t sel) {
  if (sel >= MAX_VIEWS) { size_t i = pick_view(c, sel); if (!c.views[i].ro) return i; }
  for (size_t k = 0; k < c.views.size(); ++k) { size_t i = (sel + k) % c.views.size(); if (!c.views[i].ro) return i; }
  return static_cast<size_t>(-1);
}

void op_insert(Ctx& c, const Op& op, bool qau) {
  size_t vi = pick_view(c, op.uarg(0));
  Item it{static_cast<int>(op.uarg(1) % vf::T_NTYPES), op.uarg(2)};
  std::string b;
  const bool eff = canon(it, b);
  if (c.views[vi].ro) {
    if (eff) {
      expect_refusal_ro(c.views[vi], qau ? "query_and_update" : "update", [&](bloom_filter& f) { if (qau) lib_qau(f, it); else lib_update(f, it); }, 0);
    } else {  // an ignored (empty) item is documented to return at once; with or without refusal nothing may change
      try { if (qau) { bool r = lib_qau(*c.views[vi].f, it); VF_CHECK(!r, "query-and-update-return", "empty item reported present"); } else lib_update(*c.views[vi].f, it); }
      catch (const std::logic_error&) {}
    }
    return;
  }
  do_insert(c, vi, it, qau);
  if (!eff) return;
  if (c.disc && !qau) settle(c, vi, it);
  drop_bypassed(c, vi);
}

// plain updates through a bypassed (stale but still dirty) writable handle of caller memory: the items must be visible to every view
// taken of that memory later (wrapmem). Every checked view of the same memory is bypassed by this write in turn.
void op_stale_write(Ctx& c, const Op& op) {
  if (c.stale_writers.empty()) return;
  View& w = c.stale_writers[op.uarg(0) % c.stale_writers.size()];
  Store& s = *w.s;
  const uint64_t n = 1 + op.uarg(1) % 6;
  for (uint64_t i = 0; i < n; ++i) {
    Item it{vf::T_I64, vf::mix64(0xC15F + c.fresh++) | 4096};
    std::string b; if (!canon(it, b)) continue;
    std::vector<uint64_t> ix; indices(s.cfg, b, ix);
    for (uint64_t k : ix) s.bits.set(k);
    if (s.must.size() < MAX_MUST) s.must.push_back(it);
    lib_update(*w.f, it);
  }
  s.mem_dirty = true;
  std::vector<View> keep;
  for (auto& v : c.views) { if (v.s.get() == &s) continue; keep.push_back(std::move(v)); }
  c.views = std::move(keep);
  c.stale_write = true;
  vf::label("write-through-a-bypassed-handle");
}

void op_bulk(Ctx& c, const Op& op) {
  size_t vi = pick_writable(c, op.uarg(0));
  if (vi == static_cast<size_t>(-1)) return;
  const uint64_t n = op.uarg(1) % 3000;
  int type = static_cast<int>(op.uarg(2) % vf::T_NTYPES);
  if (type == vf::T_U8 || type == vf::T_I8) type = vf::T_U16;
  const int mode = static_cast<int>(op.uarg(3) % 3);  // 0 update, 1 query_and_update, 2 mixed
  Item last{type, 0};
  bool last_upd = false;
  for (uint64_t i = 0; i < n; ++i) {
    Item it{type, vf::mix64(0xC15 + c.fresh++) | 4096};
    bool qau = mode == 1 || (mode == 2 && (i % 3) == 2);
    if (c.disc && mode == 2 && qau && last_upd) { settle(c, vi, last); }
    do_insert(c, vi, it, qau);
    last = it; last_upd = !qau;
  }
  if (c.disc && last_upd) settle(c, vi, last);
  if (n) drop_bypassed(c, vi);
  vf::label("bulk");
}

void op_old(Ctx& c, const Op& op) {  // re-present inserted items: query_and_update must answer true, nothing changes
  size_t vi = pick_writable(c, op.uarg(0));
  if (vi == static_cast<size_t>(-1)) return;
  Store& s = *c.views[vi].s;
  if (s.must.empty()) return;
  const uint64_t n = 1 + op.uarg(1) % 40;
  vf::Rng r(op.uarg(2));
  const uint64_t before = s.bits.popcount();
  for (uint64_t i = 0; i < n; ++i) {
    Item it = s.must[r.below(s.must.size())];
    bool qau = (r.next() & 1) != 0;
    do_insert(c, vi, it, qau);
    if (c.disc && !qau) settle(c, vi, it);
  }
  VF_CHECK(s.bits.popcount() == before, "model-self-check", "re-inserting changed the model");
  drop_bypassed(c, vi);
  vf::label("duplicates");
}

void model_setop(Store& dst, const Store& src, bool is_union) {
  for (size_t i = 0; i < dst.bits.w.size(); ++i) dst.bits.w[i] = is_union ? (dst.bits.w[i] | src.bits.w[i]) : (dst.bits.w[i] & src.bits.w[i]);
  if (is_union) {
    for (const Item& it : src.must) { if (dst.must.size() >= MAX_MUST) break; dst.must.push_back(it); }
  } else if (&dst != &src) {
    std::set<std::pair<int, uint64_t>> in;
    for (const Item& it : src.must) in.insert({it.type, it.raw});
    std::vector<Item> keep;
    for (const Item& it : dst.must) if (in.count({it.type, it.raw})) keep.push_back(it);
    dst.must = std::move(keep);
  }
}

void op_setop(Ctx& c, const Op& op, bool is_union) {
  size_t a = pick_view(c, op.uarg(0)), b = pick_view(c, op.uarg(1));
  const bool force_ro = (op.uarg(2) % 16) == 0;
  if (c.views[a].ro && !force_ro) { a = pick_writable(c, a); if (a == static_cast<size_t>(-1)) return; }
  View& dst = c.views[a]; View& src = c.views[b];
  const bool compat = dst.s->cfg == src.s->cfg;
  VF_CHECK(dst.f->is_compatible(*src.f) == compat && src.f->is_compatible(*dst.f) == compat, "is-compatible",
           "is_compatible " << dst.f->is_compatible(*src.f) << ", expected " << compat);
  if (!compat) {
    bool refused = false;
    try { if (is_union) dst.f->union_with(*src.f); else dst.f->intersect(*src.f); }
    catch (const std::invalid_argument&) { refused = true; }
    catch (const std::logic_error&) { refused = dst.ro; }  // a read-only target may be refused for that reason first
    VF_CHECK(refused, "incompatible-refused", (is_union ? "union_with" : "intersect") << " of incompatible filters was not refused");
    vf::label("incompatible-refused");
    return;  // the per-step comparison shows that nothing changed
  }
  if (dst.ro) {
    expect_refusal_ro(dst, is_union ? "union_with" : "intersect", [&](bloom_filter& f) { if (is_union) f.union_with(*src.f); else f.intersect(*src.f); }, SUS_C);
    return;
  }
  if (is_union) dst.f->union_with(*src.f); else dst.f->intersect(*src.f);
  if (dst.s.get() != src.s.get()) model_setop(*dst.s, *src.s, is_union);
  exact_count_written(dst);
  if (dst.kind == K_WRAP_RW) dst.s->wwrap_update = true;
  uint64_t used = dst.f->get_bits_used();
  VF_CHECK(used == dst.s->bits.popcount(), "setop-count", (is_union ? "union_with" : "intersect") << ": get_bits_used " << used << ", model popcount " << dst.s->bits.popcount());
  vf::label(is_union ? "union" : "intersect");
  if (src.kind != K_OWNED || dst.kind != K_OWNED) vf::label("setop-across-representations");
  drop_bypassed(c, a);
}

void op_invert(Ctx& c, const Op& op) {
  size_t a = pick_view(c, op.uarg(0));
  const bool force_ro = (op.uarg(1) % 16) == 0;
  if (c.views[a].ro && !force_ro) { a = pick_writable(c, a); if (a == static_cast<size_t>(-1)) return; }
  View& v = c.views[a];
  if (v.ro) { expect_refusal_ro(v, "invert", [](bloom_filter& f) { f.invert(); }, SUS_C); return; }
  v.f->invert();
  for (auto& w : v.s->bits.w) w = ~w;
  v.s->must.clear();
  exact_count_written(v);
  uint64_t used = v.f->get_bits_used();
  VF_CHECK(used == v.s->bits.popcount(), "invert-count", "invert: get_bits_used " << used << ", model popcount " << v.s->bits.popcount());
  vf::label("invert");
  drop_bypassed(c, a);
}

void op_reset(Ctx& c, const Op& op) {
  size_t a = pick_view(c, op.uarg(0));
  View& v = c.views[a];
  if (v.ro) { expect_refusal_ro(v, "reset", [](bloom_filter& f) { f.reset(); }, 0); return; }
  v.f->reset();
  for (auto& w : v.s->bits.w) w = 0;
  v.s->must.clear();
  exact_count_written(v);
  vf::label("reset");
  drop_bypassed(c, a);
}

void op_copy(Ctx& c, const Op& op) {
  size_t a = pick_view(c, op.uarg(0));
  View& v = c.views[a];
  View nv;
  // how the copy is taken: copy construction, copy assignment over an unrelated filter, or a move of a copy
  const unsigned mode = static_cast<unsigned>(op.uarg(1) % 4);
  if (mode == 1) {
    nv.f.reset(new bloom_filter(bloom_filter::builder::create_by_size(64 + 64 * (op.uarg(1) / 4 % 5), 3, 99)));
    if (op.uarg(1) / 32 % 2) nv.f->update(static_cast<uint64_t>(7));
    *nv.f = *v.f;
    vf::label("copy-assign");
  } else if (mode == 2) {
    bloom_filter tmp(*v.f);
    nv.f.reset(new bloom_filter(std::move(tmp)));
    vf::label("copy-move");
  } else if (mode == 3) {
    bloom_filter tmp(*v.f);
    nv.f.reset(new bloom_filter(bloom_filter::builder::create_by_size(128, 2, 5)));
    *nv.f = std::move(tmp);
    vf::label("copy-move-assign");
  } else {
    nv.f.reset(new bloom_filter(*v.f));
  }
  nv.ro = v.ro; nv.kind = v.kind; nv.sus = v.sus; nv.dirty_m = v.dirty_m;
  const bool wu = v.s->wwrap_update;
  if (v.s->is_mem) {
    nv.s = v.s;  // a copy of a filter over caller memory is one more view of that memory
  } else {
    auto o = new_store(v.s->cfg);
    o->bits = v.s->bits; o->must = v.s->must;
    nv.s = o;
  }
  View& r = add_view(c, std::move(nv));
  check_view(c, r, "copy", false);
  if (wu) { c.nt = true; vf::label("view-after-wwrap-update"); vf::label("fresh:copy"); }
  vf::label("copy");
}

void op_bits(Ctx& c, const Op& op) {  // get_bits_used on the view itself (recounts when dirty)
  View& v = c.views[pick_view(c, op.uarg(0))];
  uint64_t used = v.f->get_bits_used();
  CK(used == v.s->bits.popcount(), "bits-used-direct", v.sus, "get_bits_used " << used << ", model popcount " << v.s->bits.popcount() << " (kind " << v.kind << ")");
  v.dirty_m = false;
  vf::label("bits-used-direct");
}

// ---------------------------------------------------------------- the property
void prop(const Case& cs) {
  vf::own_randomness(static_cast<uint64_t>(cs.get("rnd", 1)));
  Ctx c;
  c.base_nbits = static_cast<uint64_t>(std::min<int64_t>(1 << 22, std::max<int64_t>(1, cs.get("nbits", 64))));
  c.base.cap = round64(c.base_nbits);
  c.base.nh = static_cast<uint16_t>(std::min<int64_t>(40, std::max<int64_t>(1, cs.get("nh", 3))));
  c.base.seed = cs.get("seed", 0) == 0 ? 0 : vf::mix64(static_cast<uint64_t>(cs.get("seed", 0)));
  if (cs.get("seed", 0) == 1) c.base.seed = ~0ull;
  c.disc = cs.get("disc", 0) != 0;
  // first view
  op_new(c, Op{"new", {cs.get("k0", 0), 0, cs.get("rnd", 1)}});
  if (cs.get("ww0", 0) && !c.views.empty() && c.views[0].s->is_mem) view_from_memory(c, c.views[0].s, 1);  // start with a writable wrap of the fresh memory
  const bool big = c.base.cap > (1u << 16);
  for (const Op& op : cs.ops) {
    ++c.step;
    if (c.views.empty()) { op_new(c, Op{"new", {0, 0, 0}}); }
    const std::string& n = op.name;
    if (n == "new") op_new(c, op);
    else if (n == "upd") op_insert(c, op, false);
    else if (n == "qau") op_insert(c, op, true);
    else if (n == "bulk") op_bulk(c, op);
    else if (n == "old") op_old(c, op);
    else if (n == "union") op_setop(c, op, true);
    else if (n == "intersect") op_setop(c, op, false);
    else if (n == "invert") op_invert(c, op);
    else if (n == "reset") op_reset(c, op);
    else if (n == "copy") op_copy(c, op);
    else if (n == "stalew") op_stale_write(c, op);
    else if (n == "bits") op_bits(c, op);
    else if (n == "ser") op_ser(c, pick_view(c, op.uarg(0)), static_cast<int>(op.uarg(1) % 4), static_cast<unsigned>(op.uarg(2) % 20));
    else if (n == "wrapmem") { if (c.memstores.empty()) continue; view_from_memory(c, c.memstores[op.uarg(0) % c.memstores.size()], static_cast<int>(op.uarg(1) % 3)); }
    else if (n == "drop") { if (c.views.size() > 1) c.views.erase(c.views.begin() + static_cast<long>(pick_view(c, op.uarg(0)))); vf::label("drop"); }
    else continue;
    if (!big || &op == &cs.ops.back()) check_all(c, n.c_str(), false);
  }
  ++c.step;
  check_all(c, "end", true);
  // labels
  if (c.base_nbits % 64) vf::label("num_bits%64!=0");
  if (c.disc) vf::label("disciplined-caller");
  if (__builtin_popcount(c.types_mask) >= 3) vf::label("types>=3");
  for (auto& v : c.views) {
    uint64_t pc = v.s->bits.popcount();
    if (pc == v.s->cfg.cap) vf::label("saturated");
    if (pc > 0 && pc * 4 < v.s->cfg.cap) vf::label("sparse");
  }
  if (c.nt) vf::nontrivial();
}

// ---------------------------------------------------------------- accuracy (weak, statistical)
void prop_accuracy(const Case& cs) {
  vf::own_randomness(7);
  static const double ps[] = {0.3, 0.1, 0.05, 0.01, 3e-3, 1e-3, 1e-4};
  const uint64_t n = static_cast<uint64_t>(std::min<int64_t>(30000, std::max<int64_t>(500, cs.get("n", 1000))));
  const double p = ps[static_cast<uint64_t>(cs.get("p", 0)) % 7];
  const uint64_t seed = vf::mix64(static_cast<uint64_t>(cs.get("seed", 0)));
  const uint64_t base = vf::mix64(seed ^ 0xACC) << 1;
  const int type = cs.get("type", 0) % 2 ? vf::T_STR : vf::T_U64;
  using B = bloom_filter::builder;
  std::vector<uint8_t> mem;
  std::unique_ptr<bloom_filter> f;
  const uint64_t sb = B::suggest_num_filter_bits(n, p);
  const uint16_t sh = B::suggest_num_hashes(p);
  if (cs.get("mem", 0) & 1) {
    mem.assign(bloom_filter::get_serialized_size_bytes(sb), 0);
    f.reset(new bloom_filter(B::initialize_by_accuracy(mem.data(), mem.size(), n, p, seed)));
  } else {
    f.reset(new bloom_filter(B::create_by_accuracy(n, p, seed)));
  }
  VF_CHECK(f->get_capacity() == round64(sb), "accuracy-capacity", "capacity " << f->get_capacity() << " suggested bits " << sb);
  VF_CHECK(f->get_num_hashes() == sh && sh >= 1, "accuracy-hashes", "num_hashes " << f->get_num_hashes() << " suggested " << sh);
  Store s; s.cfg.cap = round64(sb); s.cfg.nh = sh; s.cfg.seed = seed; s.bits = Bits(s.cfg.cap);
  const bool qau = cs.get("qau", 0) & 1;
  std::string b; std::vector<uint64_t> ix;
  // inserted items have even raw values, probes odd ones: disjoint by construction
  auto item = [&](uint64_t i, bool probe) { return Item{type, (base + 2 * i + (probe ? 1 : 0)) | (1ull << 62)}; };
  for (uint64_t i = 0; i < n; ++i) {
    Item it = item(i, false);
    canon(it, b); indices(s.cfg, b, ix);
    bool prior = true;
    for (uint64_t k : ix) { if (!s.bits.get(k)) prior = false; s.bits.set(k); }
    if (qau) { bool r = lib_qau(*f, it); VF_CHECK(r == prior, "query-and-update-return", "item " << i << ": returned " << r << " model " << prior); }
    else lib_update(*f, it);
  }
  const uint64_t pc = s.bits.popcount();
  VF_CHECK(f->get_bits_used() == pc, "bits-used", "get_bits_used " << f->get_bits_used() << " model " << pc);
  for (uint64_t i = 0; i < n; ++i) VF_CHECK(lib_query(*f, item(i, false)), "false-negative", "inserted item " << i << " reported absent");
  const uint64_t N = 100000;
  uint64_t fp = 0;
  for (uint64_t j = 0; j < N; ++j) {
    Item it = item(j, true);
    bool q = lib_query(*f, it);
    if ((j & 15) == 0) VF_CHECK(q == model_query(s, it), "query-vs-model", "probe " << j << ": query " << q << " model " << !q);
    fp += q;
  }
  // weak: observed false-positive rate <= 1.25 * target + 5 sigma (binomial at 1.25 p)
  const double lim = 1.25 * p;
  const double bound = lim * N + 5.0 * std::sqrt(N * lim * (1 - lim));
  VF_CHECK(static_cast<double>(fp) <= bound, "false-positive-rate", "n=" << n << " target p=" << p << ": " << fp << " false positives in " << N << " fresh probes, bound " << bound
           << " (fill " << static_cast<double>(pc) / s.cfg.cap << ")");
  const double ratio = (static_cast<double>(fp) / N) / p;
  if (static_cast<double>(fp) > 0.85 * bound) vf::label("fpr-within-15%-of-bound");
  vf::label(ratio <= 0.5 ? "fpr/target<=0.5" : ratio <= 1.0 ? "fpr/target<=1.0" : ratio <= 1.25 ? "fpr/target<=1.25" : "fpr/target>1.25");
  vf::label("accuracy");
  vf::nontrivial();
}

// ---------------------------------------------------------------- sizes of 2^32 bits and more (allowed: up to ~1.7e10 bits)
// Only the empty filter is taken through serialize -> restore, and only one 512 MiB object is alive at a time.
void prop_huge(const Case& cs) {
  vf::own_randomness(11);
  // 512 MiB per case: only the first worker of a run does it (a replay has no worker id and always runs it)
  if (vf::env("VF_WORKER", "0") != "0") { vf::label("capacity>=2^32:left-to-worker-0"); return; }
  const uint64_t nbits = (1ull << 32) + static_cast<uint64_t>(std::min<int64_t>(4096, std::max<int64_t>(-63, cs.get("delta", 0))));
  const uint16_t nh = static_cast<uint16_t>(1 + cs.get("nh", 0) % 5);
  const uint64_t seed = vf::mix64(static_cast<uint64_t>(cs.get("seed", 0)));
  const uint64_t cap = round64(nbits);
  std::vector<uint8_t> img;
  std::string simg;
  {
    bloom_filter f = bloom_filter::builder::create_by_size(nbits, nh, seed);
    VF_CHECK(f.get_capacity() == cap, "config-capacity", "capacity " << f.get_capacity() << " for num_bits " << nbits);
    VF_CHECK(f.is_empty() && !f.query(static_cast<uint64_t>(7)), "new-empty", "new filter not empty");
    auto b = f.serialize();
    img.assign(b.begin(), b.end());
    std::ostringstream os(std::ios::binary); f.serialize(os); simg = os.str();
    VF_CHECK(img.size() == 24 && simg.size() == 24, "image-size", "empty image of " << img.size() << " / " << simg.size() << " bytes");
  }
  for (int mode = 0; mode < 3; ++mode) {
    const char* how = mode == 0 ? "deserialize(bytes)" : mode == 1 ? "deserialize(stream)" : "wrap";
    uint64_t got = 0; std::string err;
    try {
      if (mode == 0) { bloom_filter g = bloom_filter::deserialize(img.data(), img.size()); got = g.get_capacity(); }
      else if (mode == 1) { std::istringstream is(simg, std::ios::binary); bloom_filter g = bloom_filter::deserialize(is); got = g.get_capacity(); }
      else { const bloom_filter g = bloom_filter::wrap(img.data(), img.size()); got = g.get_capacity(); }
    } catch (const std::exception& e) { err = e.what(); }
    VF_CHECK_K(err.empty() && got == cap, "huge-restore", std::string(KEY_D), how << " of the image of an empty filter of " << cap << " bits: "
               << (err.empty() ? "capacity " + std::to_string(got) : "threw '" + err + "'"));
  }
  vf::label("capacity>=2^32");
}

// ---------------------------------------------------------------- generators
rc::Gen<Case> gen_main() {
  using namespace vf;
  auto vsel = range(0, 10);
  auto typ = range(0, T_NTYPES - 1);
  auto opg = choose({
      {5, op3("upd", vsel, typ, raw_gen())},
      {5, op3("qau", vsel, typ, raw_gen())},
      {4, op4("bulk", vsel, rc::gen::withSize([](int s) { return range(0, 8 + 6 * s); }), typ, range(0, 2))},
      {2, op3("old", vsel, range(0, 39), range(0, 1 << 20))},
      {3, op3("new", range(0, 7), range(0, 5), range(0, 1 << 24))},
      {5, op2("wrapmem", range(0, 4), pick({0, 1, 1, 2}))},
      {4, op3("ser", vsel, range(0, 3), pick({0, 0, 8, 1, 16, 19}))},
      {3, op3("union", vsel, vsel, range(0, 63))},
      {2, op3("intersect", vsel, vsel, range(0, 63))},
      {1, op2("invert", vsel, range(0, 63))},
      {1, op1("reset", vsel)},
      {2, op2("copy", vsel, range(0, 63))},
      {2, op2("stalew", range(0, 2), range(0, 5))},
      {2, op1("bits", vsel)},
      {1, op1("drop", vsel)},
  });
  return make_case({{"nbits", rc::gen::weightedOneOf<int64_t>({{5, range(1, 200)}, {4, range(201, 5000)}, {1, range(5001, 70000)},
                                                                {2, rc::gen::map(range(1, 40), [](int64_t k) { return k * 64; })}})},
                    {"nh", rc::gen::weightedOneOf<int64_t>({{6, range(1, 7)}, {2, range(8, 17)}})},
                    {"seed", rc::gen::weightedOneOf<int64_t>({{1, range(0, 1)}, {3, range(2, 1 << 20)}})},
                    {"k0", rc::gen::weightedOneOf<int64_t>({{2, range(0, 1)}, {5, range(2, 3)}, {1, range(5, 6)}})},
                    {"disc", range(0, 1)},
                    {"ww0", range(0, 1)},
                    {"rnd", range(1, 1 << 20)}},
                   oplist(opg, 3, 0.5));
}

// large filters: few ops, state compared at the end
rc::Gen<Case> gen_large() {
  using namespace vf;
  auto vsel = range(0, 3);
  auto opg = choose({{4, op4("bulk", vsel, range(100, 2999), range(0, T_NTYPES - 1), range(0, 2))},
                     {2, op2("wrapmem", range(0, 4), range(0, 2))},
                     {2, op3("ser", vsel, range(0, 3), pick({0, 8}))},
                     {1, op3("new", range(0, 3), range(0, 1), range(0, 1 << 24))},
                     {2, op3("union", vsel, vsel, range(1, 15))},
                     {1, op3("intersect", vsel, vsel, range(1, 15))},
                     {1, op2("invert", vsel, range(1, 15))},
                     {1, op2("copy", vsel, range(0, 63))}});
  return make_case({{"nbits", range(70001, 1 << 22)}, {"nh", range(1, 12)}, {"seed", range(0, 1 << 20)}, {"k0", range(0, 3)}, {"disc", range(0, 1)}, {"rnd", range(1, 1 << 20)}},
                   oplist(opg, 2, 0.08));
}

rc::Gen<Case> gen_accuracy() {
  using namespace vf;
  return make_case({{"n", rc::gen::weightedOneOf<int64_t>({{3, range(500, 3000)}, {1, range(3001, 30000)}})},
                    {"p", range(0, 6)}, {"seed", range(0, 1 << 30)}, {"type", range(0, 1)}, {"mem", range(0, 1)}, {"qau", range(0, 1)}},
                   rc::gen::just(std::vector<Op>{}));
}

rc::Gen<Case> gen_huge() {
  using namespace vf;
  return make_case({{"delta", pick({0, 0, 1, -63, 64, 4000})}, {"nh", range(0, 4)}, {"seed", range(0, 1 << 20)}}, rc::gen::just(std::vector<Op>{}));
}

}  // namespace

int main(int argc, char** argv) {
  std::vector<vf::Sub> subs;
  subs.push_back({"main", gen_main, prop, 1.0});
  subs.push_back({"large", gen_large, prop, 0.02, 60});
  subs.push_back({"accuracy", gen_accuracy, prop_accuracy, 0.015});
  subs.push_back({"huge", gen_huge, prop_huge, 0.0001});  // one to a few cases per worker (512 MiB each, one object alive at a time)
  return vf::main_driver(argc, argv, "C15", "c15_bloom",
                         "case = base filter config (num_bits incl. non-multiples of 64, hashes, seed, owned or caller memory, caller discipline) + generated history over up to 7 "
                         "live views (create/initialize, typed update, query_and_update, bulk, duplicates, wrap/writable_wrap/deserialize of caller memory, serialize->restore, "
                         "union, intersect, invert, reset, copy, get_bits_used, writes through read-only views, incompatible operands); every live view is compared with the "
                         "reference bit-vector model after every op; non-trivial = a new view (wrap, writable_wrap, deserialize, copy, serialize->restore) was taken of a state "
                         "after at least one bit-setting update went through a writable wrap of that memory, and it passed (sub 'accuracy': every case); distinct = distinct case text",
                         subs);
}
