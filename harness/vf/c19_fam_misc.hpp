// vf/c19_fam_misc.hpp — C19 families: frequent items, count-min, VarOpt sketch / union, EBPPS, t-digest, Bloom, density.
#ifndef VF_C19_FAM_MISC_HPP
#define VF_C19_FAM_MISC_HPP
#include "c19_engine.hpp"
#include "c19_fam_quantiles.hpp"  // ItemKit, show_bytes, batch_value
#include <frequent_items_sketch.hpp>
#include <count_min.hpp>
#include <var_opt_sketch.hpp>
#include <var_opt_union.hpp>
#include <ebpps_sketch.hpp>
#include <tdigest.hpp>
#include <bloom_filter.hpp>
#include <density_sketch.hpp>
#include <algorithm>
#include <iomanip>

// flip to 1 once var_opt_union::operator=(const&) compiles (proposed patch C19-3): the copy-assignment steps of the
// varopt-union families are then executed instead of being reported
#ifndef C19_VAROPT_UNION_COPY_ASSIGN_COMPILES
#define C19_VAROPT_UNION_COPY_ASSIGN_COMPILES 1
#endif

namespace vf19 {

// A refused image: a strict prefix of the stream image is offered to the stream deserializer with the tracking allocator. Whether it throws or
// accepts (padding), everything it obtained must go back through the same allocator with matching sizes (the registry checks every release and
// the balance at the end). Runs outside LibScope: the exception object itself legitimately comes from the default heap.
template <typename Fn> inline void refused_prefix(const std::stringstream& ss, uint64_t mode, Fn deser) {
  if (!(mode & 4)) return;
  const std::string img = ss.str();
  if (img.size() < 2) return;
  const size_t cut = 1 + static_cast<size_t>(vf::mix64(mode * 0x9e3779b97f4a7c15ull + img.size()) % (img.size() - 1));
  std::istringstream is(img.substr(0, cut), std::ios::binary);
  try { deser(is); } catch (const std::exception&) {}
}

// ---------------------------------------------------------------- frequent items
template <typename T>
struct FrequentFamily {
  using Kit = ItemKit<T>;
  using A = track_alloc<T>;
  using Obj = datasketches::frequent_items_sketch<T, uint64_t, typename Kit::Hash, typename Kit::Equal, A>;
  static const char* name() { static std::string n = std::string("frequent<") + Kit::name() + ">"; return n.c_str(); }
  static Obj* make(Env& e, uint64_t v, int reg) {
    uint8_t lg_max = static_cast<uint8_t>(3 + (v & 3)), lg_start = static_cast<uint8_t>((v & 4) ? lg_max : 3);
    if ((v >> 3) % 8 == 7) lg_max = 11;   // maps larger than the purge sample (1024 values): another branch of the purge bookkeeping
    return construct<Obj>([&](void* m) { return new (m) Obj(lg_max, lg_start, typename Kit::Equal(), e.alloc<T>(reg)); });
  }
  static void update(Env&, Obj& sk, uint64_t seed, unsigned n) {
    vf::Rng r(seed);
    if (sk.get_epsilon() < 3.5 / 1500) {  // lg_max_map_size >= 11: enough distinct items for a purge with more than 1024 active counters
      const unsigned m = 1600 + static_cast<unsigned>(seed % 500);
      for (unsigned i = 0; i < m; ++i) { T item = Kit::make(1000000 + (seed % 7) * 3000 + i); LibScope ls; sk.update(std::move(item), 1); }
    }
    for (unsigned i = 0; i < n; ++i) {
      uint64_t v = (seed % 3) * 20 + r.below(6 + (seed % 4) * 25);   // skewed: small windows give heavy hitters
      uint64_t w = 1 + r.below(4);
      T item = Kit::make(v);
      LibScope ls;
      if (i & 1) sk.update(item, w); else sk.update(std::move(item), w);
    }
  }
  template <typename SrcT> static bool merge_ref(Env&, Obj& d, SrcT& s) { LibScope ls; d.merge(s); return true; }
  static bool merge_move(Env&, Obj& d, Obj&& s) { LibScope ls; d.merge(std::move(s)); return true; }
  static bool reset(Obj&) { return false; }
  static Obj* serde(Env& e, const Obj& sk, uint64_t mode, int reg) {
    typename Kit::Serde sd;
    if (mode & 1) {
      std::stringstream ss(std::ios::in | std::ios::out | std::ios::binary);
      { LibScope ls; sk.serialize(ss, sd); }
      refused_prefix(ss, mode, [&](std::istream& is) { Obj tmp(Obj::deserialize(is, sd, typename Kit::Equal(), e.alloc<T>(reg))); (void)tmp; });
      return construct<Obj>([&](void* m) { return new (m) Obj(Obj::deserialize(ss, sd, typename Kit::Equal(), e.alloc<T>(reg))); });
    }
    unsigned header = (mode & 2) ? 5 : 0;
    auto bytes = [&] { LibScope ls; return sk.serialize(header, sd); }();
    return construct<Obj>([&](void* m) { return new (m) Obj(Obj::deserialize(bytes.data() + header, bytes.size() - header, sd, typename Kit::Equal(), e.alloc<T>(reg))); });
  }
  // rows sorted by their text: the order of equal estimates depends on the hash-table layout, which nobody promises
  static void observe(const Obj& sk, std::ostream& os) {
    os << "empty=" << sk.is_empty() << " active=" << sk.get_num_active_items() << " total=" << sk.get_total_weight() << " maxerr=" << sk.get_maximum_error()
       << " size=" << [&] { LibScope ls; return sk.get_serialized_size_bytes(typename Kit::Serde()); }() << "\n";
    auto rows = [&] { LibScope ls; return sk.get_frequent_items(datasketches::NO_FALSE_NEGATIVES); }();
    std::vector<std::string> txt;
    for (const auto& row : rows) {
      std::ostringstream r; Kit::show(r, row.get_item()); r << '=' << row.get_estimate() << '[' << row.get_lower_bound() << ',' << row.get_upper_bound() << ']';
      txt.push_back(r.str());
    }
    std::sort(txt.begin(), txt.end());
    for (const auto& t : txt) os << t << ' ';
    for (uint64_t v = 0; v < 3; ++v) { T q = Kit::make(v * 20 + 1); LibScope ls; os << " est" << v << '=' << sk.get_estimate(q); }
  }
  static void canon(const Obj& sk, std::ostream& os) { observe(sk, os); }
  static void query(Env&, const Obj& sk, uint64_t seed) {
    LibScope ls;
    auto rows = sk.get_frequent_items(datasketches::NO_FALSE_POSITIVES, seed % 7);
    auto rows2 = rows;                 // rows hold pointers / copies of items
    auto rows3 = std::move(rows);
    (void)rows2.size(); (void)rows3.size();
    if (seed & 8) { ToStringScope ts; (void)sk.to_string((seed & 16) != 0); }
  }
};

// ---------------------------------------------------------------- count-min
struct CountMinFamily {
  using A = track_alloc<uint64_t>;
  using Obj = datasketches::count_min_sketch<uint64_t, A>;
  static const char* name() { return "count-min"; }
  // one shape per case (cfg_a): sketches of different shapes cannot be merged
  static Obj* make(Env& e, uint64_t, int reg) {
    static const uint8_t nh[4] = {1, 2, 3, 5};
    static const uint32_t nb[4] = {3, 8, 17, 64};
    return construct<Obj>([&](void* m) { return new (m) Obj(nh[e.cfg_a & 3], nb[e.cfg_a >> 2 & 3], 12345 + (e.cfg_a >> 4 & 1), e.alloc<uint64_t>(reg)); });
  }
  static void update(Env&, Obj& sk, uint64_t seed, unsigned n) {
    vf::Rng r(seed);
    for (unsigned i = 0; i < n; ++i) { uint64_t v = r.below(50); uint64_t w = 1 + r.below(3); std::string sv = std::to_string(v); LibScope ls; if (i % 3) sk.update(v, w); else sk.update(sv, w); }
  }
  template <typename SrcT> static bool merge_ref(Env&, Obj& d, SrcT& s) { LibScope ls; d.merge(s); return true; }
  static bool merge_move(Env&, Obj&, Obj&&) { return false; }
  static bool reset(Obj&) { return false; }
  static Obj* serde(Env& e, const Obj& sk, uint64_t mode, int reg) {
    uint64_t seed = 12345 + (e.cfg_a >> 4 & 1);
    if (mode & 1) {
      std::stringstream ss(std::ios::in | std::ios::out | std::ios::binary);
      { LibScope ls; sk.serialize(ss); }
      refused_prefix(ss, mode, [&](std::istream& is) { Obj tmp(Obj::deserialize(is, seed, e.alloc<uint64_t>(reg))); (void)tmp; });
      return construct<Obj>([&](void* m) { return new (m) Obj(Obj::deserialize(ss, seed, e.alloc<uint64_t>(reg))); });
    }
    unsigned header = (mode & 2) ? 8 : 0;
    auto bytes = [&] { LibScope ls; return sk.serialize(header); }();
    return construct<Obj>([&](void* m) { return new (m) Obj(Obj::deserialize(bytes.data() + header, bytes.size() - header, seed, e.alloc<uint64_t>(reg))); });
  }
  static void observe(const Obj& sk, std::ostream& os) {
    os << "hashes=" << int(sk.get_num_hashes()) << " buckets=" << sk.get_num_buckets() << " seed=" << sk.get_seed() << " total=" << sk.get_total_weight() << " empty=" << sk.is_empty() << "\ncells:";
    for (auto it = sk.begin(); it != sk.end(); ++it) os << ' ' << *it;
    os << "\n";
    for (uint64_t v = 0; v < 4; ++v) os << " est" << v << '=' << sk.get_estimate(v * 7) << '/' << sk.get_upper_bound(v * 7) << '/' << sk.get_lower_bound(v * 7);
    auto bytes = [&] { LibScope ls; return sk.serialize(); }();
    os << ' '; show_bytes(os, bytes.data(), bytes.size());
  }
  static void canon(const Obj& sk, std::ostream& os) { observe(sk, os); }
  static void query(Env&, const Obj& sk, uint64_t seed) { std::string q = std::to_string(seed % 50); LibScope ls; (void)sk.get_estimate(q); if (seed & 1) { ToStringScope ts; (void)sk.to_string(); } }
};

// ---------------------------------------------------------------- VarOpt
inline double sample_weight(vf::Rng& r) { static const double w[8] = {1, 1, 1, 2, 2, 3, 4, 40}; return w[r.below(8)]; }

template <typename T>
struct VarOptFamily {
  using Kit = ItemKit<T>;
  using A = track_alloc<T>;
  using Obj = datasketches::var_opt_sketch<T, A>;
  static const char* name() { static std::string n = std::string("varopt<") + Kit::name() + ">"; return n.c_str(); }
  static Obj* make(Env& e, uint64_t v, int reg) {
    static const uint32_t ks[4] = {1, 4, 9, 32};
    auto rf = static_cast<datasketches::resize_factor>((v >> 2) % 4);
    return construct<Obj>([&](void* m) { return new (m) Obj(ks[v & 3], rf, e.alloc<T>(reg)); });
  }
  static void update(Env&, Obj& sk, uint64_t seed, unsigned n) {
    vf::Rng r(seed);
    for (unsigned i = 0; i < n; ++i) {
      T item = Kit::make(batch_value(r, seed)); double w = sample_weight(r);
      LibScope ls;
      if (i & 1) sk.update(item, w); else sk.update(std::move(item), w);
    }
  }
  static bool merge_ref(Env&, Obj&, const Obj&) { return false; }
  static bool merge_move(Env&, Obj&, Obj&&) { return false; }
  static bool reset(Obj& sk) { LibScope ls; sk.reset(); return true; }
  static Obj* serde(Env& e, const Obj& sk, uint64_t mode, int reg) {
    typename Kit::Serde sd;
    if (mode & 1) {
      std::stringstream ss(std::ios::in | std::ios::out | std::ios::binary);
      { LibScope ls; sk.serialize(ss, sd); }
      refused_prefix(ss, mode, [&](std::istream& is) { Obj tmp(Obj::deserialize(is, sd, e.alloc<T>(reg))); (void)tmp; });
      return construct<Obj>([&](void* m) { return new (m) Obj(Obj::deserialize(ss, sd, e.alloc<T>(reg))); });
    }
    unsigned header = (mode & 2) ? 6 : 0;
    auto bytes = [&] { LibScope ls; return sk.serialize(header, sd); }();
    return construct<Obj>([&](void* m) { return new (m) Obj(Obj::deserialize(bytes.data() + header, bytes.size() - header, sd, e.alloc<T>(reg))); });
  }
  static void show(const Obj& sk, std::ostream& os) {
    os << std::setprecision(17) << "k=" << sk.get_k() << " n=" << sk.get_n() << " samples=" << sk.get_num_samples() << " empty=" << sk.is_empty() << "\nitems:";
    uint32_t cnt = 0;
    for (auto it = sk.begin(); it != sk.end() && cnt <= sk.get_num_samples(); ++it, ++cnt) { os << ' '; Kit::show(os, (*it).first); os << '*' << (*it).second; }
    os << "\n";
    typename Kit::Serde sd;
    auto bytes = [&] { LibScope ls; return sk.serialize(0, sd); }();
    show_bytes(os, bytes.data(), bytes.size());
    os << " declared=" << [&] { LibScope ls; return sk.get_serialized_size_bytes(sd); }();
  }
  static void observe(const Obj& sk, std::ostream& os) { show(sk, os); }
  static void canon(const Obj& sk, std::ostream& os) { show(sk, os); }
  static void query(Env&, const Obj& sk, uint64_t seed) {
    LibScope ls;
    auto ss = sk.estimate_subset_sum([](const T&) { return true; });
    (void)ss;
    if (seed & 1) { ToStringScope ts; (void)sk.to_string(); }
    if (seed & 2) { ToStringScope ts; (void)sk.items_to_string(); }
  }
};

inline const char* varopt_union_result_key() { return "C19|varopt-union|get_result|decrease_k_by_1-swaps-with-unconstructed-gap-and-drops-a-constructed-slot|result-needs-marked-items-migrated-out-of-H"; }
#if defined(VF_ASAN)
extern "C" void __lsan_disable(void);
extern "C" void __lsan_enable(void);
#endif

template <typename T>
struct VarOptUnionFamily {
  using Kit = ItemKit<T>;
  using A = track_alloc<T>;
  using Sk = datasketches::var_opt_sketch<T, A>;
  using Obj = datasketches::var_opt_union<T, A>;
  static const char* name() { static std::string n = std::string("varopt-union<") + Kit::name() + ">"; return n.c_str(); }
  static Obj* make(Env& e, uint64_t v, int reg) {
    static const uint32_t ks[4] = {2, 5, 9, 32};
    return construct<Obj>([&](void* m) { return new (m) Obj(ks[v & 3], e.alloc<T>(reg)); });
  }
  static void update(Env& e, Obj& u, uint64_t seed, unsigned n) {
    static const uint32_t ks[4] = {3, 6, 9, 40};
    vf::Rng r(seed);
    Sk sk = [&] { LibScope ls; return Sk(ks[seed >> 2 & 3], datasketches::resize_factor::X8, e.alloc<T>(static_cast<int>(seed >> 6 & 1))); }();
    for (unsigned i = 0; i < n; ++i) { T item = Kit::make(batch_value(r, seed)); double w = sample_weight(r); LibScope ls; sk.update(std::move(item), w); }
    LibScope ls;
    if (seed & 1) u.update(sk); else u.update(std::move(sk));
  }
  static bool merge_ref(Env&, Obj&, const Obj&) { return false; }
  static bool merge_move(Env&, Obj&, Obj&&) { return false; }
  static bool reset(Obj& u) { LibScope ls; u.reset(); return true; }
  static Obj* serde(Env&, const Obj&, uint64_t, int) { return nullptr; }   // a deserialized union cannot be used further (open finding of C16)
#if !C19_VAROPT_UNION_COPY_ASSIGN_COMPILES
  static const char* copy_assign_defect() {
    return "var_opt_union::operator=(const var_opt_union&) does not compile for any T / allocator (std::swap(allocator_, other.allocator_) with a const argument): a union cannot be copy-assigned";
  }
#endif
  // get_result() copies the gadget and, when marked items have to be migrated, runs var_opt_sketch::decrease_k_by_1 on
  // the copy; that function swaps with the unconstructed gap slot and drops a constructed slot off the end of the array
  // (finding C19 varopt-union get_result). While that finding is listed as open the heap blocks the dropped std::string
  // items own are kept out of LeakSanitizer's end-of-process report (they are allocated inside this call).
  static Sk result_of(const Obj& u) {
    vf::rand_seed(0x19);   // get_result() draws random numbers: the same state must give the same result for the same draws
    bool hide = !Kit::tracks_bypass && vf::known_keys().count(varopt_union_result_key());
#if defined(VF_ASAN)
    if (hide) __lsan_disable();
#endif
    try {
      CallTag ct("var_opt_union::get_result");
      Sk r = u.get_result();
#if defined(VF_ASAN)
      if (hide) __lsan_enable();
#endif
      return r;
    } catch (...) {
#if defined(VF_ASAN)
      if (hide) __lsan_enable();
#endif
      throw;
    }
  }
  static void observe(const Obj& u, std::ostream& os) {
    // item errors raised while the RESULT is inspected and destroyed are consequences of what get_result() did to it: same tag
    CallTag ct("var_opt_union::get_result");
    auto r = result_of(u);
    VarOptFamily<T>::show(r, os);
    typename Kit::Serde sd;
    auto bytes = [&] { LibScope ls; return u.serialize(0, sd); }();
    os << " union:"; show_bytes(os, bytes.data(), bytes.size());
  }
  static void canon(const Obj&, std::ostream&) {}
  static void query(Env&, const Obj& u, uint64_t seed) { CallTag ct("var_opt_union::get_result"); auto r = result_of(u); LibScope ls; auto r2 = r; (void)r2.get_n(); if (seed & 1) { ToStringScope ts; (void)u.to_string(); } }
};

// ---------------------------------------------------------------- EBPPS (unit weights, one k per case: see the report)
// ebpps_sketch::merge(const&) calls an UNQUALIFIED swap(*this, sk_copy): it only compiles when argument-dependent lookup
// reaches namespace std (std::string items or std::allocator). For an item type and an allocator from another namespace
// the user has to supply the overload below; it does what std::swap does. (Reported as a compile-level observation.)
inline void swap(datasketches::ebpps_sketch<Probe, track_alloc<Probe>>& a, datasketches::ebpps_sketch<Probe, track_alloc<Probe>>& b) { std::swap(a, b); }
// ebpps_sketch::items_to_string() does not compile with any allocator other than std::allocator (ebpps_sample::to_string
// returns an std::string as string<A>), so it is not called here.
template <typename T>
struct EbppsFamily {
  using Kit = ItemKit<T>;
  using A = track_alloc<T>;
  using Obj = datasketches::ebpps_sketch<T, A>;
  static const char* name() { static std::string n = std::string("ebpps<") + Kit::name() + ">"; return n.c_str(); }
  static Obj* make(Env& e, uint64_t, int reg) {
    static const uint32_t ks[4] = {1, 3, 8, 30};
    return construct<Obj>([&](void* m) { return new (m) Obj(ks[e.cfg_a & 3], e.alloc<T>(reg)); });
  }
  static void update(Env&, Obj& sk, uint64_t seed, unsigned n) {
    vf::Rng r(seed);
    for (unsigned i = 0; i < n; ++i) {
      T item = Kit::make(batch_value(r, seed));
      LibScope ls;
      if (i & 1) sk.update(item); else sk.update(std::move(item));
    }
  }
  template <typename SrcT> static bool merge_ref(Env&, Obj& d, SrcT& s) { LibScope ls; d.merge(s); return true; }
  static bool merge_move(Env&, Obj& d, Obj&& s) { LibScope ls; d.merge(std::move(s)); return true; }
  static bool reset(Obj& sk) { LibScope ls; sk.reset(); return true; }
  static Obj* serde(Env& e, const Obj& sk, uint64_t mode, int reg) {
    typename Kit::Serde sd;
    if (mode & 1) {
      std::stringstream ss(std::ios::in | std::ios::out | std::ios::binary);
      { LibScope ls; sk.serialize(ss, sd); }
      refused_prefix(ss, mode, [&](std::istream& is) { Obj tmp(Obj::deserialize(is, sd, e.alloc<T>(reg))); (void)tmp; });
      return construct<Obj>([&](void* m) { return new (m) Obj(Obj::deserialize(ss, sd, e.alloc<T>(reg))); });
    }
    unsigned header = (mode & 2) ? 6 : 0;
    auto bytes = [&] { LibScope ls; return sk.serialize(header, sd); }();
    return construct<Obj>([&](void* m) { return new (m) Obj(Obj::deserialize(bytes.data() + header, bytes.size() - header, sd, e.alloc<T>(reg))); });
  }
  static void observe(const Obj& sk, std::ostream& os) {
    os << std::setprecision(17) << "k=" << sk.get_k() << " n=" << sk.get_n() << " W=" << sk.get_cumulative_weight() << " c=" << sk.get_c() << " empty=" << sk.is_empty() << "\nresult:";
    vf::rand_seed(0x19);   // get_result() draws the partial item: the same state must give the same result for the same draws
    auto res = [&] { CallTag ct("ebpps_sketch::get_result"); return sk.get_result(); }();
    for (const auto& x : res) { os << ' '; Kit::show(os, x); }
    os << "\n";
    typename Kit::Serde sd;
    auto bytes = [&] { LibScope ls; return sk.serialize(0, sd); }();
    show_bytes(os, bytes.data(), bytes.size());
    os << " declared=" << [&] { LibScope ls; return sk.get_serialized_size_bytes(sd); }();
  }
  // no image comparison: after a merge the sample can hold floor(c)-1 full items plus a "partial" item of weight ~1 (open
  // findings of C18); the image then restores floor(c) full items. Fidelity of images belongs to C09 / C18.
  static void canon(const Obj&, std::ostream&) {}
  static void query(Env&, const Obj& sk, uint64_t seed) {
    LibScope ls;
    size_t cnt = 0;
    for (auto it = sk.begin(); it != sk.end() && cnt < 100; ++it) ++cnt;
    if (seed & 1) { ToStringScope ts; (void)sk.to_string(); }
  }
};

// ---------------------------------------------------------------- t-digest
struct TDigestFamily {
  using A = track_alloc<double>;
  using Obj = datasketches::tdigest<double, A>;
  static const char* name() { return "tdigest"; }
  static Obj* make(Env& e, uint64_t v, int reg) {
    static const uint16_t ks[4] = {10, 12, 20, 100};
    return construct<Obj>([&](void* m) { return new (m) Obj(ks[v & 3], e.alloc<double>(reg)); });
  }
  static void update(Env&, Obj& td, uint64_t seed, unsigned n) {
    vf::Rng r(seed);
    for (unsigned i = 0; i < n; ++i) { double x = static_cast<double>(batch_value(r, seed)) * 0.5; LibScope ls; td.update(x); }
  }
  template <typename SrcT> static bool merge_ref(Env&, Obj& d, SrcT& s) { LibScope ls; d.merge(s); return true; }
  static bool merge_move(Env&, Obj&, Obj&&) { return false; }
  static bool reset(Obj&) { return false; }
  static Obj* serde(Env& e, const Obj& td, uint64_t mode, int reg) {
    bool with_buffer = (mode & 4) != 0;
    if (mode & 1) {
      std::stringstream ss(std::ios::in | std::ios::out | std::ios::binary);
      { LibScope ls; td.serialize(ss, with_buffer); }
      refused_prefix(ss, mode, [&](std::istream& is) { Obj tmp(Obj::deserialize(is, e.alloc<double>(reg))); (void)tmp; });
      return construct<Obj>([&](void* m) { return new (m) Obj(Obj::deserialize(ss, e.alloc<double>(reg))); });
    }
    auto bytes = [&] { LibScope ls; return td.serialize(0, with_buffer); }();
    return construct<Obj>([&](void* m) { return new (m) Obj(Obj::deserialize(bytes.data(), bytes.size(), e.alloc<double>(reg))); });
  }
  static void observe(const Obj& td, std::ostream& os) {
    // the compressed image first: const queries compress the buffer as a documented side effect
    auto bytes = [&] { LibScope ls; return td.serialize(0, false); }();
    os << std::setprecision(17) << "k=" << td.get_k() << " empty=" << td.is_empty() << " W=" << td.get_total_weight();
    if (!td.is_empty()) {
      os << " min=" << td.get_min_value() << " max=" << td.get_max_value();
      for (double q : {0.0, 0.1, 0.5, 0.9, 1.0}) { LibScope ls; os << " q" << q << '=' << td.get_quantile(q); }
      for (double x : {10.0, 200.0, 400.0}) { LibScope ls; os << " r" << x << '=' << td.get_rank(x); }
    }
    os << ' '; show_bytes(os, bytes.data(), bytes.size());
    os << " declared=" << td.get_serialized_size_bytes(false) << "\n";
    auto text = [&] { ToStringScope ts; return td.to_string(true); }();
    os << text.c_str();
  }
  static void canon(const Obj& td, std::ostream& os) {
    auto bytes = [&] { LibScope ls; return td.serialize(0, false); }();
    os << std::setprecision(17) << "k=" << td.get_k() << " empty=" << td.is_empty() << " W=" << td.get_total_weight();
    if (!td.is_empty()) {
      os << " min=" << td.get_min_value() << " max=" << td.get_max_value();
      for (double q : {0.0, 0.1, 0.5, 0.9, 1.0}) { LibScope ls; os << " q" << q << '=' << td.get_quantile(q); }
    }
  }
  static void query(Env&, const Obj& td, uint64_t seed) { LibScope ls; if (!td.is_empty()) (void)td.get_rank(static_cast<double>(seed % 500)); { ToStringScope ts; (void)td.to_string((seed & 1) != 0); } }
};

// ---------------------------------------------------------------- Bloom filter (owning filters; wrapped memory is C15's subject)
struct BloomFamily {
  using A = track_alloc<uint8_t>;
  using Obj = datasketches::bloom_filter_alloc<A>;
  static const char* name() { return "bloom"; }
  static Obj* make(Env& e, uint64_t, int reg) {
    static const uint64_t bits[4] = {1, 64, 200, 4000};
    static const uint16_t nh[4] = {1, 2, 3, 7};
    return construct<Obj>([&](void* m) { return new (m) Obj(Obj::builder::create_by_size(bits[e.cfg_a & 3], nh[e.cfg_a >> 2 & 3], 777, e.alloc<uint8_t>(reg))); });
  }
  static void update(Env&, Obj& bf, uint64_t seed, unsigned n) {
    vf::Rng r(seed);
    if ((seed & 31) == 7) { LibScope ls; bf.invert(); return; }
    for (unsigned i = 0; i < n; ++i) { uint64_t v = batch_value(r, seed); std::string sv = std::to_string(v); LibScope ls; if (i % 3) bf.update(v); else bf.update(sv); }
  }
  template <typename SrcT> static bool merge_ref(Env& e, Obj& d, SrcT& s) { LibScope ls; if (e.seed & 1) d.union_with(s); else d.intersect(s); return true; }
  static bool merge_move(Env&, Obj&, Obj&&) { return false; }
  static bool reset(Obj& bf) { LibScope ls; bf.reset(); return true; }
  static Obj* serde(Env& e, const Obj& bf, uint64_t mode, int reg) {
    if (mode & 1) {
      std::stringstream ss(std::ios::in | std::ios::out | std::ios::binary);
      { LibScope ls; bf.serialize(ss); }
      refused_prefix(ss, mode, [&](std::istream& is) { Obj tmp(Obj::deserialize(is, e.alloc<uint8_t>(reg))); (void)tmp; });
      return construct<Obj>([&](void* m) { return new (m) Obj(Obj::deserialize(ss, e.alloc<uint8_t>(reg))); });
    }
    unsigned header = (mode & 2) ? 8 : 0;
    auto bytes = [&] { LibScope ls; return bf.serialize(header); }();
    return construct<Obj>([&](void* m) { return new (m) Obj(Obj::deserialize(bytes.data() + header, bytes.size() - header, e.alloc<uint8_t>(reg))); });
  }
  static void observe(const Obj& bf, std::ostream& os) {
    os << "capacity=" << bf.get_capacity() << " hashes=" << bf.get_num_hashes() << " seed=" << bf.get_seed() << " empty=" << bf.is_empty() << " wrapped=" << bf.is_wrapped()
       << " size=" << bf.get_serialized_size_bytes() << " q:";
    for (uint64_t v = 0; v < 24; ++v) os << (bf.query(v * 37) ? '1' : '0');
    auto bytes = [&] { LibScope ls; return bf.serialize(); }();
    os << ' '; show_bytes(os, bytes.data(), bytes.size());
  }
  static void canon(const Obj& bf, std::ostream& os) { observe(bf, os); }
  static void query(Env&, const Obj& bf, uint64_t seed) { std::string q = std::to_string(seed); LibScope ls; (void)bf.query(q); if (seed & 1) { ToStringScope ts; (void)bf.to_string((seed & 2) != 0); } }
};

// ---------------------------------------------------------------- density sketch
// The library's gaussian_kernel<T> only accepts std::vector<T, std::allocator<T>>: density_sketch with any other
// allocator and the default kernel does not compile (compact_level / get_estimate call kernel_(Vector, Vector)), so the
// family uses the same kernel written for any pair of vector types.
struct AnyVectorGaussian {
  template <typename V1, typename V2> double operator()(const V1& a, const V2& b) const {
    double s = 0;
    for (size_t i = 0; i < a.size(); ++i) { double d = a[i] - b[i]; s += d * d; }
    return std::exp(-s);
  }
};
struct DensityFamily {
  using A = track_alloc<double>;
  using Obj = datasketches::density_sketch<double, AnyVectorGaussian, A>;
  using Vec = typename Obj::Vector;
  static const char* name() { return "density"; }
  static uint32_t dim_of(const Env& e) { return 1 + static_cast<uint32_t>(e.cfg_a & 1) * 2; }
  static Obj* make(Env& e, uint64_t v, int reg) {
    static const uint16_t ks[4] = {2, 3, 6, 20};
    return construct<Obj>([&](void* m) { return new (m) Obj(ks[v & 3], dim_of(e), AnyVectorGaussian(), e.alloc<double>(reg)); });
  }
  static void update(Env& e, Obj& sk, uint64_t seed, unsigned n) {
    vf::Rng r(seed);
    A a = [&] { LibScope ls; return sk.get_allocator(); }();
    uint32_t dim = dim_of(e);
    for (unsigned i = 0; i < n; ++i) {
      // points in a small box (kernel values stay well above 0: the all-points-dropped state belongs to C20)
      Vec p(dim, 0.0, a);
      for (uint32_t d = 0; d < dim; ++d) p[d] = static_cast<double>(r.below(16)) * 0.125;
      LibScope ls;
      if (i & 1) sk.update(p); else sk.update(std::move(p));
    }
  }
  template <typename SrcT> static bool merge_ref(Env&, Obj& d, SrcT& s) { LibScope ls; d.merge(s); return true; }
  static bool merge_move(Env&, Obj& d, Obj&& s) { LibScope ls; d.merge(std::move(s)); return true; }
  static bool reset(Obj&) { return false; }
  static Obj* serde(Env& e, const Obj& sk, uint64_t mode, int reg) {
    if (mode & 1) {
      std::stringstream ss(std::ios::in | std::ios::out | std::ios::binary);
      { LibScope ls; sk.serialize(ss); }
      refused_prefix(ss, mode, [&](std::istream& is) { Obj tmp(Obj::deserialize(is, AnyVectorGaussian(), e.alloc<double>(reg))); (void)tmp; });
      return construct<Obj>([&](void* m) { return new (m) Obj(Obj::deserialize(ss, AnyVectorGaussian(), e.alloc<double>(reg))); });
    }
    auto bytes = [&] { LibScope ls; return sk.serialize(); }();
    return construct<Obj>([&](void* m) { return new (m) Obj(Obj::deserialize(bytes.data(), bytes.size(), AnyVectorGaussian(), e.alloc<double>(reg))); });
  }
  static void observe(const Obj& sk, std::ostream& os) {
    os << std::setprecision(17) << "k=" << sk.get_k() << " dim=" << sk.get_dim() << " n=" << sk.get_n() << " retained=" << sk.get_num_retained() << " empty=" << sk.is_empty()
       << " est_mode=" << sk.is_estimation_mode() << "\npoints:";
    uint32_t cnt = 0;
    for (auto it = sk.begin(); it != sk.end() && cnt <= sk.get_num_retained(); ++it, ++cnt) {
      os << " (";
      for (double x : (*it).first) os << x << ',';
      os << ")*" << (*it).second;
    }
    os << "\n";
    if (!sk.is_empty()) {
      std::vector<double> q(sk.get_dim(), 0.5);
      os << "est=" << [&] { LibScope ls; return sk.get_estimate(q); }() << ' ';
    }
    auto bytes = [&] { LibScope ls; return sk.serialize(); }();
    show_bytes(os, bytes.data(), bytes.size());
  }
  static void canon(const Obj& sk, std::ostream& os) { observe(sk, os); }
  static void query(Env&, const Obj& sk, uint64_t seed) { LibScope ls; if (seed & 1) { ToStringScope ts; (void)sk.to_string((seed & 2) != 0, (seed & 4) != 0); } }
};

}  // namespace vf19
#endif
