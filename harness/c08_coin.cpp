// C08 (exhaustive part) — estimated ranks are exactly unbiased over the internal fair coin flips, and the number
// of flips does not depend on their outcomes.
// A scenario = family + k + leaf streams + a merge/update history. The scenario is executed once per outcome sequence of
// the coin (random_bit, owned through the DATASKETCHES_VERIF hook) — all 2^f of them — and, for classic quantiles merges
// with unequal k, once per combination of the stride offsets drawn from random_utils::rand (realised by searching seeds
// whose mt19937_64 stream produces each combination). For every live sketch and every query value q:
//   sum over outcomes of (retained weight of items <= q)  ==  (number of outcomes) * (true count of items <= q)
// in exact integer arithmetic (same for < q), and every outcome consumes exactly the same number of flips.
#include "vf/core.hpp"
#include <kll_sketch.hpp>
#include <req_sketch.hpp>
#include <quantiles_sketch.hpp>
#include "vf/coin.hpp"
#include <random>

using namespace datasketches;
using vf::Case; using vf::Op;

namespace {

enum Fam { KLL = 0, REQ_HRA, REQ_LRA, CLASSIC, NFAM };
const char* fam_name(int f) { static const char* n[] = {"kll", "req-hra", "req-lra", "classic"}; return n[f]; }

typedef int32_t V;  // item type: small integers, exact comparisons

// The sketches are instantiated with a comparator that has state: the instance handed to the constructor (and to deserialize) decides the
// direction, a default-constructed one orders ascending. In a "desc" scenario the items enter negated and leave negated again, so that
// the order the sketch works with is the numeric order of the scenario's values in both directions and the model is unchanged.
struct Dir {
  bool desc = false;
  Dir() = default;
  explicit Dir(bool d): desc(d) {}
  bool operator()(V a, V b) const { return desc ? b < a : a < b; }
};
typedef kll_sketch<V, Dir> KllSk;
typedef req_sketch<V, Dir> ReqSk;
typedef quantiles_sketch<V, Dir> ClsSk;

std::vector<V> pattern(uint64_t n, int pat, uint64_t seed, V lo) {
  std::vector<V> v; v.reserve(n);
  vf::Rng r(seed);
  for (uint64_t i = 0; i < n; ++i) {
    switch (pat % 5) {
      case 0: v.push_back(lo + static_cast<V>(2 * i)); break;                         // sorted
      case 1: v.push_back(lo + static_cast<V>(2 * (n - 1 - i))); break;               // reversed
      case 2: v.push_back(lo + static_cast<V>(2 * r.below(2 * n + 1))); break;        // random
      case 3: v.push_back(lo + 10); break;                                            // constant
      default: v.push_back(lo + static_cast<V>(2 * r.below(4))); break;               // few distinct values
    }
  }
  return v;
}

struct Scenario {
  int fam; std::vector<int> ks;                 // k per sketch slot
  struct Step { int kind; int a, b; std::vector<V> items; };  // 0: update slot a with items; 1: merge slot b into slot a (lvalue); 2: same, rvalue copy; 3: slot a := deserialize(serialize(slot a)) (b: 0 bytes, 1 stream); 4: slot a answers a query (b: 0 rank, 1 quantile, 2 sorted view) in mid-history
  std::vector<Step> steps;
  int nslots = 0;
  bool desc = false;
};

template <typename SK> SK make(int fam, int k, bool desc);
template <> KllSk make<KllSk>(int, int k, bool desc) { return KllSk(static_cast<uint16_t>(k), Dir(desc)); }
template <> ReqSk make<ReqSk>(int fam, int k, bool desc) { return ReqSk(static_cast<uint16_t>(k), fam == REQ_HRA, Dir(desc)); }
template <> ClsSk make<ClsSk>(int, int k, bool desc) { return ClsSk(static_cast<uint16_t>(k), Dir(desc)); }

uint64_t rand_draws_since(uint64_t seed, uint64_t limit);

// executes the scenario under the currently installed coin; returns per slot the retained (item, weight) lists.
// With stride_log != nullptr (probe run, rand seeded with probe_seed) it records, for every draw from random_utils::rand,
// the stride of the down-sampling merge that made it (ratio of the two k values at the time of the merge).
struct QueryGrid { bool on = false; V lo = 0, hi = 0; std::vector<std::vector<uint64_t>> le, lt; std::vector<std::vector<char>> exact_le, exact_lt; };  // n * get_rank(q) per slot and query; "the sketch claims this rank is exact"

// REQ publishes, per rank, an interval; a zero-width 3-sigma interval is the sketch's claim that the rank is exact (accurate end)
template <typename SK> struct ExactClaim { static bool at(const SK&, double) { return false; } };
template <> struct ExactClaim<ReqSk> { static bool at(const ReqSk& sk, double rank) { return sk.get_rank_lower_bound(rank, 3) == rank && sk.get_rank_upper_bound(rank, 3) == rank; } };

template <typename SK>
void execute(const Scenario& sc, std::vector<std::vector<std::pair<V, uint64_t>>>& out, std::vector<uint64_t>& ns,
             std::vector<int>* stride_log = nullptr, uint64_t probe_seed = 0, QueryGrid* grid = nullptr) {
  std::vector<SK> sk;
  const bool desc = sc.desc;
  auto enc = [desc](V v) { return desc ? static_cast<V>(-v) : v; };
  for (int i = 0; i < sc.nslots; ++i) sk.push_back(make<SK>(sc.fam, sc.ks[i], desc));
  for (const auto& st : sc.steps) {
    if (st.kind == 0) { for (V v : st.items) sk[st.a].update(enc(v)); continue; }
    if (st.kind == 5) { if (st.a != st.b) sk[st.a] = sk[st.b]; continue; }   // copy assignment over an existing (possibly queried) sketch: slot a becomes a copy of slot b
    if (st.kind == 4) {  // const queries may reorganise the sketch internally (sorting, cached view); they use no coins and change no answer
      const SK& q = sk[st.a];
      if (q.is_empty()) continue;
      if (st.b == 0) (void)q.get_rank(enc(110), true);
      else if (st.b == 1) (void)q.get_quantile(0.5, true);
      else (void)q.get_sorted_view();
      continue;
    }
    if (st.kind == 3) {  // the sketch goes through its serialized image in mid-history (whatever the image does not carry - coins - is drawn again)
      if (st.b == 0) { auto bytes = sk[st.a].serialize(); sk[st.a] = SK::deserialize(bytes.data(), bytes.size(), serde<V>(), Dir(desc)); }
      else { std::stringstream ss(std::ios::in | std::ios::out | std::ios::binary); sk[st.a].serialize(ss); sk[st.a] = SK::deserialize(ss, serde<V>(), Dir(desc)); }
      continue;
    }
    uint64_t before = 0; int ka = 0, kb = 0;
    if (stride_log) { before = rand_draws_since(probe_seed, 64); ka = sk[st.a].get_k(); kb = sk[st.b].get_k(); }
    if (st.kind == 1) { sk[st.a].merge(sk[st.b]); }
    else { SK cp(sk[st.b]); sk[st.a].merge(std::move(cp)); }
    if (stride_log) {
      uint64_t after = rand_draws_since(probe_seed, 64);
      for (uint64_t d = before; d < after; ++d) stride_log->push_back(std::max(ka, kb) / std::max(1, std::min(ka, kb)));
    }
  }
  out.assign(sc.nslots, {});
  ns.assign(sc.nslots, 0);
  for (int i = 0; i < sc.nslots; ++i) {
    ns[i] = sk[i].get_n();
    if (sk[i].is_empty()) continue;
    size_t guard = 0;
    for (auto it = sk[i].begin(); it != sk[i].end(); ++it) {
      out[i].emplace_back(enc((*it).first), static_cast<uint64_t>((*it).second));
      if (++guard > 100000) break;
    }
  }
  // the ranks the sketch itself answers (sorted view / per-level search), as integer weights n * rank
  if (grid && grid->on) {
    size_t nq = static_cast<size_t>(grid->hi - grid->lo + 1);
    grid->le.assign(sc.nslots, std::vector<uint64_t>(nq, 0)); grid->lt.assign(sc.nslots, std::vector<uint64_t>(nq, 0));
    grid->exact_le.assign(sc.nslots, std::vector<char>(nq, 0)); grid->exact_lt.assign(sc.nslots, std::vector<char>(nq, 0));
    for (int i = 0; i < sc.nslots; ++i) {
      if (sk[i].is_empty()) continue;
      double dn = static_cast<double>(sk[i].get_n());
      for (size_t q = 0; q < nq; ++q) {
        V v = grid->lo + static_cast<V>(q);
        grid->le[i][q] = static_cast<uint64_t>(std::llround(sk[i].get_rank(enc(v), true) * dn));
        grid->lt[i][q] = static_cast<uint64_t>(std::llround(sk[i].get_rank(enc(v), false) * dn));
        grid->exact_le[i][q] = ExactClaim<SK>::at(sk[i], sk[i].get_rank(enc(v), true));
        grid->exact_lt[i][q] = ExactClaim<SK>::at(sk[i], sk[i].get_rank(enc(v), false));
      }
    }
  }
}

// number of mt19937_64 outputs consumed from random_utils::rand since it was seeded with `seed` (classic stride offsets)
uint64_t rand_draws_since(uint64_t seed, uint64_t limit) {
  std::mt19937_64 e(seed);
  for (uint64_t i = 0; i <= limit; ++i) { if (e == random_utils::rand) return i; e.discard(1); }
  return limit + 1;
}

template <typename SK>
void run_family(const Scenario& sc0, const Case& cs) {
  Scenario sc = sc0;
  long fmax = vf::env_long("VF_FMAX", 13);
  // classic merges into a smaller k draw stride offsets from random_utils::rand; find how many and with which strides
  // by replaying the library's own call on a local engine: dist(0, stride-1)(rand). Strides are recorded per scenario.
  std::vector<int> strides;
  uint64_t f = 0;
  int shrinks = 0;
  for (;;) {
    vf::coin_script({}, 0);
    vf::rand_seed(12345);
    std::vector<std::vector<std::pair<V, uint64_t>>> out; std::vector<uint64_t> ns;
    strides.clear();
    execute<SK>(sc, out, ns, &strides, 12345);
    f = vf::coin_flips();
    uint64_t draws = rand_draws_since(12345, 64);
    VF_CHECK(draws <= 64 && draws == strides.size(), "rand-draws", "draws from random_utils::rand: " << draws << ", attributed to merges: " << strides.size());
    double combos = std::ldexp(1.0, static_cast<int>(f));
    for (int s : strides) combos *= s;
    if (combos <= std::ldexp(1.0, static_cast<int>(fmax)) || shrinks > 40) break;
    // construction, not rejection: shorten every stream by a quarter and re-measure
    bool any = false;
    for (auto& st : sc.steps) if (st.kind == 0 && st.items.size() > 1) { st.items.resize(st.items.size() * 3 / 4); any = true; }
    ++shrinks;
    if (!any) break;
  }
  if (shrinks) vf::label("shortened-to-fit");
  if (shrinks > 40) { vf::label("skipped-too-many-flips"); return; }
  // truth: multiset per slot
  std::vector<std::vector<V>> truth(sc.nslots);
  for (const auto& st : sc.steps) {
    if (st.kind == 0) truth[st.a].insert(truth[st.a].end(), st.items.begin(), st.items.end());
    else if (st.kind == 3 || st.kind == 4) continue;
    else if (st.kind == 5) { if (st.a != st.b) truth[st.a] = truth[st.b]; }
    else { std::vector<V> add = truth[st.b]; truth[st.a].insert(truth[st.a].end(), add.begin(), add.end()); }
  }
  V qlo = 0, qhi = 0; bool have = false;
  for (auto& t : truth) for (V v : t) { if (!have) { qlo = qhi = v; have = true; } qlo = std::min(qlo, v); qhi = std::max(qhi, v); }
  if (!have) return;
  qlo -= 1; qhi += 1;
  size_t nq = static_cast<size_t>(qhi - qlo + 1);
  // seeds realising every combination of stride offsets
  std::vector<uint64_t> seeds;
  size_t ncombo = 1; for (int s : strides) ncombo *= s;
  if (strides.empty()) seeds.push_back(1);
  else {
    std::vector<int64_t> found(ncombo, -1); size_t nfound = 0;
    for (uint64_t s = 1; s < 200000 && nfound < ncombo; ++s) {
      std::mt19937_64 e(s); size_t idx = 0;
      for (int st : strides) { std::uniform_int_distribution<uint16_t> dist(0, static_cast<uint16_t>(st - 1)); idx = idx * st + dist(e); }
      if (found[idx] < 0) { found[idx] = static_cast<int64_t>(s); ++nfound; }
    }
    VF_CHECK(nfound == ncombo, "seed-search", "could not realise all " << ncombo << " stride-offset combinations");
    for (auto s : found) seeds.push_back(static_cast<uint64_t>(s));
    vf::label("classic-stride-offsets-enumerated");
  }
  // true counts per slot and query
  std::vector<std::vector<uint64_t>> true_le(sc.nslots, std::vector<uint64_t>(nq, 0)), true_lt(sc.nslots, std::vector<uint64_t>(nq, 0));
  for (int s = 0; s < sc.nslots; ++s) {
    std::vector<uint64_t> cnt(nq + 1, 0);
    for (V v : truth[s]) cnt[static_cast<size_t>(v - qlo)]++;
    uint64_t run = 0;
    for (size_t q = 0; q < nq; ++q) { true_lt[s][q] = run; run += cnt[q]; true_le[s][q] = run; }
  }
  uint64_t exact_claims = 0, zone_not_claimed = 0;
  // REQ exact zone: 3k items (k * INIT_NUM_SECTIONS), only when every slot has the same k
  uint64_t req_zone = 0;
  if (sc.fam == REQ_HRA || sc.fam == REQ_LRA) { bool same = true; for (int i = 1; i < sc.nslots; ++i) same &= sc.ks[i] == sc.ks[0]; if (same) req_zone = 3ull * static_cast<uint64_t>(std::max(4, sc.ks[0] & ~1)); }
  // accumulate
  std::vector<std::vector<uint64_t>> acc_le(sc.nslots, std::vector<uint64_t>(nq, 0)), acc_lt(sc.nslots, std::vector<uint64_t>(nq, 0));
  std::vector<std::vector<uint64_t>> racc_le(sc.nslots, std::vector<uint64_t>(nq, 0)), racc_lt(sc.nslots, std::vector<uint64_t>(nq, 0));
  QueryGrid grid; grid.on = true; grid.lo = qlo; grid.hi = qhi;
  uint64_t outcomes = 0;
  for (uint64_t seed : seeds) {
    for (uint64_t bits = 0; bits < (1ull << f); ++bits) {
      std::vector<uint8_t> script(f);
      for (uint64_t i = 0; i < f; ++i) script[i] = (bits >> i) & 1;
      vf::coin_script(script, 0);
      vf::rand_seed(seed);
      std::vector<std::vector<std::pair<V, uint64_t>>> out; std::vector<uint64_t> ns;
      execute<SK>(sc, out, ns, nullptr, 0, &grid);
      for (int sl = 0; sl < sc.nslots; ++sl) for (size_t q = 0; q < nq; ++q) {
        racc_le[sl][q] += grid.le[sl][q]; racc_lt[sl][q] += grid.lt[sl][q];
        // REQ, in EVERY outcome: a query whose TRUE rank lies within 3k items of the accurate end (the zone in which the sketch publishes
        // a zero-width interval: the never-compacted half of level 0 holds those items) is answered exactly
        if (req_zone > 0) {
          const uint64_t n = truth[sl].size();
          const bool hra = sc.fam == REQ_HRA;
          const bool zle = hra ? (n - true_le[sl][q] <= req_zone) : (true_le[sl][q] <= req_zone);
          const bool zlt = hra ? (n - true_lt[sl][q] <= req_zone) : (true_lt[sl][q] <= req_zone);
          if (zle) { ++exact_claims; VF_CHECK(grid.le[sl][q] == true_le[sl][q], "exact-zone-wrong", fam_name(sc.fam) << ": slot " << sl << " query " << (qlo + static_cast<V>(q)) << " (inclusive): n*rank = " << grid.le[sl][q] << ", true count " << true_le[sl][q] << " lies within " << req_zone << " items of the accurate end (outcome " << bits << ", n " << n << ")"); }
          if (zlt) { ++exact_claims; VF_CHECK(grid.lt[sl][q] == true_lt[sl][q], "exact-zone-wrong", fam_name(sc.fam) << ": slot " << sl << " query " << (qlo + static_cast<V>(q)) << " (exclusive): n*rank = " << grid.lt[sl][q] << ", true count " << true_lt[sl][q] << " lies within " << req_zone << " items of the accurate end (outcome " << bits << ", n " << n << ")"); }
          if ((zle && grid.exact_le[sl][q] == 0) || (zlt && grid.exact_lt[sl][q] == 0)) zone_not_claimed++;
        }
      }
      VF_CHECK(vf::coin_flips() == f, "flip-count-depends-on-outcome", fam_name(sc.fam) << ": outcome " << bits << " consumed " << vf::coin_flips() << " flips, the all-zero outcome " << f);
      if (!strides.empty()) VF_CHECK(rand_draws_since(seed, 64) == strides.size(), "rand-draw-count", "stride draws " << rand_draws_since(seed, 64) << " expected " << strides.size());
      for (int s = 0; s < sc.nslots; ++s) {
        VF_CHECK(ns[s] == truth[s].size(), "n", fam_name(sc.fam) << ": slot " << s << " n " << ns[s] << " true " << truth[s].size());
        uint64_t wsum = 0;
        // per-query accumulation through a difference array
        std::vector<uint64_t> at(nq + 1, 0);
        for (auto& iw : out[s]) { wsum += iw.second; at[static_cast<size_t>(iw.first - qlo)] += iw.second; }
        VF_CHECK(wsum == ns[s], "weight-sum", fam_name(sc.fam) << ": slot " << s << " retained weight " << wsum << " n " << ns[s] << " (outcome " << bits << ")");
        uint64_t run = 0;
        for (size_t q = 0; q < nq; ++q) { acc_lt[s][q] += run; run += at[q]; acc_le[s][q] += run; }
      }
      ++outcomes;
    }
  }
  // compare with the truth
  for (int s = 0; s < sc.nslots; ++s) {
    std::vector<uint64_t> cnt(nq + 1, 0);
    for (V v : truth[s]) cnt[static_cast<size_t>(v - qlo)]++;
    uint64_t run = 0;
    for (size_t q = 0; q < nq; ++q) {
      uint64_t lt = run; run += cnt[q]; uint64_t le = run;
      VF_CHECK_K(acc_le[s][q] == outcomes * le && acc_lt[s][q] == outcomes * lt, "rank-biased",
                 std::string("C08|") + fam_name(sc.fam) + "|rank-biased-over-coin-outcomes",
                 fam_name(sc.fam) << ": slot " << s << " query " << (qlo + static_cast<V>(q)) << ": sum over " << outcomes << " outcomes of weight<=q is " << acc_le[s][q]
                 << " expected " << outcomes * le << " (true count " << le << "); weight<q " << acc_lt[s][q] << " expected " << outcomes * lt << "; f=" << f);
      VF_CHECK_K(racc_le[s][q] == outcomes * le && racc_lt[s][q] == outcomes * lt, "get-rank-biased",
                 std::string("C08|") + fam_name(sc.fam) + "|get_rank-biased-over-coin-outcomes",
                 fam_name(sc.fam) << ": slot " << s << " query " << (qlo + static_cast<V>(q)) << ": sum over " << outcomes << " outcomes of n*get_rank(q, inclusive) is " << racc_le[s][q]
                 << " expected " << outcomes * le << "; exclusive " << racc_lt[s][q] << " expected " << outcomes * lt << "; f=" << f);
    }
  }
  vf::count("outcomes", outcomes);
  vf::count("req-exact-zone-queries-checked", exact_claims);
  vf::count("req-exact-zone-queries-without-zero-width-interval", zone_not_claimed);
  bool merged = false, rt = false, qbm = false, qseen = false;
  for (auto& st : sc.steps) { merged |= st.kind == 1 || st.kind == 2; rt |= st.kind == 3; if (st.kind == 4) qseen = true; else if ((st.kind == 1 || st.kind == 2) && qseen) qbm = true; }
  if (rt) vf::label("round-trip-in-mid-history");
  if (qbm) vf::label("query-before-merge");
  { bool asg = false; for (auto& st : sc.steps) asg |= st.kind == 5; if (asg) vf::label("copy-assignment-in-mid-history"); }
  vf::label(sc.desc ? "comparator:descending-instance" : "comparator:ascending-instance");
  vf::label(std::string("family:") + fam_name(sc.fam));
  if (merged) vf::label("merge");
  if (f >= 3) vf::label("f>=3");
  if (f >= 8) vf::label("f>=8");
  if (f == 0) vf::label("f=0");
  (void)cs;
  if (f >= 3 && merged) vf::nontrivial();
}

void prop(const Case& cs) {
  Scenario sc;
  sc.fam = static_cast<int>(cs.get("fam", 0) % NFAM);
  sc.desc = cs.get("desc", 0) & 1;
  auto legal_k = [&](int64_t sel) -> int {
    switch (sc.fam) {
      case KLL: return 8 + static_cast<int>(sel % 5);                 // 8..12
      case REQ_HRA: case REQ_LRA: return 4 + 2 * static_cast<int>(sel % 2);  // 4, 6
      default: return 2 << (sel % 3);                                 // 2, 4, 8 (powers of two)
    }
  };
  V lo = 100;
  for (const Op& op : cs.ops) {
    if (op.name == "leaf") {
      if (sc.nslots >= 4) continue;
      sc.ks.push_back(legal_k(op.arg(0)));
      int slot = sc.nslots++;
      Scenario::Step st{0, slot, 0, pattern(op.uarg(1) % 120, static_cast<int>(op.uarg(2)), op.uarg(3), lo)};
      sc.steps.push_back(st);
    } else if (op.name == "upd") {
      if (!sc.nslots) continue;
      Scenario::Step st{0, static_cast<int>(op.uarg(0) % sc.nslots), 0, pattern(op.uarg(1) % 60, static_cast<int>(op.uarg(2)), op.uarg(3), lo)};
      sc.steps.push_back(st);
    } else if (op.name == "merge") {
      if (sc.nslots < 2) continue;
      int a = static_cast<int>(op.uarg(0) % sc.nslots), b = static_cast<int>(op.uarg(1) % sc.nslots);
      if (a == b) continue;
      sc.steps.push_back(Scenario::Step{(op.arg(2) & 1) ? 2 : 1, a, b, {}});
    } else if (op.name == "rt") {
      if (!sc.nslots) continue;
      sc.steps.push_back(Scenario::Step{3, static_cast<int>(op.uarg(0) % sc.nslots), static_cast<int>(op.uarg(1) & 1), {}});
    } else if (op.name == "asg") {
      if (sc.nslots < 2) continue;
      int a = static_cast<int>(op.uarg(0) % sc.nslots), b = static_cast<int>(op.uarg(1) % sc.nslots);
      if (a == b || sc.ks[a] != sc.ks[b]) continue;   // the flip budget is planned per slot k: assign between slots of the same k only
      sc.steps.push_back(Scenario::Step{5, a, b, {}});
    } else if (op.name == "q") {
      if (!sc.nslots) continue;
      sc.steps.push_back(Scenario::Step{4, static_cast<int>(op.uarg(0) % sc.nslots), static_cast<int>(op.uarg(1) % 3), {}});
    }
  }
  if (!sc.nslots) return;
  switch (sc.fam) {
    case KLL: run_family<KllSk>(sc, cs); break;
    case REQ_HRA: case REQ_LRA: run_family<ReqSk>(sc, cs); break;
    default: run_family<ClsSk>(sc, cs);
  }
}

rc::Gen<Case> gen() {
  using namespace vf;
  auto leaf = op4("leaf", range(0, 9), rc::gen::weightedOneOf<int64_t>({{1, range(0, 3)}, {3, range(4, 40)}, {3, range(40, 119)}}), range(0, 4), range(0, 1 << 20));
  auto hist = choose({{4, op3("merge", range(0, 3), range(0, 3), range(0, 1))}, {3, op4("upd", range(0, 3), range(1, 59), range(0, 4), range(0, 1 << 20))}, {2, op2("rt", range(0, 3), range(0, 1))}, {3, op2("q", range(0, 3), range(0, 2))}, {2, op2("asg", range(0, 3), range(0, 3))}});
  auto ops = rc::gen::map(rc::gen::tuple(rc::gen::mapcat(rc::gen::weightedOneOf<int64_t>({{1, range(1, 1)}, {5, range(2, 4)}}), [leaf](int64_t n) { return rc::gen::container<std::vector<Op>>(static_cast<size_t>(n), leaf); }), oplist(hist, 2, 0.07)),
                          [](std::tuple<std::vector<Op>, std::vector<Op>> t) { auto v = std::get<0>(t); auto& h = std::get<1>(t); v.insert(v.end(), h.begin(), h.end()); return v; });
  return make_case({{"fam", range(0, NFAM - 1)}, {"desc", range(0, 1)}}, ops);
}

}  // namespace

int main(int argc, char** argv) {
  return vf::main_driver(argc, argv, "C08", "c08_coin",
                         "exhaustive: case = family (KLL, REQ HRA/LRA, classic) + small k + 1..4 leaf streams (sorted/reversed/random/constant/few values) + a "
                         "history of merges (lvalue/rvalue, equal and unequal k) and further updates; the scenario is executed under ALL 2^f coin outcome sequences "
                         "(x all classic stride-offset combinations) and the retained weight below every query value is summed exactly; scenarios needing more "
                         "than VF_FMAX flips are shortened by construction; non-trivial = f >= 3 and at least one merge; distinct = distinct case text",
                         {{"exhaustive", gen, prop, 1.0}});
}
