// fz_c11_images — libFuzzer target (structure-aware) for the thorough tier of C11, with the semantic oracle inside.
// The input bytes are decoded into (family, configuration, up to 3 update/merge batches, format variant, fault). The target
// builds the valid image, injects the fault and applies the C11 oracle:
//   no fault   : deserialize(bytes) and deserialize(stream) observe equal to the original (round trip)
//   prefix     : exception, or the very same sketch
//   corruption : exception, or a sketch on which observe / one update / serialize complete (exceptions allowed)
// Everything else is left to the sanitizers (ASan + UBSan, -malloc_limit_mb, -timeout). Findings that are listed as open in
// known_findings.json are excluded by construction (see excluded() below) so that the campaign is not stopped by them.
#include <fuzzer/FuzzedDataProvider.h>
#include "vf/families.hpp"
#include "vf/c11_preamble.hpp"

namespace fam = vf::fam;
using vf::Case; using vf::Op;

namespace {

[[noreturn]] void die(const std::string& msg) {
  fprintf(stderr, "C11-ORACLE-FAILURE: %s\n", msg.c_str());
  fflush(stderr);
  __builtin_trap();
}

// open known findings / valid huge configurations, excluded by construction
bool excluded(int f, int /*path*/, int kind, size_t pos, const fam::Bytes& img, const fam::Bytes& data) {
  if (kind == 2) {  // corruption
    bool empty_image = img.size() <= 16;
    if (f == fam::F_CM && pos >= 8 && pos <= 12 && empty_image) return true;      // num_buckets / num_hashes of an empty image: a valid huge empty sketch
    if (f == fam::F_DENS && pos >= 8 && pos <= 11 && empty_image) return true;     // dimension of an empty image: a valid empty sketch of a huge dimension
    if ((f == fam::F_VO_I || f == fam::F_VO_S || f == fam::F_VOU || f == fam::F_EBPPS) && img.size() <= 8 && pos >= 4 && pos <= 7 && data.size() >= 8 && vf::ref_le32(data.data() + 4) > 65536) return true;  // empty image, huge k
    if (f == fam::F_CPC && pos == 3 && data[3] >= 20 && data[3] <= 26) return true;  // another valid lg_k up to 26: the harness's own observation (validate) builds a 2^lg_k-row bit matrix
    if (f == fam::F_BLOOM && img.size() <= 24 && pos >= 16 && data.size() >= 20 && vf::ref_le32(data.data() + 16) > (1u << 20)) return true;  // empty image, larger bit-array length: valid image of a huge empty filter (allocated as its builder would)
    if ((f == fam::F_VO_I || f == fam::F_VO_S) && pos >= 4 && pos <= 7 && (img[0] & 0x3f) == 3 && vf::ref_le32(data.data() + 4) > 65536) return true;  // warm-up image, larger k: valid image of a huge sketch
  }
  return false;
}

}  // namespace

extern "C" int LLVMFuzzerTestOneInput(const uint8_t* bytes, size_t size) {
  FuzzedDataProvider fdp(bytes, size);
  Case rc;
  int f = fdp.ConsumeIntegralInRange<int>(0, fam::NFAM - 1);
  rc.set("fam", f);
  rc.set("a", fdp.ConsumeIntegral<uint16_t>()); rc.set("b", fdp.ConsumeIntegral<uint16_t>()); rc.set("c", fdp.ConsumeIntegral<uint16_t>());
  rc.set("seed", fdp.ConsumeIntegralInRange<int>(0, 3) == 3 ? 7 : 0);
  rc.set("rnd", 1 + fdp.ConsumeIntegral<uint16_t>());
  int nops = fdp.ConsumeIntegralInRange<int>(0, 3);
  for (int i = 0; i < nops; ++i) {
    Op op; op.name = fdp.ConsumeBool() ? "u" : "m";
    int cls = fdp.ConsumeIntegralInRange<int>(0, 3);
    int64_t n = cls == 0 ? fdp.ConsumeIntegralInRange<int>(0, 3) : cls == 1 ? fdp.ConsumeIntegralInRange<int>(4, 40) : cls == 2 ? fdp.ConsumeIntegralInRange<int>(41, 200) : fdp.ConsumeIntegralInRange<int>(201, 700);
    op.a = {n, fdp.ConsumeIntegralInRange<int>(0, 7), fdp.ConsumeIntegral<uint16_t>(), fdp.ConsumeIntegralInRange<int>(0, 63)};
    rc.ops.push_back(op);
  }
  int variant_sel = fdp.ConsumeIntegralInRange<int>(0, 1);
  int kind = fdp.ConsumeIntegralInRange<int>(0, 2);   // 0 none, 1 prefix, 2 corrupt
  int path = fdp.ConsumeIntegralInRange<int>(0, 2);   // 0 bytes, 1 stream, 2 wrap
  uint32_t pos_raw = fdp.ConsumeIntegral<uint32_t>();
  uint8_t val = fdp.ConsumeIntegral<uint8_t>();

  fam::P obj0 = fam::make(rc);
  int nv = obj0->variants();
  int variant = variant_sel % nv;
  fam::P obj = (variant == nv - 1) ? std::move(obj0) : fam::make(rc);
  fam::Bytes img = obj->bytes(0, variant);
  if (img.size() > 30000) return 0;
  if (!obj->finding_key().empty()) return 0;  // a state an open finding is about (density: trailing empty level not representable in the image): excluded by construction
  std::string full_obs = obj->observe();
  bool has_wrap = !obj->extra_view(img).empty();
  if (path == 2 && !has_wrap) path = 0;
  fam::Bytes data = img;
  size_t pos = 0;
  if (kind == 1) { if (img.empty()) return 0; pos = pos_raw % img.size(); data.resize(pos); }
  else if (kind == 2) {
    if (img.empty()) return 0;
    size_t pre = preamble_len(f, img);   // the property quantifies corruption over the documented preamble only
    if (pre == 0) return 0;
    pos = pos_raw % pre;
    if (data[pos] == val) val ^= 1;
    data[pos] = val;
    if (path == 2) path = 0;
  }
  if (getenv("FZ_DEBUG")) fprintf(stderr, "FZ_DEBUG family=%s variant=%d image=%zu bytes kind=%d path=%d pos=%zu value=0x%02x (was 0x%02x) recipe:\n%s\n", fam::name(f), variant, img.size(), kind, path, pos, kind == 2 ? data[pos] : 0, kind == 2 ? img[pos] : 0, rc.text().c_str());
  if (excluded(f, path, kind, pos, img, data)) return 0;
  bool returned = false; std::string obs;
  fam::P r;
  try {
    if (path == 0) {
      uint8_t* blk = static_cast<uint8_t*>(malloc(data.size() ? data.size() : 1));
      if (!data.empty()) std::memcpy(blk, data.data(), data.size());
      try { r = obj->from_bytes(blk, data.size()); } catch (...) { free(blk); throw; }
      free(blk);
      returned = true;
    } else if (path == 1) {
      std::istringstream is(std::string(data.begin(), data.end()), std::ios::binary);
      r = obj->from_stream(is);
      returned = true;
    } else {
      fam::Bytes exact(data); exact.shrink_to_fit();
      obs = obj->extra_view(exact);
      returned = true;
    }
    if (returned && kind != 2) {
      if (r) obs = r->observe();
      if (obs != full_obs) {
        die(std::string(fam::name(f)) + (kind == 0 ? ": round trip differs: " : ": a strict prefix was accepted as a different sketch: ") + obs.substr(0, 300) + " VS " + full_obs.substr(0, 300));
      }
    } else if (returned && r) {
      try { r->observe(); Op op{"u", {5, 0, 1, 1}}; if (f != fam::F_AOD) r->cont(op); r->bytes(0, variant); } catch (const std::exception&) {}
    }
  } catch (const std::exception&) {
    if (kind == 0) die(std::string(fam::name(f)) + ": a valid image was rejected");
  }
  return 0;
}
