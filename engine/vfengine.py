"""Engine behind ./check: build, supervise, minimise, known-findings matching, evidence."""
import sys, os, json, time, subprocess, hashlib, shutil, glob, re, signal

ROOT = os.path.dirname(os.path.dirname(os.path.abspath(__file__)))
REPO = os.environ.get("VERIF_REPO", "/repo")
BUILD = os.path.join(ROOT, "build")
OUT = os.environ.get("VERIF_OUT_DIR", os.path.join(ROOT, "out"))
sys.path.insert(0, os.path.dirname(os.path.abspath(__file__)))
from props import PROPS  # noqa: E402

HARNESS_OK_CODES = (0, 3, 4, 5)   # returned / property failure / usage / health
NCPU = os.cpu_count() or 4


def log(*a):
    print(*a, flush=True)


# ------------------------------------------------------------------ build
def include_dirs():
    dirs = sorted(d for d in glob.glob(os.path.join(REPO, "*", "include")) if os.path.isdir(d))
    return dirs


def tree_hash():
    h = hashlib.sha256()
    files = []
    for d in include_dirs():
        for root, _, fs in os.walk(d):
            for f in fs:
                files.append(os.path.join(root, f))
    for f in sorted(files):
        h.update(f.encode())
        with open(f, "rb") as fh:
            h.update(hashlib.sha256(fh.read()).digest())
    return h.hexdigest()


def harness_sources(name):
    """The harness TU plus the vf/ headers it includes, transitively (other harnesses' helper headers do not matter)."""
    hdir = os.path.join(ROOT, "harness")
    seen, todo = [], [os.path.join(hdir, name + ".cpp")]
    while todo:
        f = todo.pop()
        if f in seen or not os.path.exists(f):
            continue
        seen.append(f)
        for m in re.finditer(r'#include\s+"((?:vf/)?[\w./-]+\.hpp)"', open(f, errors="replace").read()):
            inc = m.group(1)
            for cand in (os.path.join(hdir, inc), os.path.join(os.path.dirname(f), inc)):
                if os.path.exists(cand):
                    todo.append(os.path.normpath(cand))
                    break
    return [seen[0]] + sorted(seen[1:])


FLAGS = {
    "asan": ["-std=c++17", "-g", "-O1", "-fsanitize=address,undefined", "-fno-sanitize=alignment,nonnull-attribute",
             "-fno-sanitize-recover=undefined", "-fno-omit-frame-pointer", "-DDATASKETCHES_VERIF", "-DVF_ASAN=1"],
    "fast": ["-std=c++17", "-g", "-O2", "-DDATASKETCHES_VERIF"],
    "fuzz": ["-std=c++17", "-g", "-O1", "-fsanitize=fuzzer,address,undefined", "-fno-sanitize=alignment,nonnull-attribute",
             "-fno-sanitize-recover=undefined", "-fno-omit-frame-pointer", "-DDATASKETCHES_VERIF", "-DVF_ASAN=1", "-DVF_FUZZ=1"],
}


def build(name, variant="asan", thash=None, quiet=False):
    """Compile harness/<name>.cpp against the current REPO tree; returns the binary path."""
    os.makedirs(BUILD, exist_ok=True)
    thash = thash or tree_hash()
    h = hashlib.sha256()
    h.update(thash.encode())
    h.update(" ".join(FLAGS[variant]).encode())
    h.update(REPO.encode())
    for s in harness_sources(name):
        with open(s, "rb") as fh:
            h.update(fh.read())
    key = h.hexdigest()[:16]
    exe = os.path.join(BUILD, f"{name}.{variant}.{key}")
    if os.path.exists(exe):
        return exe
    olds = sorted((o for o in glob.glob(os.path.join(BUILD, f"{name}.{variant}.*")) if not o.endswith(".tmp")), key=os.path.getmtime)
    for old in olds[:-8]:   # keep the most recent other builds (tree under test / parallel scratch mutants)
        try:
            os.remove(old)
        except OSError:
            pass
    cmd = ["clang++"] + FLAGS[variant] + ["-I" + os.path.join(ROOT, "harness")]
    for d in include_dirs():
        cmd.append("-I" + d)
    tmpexe = exe + ".%d.tmp" % os.getpid()
    cmd += [os.path.join(ROOT, "harness", name + ".cpp"), "-o", tmpexe]
    cmd += ["-lrapidcheck"]
    t0 = time.time()
    r = subprocess.run(cmd, stdout=subprocess.PIPE, stderr=subprocess.STDOUT, text=True)
    if r.returncode != 0:
        sys.stderr.write(r.stdout[-6000:])
        raise SystemExit(2)
    os.rename(tmpexe, exe)
    if not quiet:
        log(f"[build] {name}.{variant} {time.time() - t0:.1f}s")
    return exe


def build_many(specs):
    """specs: list of (name, variant). Builds missing ones in parallel; returns dict."""
    thash = tree_hash()
    procs = {}
    res = {}
    # run builds in parallel through subprocesses of this script for simplicity
    from concurrent.futures import ThreadPoolExecutor
    with ThreadPoolExecutor(max_workers=min(NCPU, max(1, len(specs)))) as ex:
        futs = {spec: ex.submit(build, spec[0], spec[1], thash) for spec in specs}
        for spec, f in futs.items():
            res[spec] = f.result()
    return res


# ------------------------------------------------------------------ known findings
def load_known():
    out = []
    # VERIF_KNOWN_EXTRA: development aid only (an extra list while a finding is being triaged); never set by MANIFEST commands
    for p in (os.path.join(ROOT, "known_findings.json"), os.environ.get("VERIF_KNOWN_EXTRA", "")):
        if p and os.path.exists(p):
            with open(p) as fh:
                out += json.load(fh).get("findings", [])
    return out


def sanitizer_env():
    e = dict(os.environ)
    e["ASAN_OPTIONS"] = ("exitcode=99:abort_on_error=0:detect_leaks=1:allocator_may_return_null=0:"
                         "max_allocation_size_mb=2048:detect_stack_use_after_return=0:symbolize=1:print_summary=1:"
                         "quarantine_size_mb=64:malloc_context_size=10")  # keeps worker RSS flat (stack depot growth under rapidcheck)
    e["UBSAN_OPTIONS"] = "exitcode=98:print_stacktrace=1:halt_on_error=1"
    e["LSAN_OPTIONS"] = "exitcode=97"
    e["ASAN_SYMBOLIZER_PATH"] = shutil.which("llvm-symbolizer") or shutil.which("llvm-symbolizer-14") or ""
    return e


def crash_signature(text):
    """Structured signature of a sanitizer report / signal: kind + innermost repository frame."""
    kind = "crash"
    m = re.search(r"ERROR: AddressSanitizer: ([\w-]+)", text)
    if m:
        kind = m.group(1)
        m2 = re.search(r"(READ|WRITE) of size", text)
        if m2:
            kind += "-" + m2.group(1).lower()
    elif "LeakSanitizer" in text:
        kind = "leak"
    elif "runtime error:" in text:
        m = re.search(r"runtime error: ([^\n]{0,60})", text)
        kind = "ubsan:" + re.sub(r"[0-9x]+", "N", m.group(1)).strip() if m else "ubsan"
    elif "Assertion" in text:
        kind = "assert"
    frame = ""
    for m in re.finditer(r"#\d+ 0x[0-9a-f]+ in (.+?) (/[^\s:]+):(\d+)", text):
        if m.group(2).startswith(REPO) or "/include/" in m.group(2) and "/harness/" not in m.group(2) and "/usr/" not in m.group(2):
            fn = re.sub(r"\(.*", "", m.group(1))
            fn = re.sub(r"<.*?>", "", fn)
            frame = fn.split("::")[-1] if "::" in fn else fn
            frame = os.path.basename(m.group(2)) + ":" + frame
            break
    return kind + "|" + frame


# ------------------------------------------------------------------ replay / minimise
def run_replay(exe, path, env=None, timeout=300):
    hexline = None
    try:
        for l in open(path, errors="replace"):
            if l.startswith("fuzzhex "):
                hexline = l.split(None, 1)[1].strip()
    except OSError:
        pass
    if hexline is not None:   # libFuzzer input: the binary re-executes the saved bytes
        import tempfile
        fd, tmp = tempfile.mkstemp(prefix="vf-fuzz-replay-", suffix=".bin", dir=os.environ.get("VERIF_OUT_DIR", OUT) if os.path.isdir(os.environ.get("VERIF_OUT_DIR", OUT)) else None)
        with os.fdopen(fd, "wb") as fh:
            fh.write(bytes.fromhex(hexline))
        try:
            r = subprocess.run([exe, tmp], stdout=subprocess.PIPE, stderr=subprocess.STDOUT, text=True, env=env or sanitizer_env(), timeout=timeout, errors="replace")
            return (0 if r.returncode == 0 else 3 if "C11-ORACLE-FAILURE" in r.stdout else r.returncode), r.stdout + ("PASS\n" if r.returncode == 0 else "")
        except subprocess.TimeoutExpired:
            return -999, ""
        finally:
            try: os.remove(tmp)
            except OSError: pass
    try:
        r = subprocess.run([exe, "--replay", path], stdout=subprocess.PIPE, stderr=subprocess.STDOUT, text=True,
                           env=env or sanitizer_env(), timeout=timeout, errors="replace")
        return r.returncode, r.stdout
    except subprocess.TimeoutExpired as e:
        return -999, (e.stdout or "") if isinstance(e.stdout, str) else ""


def ddmin_crash(exe, text, outdir, sig, max_runs=250):
    """Delta debugging over the 'op' lines of a case text; keeps the same crash signature."""
    lines = text.splitlines()
    head = [l for l in lines if not l.startswith("op ")]
    ops = [l for l in lines if l.startswith("op ")]
    tmp = os.path.join(outdir, "ddmin.tmp")
    runs = [0]

    def crashes(cand):
        runs[0] += 1
        with open(tmp, "w") as fh:
            fh.write("\n".join(head + cand) + "\n")
        code, out = run_replay(exe, tmp, timeout=120)
        return code not in HARNESS_OK_CODES and code != -999 and crash_signature(out) == sig

    n = 2
    while len(ops) >= 2 and runs[0] < max_runs:
        chunk = max(1, len(ops) // n)
        reduced = False
        for i in range(0, len(ops), chunk):
            cand = ops[:i] + ops[i + chunk:]
            if cand and crashes(cand):
                ops = cand
                n = max(n - 1, 2)
                reduced = True
                break
            if runs[0] >= max_runs:
                break
        if not reduced:
            if chunk == 1:
                break
            n = min(len(ops), n * 2)
    return "\n".join(head + ops) + "\n"


# ------------------------------------------------------------------ running units
def tier_params(unit, tier):
    p = dict(unit.get(tier, {}))
    scale = float(os.environ.get("VERIF_SCALE", "1"))
    p["cases"] = max(1, int(p.get("cases", 100) * scale))
    return p


def run_fuzz_unit(pid, unit, tier, seed, outdir, known_open):
    """libFuzzer unit: N independent fuzzing processes on fresh corpora; only crash-/leak- artifacts count."""
    name = unit["harness"]
    exe = build(name, "fuzz")
    tp = tier_params(unit, tier)
    workers = max(1, min(int(os.environ.get("VERIF_JOBS", tp.get("workers", 4 if tier == "quick" else 14))), NCPU))
    udir = os.path.join(outdir, name)
    os.makedirs(udir, exist_ok=True)
    env = sanitizer_env()
    env["ASAN_OPTIONS"] += ":max_allocation_size_mb=256"
    runs = max(1, tp["cases"] // workers)
    procs = []
    for w in range(workers):
        cdir = os.path.join(udir, f"corpus.{w}")
        os.makedirs(cdir, exist_ok=True)
        for fam in range(22):   # one tiny seed input per family (structure-aware decode: first byte selects the family)
            with open(os.path.join(cdir, f"seed{fam:02d}"), "wb") as fh:
                fh.write(bytes([fam]) + bytes((7 * fam + i) % 251 for i in range(20)))
        lf = open(os.path.join(udir, f"log.{w}.txt"), "w")
        cmd = [exe, cdir, f"-runs={runs}", f"-seed={seed * 1000 + w + 1}", "-max_len=40", "-timeout=25", "-rss_limit_mb=3000",
               "-malloc_limit_mb=256", f"-artifact_prefix={udir}/art.{w}.", "-print_final_stats=1", "-use_value_profile=1"]
        procs.append((w, subprocess.Popen(cmd, stdout=lf, stderr=subprocess.STDOUT, env=env), lf))
    limit = tp.get("timeout", 900 if tier == "quick" else 7200)
    t0 = time.time()
    result = {"stats": [], "violations": [], "problems": [], "known": {}}
    for w, p, lf in procs:
        try:
            p.wait(timeout=max(1, limit - (time.time() - t0)))
        except subprocess.TimeoutExpired:
            p.send_signal(signal.SIGINT)
            try:
                p.wait(timeout=30)
            except subprocess.TimeoutExpired:
                p.kill(); p.wait()
            result["problems"].append(f"{name} worker {w}: wall budget of {limit}s hit (inconclusive, not a violation)")
        lf.close()
    execs, hashes, samples = 0, [], []
    for w, p, lf in procs:
        logtxt = open(os.path.join(udir, f"log.{w}.txt"), errors="replace").read()
        m = re.search(r"stat::number_of_executed_units:\s*(\d+)", logtxt)
        if m:
            execs += int(m.group(1))
        else:
            m2 = re.findall(r"^#(\d+)\s", logtxt, re.M)
            if m2:
                execs += int(m2[-1])
        cdir = os.path.join(udir, f"corpus.{w}")
        for fn in sorted(os.listdir(cdir)):
            data = open(os.path.join(cdir, fn), "rb").read()
            hashes.append(hashlib.sha1(data).hexdigest()[:16])
            if len(samples) < 4 and not fn.startswith("seed"):
                samples.append("fuzz input (hex): " + data.hex())
        for art in sorted(glob.glob(os.path.join(udir, f"art.{w}.*"))):
            base = os.path.basename(art)
            if not (base.startswith(f"art.{w}.crash-") or base.startswith(f"art.{w}.leak-")):
                continue   # slow-unit / timeout / oom are load noise
            confirmed, lastout = 0, ""
            for _ in range(3):
                r = subprocess.run([exe, art], stdout=subprocess.PIPE, stderr=subprocess.STDOUT, text=True, env=env, errors="replace")
                if r.returncode != 0:
                    confirmed += 1
                    lastout = r.stdout
            if confirmed < 3:
                result["problems"].append(f"{name}: artifact {base} did not reproduce 3x ({confirmed}/3)")
                continue
            sig = crash_signature(lastout)
            mo = re.search(r"C11-ORACLE-FAILURE: ([^\n]{0,300})", lastout)
            if mo:
                sig = "oracle|" + re.sub(r"[^A-Za-z0-9_:.-]+", "-", mo.group(1))[:80]
            rp = art + ".replay"
            with open(rp, "w") as fh:
                fh.write(f"# vf replay\nproperty {pid}\nharness {name}\ncheck fuzz-crash\nkey fuzz|{sig}\nmsg {sig}\nfuzzhex {open(art, 'rb').read().hex()}\n")
            with open(rp + ".report.txt", "w") as fh:
                fh.write(lastout[-20000:])
            result["violations"].append({"kind": "crash", "file": rp, "line": f"FAIL check=fuzz-crash key=fuzz|{sig} msg={sig}", "exe": exe, "sig": "fuzz|" + sig})
    result["stats"].append({"evaluations": execs, "nontrivial_hashes": hashes, "labels": {"sub:libfuzzer": execs}, "counters": {"corpus_files": len(hashes)},
                            "known_hits": {}, "samples": samples, "notes": [],
                            "rule": "libFuzzer (coverage-guided, value profile) on fz_c11_images: input decoded into (family, configuration, batches, variant, fault); "
                                    "evaluations = executed units; distinct non-trivial = inputs kept in the corpus because they reached new coverage"})
    return result


def run_unit(pid, unit, tier, seed, outdir, known_open):
    """Runs one harness unit with several workers. Returns dict(stats=[...], violations=[...], problems=[...])."""
    name = unit["harness"]
    variant = unit.get("variant", "asan")
    if variant == "fuzz":
        return run_fuzz_unit(pid, unit, tier, seed, outdir, known_open)
    exe = build(name, variant)
    tp = tier_params(unit, tier)
    workers = int(os.environ.get("VERIF_JOBS", tp.get("workers", 4 if tier == "quick" else 14)))
    workers = max(1, min(workers, NCPU))
    udir = os.path.join(outdir, name)
    os.makedirs(udir, exist_ok=True)
    env = sanitizer_env()
    env.update({"VF_OUT": udir, "VF_MAXSIZE": str(tp.get("maxsize", 100)), "VF_TIER": tier,
                "VF_KNOWN": "\n".join(k["key"] for k in known_open)})
    for k, v in unit.get("env", {}).items():
        env[k] = str(v)
    for k, v in tp.get("env", {}).items():
        env[k] = str(v)
    if "ASAN_OPTIONS_EXTRA" in env:   # appended to (not replacing) the engine's sanitizer options
        env["ASAN_OPTIONS"] = env["ASAN_OPTIONS"] + ":" + env.pop("ASAN_OPTIONS_EXTRA")
    per = max(1, tp["cases"] // workers)
    procs = []
    for w in range(workers):
        e = dict(env)
        e["VF_WORKER"] = str(w)
        e["VF_NWORKERS"] = str(workers)
        e["VF_SEED"] = str(seed * 1000 + w)
        e["VF_CASES"] = str(per)
        lf = open(os.path.join(udir, f"log.{w}.txt"), "w")
        procs.append((w, subprocess.Popen([exe], stdout=lf, stderr=subprocess.STDOUT, env=e), lf))
    limit = tp.get("timeout", 900 if tier == "quick" else 7200)
    t0 = time.time()
    result = {"stats": [], "violations": [], "problems": [], "known": {}}
    for w, p, lf in procs:
        try:
            p.wait(timeout=max(1, limit - (time.time() - t0)))
        except subprocess.TimeoutExpired:
            p.kill()
            p.wait()
            result["problems"].append(f"{name} worker {w}: wall budget of {limit}s hit (inconclusive, not a violation)")
        lf.close()
    for w, p, lf in procs:
        code = p.returncode
        logtxt = open(os.path.join(udir, f"log.{w}.txt"), errors="replace").read()
        sp = os.path.join(udir, f"stats.{w}.json")
        if os.path.exists(sp):
            try:
                result["stats"].append(json.load(open(sp)))
            except Exception as ex:  # noqa
                result["problems"].append(f"{name} worker {w}: unreadable stats ({ex})")
        if code == 0:
            continue
        if code == -9 and any("wall budget" in x for x in result["problems"]):
            continue
        if code == 3:
            fpath = os.path.join(udir, f"fail.{w}.replay")
            m = re.search(r"^FAIL .*$", logtxt, re.M)
            result["violations"].append({"kind": "property", "file": fpath, "line": m.group(0) if m else "", "exe": exe})
            continue
        if code in (4, 5):
            result["problems"].append(f"{name} worker {w}: harness exit {code}: {logtxt[-1500:]}")
            continue
        # crash: sanitizer report, signal, assert
        cur = os.path.join(udir, f"current.{w}.txt")
        sig = crash_signature(logtxt)
        case_text = open(cur).read() if os.path.exists(cur) else ""
        if not case_text.strip():
            result["problems"].append(f"{name} worker {w}: died with code {code} outside any case: {logtxt[-3000:]}")
            continue
        header = f"# vf replay\nproperty {pid}\nharness {name}\ncheck crash\nkey crash|{sig}\nmsg exit code {code}: {sig}\n"
        cand = os.path.join(udir, f"crash.{w}.replay")
        with open(cand, "w") as fh:
            fh.write(header + case_text)
        # confirm 3x
        confirmed = 0
        lastout = ""
        for _ in range(3):
            c2, out2 = run_replay(exe, cand)
            if c2 not in HARNESS_OK_CODES and c2 != -999:
                confirmed += 1
                lastout = out2
        if confirmed < 3:
            if sig.startswith("leak"):
                # leaks are reported at process exit: the last case is not necessarily the leaking one
                result["problems"].append(f"{name} worker {w}: LeakSanitizer report at exit not attributable to one case:\n{logtxt[-3000:]}")
                result["violations"].append({"kind": "crash", "file": cand, "line": f"FAIL check=leak key=crash|{sig} msg=leak at exit (unattributed)", "exe": exe, "sig": sig, "unconfirmed": True})
            else:
                result["problems"].append(f"{name} worker {w}: crash (code {code}, {sig}) did not reproduce 3x from the logged case ({confirmed}/3); log tail:\n{logtxt[-2500:]}")
            continue
        sig2 = crash_signature(lastout)
        mintext = ddmin_crash(exe, open(cand).read(), udir, sig2)
        header = f"# vf replay\nproperty {pid}\nharness {name}\ncheck crash\nkey crash|{sig2}\nmsg exit code {code}: {sig2}\n"
        body = "\n".join(l for l in mintext.splitlines() if l.startswith(("sub ", "cfg ", "op "))) + "\n"
        with open(cand, "w") as fh:
            fh.write(header + body)
        with open(cand + ".report.txt", "w") as fh:
            fh.write(lastout)
        result["violations"].append({"kind": "crash", "file": cand, "line": f"FAIL check=crash key=crash|{sig2} msg={sig2}", "exe": exe, "sig": sig2})
    return result


def replay_key(path):
    key = ""
    try:
        for l in open(path, errors="replace"):
            if l.startswith("key "):
                key = l[4:].strip()
                break
    except OSError:
        pass
    return key


def replay_harness(path):
    for l in open(path, errors="replace"):
        if l.startswith("harness "):
            return l.split()[1]
    return None


def replay_property(path):
    for l in open(path, errors="replace"):
        if l.startswith("property "):
            return l.split()[1]
    return None


# ------------------------------------------------------------------ evidence
def write_evidence(pid, tier, seed, prop, unit_results, wall, nviol, known_lines, extra_notes):
    cov = {"evaluations": 0, "distinct_nontrivial": 0, "rule": "", "samples": [], "labels": {}, "counters": {},
           "units": [], "known_findings_excluded_cases": 0}
    rules = []
    nts = set()
    for uname, res in unit_results:
        u_eval = 0
        u_nt = set()
        for st in res["stats"]:
            u_eval += st.get("evaluations", 0)
            for h in st.get("nontrivial_hashes", []):
                u_nt.add(uname + ":" + h)
            for k, v in st.get("labels", {}).items():
                cov["labels"][uname + "/" + k] = cov["labels"].get(uname + "/" + k, 0) + v
            for k, v in st.get("counters", {}).items():
                if k == "wall_ms":
                    continue
                cov["counters"][uname + "/" + k] = cov["counters"].get(uname + "/" + k, 0) + v
            for k, v in st.get("known_hits", {}).items():
                cov["known_findings_excluded_cases"] += v
            if st.get("rule") and st["rule"] not in rules:
                rules.append(st["rule"])
            for s in st.get("samples", []):
                if len(cov["samples"]) < 8:
                    cov["samples"].append(s)
            for n in st.get("notes", []):
                extra_notes.append(f"{uname}: {n}")
            if st.get("exhaustive"):
                cov["exhaustive"] = True
        cov["evaluations"] += u_eval
        nts |= u_nt
        cov["units"].append({"harness": uname, "evaluations": u_eval, "distinct_nontrivial": len(u_nt),
                             "workers": len(res["stats"])})
    cov["distinct_nontrivial"] = len(nts)
    cov["rule"] = " || ".join(rules)
    if extra_notes:
        cov["notes"] = extra_notes
    if known_lines:
        cov["known_findings"] = known_lines
    ev = {"property_id": pid, "tier": tier, "seed": seed, "level": prop["level"], "coverage": cov,
          "assumptions": prop.get("assumptions", []), "wall_s": round(wall, 2), "violations": nviol}
    evdir = os.environ.get("VERIF_EVIDENCE_DIR", os.path.join(ROOT, "evidence"))
    os.makedirs(evdir, exist_ok=True)
    p = os.path.join(evdir, pid + ".json")
    with open(p + ".tmp", "w") as fh:
        json.dump(ev, fh, indent=1)
    os.rename(p + ".tmp", p)
    return ev


# ------------------------------------------------------------------ main check
def check(pid, tier):
    if pid not in PROPS:
        log(f"unknown property {pid}")
        return 2
    prop = PROPS[pid]
    seed = int(os.environ.get("VERIF_SEED", "1") or 1)
    t0 = time.time()
    outdir = os.path.join(OUT, f"{pid}.{tier}")
    shutil.rmtree(outdir, ignore_errors=True)
    os.makedirs(outdir, exist_ok=True)
    known = [k for k in load_known() if k.get("property") == pid]
    known_open = [k for k in known if k.get("status") == "open"]
    known_keys = {k["key"]: k for k in known_open}
    units = [u for u in prop["units"] if tier in u.get("tiers", ["quick", "thorough"])]
    build_many([(u["harness"], u.get("variant", "asan")) for u in units])
    violations = []
    problems = []
    known_hits = {}
    # 1. regression replays (seconds)
    nrep = 0
    for rp in sorted(glob.glob(os.path.join(ROOT, "replays", pid + "-*.replay"))):
        hname = replay_harness(rp)
        if not hname or not os.path.exists(os.path.join(ROOT, "harness", hname + ".cpp")):
            continue
        variant = "asan"
        uenv = {}
        for u in prop["units"]:
            if u["harness"] == hname:
                variant = u.get("variant", "asan")
                uenv = dict(u.get("env", {}))
        exe = build(hname, variant)
        env = sanitizer_env()
        env["VF_KNOWN"] = "\n".join(known_keys)
        for k, v in uenv.items():   # replays run under the unit's own environment
            if k == "ASAN_OPTIONS_EXTRA":
                env["ASAN_OPTIONS"] += ":" + str(v)
            else:
                env[k] = str(v)
        code, out = run_replay(exe, rp, env=env)
        nrep += 1
        if code == 0:
            m = re.search(r"^KNOWN (.*)$", out, re.M)
            if m:
                known_hits[m.group(1)] = known_hits.get(m.group(1), 0) + 1
            continue
        key = replay_key(rp)
        if code not in HARNESS_OK_CODES:
            key = "crash|" + crash_signature(out)
        else:
            m = re.search(r"key=(\S*)", out)
            key = m.group(1) if m else key
        if key in known_keys:
            known_hits[key] = known_hits.get(key, 0) + 1
            continue
        violations.append({"file": rp, "line": f"regression replay fails (exit {code}): " + out.strip().splitlines()[-1][:300] if out.strip() else ""})
    # 2. generated search
    unit_results = []
    for u in units:
        res = run_unit(pid, u, tier, seed, outdir, known_open)
        unit_results.append((u["harness"], res))
        problems += res["problems"]
        for st in res["stats"]:
            for k, v in st.get("known_hits", {}).items():
                known_hits[k] = known_hits.get(k, 0) + v
        for v in res["violations"]:
            m = re.search(r"key=(\S*)", v["line"])
            key = m.group(1) if m else ""
            if v["kind"] == "crash":
                key = v.get("sig", "") if v.get("sig", "").startswith("fuzz|") else "crash|" + v.get("sig", "")
            if key and key in known_keys:
                known_hits[key] = known_hits.get(key, 0) + 1
                continue
            # keep a copy outside the per-run directory
            vd = os.path.join(OUT, "violations")
            os.makedirs(vd, exist_ok=True)
            dst = os.path.join(vd, f"{pid}-{tier}-{len(violations)}-{int(time.time())}.replay")
            try:
                shutil.copy(v["file"], dst)
                if os.path.exists(v["file"] + ".report.txt"):
                    shutil.copy(v["file"] + ".report.txt", dst + ".report.txt")
            except OSError:
                dst = v["file"]
            violations.append({"file": dst, "line": v["line"]})
    known_lines = []
    for k in known_open:
        line = f"KNOWN-FINDING: property={pid} {k['what']} [key {k['key']}; cases excluded this run: {known_hits.get(k['key'], 0)}]"
        known_lines.append(line)
        log(line)
    notes = list(problems)
    notes.append(f"regression replays run: {nrep}")
    ev = write_evidence(pid, tier, seed, prop, unit_results, time.time() - t0, len(violations), known_lines, notes)
    cov = ev["coverage"]
    log(f"[{pid} {tier}] evaluations={cov['evaluations']} distinct_nontrivial={cov['distinct_nontrivial']} "
        f"violations={len(violations)} wall={ev['wall_s']}s")
    for v in violations:
        log(f"  {v['line'][:600]}")
        log(f"VIOLATION property={pid} replay={v['file']}")
    if violations:
        return 1
    if problems:
        for p in problems:
            sys.stderr.write("[machinery] " + p + "\n")
        hard = [p for p in problems if "wall budget" not in p]
        if hard:
            return 2
    if cov["distinct_nontrivial"] < 2:
        if any("wall budget" in p for p in problems):
            # workers stopped at the wall budget before they flushed their statistics: inconclusive, neither a violation nor a broken generator
            sys.stderr.write("[machinery] inconclusive: the wall budget ended the run before any statistics were written\n")
            return 0
        sys.stderr.write("[machinery] generator health: fewer than 2 distinct non-trivial cases\n")
        return 2
    # label health: required labels must be reached
    for lab, minfrac in prop.get("require_labels", {}).items():
        tot = cov["evaluations"]
        got = sum(v for k, v in cov["labels"].items() if k.split("/", 1)[1] == lab)
        if tot and got / tot < minfrac:
            sys.stderr.write(f"[machinery] generator health: label '{lab}' reached in {got}/{tot} cases (< {minfrac})\n")
    if os.environ.get("VERIF_KEEP") != "1":
        shutil.rmtree(outdir, ignore_errors=True)
    return 0


def replay(path):
    pid = replay_property(path)
    hname = replay_harness(path)
    if not pid or not hname:
        log("not a replay file")
        return 2
    variant = "asan"
    for u in PROPS.get(pid, {}).get("units", []):
        if u["harness"] == hname:
            variant = u.get("variant", "asan")
    if hname.startswith("fz_"):
        variant = "fuzz"
    exe = build(hname, variant)
    known_open = [k for k in load_known() if k.get("property") == pid and k.get("status") == "open"]
    env = sanitizer_env()
    env["VF_KNOWN"] = "\n".join(k["key"] for k in known_open)
    code, out = run_replay(exe, path, env=env)
    sys.stdout.write(out[-8000:])
    if code == 0:
        return 0
    log(f"VIOLATION property={pid} replay={path}")
    return 1


def main(argv):
    if not argv or argv[0] in ("-h", "--help"):
        print(__doc__ or "usage: check <ID> <quick|thorough> | --replay <file> | --build-all | --list")
        return 2
    if argv[0] == "--list":
        for pid, p in PROPS.items():
            print(pid, [u["harness"] for u in p["units"]])
        return 0
    if argv[0] == "--build-all":
        from props import ENABLED
        specs = []
        for pid, p in PROPS.items():
            if pid not in ENABLED:
                continue
            for u in p["units"]:
                s = (u["harness"], u.get("variant", "asan"))
                if s not in specs:
                    specs.append(s)
        t0 = time.time()
        build_many(specs)
        log(f"built {len(specs)} harness binaries in {time.time() - t0:.1f}s")
        return 0
    if argv[0] == "--replay":
        return replay(argv[1])
    pid = argv[0]
    tier = argv[1] if len(argv) > 1 else os.environ.get("VERIF_TIER", "quick")
    return check(pid, tier)
