#!/bin/bash
# tools/seeded_all.sh [parallel] — re-runs the quick tier of the owning property against EVERY kept seeded change (scratch copies of /repo),
# `parallel` at a time; prints one line per change and a summary. Results are appended to seeded/<ID>-n/results.txt as usual.
par=${1:-3}
cd /verif
ls -d seeded/C*-* | sort -V | xargs -P "$par" -I{} bash -c 'tools/seeded_run.sh {} quick 2>&1 | head -1'
echo "== last result per change"
for d in $(ls -d seeded/C*-* | sort -V); do tail -1 $d/results.txt | awk '{print $2,$3,$4,$5,$6,$7,$8}'; done | awk '{c[$6]++} END {for (k in c) print k, c[k]}'
