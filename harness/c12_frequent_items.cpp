// C12 — Frequent-items bounds always bracket the true frequency.
//
// Four sketch slots (own lg_max_map_size / lg_start_map_size each) are driven by a generated history of weighted
// updates (single and bulk streams of several shapes), merges between slots (const&, rvalue, with a copy of itself),
// serialization round-trips (bytes, bytes behind a header, stream), copies and re-configurations. Next to every slot
// the harness keeps the EXACT counter of every item and the exact total. After every operation, for every item of
// the case's universe (every item ever fed to ANY slot plus three never-fed probes), tracked or not:
//   lb <= true <= ub,  lb <= estimate <= ub,  ub - lb == get_maximum_error(),  total weight exact,
// and get_frequent_items is checked in both directions for a set of thresholds (0, max error and its neighbours,
// true weights / lower bounds of model items and their neighbours, generated values).
//
// The family has no internal randomness (the purge "sample" is the first 1024 active cells), so coin.hpp is not used.
#include "vf/core.hpp"
#include <frequent_items_sketch.hpp>
#include <memory>
#include <sstream>

using namespace datasketches;
using vf::Case; using vf::Op;

namespace {

// Known-finding key of the one shape that is wrong on the pinned tree (see the final report / out/proposed/C12-1.diff)
const char* const KEY_GHOST =
    "C12|frequent_items|all-counters-purged-sketch-treated-as-empty|merge-or-serialize-source-with-0-active-items-and-total>0";

const uint64_t WEIGHT_LIMIT = 1ull << 50;  // totals stay exactly representable in double and far from integer overflow
const int NSLOTS = 4;

// ---------------------------------------------------------------- keys
// MurmurHash3 finaliser (the map's slot is fmix64(std::hash(key)) & mask) and its inverse: used ONLY to aim generated
// keys at a narrow window of slots around the end of the table (long clusters that wrap around). Soundness does not
// depend on it: every key is a valid item whatever its slot.
inline uint64_t c12_fmix(uint64_t k) {
  k ^= k >> 33; k *= 0xff51afd7ed558ccdull; k ^= k >> 33; k *= 0xc4ceb9fe1a85ec53ull; k ^= k >> 33; return k;
}
inline uint64_t inv_odd(uint64_t a) { uint64_t x = a; for (int i = 0; i < 6; ++i) x *= 2 - a * x; return x; }
inline uint64_t c12_unfmix(uint64_t k) {
  static const uint64_t i1 = inv_odd(0xff51afd7ed558ccdull), i2 = inv_odd(0xc4ceb9fe1a85ec53ull);
  k ^= k >> 33; k *= i2; k ^= k >> 33; k *= i1; k ^= k >> 33; return k;
}

struct KeyCfg { int mode; int clg; int win; };  // mode 0 plain, 1 scattered/long, 2 clustered around the table end

inline bool in_window(uint64_t hash, const KeyCfg& kc) {
  uint64_t M = 1ull << kc.clg, a = static_cast<uint64_t>(kc.win) / 2;
  return (((hash & (M - 1)) + a) & (M - 1)) < static_cast<uint64_t>(kc.win);
}

template <typename T> struct MakeKey;
template <> struct MakeKey<int64_t> {
  static int64_t make(uint64_t id, const KeyCfg& kc) {
    if (kc.mode == 0) return static_cast<int64_t>(id) - 3;               // includes negative values and 0
    if (kc.mode == 1) return static_cast<int64_t>(vf::mix64(id));        // bijective
    uint64_t M = 1ull << kc.clg, a = static_cast<uint64_t>(kc.win) / 2;
    uint64_t slot = (M - a + vf::mix64(id ^ 0xc12) % static_cast<uint64_t>(kc.win)) & (M - 1);
    return static_cast<int64_t>(c12_unfmix(slot | (id << kc.clg)));     // distinct ids -> distinct keys (id < 2^40)
  }
};
template <> struct MakeKey<std::string> {
  static std::string pad(uint64_t id, size_t n) {
    std::string s; uint64_t r = id;
    for (size_t i = 0; i < n; ++i) { r = vf::mix64(r); s.push_back(static_cast<char>('a' + r % 26)); }
    return s;
  }
  static std::string make(uint64_t id, const KeyCfg& kc) {
    if (kc.mode == 0) { if (id == 7) return std::string(); return "i" + std::to_string(id) + pad(id, (id * 7) % 13); }
    if (kc.mode == 1) return std::to_string(id) + "_" + pad(id, 16 + id % 45);   // beyond the small-string buffer
    std::hash<std::string> h;
    for (uint64_t n = 0;; ++n) {
      std::string s = "c" + std::to_string(id) + "_" + std::to_string(n);
      if (in_window(c12_fmix(h(s)), kc) || n > 20000) return s;
    }
  }
};

template <typename T> struct Keys {
  KeyCfg kc;
  std::map<uint64_t, T> fwd;
  std::map<T, uint64_t> rev;
  const T& get(uint64_t id) {
    auto it = fwd.find(id);
    if (it != fwd.end()) return it->second;
    T v = MakeKey<T>::make(id, kc);
    auto r = rev.emplace(v, id);
    if (!r.second) throw std::logic_error("harness bug: key collision between ids");
    return fwd.emplace(id, std::move(v)).first->second;
  }
};

template <typename W> std::string wstr(W w) { std::ostringstream o; o.precision(17); o << w; return o.str(); }

// ---------------------------------------------------------------- the run
template <typename T, typename W>
struct Run {
  using Sk = frequent_items_sketch<T, W>;
  struct Slot {
    std::unique_ptr<Sk> sk;
    int lg_max = 3, lg_start = 3;
    std::map<uint64_t, uint64_t> truth;  // exact counter per item id (only ids with weight > 0)
    uint64_t total = 0;
    int min_lg = 3;  // smallest lg_max among this sketch and every sketch with non-zero error merged into it
  };
  Keys<T> keys;
  Slot slots[NSLOTS];
  uint64_t fresh = 1u << 16;
  uint64_t opseed = 0;
  // observations for labels
  int purges = 0, merges = 0, merge_purges = 0, merges_of_purged = 0, merges_diff = 0, roundtrips = 0, roundtrips_purged = 0,
      ghosts = 0, zero_w = 0, neg_refused = 0, thr_below = 0, nfn_excused = 0, eps_checked = 0, eps_weakened = 0, grown = 0,
      capped = 0, nfp_nonempty = 0, untracked_true = 0, self_merges = 0;
  uint64_t fi_queries = 0;

  // weight scale of the case: every weight is (integer units) * wmul. 2^33 puts single weights and counters above 2^32; 0.25 (double
  // weights only) makes them fractional; all arithmetic stays exact (totals <= 2^61 resp. multiples of 1/4 below 2^53)
  W wmul = 1;
  uint64_t unit_limit = WEIGHT_LIMIT;
  W toW(uint64_t v) const { return static_cast<W>(v) * wmul; }
  uint64_t units(W w) const { return static_cast<uint64_t>(w / wmul); }

  void make_slot(int si, int lg_max, int lg_start) {
    Slot& s = slots[si];
    s.lg_max = lg_max; s.lg_start = std::min(lg_start, lg_max);
    s.sk.reset(new Sk(static_cast<uint8_t>(s.lg_max), static_cast<uint8_t>(s.lg_start)));
    s.truth.clear(); s.total = 0; s.min_lg = lg_max;
    if (s.lg_start < s.lg_max) grown++;
  }
  uint64_t truth_of(const Slot& s, uint64_t id) const { auto it = s.truth.find(id); return it == s.truth.end() ? 0 : it->second; }

  // ------------------------------------------------------------ updates
  void update(int si, uint64_t id, uint64_t w, bool rvalue) {
    Slot& s = slots[si];
    if (s.total + w > unit_limit) { capped++; return; }
    const T& item = keys.get(id);
    W before = s.sk->get_maximum_error();
    if (rvalue) { T tmp(item); s.sk->update(std::move(tmp), toW(w)); }
    else s.sk->update(item, toW(w));
    if (w) { s.truth[id] += w; s.total += w; } else zero_w++;
    if (s.sk->get_maximum_error() > before) purges++;
  }

  void bulk(int si, int pat, uint64_t n, uint64_t seed) {
    vf::Rng r(seed);
    Slot& s = slots[si];
    uint64_t cap = 3 * (1ull << s.lg_max) / 4;
    static const uint64_t ranges[] = {6, 24, 120, 1000};
    uint64_t base = r.below(4) * 37;
    uint64_t range = r.below(5) == 0 ? 3 * cap : ranges[r.below(4)];
    switch (pat % 10) {
      case 0:  // skewed (Zipf-like)
        for (uint64_t i = 0; i < n; ++i) { double u = r.unit(); update(si, base + static_cast<uint64_t>(range * u * u * u), 1 + r.below(3), i & 1); }
        break;
      case 1:  // uniform
        for (uint64_t i = 0; i < n; ++i) update(si, base + r.below(range), 1 + r.below(5), false);
        break;
      case 2:  // ascending weights
        for (uint64_t i = 0; i < n; ++i) update(si, base + i % range, i + 1, false);
        break;
      case 3:  // descending weights
        for (uint64_t i = 0; i < n; ++i) update(si, base + i % range, n - i, true);
        break;
      case 4: {  // long run of singletons of one weight
        uint64_t w = 1 + (r.below(3) == 0 ? r.below(4) : 0);
        for (uint64_t i = 0; i < n; ++i) update(si, fresh++, w, false);
        break;
      }
      case 5: {  // singletons, then a heavy hitter arriving late
        for (uint64_t i = 0; i < n; ++i) update(si, fresh++, 1, false);
        uint64_t id = base + r.below(8), m = 1 + r.below(20), w = 1 + r.below(1000);
        for (uint64_t i = 0; i < m; ++i) update(si, id, w, false);
        break;
      }
      case 6:  // zero weights mixed in (also on never-seen items)
        for (uint64_t i = 0; i < n; ++i) update(si, r.below(4) == 0 ? fresh++ : base + r.below(range), r.below(3) == 0 ? 0 : 1 + r.below(4), i & 1);
        break;
      case 7: {  // round robin over slightly more items than the capacity, equal weights (every purge hits ties)
        uint64_t k = cap + 1 + r.below(3), w = 1 + r.below(3);
        for (uint64_t i = 0; i < n; ++i) update(si, base + i % k, w, false);
        break;
      }
      case 8: {  // adversarial order: one item gets a unit between floods of singletons
        uint64_t x = base + r.below(8);
        for (uint64_t i = 0; i < n;) {
          update(si, x, 1 + r.below(2), false); ++i;
          for (uint64_t j = 0; j < cap && i < n; ++j, ++i) update(si, fresh++, 1, false);
        }
        break;
      }
      default: {  // plateau: k items at the same weight v, the rest lighter -> ties at the purge median
        uint64_t k = 1 + r.below(cap + 2), v = 2 + r.below(5);
        for (uint64_t i = 0; i < k && i < n; ++i) update(si, base + i, v, false);
        for (uint64_t i = k; i < n; ++i) update(si, r.below(2) ? fresh++ : base + 200 + r.below(range), 1 + r.below(v), false);
      }
    }
  }

  // ------------------------------------------------------------ oracle: bounds for every item of the universe
  void check_slot(int si, const char* after) {
    Slot& s = slots[si];
    const Sk& sk = *s.sk;
    const W tot = sk.get_total_weight();
    VF_CHECK(tot == toW(s.total), "total-weight", "after " << after << ": slot " << si << " total weight " << wstr(tot) << " exact sum " << s.total);
    const W me = sk.get_maximum_error();
    VF_CHECK(me >= 0, "max-error-sign", "after " << after << ": max error " << wstr(me));
    const uint32_t active = sk.get_num_active_items();
    VF_CHECK(active <= 3 * (1u << s.lg_max) / 4, "active-le-capacity",
             "after " << after << ": " << active << " active items > 0.75*2^" << s.lg_max);
    VF_CHECK(sk.get_epsilon() == 3.5 / (1u << s.lg_max) && Sk::get_epsilon(static_cast<uint8_t>(s.lg_max)) == sk.get_epsilon(), "epsilon-value",
             "epsilon " << sk.get_epsilon() << " lg_max " << s.lg_max);
    uint32_t tracked = 0;
    for (const auto& kv : keys.fwd) {
      const T& item = kv.second;
      const W lb = sk.get_lower_bound(item), ub = sk.get_upper_bound(item), est = sk.get_estimate(item);
      const W tr = toW(truth_of(s, kv.first));
      VF_CHECK(lb <= tr, "lb-le-true", "after " << after << ": slot " << si << " item id " << kv.first << " lower bound " << wstr(lb) << " > true " << wstr(tr));
      VF_CHECK(tr <= ub, "true-le-ub", "after " << after << ": slot " << si << " item id " << kv.first << " true " << wstr(tr) << " > upper bound " << wstr(ub)
               << " (lb " << wstr(lb) << ", max error " << wstr(me) << ")");
      VF_CHECK(lb <= est && est <= ub, "est-between", "after " << after << ": item id " << kv.first << " lb " << wstr(lb) << " est " << wstr(est) << " ub " << wstr(ub));
      VF_CHECK(ub - lb == me, "ub-minus-lb", "after " << after << ": item id " << kv.first << " ub-lb " << wstr(ub - lb) << " != max error " << wstr(me));
      if (lb > 0) tracked++; else if (tr > 0) untracked_true++;
    }
    // nothing extra: every active item is an item of the universe (rows are checked against the model in check_fi)
    VF_CHECK(tracked == active, "active-count", "after " << after << ": slot " << si << " get_num_active_items " << active << " but " << tracked
             << " universe items have a counter");
    // published a-priori error: only for maps no larger than the purge sample (exact median), and with the epsilon of the
    // smallest map that contributed error (merging a coarser sketch in cannot be undone by any algorithm)
    if (s.lg_max <= 10 && s.min_lg <= 10) {
      int lg = std::min(s.min_lg, s.lg_max);
      // me <= 3.5 / 2^lg * total  <=>  me * 2^(lg+1) <= 7 * total   (exact integer arithmetic)
      unsigned __int128 lhs = static_cast<unsigned __int128>(units(me)) << (lg + 1);
      unsigned __int128 rhs = static_cast<unsigned __int128>(7) * s.total;
      VF_CHECK(lhs <= rhs, "epsilon-bound", "after " << after << ": slot " << si << " max error " << wstr(me) << " > epsilon(lg " << lg << ") * total " << s.total);
      if (lg == s.lg_max) {
        VF_CHECK(static_cast<double>(me) <= sk.get_epsilon() * static_cast<double>(tot) * (1 + 1e-12), "epsilon-bound-published",
                 "max error " << wstr(me) << " > get_epsilon()*total = " << sk.get_epsilon() * static_cast<double>(tot));
        VF_CHECK(static_cast<double>(me) <= Sk::get_apriori_error(static_cast<uint8_t>(s.lg_max), tot) * (1 + 1e-12), "apriori-error",
                 "max error " << wstr(me) << " > get_apriori_error " << Sk::get_apriori_error(static_cast<uint8_t>(s.lg_max), tot));
        if (me > 0) eps_checked++;
      } else if (me > 0) eps_weakened++;
    }
  }

  // ------------------------------------------------------------ oracle: get_frequent_items, both directions
  // counters of every universe item, taken once per state (ub = lb + max error is verified per item in check_slot)
  struct Snap { std::vector<uint64_t> id; std::vector<W> lb, tr; };
  Snap snapshot(int si) {
    Slot& s = slots[si];
    Snap sn;
    sn.id.reserve(keys.fwd.size()); sn.lb.reserve(keys.fwd.size()); sn.tr.reserve(keys.fwd.size());
    for (const auto& kv : keys.fwd) { sn.id.push_back(kv.first); sn.lb.push_back(s.sk->get_lower_bound(kv.second)); sn.tr.push_back(toW(truth_of(s, kv.first))); }
    return sn;
  }

  void check_fi(int si, W thr, const Snap& sn) {
    Slot& s = slots[si];
    const Sk& sk = *s.sk;
    const W me = sk.get_maximum_error();
    if (thr < me) thr_below++;
    for (int e = 0; e < 2; ++e) {
      const frequent_items_error_type et = e == 0 ? NO_FALSE_NEGATIVES : NO_FALSE_POSITIVES;
      const char* en = e == 0 ? "NO_FALSE_NEGATIVES" : "NO_FALSE_POSITIVES";
      auto rows = sk.get_frequent_items(et, thr);
      fi_queries++;
      std::set<uint64_t> got;
      W prev = 0;
      for (size_t i = 0; i < rows.size(); ++i) {
        const T& item = rows[i].get_item();
        auto it = keys.rev.find(item);
        VF_CHECK(it != keys.rev.end(), "fi-phantom-item", en << " row " << i << " holds an item that was never fed to any sketch");
        const uint64_t id = it->second;
        VF_CHECK(got.insert(id).second, "fi-duplicate-row", en << " returns item id " << id << " twice");
        const W est = rows[i].get_estimate(), lb = rows[i].get_lower_bound(), ub = rows[i].get_upper_bound();
        VF_CHECK(lb == sk.get_lower_bound(item) && ub == sk.get_upper_bound(item) && est == sk.get_estimate(item), "fi-row-consistent",
                 en << " row of item id " << id << " lb/est/ub " << wstr(lb) << "/" << wstr(est) << "/" << wstr(ub) << " differ from the getters "
                    << wstr(sk.get_lower_bound(item)) << "/" << wstr(sk.get_estimate(item)) << "/" << wstr(sk.get_upper_bound(item)));
        VF_CHECK(i == 0 || est <= prev, "fi-order", en << " rows not in descending estimate order at row " << i << ": " << wstr(prev) << " then " << wstr(est));
        prev = est;
        const W tr = toW(truth_of(s, id));
        if (et == NO_FALSE_POSITIVES) {
          VF_CHECK(tr > thr, "fi-false-positive", "NO_FALSE_POSITIVES threshold " << wstr(thr) << " returns item id " << id << " with true weight " << wstr(tr));
          VF_CHECK(lb > thr, "fi-nfp-rule", "NO_FALSE_POSITIVES returns item id " << id << " with lb " << wstr(lb) << " <= threshold " << wstr(thr));
        } else {
          VF_CHECK(ub > thr, "fi-nfn-rule", "NO_FALSE_NEGATIVES returns item id " << id << " with ub " << wstr(ub) << " <= threshold " << wstr(thr));
        }
      }
      if (et == NO_FALSE_POSITIVES && !rows.empty()) nfp_nonempty++;
      // completeness over the whole universe
      for (size_t k = 0; k < sn.id.size(); ++k) {
        if (got.count(sn.id[k])) continue;
        const W lb = sn.lb[k], ub = lb + me, tr = sn.tr[k];
        if (et == NO_FALSE_NEGATIVES) {
          if (tr > thr) {
            // The guarantee exists for thresholds >= max error (the default threshold; the Java original clamps to it): an item
            // the sketch holds no counter for can weigh up to max error and no summary of this size can list it.
            VF_CHECK(thr < me, "fi-false-negative", "NO_FALSE_NEGATIVES threshold " << wstr(thr) << " (max error " << wstr(me) << ") misses item id " << sn.id[k]
                     << " with true weight " << wstr(tr) << " lb " << wstr(lb) << " ub " << wstr(ub));
            VF_CHECK(lb == 0, "fi-false-negative-tracked", "NO_FALSE_NEGATIVES threshold " << wstr(thr) << " misses TRACKED item id " << sn.id[k]
                     << " with true weight " << wstr(tr) << " lb " << wstr(lb));
            nfn_excused++;
          }
          VF_CHECK(!(lb > 0 && ub > thr), "fi-nfn-rule-missing", "NO_FALSE_NEGATIVES threshold " << wstr(thr) << " misses tracked item id " << sn.id[k] << " with ub " << wstr(ub));
        } else {
          VF_CHECK(!(lb > thr), "fi-nfp-rule-missing", "NO_FALSE_POSITIVES threshold " << wstr(thr) << " misses item id " << sn.id[k] << " with lb " << wstr(lb));
        }
      }
    }
  }

  void check_fi_default(int si) {  // the overloads without threshold use get_maximum_error()
    const Sk& sk = *slots[si].sk;
    for (int e = 0; e < 2; ++e) {
      const frequent_items_error_type et = e == 0 ? NO_FALSE_NEGATIVES : NO_FALSE_POSITIVES;
      auto a = sk.get_frequent_items(et);
      auto b = sk.get_frequent_items(et, sk.get_maximum_error());
      VF_CHECK(a.size() == b.size(), "fi-default-threshold", "default-threshold result has " << a.size() << " rows, explicit max error " << b.size());
      std::multiset<T> x, y;
      for (const auto& r : a) x.insert(r.get_item());
      for (const auto& r : b) y.insert(r.get_item());
      VF_CHECK(x == y, "fi-default-threshold", "default-threshold result differs from threshold = get_maximum_error()");
    }
    // all counters: threshold 0 with NO_FALSE_NEGATIVES lists every active item exactly once
    auto all = sk.get_frequent_items(NO_FALSE_NEGATIVES, 0);
    VF_CHECK(all.size() == sk.get_num_active_items(), "fi-all-active", "threshold 0 lists " << all.size() << " rows, active items " << sk.get_num_active_items());
  }

  void check_fi_set(int si, uint64_t seed) {
    Slot& s = slots[si];
    const Sk& sk = *s.sk;
    vf::Rng r(seed);
    const uint64_t me = units(sk.get_maximum_error());   // thresholds are chosen in weight units and scaled by toW
    std::vector<uint64_t> t = {0, me, me + 1};
    if (me > 0) t.push_back(me - 1);
    if (!s.truth.empty()) {
      for (int k = 0; k < 2; ++k) {
        auto it = s.truth.begin();
        std::advance(it, static_cast<long>(r.below(s.truth.size())));
        uint64_t tr = it->second;
        uint64_t lb = units(sk.get_lower_bound(keys.get(it->first)));
        uint64_t c[] = {tr, tr - 1, lb, lb ? lb - 1 : 0, lb + me};
        t.push_back(c[r.below(5)]);
      }
    }
    std::sort(t.begin(), t.end());
    t.erase(std::unique(t.begin(), t.end()), t.end());
    check_fi_default(si);
    const Snap sn = snapshot(si);
    for (uint64_t v : t) {
      check_fi(si, toW(v), sn);
      if (std::is_floating_point<W>::value && (r.below(4) == 0)) check_fi(si, toW(v) + wmul / 2, sn);
    }
  }

  void check_all(int si, const char* after) {
    check_slot(si, after);
    check_fi_set(si, vf::mix64(opseed ^ (static_cast<uint64_t>(si) << 32)));
  }

  // ------------------------------------------------------------ merge / round-trip / copies
  void merge(int d, int sidx, int mode) {
    Slot& D = slots[d];
    Slot& S = slots[sidx];
    if (D.total + S.total > unit_limit) { capped++; return; }
    std::unique_ptr<Sk> tmp;
    Sk* src = S.sk.get();
    const bool own = (d != sidx && mode != 2);
    // a sketch merged with ITSELF through the const& overload (doubles the stream: every existing key is adjusted in place, nothing is
    // inserted, so the map is not restructured while it is iterated); the rvalue overload and mode 2 use a copy
    const bool self = (d == sidx && mode == 0);
    if (self) self_merges++;
    if (!own && !self) { tmp.reset(new Sk(*S.sk)); src = tmp.get(); }
    const bool ghost = src->get_num_active_items() == 0 && S.total > 0;
    if (ghost) ghosts++;
    const W dme = D.sk->get_maximum_error(), sme = src->get_maximum_error();
    const std::map<uint64_t, uint64_t> struth = S.truth;
    const uint64_t stotal = S.total;
    const int smin = S.min_lg, slg = S.lg_max;
    if (mode == 1) D.sk->merge(std::move(*src)); else D.sk->merge(*src);
    for (const auto& kv : struth) D.truth[kv.first] += kv.second;
    D.total += stotal;
    if (sme > 0) { D.min_lg = std::min(D.min_lg, smin); merges_of_purged++; }
    if (stotal > 0) { merges++; if (slg != D.lg_max) merges_diff++; }
    if (D.sk->get_maximum_error() > dme + sme) { merge_purges++; purges++; }
    if (ghost) {
      VF_CHECK_K(D.sk->get_total_weight() == toW(D.total) && D.sk->get_maximum_error() >= dme + sme, "merge-of-all-purged-sketch", KEY_GHOST,
                 "merging a sketch with 0 active items but total weight " << stotal << " and max error " << wstr(sme) << " is skipped: destination total "
                     << wstr(D.sk->get_total_weight()) << " exact " << D.total << ", max error " << wstr(D.sk->get_maximum_error()) << " (was " << wstr(dme) << ")");
    }
    if (own && mode == 1) make_slot(sidx, S.lg_max, S.lg_start);  // moved-from: replace by a fresh sketch of the same configuration
    else if (own) check_slot(sidx, "merge (source of const& merge must be unchanged)");
  }

  void roundtrip(int si, int mode, unsigned hdr) {
    Slot& s = slots[si];
    const Sk& sk = *s.sk;
    const bool ghost = sk.get_num_active_items() == 0 && s.total > 0;
    if (ghost) ghosts++;
    std::unique_ptr<Sk> d;
    if (mode == 1) {
      std::stringstream ss(std::ios::in | std::ios::out | std::ios::binary);
      sk.serialize(ss);
      d.reset(new Sk(Sk::deserialize(ss)));
    } else {
      unsigned h = mode == 2 ? hdr : 0;
      auto bytes = sk.serialize(h);
      VF_CHECK(bytes.size() >= h + 8, "serialize-size", "image of " << bytes.size() << " bytes with header " << h);
      d.reset(new Sk(Sk::deserialize(bytes.data() + h, bytes.size() - h)));
    }
    if (ghost) {
      VF_CHECK_K(d->get_total_weight() == sk.get_total_weight() && d->get_maximum_error() == sk.get_maximum_error(), "roundtrip-of-all-purged-sketch", KEY_GHOST,
                 "round-trip of a sketch with 0 active items: total weight " << wstr(sk.get_total_weight()) << " -> " << wstr(d->get_total_weight())
                     << ", max error " << wstr(sk.get_maximum_error()) << " -> " << wstr(d->get_maximum_error()));
    }
    VF_CHECK(d->get_total_weight() == sk.get_total_weight(), "roundtrip-total", "total weight " << wstr(sk.get_total_weight()) << " -> " << wstr(d->get_total_weight()));
    VF_CHECK(d->get_maximum_error() == sk.get_maximum_error(), "roundtrip-max-error", "max error " << wstr(sk.get_maximum_error()) << " -> " << wstr(d->get_maximum_error()));
    VF_CHECK(d->get_num_active_items() == sk.get_num_active_items(), "roundtrip-active", "active items " << sk.get_num_active_items() << " -> " << d->get_num_active_items());
    VF_CHECK(d->get_epsilon() == sk.get_epsilon(), "roundtrip-epsilon", "epsilon (lg_max) changed in the round-trip");
    for (const auto& kv : keys.fwd)
      VF_CHECK(d->get_lower_bound(kv.second) == sk.get_lower_bound(kv.second), "roundtrip-counter", "item id " << kv.first << " counter " << wstr(sk.get_lower_bound(kv.second))
               << " -> " << wstr(d->get_lower_bound(kv.second)));
    if (s.total > 0) { roundtrips++; if (sk.get_maximum_error() > 0) roundtrips_purged++; }
    s.sk = std::move(d);   // the history continues on the deserialized sketch
  }

  void dup(int d, int sidx, int mode) {
    if (d == sidx) return;
    Slot& D = slots[d];
    const Slot& S = slots[sidx];
    if (mode == 0) D.sk.reset(new Sk(*S.sk));
    else if (mode == 1) *D.sk = *S.sk;
    else { Sk t(*S.sk); *D.sk = std::move(t); }
    D.lg_max = S.lg_max; D.lg_start = S.lg_start; D.truth = S.truth; D.total = S.total; D.min_lg = S.min_lg;
  }

  // ------------------------------------------------------------ driver
  void run(const Case& cs, bool large) {
    const int ws = static_cast<int>(static_cast<uint64_t>(cs.get("wscale", 0)) % 4);
    if (ws == 1) { wmul = static_cast<W>(1ull << 33); unit_limit = 1ull << 28; vf::label("weights-above-2^32"); }
    else if (ws == 2 && std::is_floating_point<W>::value) { wmul = static_cast<W>(0.25); vf::label("weights-fractional"); }
    for (int i = 0; i < NSLOTS; ++i) {
      int lg = static_cast<int>(cs.get("lg" + std::to_string(i), 3));
      lg = std::max(3, std::min(large ? 12 : 10, lg));
      if (keys.kc.mode == 2) lg = std::min(lg, keys.kc.clg);
      int st = static_cast<int>(cs.get("st" + std::to_string(i), 3));
      make_slot(i, lg, std::max(0, std::min(st, lg)));
    }
    for (uint64_t p = 0; p < 3; ++p) keys.get(0xdead0000ull + p);  // never-fed probes
    for (int i = 0; i < NSLOTS; ++i) check_all(i, "construction");
    size_t opi = 0;
    for (const Op& op : cs.ops) {
      ++opi;
      opseed = vf::mix64(opi * 0x9e37ull + op.uarg(0) + 31 * op.uarg(1) + 131 * op.uarg(2) + 977 * op.uarg(3));
      const int si = static_cast<int>(op.uarg(0) % NSLOTS);
      int other = -1;
      if (op.name == "upd") {
        Slot& s = slots[si];
        uint64_t idsel = op.uarg(1), wsel = op.uarg(2);
        uint64_t id = (idsel & 1) ? (idsel >> 1) % 64 : ((idsel >> 1) % 3 == 0 ? fresh++ : (idsel >> 1) % 400);
        uint64_t me = units(s.sk->get_maximum_error());
        uint64_t w;
        switch (wsel % 8) {
          case 0: w = 0; break;
          case 1: case 2: w = 1; break;
          case 3: w = 1 + (wsel >> 3) % 10; break;
          case 4: w = 1 + (wsel >> 3) % 1000; break;
          case 5: w = 1 + vf::mix64(wsel) % (1ull << 32); break;
          case 6: w = me; break;           // lands exactly on the error boundary
          default: w = me + 1;
        }
        update(si, id, w, op.arg(3) & 1);
      } else if (op.name == "bulk") {
        uint64_t n = op.uarg(2) % (large ? 9000 : 4000);
        bulk(si, static_cast<int>(op.uarg(1) % 10), n, op.uarg(3));
      } else if (op.name == "neg") {
        if (std::is_signed<W>::value) {
          Slot& s = slots[si];
          const T& item = keys.get(op.uarg(1) % 64);
          bool refused = false;
          try { s.sk->update(item, static_cast<W>(-static_cast<int64_t>(1 + op.uarg(2) % 1000))); }
          catch (const std::invalid_argument&) { refused = true; }
          VF_CHECK(refused, "negative-weight-refused", "update with a negative weight did not throw std::invalid_argument");
          neg_refused++;
        }
      } else if (op.name == "merge") {
        other = static_cast<int>(op.uarg(1) % NSLOTS);
        merge(si, other, static_cast<int>(op.uarg(2) % 3));
      } else if (op.name == "ser") {
        roundtrip(si, static_cast<int>(op.uarg(1) % 3), 1 + static_cast<unsigned>(op.uarg(2) % 40));
      } else if (op.name == "dup") {
        other = static_cast<int>(op.uarg(1) % NSLOTS);
        dup(si, other, static_cast<int>(op.uarg(2) % 3));
      } else if (op.name == "fi") {
        uint64_t raw = op.uarg(1);
        uint64_t thr = (raw & 1) ? (raw >> 1) % 50 : (raw >> 1) % (slots[si].total + 2);
        check_fi(si, toW(thr), snapshot(si));
      } else if (op.name == "reset") {
        int lg = static_cast<int>(3 + op.uarg(1) % (large ? 10 : 8));
        if (keys.kc.mode == 2) lg = std::min(lg, keys.kc.clg);
        make_slot(si, lg, static_cast<int>(op.uarg(2) % 11));
      } else continue;
      check_all(si, op.name.c_str());
      if (other >= 0 && other != si) check_slot(other, op.name.c_str());
    }
    for (int i = 0; i < NSLOTS; ++i) check_all(i, "end");
  }
};

template <typename T, typename W>
void run_typed(const Case& cs, bool large) {
  Run<T, W> r;
  int mode = static_cast<int>(cs.get("keymode", 0) % 3); if (mode < 0) mode = 0;
  int clg = 3;
  for (int i = 0; i < NSLOTS; ++i) clg = std::max<int>(clg, static_cast<int>(std::max<int64_t>(3, std::min<int64_t>(10, cs.get("lg" + std::to_string(i), 3)))));
  int win = static_cast<int>(std::max<int64_t>(1, std::min<int64_t>(cs.get("cwin", 6), (1ll << clg) / 2)));
  if (std::is_same<T, std::string>::value) clg = std::min(clg, 7);  // aimed string keys are found by search: keep the window dense
  win = std::min(win, (1 << clg) / 2);
  if (large && mode == 2) mode = 1;  // DRIFT_LIMIT (1024 probes, "theoretical analysis only") is reachable by aimed keys in maps > 2^10: out of scope
  r.keys.kc = KeyCfg{mode, clg, win};
  r.run(cs, large);
  // labels
  vf::label(std::is_same<T, std::string>::value ? "items=string" : "items=int64");
  vf::label(std::is_same<W, uint64_t>::value ? "W=uint64" : std::is_same<W, int64_t>::value ? "W=int64" : "W=double");
  vf::label(mode == 0 ? "keys=plain" : mode == 1 ? "keys=scattered" : "keys=clustered");
  if (r.purges) vf::label("purge");
  if (r.purges >= 5) vf::label("purges>=5");
  if (r.merges) vf::label("merge");
  if (r.merge_purges) vf::label("purge-during-merge");
  if (r.self_merges) vf::label("self-merge");
  if (r.merges_of_purged) vf::label("merge-of-purged-source");
  if (r.merges_diff) vf::label("merge-different-sizes");
  if (r.roundtrips) vf::label("roundtrip");
  if (r.roundtrips_purged) vf::label("roundtrip-after-purge");
  if (r.ghosts) vf::label("all-purged-source");
  if (r.zero_w) vf::label("zero-weights");
  if (r.neg_refused) vf::label("negative-refused");
  if (r.thr_below) vf::label("threshold<max-error");
  if (r.nfn_excused) vf::label("nfn-untracked-below-max-error");
  if (r.eps_checked) vf::label("epsilon-bound-with-error>0");
  if (r.eps_weakened) vf::label("epsilon-of-coarser-merged-sketch");
  if (r.grown) vf::label("start<max");
  if (r.capped) vf::label("weight-cap-hit");
  if (r.nfp_nonempty) vf::label("nfp-nonempty");
  if (r.untracked_true) vf::label("untracked-item-with-weight");
  bool big = false;
  for (int i = 0; i < NSLOTS; ++i) if (r.slots[i].lg_max > 10) big = true;
  if (big) vf::label("lg_max>10");
  vf::count("fi-queries", r.fi_queries);
  if (r.purges && r.merges) vf::nontrivial();
}

void dispatch(const Case& cs, bool large) {
  int tt = static_cast<int>(cs.get("ttype", 0) & 1), wt = static_cast<int>(((cs.get("wtype", 0) % 3) + 3) % 3);
  if (tt == 0) {
    if (wt == 0) run_typed<int64_t, uint64_t>(cs, large);
    else if (wt == 1) run_typed<int64_t, int64_t>(cs, large);
    else run_typed<int64_t, double>(cs, large);
  } else {
    if (wt == 0) run_typed<std::string, uint64_t>(cs, large);
    else if (wt == 1) run_typed<std::string, int64_t>(cs, large);
    else run_typed<std::string, double>(cs, large);
  }
}
void prop_main(const Case& cs) { dispatch(cs, false); }
void prop_large(const Case& cs) { dispatch(cs, true); }

// ---------------------------------------------------------------- generators
rc::Gen<int64_t> slot_gen() { return vf::pick({0, 0, 0, 1, 1, 1, 2, 3}); }

rc::Gen<Case> gen_main() {
  using namespace vf;
  auto opg = choose({
      {5, op4("upd", slot_gen(), range(0, 1 << 12), range(0, 1 << 16), range(0, 1))},
      {4, op4("bulk", slot_gen(), range(0, 9), rc::gen::withSize([](int s) { return range(0, 20 + 30 * s); }), range(0, 1 << 30))},
      {3, op4("bulk", slot_gen(), range(0, 9), range(0, 60), range(0, 1 << 30))},
      {5, op3("merge", slot_gen(), slot_gen(), range(0, 2))},
      {2, op3("ser", slot_gen(), range(0, 2), range(0, 39))},
      {1, op3("dup", slot_gen(), slot_gen(), range(0, 2))},
      {1, op2("fi", slot_gen(), range(0, 1 << 20))},
      {1, op3("neg", slot_gen(), range(0, 63), range(0, 999))},
      {1, rc::gen::map(rc::gen::tuple(slot_gen(), range(0, 7), range(0, 10)), [](std::tuple<int64_t, int64_t, int64_t> t) {
         return Op{"reset", {std::get<0>(t), std::get<1>(t), std::get<2>(t)}}; })},
  });
  auto lg = []() { return rc::gen::weightedOneOf<int64_t>({{6, vf::range(3, 4)}, {3, vf::range(5, 6)}, {1, vf::range(7, 10)}}); };
  return make_case({{"ttype", range(0, 1)}, {"wtype", range(0, 2)}, {"keymode", pick({0, 0, 1, 2, 2})}, {"cwin", pick({2, 6, 16})},
                    {"lg0", lg()}, {"lg1", lg()}, {"lg2", lg()}, {"lg3", lg()},
                    {"st0", range(0, 10)}, {"st1", range(0, 10)}, {"st2", range(0, 10)}, {"st3", range(0, 10)}, {"wscale", pick({0, 0, 0, 1, 2, 3})}},
                   oplist(opg, 4, 0.5));
}

// maps larger than the purge sample (lg_max 11, 12): the median is taken over the first 1024 active cells only
rc::Gen<Case> gen_large() {
  using namespace vf;
  auto opg = choose({
      {5, op4("bulk", slot_gen(), pick({0, 1, 4, 4, 5, 7, 8, 9}), range(1500, 8999), range(0, 1 << 30))},
      {2, op4("upd", slot_gen(), range(0, 1 << 12), range(0, 1 << 16), range(0, 1))},
      {3, op3("merge", slot_gen(), slot_gen(), range(0, 2))},
      {1, op3("ser", slot_gen(), range(0, 2), range(0, 39))},
  });
  return make_case({{"ttype", range(0, 1)}, {"wtype", range(0, 2)}, {"keymode", pick({0, 1})}, {"cwin", pick({6})},
                    {"lg0", range(11, 12)}, {"lg1", range(10, 12)}, {"lg2", range(3, 12)}, {"lg3", range(3, 12)},
                    {"st0", range(0, 12)}, {"st1", range(0, 12)}, {"st2", range(0, 12)}, {"st3", range(0, 12)}},
                   oplist(opg, 3, 0.08));
}

// ---------------------------------------------------------------- user-supplied equality with state
// frequent_items_sketch takes an *instance* of the equality functor (constructor and deserialize). Items are int64 values; the instance
// handed over treats v and v ^ 1 as the same item (a default-constructed one does not), the hash functor is consistent with both. An item
// of the model is the class {2c, 2c+1}; every update uses either representative. All of C12's brackets are asserted per class.
struct PairEq {
  bool loose = false;
  PairEq() = default;
  explicit PairEq(bool l): loose(l) {}
  bool operator()(int64_t a, int64_t b) const { return loose ? (a | 1) == (b | 1) : a == b; }
};
struct PairHash { size_t operator()(int64_t v) const { return std::hash<int64_t>()(v | 1); } };

void prop_custom_equal(const Case& cs) {
  using Sk = frequent_items_sketch<int64_t, uint64_t, PairHash, PairEq>;
  const PairEq eq(true);
  const int nsk = 2;
  std::vector<Sk> sk;
  std::vector<std::map<int64_t, uint64_t>> truth(nsk);   // class -> exact total weight
  std::vector<uint64_t> total(nsk, 0);
  for (int i = 0; i < nsk; ++i) { const int lg = static_cast<int>(3 + static_cast<uint64_t>(cs.get("lg" + std::to_string(i), 3)) % 5); sk.emplace_back(static_cast<uint8_t>(lg), static_cast<uint8_t>(3), eq); }
  bool merged = false, rt = false, purged = false;
  auto check = [&](int i, const char* when) {
    const Sk& q = sk[i];
    VF_CHECK(q.get_total_weight() == total[i], "total-weight", when << ": total weight " << q.get_total_weight() << " expected " << total[i]);
    const uint64_t me = q.get_maximum_error();
    if (me > 0) purged = true;
    for (const auto& kv : truth[i]) for (int rep = 0; rep <= 1; ++rep) {
      const int64_t v = 2 * kv.first + rep;
      const uint64_t lb = q.get_lower_bound(v), ub = q.get_upper_bound(v), est = q.get_estimate(v);
      VF_CHECK(lb <= kv.second && kv.second <= ub, "true-in-bracket", when << ": item " << v << " (the same item as " << (v ^ 1) << " under the sketch's equality instance): true weight " << kv.second << " outside [" << lb << ", " << ub << "]");
      VF_CHECK(lb <= est && est <= ub && (ub - lb == me || (lb == 0 && ub == me)), "bracket-shape", when << ": item " << v << ": lb " << lb << " est " << est << " ub " << ub << " max error " << me);
    }
    // a threshold query: every class heavier than the threshold is returned once (under the sketch's equality), nothing is returned twice
    const uint64_t thr = std::max<uint64_t>(me, total[i] / 8);
    auto rows = q.get_frequent_items(NO_FALSE_NEGATIVES, thr);
    std::set<int64_t> seen;
    for (const auto& r : rows) VF_CHECK(seen.insert(r.get_item() >> 1).second, "fi-duplicate", when << ": get_frequent_items returns item " << r.get_item() << " and its equal twice");
    for (const auto& kv : truth[i]) if (kv.second > thr) VF_CHECK(seen.count(kv.first), "fi-false-negative", when << ": item class " << 2 * kv.first << " with true weight " << kv.second << " > threshold " << thr << " is missing from NO_FALSE_NEGATIVES");
  };
  for (const Op& op : cs.ops) {
    const int i = static_cast<int>(op.uarg(0) % nsk);
    if (op.name == "upd") {
      const int64_t cls = static_cast<int64_t>(op.uarg(1) % 40) - 5;
      const uint64_t w = 1 + op.uarg(2) % 50;
      sk[i].update(2 * cls + static_cast<int64_t>(op.uarg(3) & 1), w);
      truth[i][cls] += w; total[i] += w;
    } else if (op.name == "merge") {
      const int j = 1 - i;
      sk[i].merge(sk[j]);
      for (const auto& kv : truth[j]) truth[i][kv.first] += kv.second;
      total[i] += total[j]; merged = true;
    } else if (op.name == "ser") {
      if (op.uarg(1) & 1) { auto b = sk[i].serialize(); sk[i] = Sk::deserialize(b.data(), b.size(), serde<int64_t>(), eq); }
      else { std::stringstream ss(std::ios::in | std::ios::out | std::ios::binary); sk[i].serialize(ss); sk[i] = Sk::deserialize(ss, serde<int64_t>(), eq); }
      rt = true;
    } else continue;
    check(i, op.name.c_str());
  }
  for (int i = 0; i < nsk; ++i) check(i, "end");
  vf::label("equality:stateful-instance");
  if (merged) vf::label("merge");
  if (rt) vf::label("roundtrip");
  if (purged) { vf::label("purge"); vf::nontrivial(); }
}
rc::Gen<Case> gen_custom_equal() {
  using namespace vf;
  auto opg = choose({{12, op4("upd", range(0, 1), range(0, 39), range(0, 49), range(0, 1))}, {1, op1("merge", range(0, 1))}, {1, op2("ser", range(0, 1), range(0, 1))}});
  return make_case({{"lg0", range(0, 4)}, {"lg1", range(0, 4)}}, oplist(opg, 6, 1.2));
}

}  // namespace

int main(int argc, char** argv) {
  std::vector<vf::Sub> subs;
  subs.push_back({"main", gen_main, prop_main, 1.0});
  subs.push_back({"large", gen_large, prop_large, 0.04, 60});
  subs.push_back({"custom_equal", gen_custom_equal, prop_custom_equal, 0.05, 100});
  return vf::main_driver(argc, argv, "C12", "c12_frequent_items",
                         "case = item type (int64/string) x weight type (uint64/int64/double) x key placement x 4 sketch slots (lg_max, lg_start) + generated "
                         "history (updates, bulk streams of 10 shapes, merges const&/rvalue/with own copy, round-trips bytes/header/stream, copies, resets); "
                         "exact counters per slot; every bound of every universe item and get_frequent_items (both error types, several thresholds) "
                         "checked after every op; sub custom_equal = the same brackets for a sketch given a stateful equality INSTANCE (v and v^1 are one item); "
                         "non-trivial = at least one purge happened (max error grew) AND at least one merge of a non-empty source; "
                         "distinct = distinct case text",
                         subs);
}
