// vf/families.hpp — one uniform, type-erased view of every serializable family, used by C09 (round trip),
// C10 (layout / baseline corpus) and C11 (truncation / corruption).
//   Obj::observe()      canonical text of everything the public API reports (entries sorted, fixed query grids)
//   Obj::bytes/stream   the serialized image in a format variant (HLL compact/updatable, theta compressed, t-digest buffer)
//   Obj::from_bytes/... deserialization with the same configuration (seed, item type, kernel)
//   Obj::cont(op)       a further update/merge step (for deserialize-then-continue)
// A state is built from a recipe Case: cfg fam / a / b / c / d / seed + ops "u n pat seed" (update batch) and
// "m n pat seed" (merge with a second sketch of the same configuration fed n items).
#ifndef VF_FAMILIES_HPP
#define VF_FAMILIES_HPP
#include "core.hpp"
#include "items.hpp"
#include "hll_model.hpp"
#include <theta_sketch.hpp>
#include <theta_union.hpp>
#include <tuple_sketch.hpp>
#include <tuple_union.hpp>
#include <array_of_doubles_sketch.hpp>
#include <hll.hpp>
#include <cpc_sketch.hpp>
#include <cpc_union.hpp>
#include <kll_sketch.hpp>
#include <req_sketch.hpp>
#include <quantiles_sketch.hpp>
#include <frequent_items_sketch.hpp>
#include <count_min.hpp>
#include <var_opt_sketch.hpp>
#include <var_opt_union.hpp>
#include <ebpps_sketch.hpp>
#include <tdigest.hpp>
#include <bloom_filter.hpp>
#include <density_sketch.hpp>
#include "coin.hpp"
#include <sstream>
#include <memory>

namespace vf { namespace fam {

using namespace datasketches;
typedef std::vector<uint8_t> Bytes;

enum Fam { F_THETA = 0, F_TUPLE, F_AOD, F_HLL, F_CPC, F_KLL_F, F_KLL_S, F_REQ_F, F_REQ_S, F_QS_F, F_QS_S, F_FI_I, F_FI_S, F_CM,
           F_VO_I, F_VO_S, F_VOU, F_EBPPS, F_TD_D, F_TD_F, F_BLOOM, F_DENS, NFAM };
inline const char* name(int f) {
  static const char* n[] = {"theta", "tuple", "aod", "hll", "cpc", "kll_float", "kll_string", "req_float", "req_string", "quantiles_float",
                            "quantiles_string", "fi_int64", "fi_string", "count_min", "varopt_int64", "varopt_string", "varopt_union", "ebpps",
                            "tdigest_double", "tdigest_float", "bloom", "density"};
  return (f >= 0 && f < NFAM) ? n[f] : "?";
}

struct Obj {
  virtual ~Obj() {}
  virtual std::string observe() = 0;
  virtual int variants() const { return 1; }
  virtual Bytes bytes(unsigned header, int variant) = 0;
  virtual std::string stream(int variant) = 0;
  virtual std::unique_ptr<Obj> from_bytes(const uint8_t* p, size_t n) = 0;
  virtual std::unique_ptr<Obj> from_stream(std::istream& is) = 0;
  virtual void cont(const Op& op) = 0;
  virtual long advertised_size(int) { return -1; }      // get_serialized_size_bytes where the API offers it
  virtual bool image_order_unspecified(int) { return false; }  // layouts that dump a hash table in slot order
  virtual bool observe_changes_state() { return false; }       // documented side effects of getters
  virtual std::string extra_view(const Bytes&) { return std::string(); }  // wrapped read-only access over an image (theta, bloom)
  virtual bool beyond_exact() { return false; }         // state beyond exact mode (for non-triviality rules)
  virtual bool continuation_order_sensitive(int v) { return image_order_unspecified(v); }  // continuing from that image may depend on the (unspecified) entry order
  virtual std::string observe_order_free() { return observe_coarse(); }  // what must stay equal when continuing from an image whose entry order is unspecified
  virtual std::string finding_key() { return std::string(); }  // non-empty: the state is one that a listed open finding is about (keys the round-trip checks)
  virtual std::string observe_coarse() { return observe(); }  // what must stay equal when continuing is not deterministic (REQ)
};
typedef std::unique_ptr<Obj> P;

inline std::string num(double d) { char b[40]; snprintf(b, sizeof b, "%.17g", d); return b; }
template <typename V> Bytes to_bytes(const V& v) { return Bytes(v.begin(), v.end()); }

// ---------------------------------------------------------------- item streams
inline float fval(int pat, uint64_t i, uint64_t n, Rng& r) {
  switch (pat % 6) {
    case 0: return static_cast<float>(i);
    case 1: return static_cast<float>(n - i);
    case 2: return static_cast<float>(r.below(4 * n + 1)) * 0.5f;
    case 3: return 7.0f;
    case 4: return static_cast<float>(r.below(5));
    default: return static_cast<float>(r.unit() * 1000.0 - 500.0);
  }
}
// recipe key "bs": string items carry arbitrary bytes (0xFF, 0xFE, 0x80, 0x01) at the end / in the middle - legal std::string content for every serde
inline bool& binary_strings() { static bool b = false; return b; }
inline void add_binary_bytes(std::string& s, uint64_t v) {
  if (!binary_strings()) return;
  switch (v % 4) {
    case 0: s.push_back(static_cast<char>(0xFF)); break;
    case 1: s.insert(s.size() / 2, 1, static_cast<char>(0xFF)); s.push_back(static_cast<char>(0x80)); break;
    case 2: s.push_back(static_cast<char>(0x01)); s.push_back(static_cast<char>(0xFE)); break;  // no NUL: the library's to_string (parsed by c10_layout) goes through c_str()
    default: break;
  }
}
inline std::string sval(int pat, uint64_t i, uint64_t n, Rng& r) {
  uint64_t v;
  switch (pat % 4) { case 0: v = i; break; case 1: v = n - i; break; case 2: v = r.below(4 * n + 1); break; default: v = r.below(5); }
  std::string s = std::to_string(v);
  if ((v % 7) == 0) s += std::string(static_cast<size_t>(v % 40), 'x');  // some long strings (serde lengths)
  if ((v % 11) == 3) s.clear();                                           // the empty string is a legal item
  else add_binary_bytes(s, v);
  return s;
}
struct GreaterLen {  // custom stateless comparator: length, then lexicographic
  bool operator()(const std::string& a, const std::string& b) const { return a.size() != b.size() ? a.size() < b.size() : a < b; }
};

template <typename SK> std::string ser_stream(const SK& sk) { std::ostringstream os(std::ios::binary); sk.serialize(os); return os.str(); }

// ---------------------------------------------------------------- theta (compact)
struct ThetaObj : Obj {
  compact_theta_sketch sk; uint64_t seed; uint8_t lg_k;
  ThetaObj(compact_theta_sketch&& s, uint64_t seed, uint8_t lg_k) : sk(std::move(s)), seed(seed), lg_k(lg_k) {}
  template <typename S> static std::string obs(const S& s) {
    std::ostringstream o;
    o << "theta64=" << s.get_theta64() << " empty=" << s.is_empty() << " ordered=" << s.is_ordered() << " seedhash=" << s.get_seed_hash() << " n=" << s.get_num_retained()
      << " est=" << num(s.get_estimate());
    for (uint8_t d = 1; d <= 3; ++d) o << " lb" << int(d) << "=" << num(s.get_lower_bound(d)) << " ub" << int(d) << "=" << num(s.get_upper_bound(d));
    std::vector<uint64_t> e; for (auto it = s.begin(); it != s.end(); ++it) e.push_back(*it);
    if (s.is_ordered() && !std::is_sorted(e.begin(), e.end())) o << " NOT-SORTED";
    std::sort(e.begin(), e.end());
    o << " entries:"; for (auto h : e) o << ' ' << h;
    return o.str();
  }
  std::string observe() override { return obs(sk); }
  int variants() const override { return 2; }
  Bytes bytes(unsigned h, int v) override { return v == 1 ? to_bytes(sk.serialize_compressed(h)) : to_bytes(sk.serialize(h)); }
  std::string stream(int v) override { std::ostringstream os(std::ios::binary); if (v == 1) sk.serialize_compressed(os); else sk.serialize(os); return os.str(); }
  P from_bytes(const uint8_t* p, size_t n) override { return P(new ThetaObj(compact_theta_sketch::deserialize(p, n, seed), seed, lg_k)); }
  P from_stream(std::istream& is) override { return P(new ThetaObj(compact_theta_sketch::deserialize(is, seed), seed, lg_k)); }
  long advertised_size(int v) override { return static_cast<long>(sk.get_serialized_size_bytes(v == 1)); }
  void cont(const Op& op) override {  // continue = use the sketch as an operand: union with a fresh sketch
    auto o = update_theta_sketch::builder().set_lg_k(lg_k).set_seed(seed).build();
    uint64_t n = op.uarg(0) % 4000;
    for (uint64_t i = 0; i < n; ++i) o.update(static_cast<int64_t>(op.uarg(2) % 1000 + i));
    auto u = theta_union::builder().set_lg_k(lg_k).set_seed(seed).build();
    u.update(sk); u.update(o);
    sk = u.get_result((op.arg(1) & 1) != 0);
  }
  // both values of the rarely used dump_on_error argument (chosen by the content, so that a given image always takes the same path)
  std::string extra_view(const Bytes& b) override { const bool dump = (fnv1a(std::string(b.begin(), b.end())) & 1) != 0; auto w = wrapped_compact_theta_sketch::wrap(b.data(), b.size(), seed, dump); return obs(w); }
  bool beyond_exact() override { return sk.is_estimation_mode(); }
};

// ---------------------------------------------------------------- tuple<double> (compact)
struct TupleObj : Obj {
  compact_tuple_sketch<double> sk; uint64_t seed; uint8_t lg_k;
  TupleObj(compact_tuple_sketch<double>&& s, uint64_t seed, uint8_t lg_k) : sk(std::move(s)), seed(seed), lg_k(lg_k) {}
  std::string observe() override {
    std::ostringstream o;
    o << "theta64=" << sk.get_theta64() << " empty=" << sk.is_empty() << " ordered=" << sk.is_ordered() << " seedhash=" << sk.get_seed_hash() << " n=" << sk.get_num_retained() << " est=" << num(sk.get_estimate());
    for (uint8_t d = 1; d <= 3; ++d) o << " lb" << int(d) << "=" << num(sk.get_lower_bound(d)) << " ub" << int(d) << "=" << num(sk.get_upper_bound(d));
    std::vector<std::pair<uint64_t, double>> e; for (const auto& kv : sk) e.emplace_back(kv.first, kv.second);
    std::sort(e.begin(), e.end());
    o << " entries:"; for (auto& kv : e) o << ' ' << kv.first << '=' << num(kv.second);
    return o.str();
  }
  Bytes bytes(unsigned h, int) override { return to_bytes(sk.serialize(h)); }
  std::string stream(int) override { return ser_stream(sk); }
  P from_bytes(const uint8_t* p, size_t n) override { return P(new TupleObj(compact_tuple_sketch<double>::deserialize(p, n, seed), seed, lg_k)); }
  P from_stream(std::istream& is) override { return P(new TupleObj(compact_tuple_sketch<double>::deserialize(is, seed), seed, lg_k)); }
  void cont(const Op& op) override {
    auto o = update_tuple_sketch<double>::builder().set_lg_k(lg_k).set_seed(seed).build();
    uint64_t n = op.uarg(0) % 4000;
    for (uint64_t i = 0; i < n; ++i) o.update(static_cast<int64_t>(op.uarg(2) % 1000 + i), 1.5);
    auto u = tuple_union<double>::builder().set_lg_k(lg_k).set_seed(seed).build();
    u.update(sk); u.update(o);
    sk = u.get_result((op.arg(1) & 1) != 0);
  }
  bool beyond_exact() override { return sk.is_estimation_mode(); }
};

// ---------------------------------------------------------------- array of doubles (compact)
struct AodObj : Obj {
  compact_array_of_doubles_sketch sk; uint64_t seed;
  AodObj(compact_array_of_doubles_sketch&& s, uint64_t seed) : sk(std::move(s)), seed(seed) {}
  std::string observe() override {
    std::ostringstream o;
    o << "theta64=" << sk.get_theta64() << " empty=" << sk.is_empty() << " ordered=" << sk.is_ordered() << " seedhash=" << sk.get_seed_hash() << " n=" << sk.get_num_retained()
      << " nv=" << int(sk.get_num_values()) << " est=" << num(sk.get_estimate());
    std::vector<std::pair<uint64_t, std::string>> e;
    for (const auto& kv : sk) { std::string v; for (uint8_t i = 0; i < kv.second.size(); ++i) { v += num(kv.second[i]); v += ','; } e.emplace_back(kv.first, v); }
    std::sort(e.begin(), e.end());
    o << " entries:"; for (auto& kv : e) o << ' ' << kv.first << '=' << kv.second;
    return o.str();
  }
  Bytes bytes(unsigned h, int) override { return to_bytes(sk.serialize(h)); }
  std::string stream(int) override { return ser_stream(sk); }
  P from_bytes(const uint8_t* p, size_t n) override { return P(new AodObj(compact_array_of_doubles_sketch::deserialize(p, n, seed), seed)); }
  P from_stream(std::istream& is) override { return P(new AodObj(compact_array_of_doubles_sketch::deserialize(is, seed), seed)); }
  void cont(const Op&) override {}
  bool beyond_exact() override { return sk.is_estimation_mode(); }
};

// ---------------------------------------------------------------- HLL
struct HllObj : Obj {
  hll_sketch sk;
  explicit HllObj(hll_sketch&& s) : sk(std::move(s)) {}
  std::string observe() override {
    std::ostringstream o;
    o << "lg_k=" << int(sk.get_lg_config_k()) << " type=" << int(sk.get_target_type()) << " empty=" << sk.is_empty() << " est=" << num(sk.get_estimate()) << " comp=" << num(sk.get_composite_estimate());
    for (uint8_t d = 1; d <= 3; ++d) o << " lb" << int(d) << "=" << num(sk.get_lower_bound(d)) << " ub" << int(d) << "=" << num(sk.get_upper_bound(d));
    o << " csize=" << sk.get_compact_serialization_bytes() << " usize=" << sk.get_updatable_serialization_bytes();
    // logical content through an HLL_8 copy's updatable image (registers) or the compact coupon list, sorted
    auto b = sk.serialize_compact();
    int mode = b.size() >= 8 ? (b[7] & 3) : -1;
    o << " mode=" << mode;
    if (mode == 0 || mode == 1) {
      size_t off = mode == 0 ? 8 : 12; std::vector<uint32_t> c;
      for (size_t i = off; i + 4 <= b.size(); i += 4) c.push_back(ref_le32(b.data() + i));
      std::sort(c.begin(), c.end()); o << " coupons:"; for (auto x : c) o << ' ' << x;
    } else if (mode == 2) {
      hll_sketch s8(sk, HLL_8); auto u = s8.serialize_updatable();
      o << " regs-fnv=" << fnv1a(std::string(u.begin() + 40, u.end()));
    }
    return o.str();
  }
  // continuing from a compact SET image re-inserts the coupons in another order: the HIP accumulator (get_estimate and its bounds) is
  // order-sensitive by design, the composite estimate and the registers are not
  std::string observe_order_free() override {
    std::string o = observe();
    size_t a = o.find(" est="), b = o.find(" comp="), c = o.find(" lb1="), d = o.find(" csize=");
    if (a == std::string::npos || b == std::string::npos || c == std::string::npos || d == std::string::npos) return o;
    return o.substr(0, a) + o.substr(b, c - b) + o.substr(d);
  }
  int variants() const override { return 2; }
  Bytes bytes(unsigned h, int v) override {
    if (v == 1) { auto u = sk.serialize_updatable(); Bytes r(h, 0); r.insert(r.end(), u.begin(), u.end()); return r; }  // no header parameter for updatable
    return to_bytes(sk.serialize_compact(h));
  }
  std::string stream(int v) override { std::ostringstream os(std::ios::binary); if (v == 1) sk.serialize_updatable(os); else sk.serialize_compact(os); return os.str(); }
  P from_bytes(const uint8_t* p, size_t n) override { return P(new HllObj(hll_sketch::deserialize(p, n))); }
  P from_stream(std::istream& is) override { return P(new HllObj(hll_sketch::deserialize(is))); }
  long advertised_size(int v) override { return v == 1 ? sk.get_updatable_serialization_bytes() : sk.get_compact_serialization_bytes(); }
  bool continuation_order_sensitive(int v) override { auto b = sk.serialize_compact(); return v == 0 && b.size() >= 8 && (b[7] & 3) == 1; }  // only the coupon order of a compact SET image feeds the HIP accumulator
  bool image_order_unspecified(int v) override {
    auto b = sk.serialize_compact();
    if (v == 0 && b.size() >= 8 && (b[7] & 3) == 1) return true;  // compact SET mode dumps the hash set in slot order
    // HLL_4 with exceptions: the aux hash table is dumped in slot order (compact) or as it is (updatable); slot order depends on the insertion history
    return b.size() >= 40 && (b[7] & 3) == 2 && sk.get_target_type() == HLL_4 && ref_le32(b.data() + 36) > 0;
  }
  void cont(const Op& op) override {
    uint64_t n = op.uarg(0) % 5000;
    if (op.name == "m") { hll_sketch o(sk.get_lg_config_k(), sk.get_target_type()); for (uint64_t i = 0; i < n; ++i) o.update(static_cast<int64_t>(op.uarg(2) % 1000 + 7 * i)); hll_union u(sk.get_lg_config_k()); u.update(sk); u.update(o); sk = u.get_result(sk.get_target_type()); }
    else for (uint64_t i = 0; i < n; ++i) sk.update(static_cast<int64_t>(op.uarg(2) % 1000 + 3 * i));
  }
  bool beyond_exact() override { auto b = sk.serialize_compact(); return b.size() >= 8 && (b[7] & 3) == 2; }
};

// ---------------------------------------------------------------- CPC
struct CpcObj : Obj {
  cpc_sketch sk; uint64_t seed;
  CpcObj(cpc_sketch&& s, uint64_t seed) : sk(std::move(s)), seed(seed) {}
  std::string observe() override {
    std::ostringstream o;
    o << "lg_k=" << int(sk.get_lg_k()) << " empty=" << sk.is_empty() << " C=" << sk.get_num_coupons() << " est=" << num(sk.get_estimate()) << " valid=" << sk.validate();
    for (unsigned d = 1; d <= 3; ++d) o << " lb" << d << "=" << num(sk.get_lower_bound(d)) << " ub" << d << "=" << num(sk.get_upper_bound(d));
    o << " str-fnv=" << fnv1a(std::string(sk.to_string().c_str()));
    return o.str();
  }
  Bytes bytes(unsigned h, int) override { return to_bytes(sk.serialize(h)); }
  std::string stream(int) override { return ser_stream(sk); }
  P from_bytes(const uint8_t* p, size_t n) override { return P(new CpcObj(cpc_sketch::deserialize(p, n, seed), seed)); }
  P from_stream(std::istream& is) override { return P(new CpcObj(cpc_sketch::deserialize(is, seed), seed)); }
  void cont(const Op& op) override {
    uint64_t n = op.uarg(0) % 5000;
    if (op.name == "m") { cpc_sketch o(sk.get_lg_k(), seed); for (uint64_t i = 0; i < n; ++i) o.update(static_cast<int64_t>(op.uarg(2) % 1000 + 7 * i)); cpc_union u(sk.get_lg_k(), seed); u.update(sk); u.update(o); sk = u.get_result(); }
    else for (uint64_t i = 0; i < n; ++i) sk.update(static_cast<int64_t>(op.uarg(2) % 1000 + 3 * i));
  }
  bool beyond_exact() override { return sk.get_num_coupons() * 32ull >= 3ull * (1ull << sk.get_lg_k()); }
};

// ---------------------------------------------------------------- quantile families (KLL, REQ, classic) over float / string
template <typename T> struct ItemGen;
template <> struct ItemGen<float> { static float get(int pat, uint64_t i, uint64_t n, Rng& r) { return fval(pat, i, n, r); } static std::string show(float v) { return num(v); } };
template <> struct ItemGen<std::string> { static std::string get(int pat, uint64_t i, uint64_t n, Rng& r) { return sval(pat, i, n, r); } static std::string show(const std::string& v) { return "\"" + v + "\""; } };

template <typename SK, typename T, typename C>
std::string observe_quantiles(const SK& sk, const std::vector<T>& probes) {
  std::ostringstream o;
  o << "k=" << sk.get_k() << " n=" << sk.get_n() << " retained=" << sk.get_num_retained() << " est_mode=" << sk.is_estimation_mode() << " empty=" << sk.is_empty();
  if (sk.is_empty()) return o.str();
  o << " min=" << ItemGen<T>::show(sk.get_min_item()) << " max=" << ItemGen<T>::show(sk.get_max_item());
  std::vector<std::pair<T, uint64_t>> e; size_t guard = 0;
  for (auto it = sk.begin(); it != sk.end(); ++it) { e.emplace_back((*it).first, static_cast<uint64_t>((*it).second)); if (++guard > 1000000) break; }
  std::sort(e.begin(), e.end(), [](const std::pair<T, uint64_t>& a, const std::pair<T, uint64_t>& b) { C c; if (c(a.first, b.first)) return true; if (c(b.first, a.first)) return false; return a.second < b.second; });
  uint64_t h = 1469598103934665603ull; uint64_t w = 0;
  for (auto& iw : e) { h = fnv1a(ItemGen<T>::show(iw.first) + std::to_string(iw.second) + std::to_string(h)); w += iw.second; }
  o << " items=" << e.size() << " wsum=" << w << " items-fnv=" << h;
  for (const T& p : probes) o << " r(" << ItemGen<T>::show(p) << ")=" << num(sk.get_rank(p, true)) << "/" << num(sk.get_rank(p, false));
  for (double r : {0.0, 0.01, 0.25, 0.5, 0.75, 0.99, 1.0}) o << " q(" << r << ")=" << ItemGen<T>::show(sk.get_quantile(r, true));
  return o.str();
}

template <typename T> std::vector<T> probes_for();
template <> inline std::vector<float> probes_for<float>() { return {-600.0f, 0.0f, 2.0f, 7.0f, 50.0f, 333.5f, 1e9f}; }
template <> inline std::vector<std::string> probes_for<std::string>() { return {"", "0", "3", "17", "5xxxxx", "zzz"}; }

template <typename SK, typename T, typename C, int KIND>  // KIND 0 kll, 1 req, 2 classic
struct QObj : Obj {
  SK sk; int k; bool hra;
  QObj(SK&& s, int k, bool hra) : sk(std::move(s)), k(k), hra(hra) {}
  static SK fresh(int k, bool hra);
  // REQ: the summary and the per-level nominal capacities / sizes (to_string) are deterministic - they do not depend on the coin
  template <typename S> static std::string shape_impl(const S& s, std::integral_constant<int, 1>) { return " shape-fnv=" + std::to_string(fnv1a(std::string(s.to_string(true, false).c_str()))); }
  template <typename S, int K2> static std::string shape_impl(const S&, std::integral_constant<int, K2>) { return std::string(); }
  std::string shape(const SK& s) const { return shape_impl(s, std::integral_constant<int, KIND>()); }
  std::string observe() override { std::string o = observe_quantiles<SK, T, C>(sk, probes_for<T>()); return o + shape(sk); }
  Bytes bytes(unsigned h, int) override { return to_bytes(sk.serialize(h)); }
  std::string stream(int) override { return ser_stream(sk); }
  P from_bytes(const uint8_t* p, size_t n) override { return P(new QObj(SK::deserialize(p, n), k, hra)); }
  P from_stream(std::istream& is) override { return P(new QObj(SK::deserialize(is), k, hra)); }
  long advertised_size(int) override { return static_cast<long>(sk.get_serialized_size_bytes()); }
  void feed(SK& s, const Op& op) { uint64_t n = op.uarg(0) % 6000; Rng r(op.uarg(2)); for (uint64_t i = 0; i < n; ++i) s.update(ItemGen<T>::get(static_cast<int>(op.uarg(1)), i, n, r)); }
  void cont(const Op& op) override {
    if (op.name == "m" || op.name == "mk") {
      // "mk": the other sketch has half / twice the k (merges across k change min_k, section sizes, the down-sampling path)
      int ok = k;
      if (op.name == "mk") {
        const int sel = static_cast<int>((op.uarg(3) >> 1) % 3);
        const int lo = KIND == 0 ? 8 : KIND == 1 ? 4 : 2;
        if (sel == 1) ok = std::max(lo, KIND == 1 ? (k / 2) & ~1 : k / 2); else if (sel == 2) ok = k * 2;
      }
      SK o = fresh(ok, hra); feed(o, op); if (op.arg(3) & 1) sk.merge(std::move(o)); else sk.merge(o);
    }
    else feed(sk, op);
  }
  bool observe_changes_state() override { return true; }  // queries sort level zero / the base buffer (documented side effect)
  bool beyond_exact() override { return sk.is_estimation_mode(); }
  std::string observe_coarse() override {
    if (KIND != 1) return observe();
    // REQ does not serialize its per-compactor coin (a restored compactor draws a new one), so after continuing only the
    // deterministic facts are comparable
    std::ostringstream o; o << "k=" << sk.get_k() << " n=" << sk.get_n() << " empty=" << sk.is_empty();
    if (!sk.is_empty()) { o << " min=" << ItemGen<T>::show(sk.get_min_item()) << " max=" << ItemGen<T>::show(sk.get_max_item()); uint64_t w = 0; for (auto it = sk.begin(); it != sk.end(); ++it) w += (*it).second; o << " wsum=" << w; }
    sk.get_rank(sk.is_empty() ? T() : sk.get_min_item());  // sorts level zero, so that the "Sorted" line is the same on both sides
    o << " retained=" << sk.get_num_retained() << shape(sk);   // counts and capacities are deterministic whatever the coin does
    return o.str();
  }
};
typedef kll_sketch<float> KllF; typedef kll_sketch<std::string, GreaterLen> KllS;
typedef req_sketch<float> ReqF; typedef req_sketch<std::string, GreaterLen> ReqS;
typedef quantiles_sketch<float> QsF; typedef quantiles_sketch<std::string, GreaterLen> QsS;
template <> inline KllF QObj<KllF, float, std::less<float>, 0>::fresh(int k, bool) { return KllF(static_cast<uint16_t>(k)); }
template <> inline KllS QObj<KllS, std::string, GreaterLen, 0>::fresh(int k, bool) { return KllS(static_cast<uint16_t>(k)); }
template <> inline ReqF QObj<ReqF, float, std::less<float>, 1>::fresh(int k, bool hra) { return ReqF(static_cast<uint16_t>(k), hra); }
template <> inline ReqS QObj<ReqS, std::string, GreaterLen, 1>::fresh(int k, bool hra) { return ReqS(static_cast<uint16_t>(k), hra); }
template <> inline QsF QObj<QsF, float, std::less<float>, 2>::fresh(int k, bool) { return QsF(static_cast<uint16_t>(k)); }
template <> inline QsS QObj<QsS, std::string, GreaterLen, 2>::fresh(int k, bool) { return QsS(static_cast<uint16_t>(k)); }

// ---------------------------------------------------------------- frequent items
template <typename T> struct FiItem;
template <> struct FiItem<int64_t> { static int64_t get(uint64_t v) { return static_cast<int64_t>(v) - 3; } static std::string show(int64_t v) { return std::to_string(v); } };
template <> struct FiItem<std::string> { static std::string get(uint64_t v) { std::string s = std::to_string(v); if (v % 5 == 0) s += std::string(v % 33, 'y'); if (v == 4) s.clear(); else add_binary_bytes(s, v); return s; } static std::string show(const std::string& v) { return "\"" + v + "\""; } };
template <typename T>
struct FiObj : Obj {
  typedef frequent_items_sketch<T> SK;
  SK sk; uint8_t lg_max;
  FiObj(SK&& s, uint8_t lg_max) : sk(std::move(s)), lg_max(lg_max) {}
  std::string observe() override {
    std::ostringstream o;
    o << "empty=" << sk.is_empty() << " active=" << sk.get_num_active_items() << " total=" << sk.get_total_weight() << " maxerr=" << sk.get_maximum_error() << " eps=" << num(sk.get_epsilon());
    auto rows = sk.get_frequent_items(NO_FALSE_NEGATIVES, 0);
    std::vector<std::string> r;
    for (auto& row : rows) r.push_back(FiItem<T>::show(row.get_item()) + ":" + std::to_string(row.get_estimate()) + ":" + std::to_string(row.get_lower_bound()) + ":" + std::to_string(row.get_upper_bound()));
    std::sort(r.begin(), r.end());
    o << " rows:"; for (auto& x : r) o << ' ' << x;
    for (uint64_t v : {0ull, 1ull, 4ull, 5ull, 99999ull}) { T it = FiItem<T>::get(v); o << " e(" << FiItem<T>::show(it) << ")=" << sk.get_estimate(it) << "/" << sk.get_lower_bound(it) << "/" << sk.get_upper_bound(it); }
    return o.str();
  }
  Bytes bytes(unsigned h, int) override { return to_bytes(sk.serialize(h)); }
  std::string stream(int) override { return ser_stream(sk); }
  P from_bytes(const uint8_t* p, size_t n) override { return P(new FiObj(SK::deserialize(p, n), lg_max)); }
  P from_stream(std::istream& is) override { return P(new FiObj(SK::deserialize(is), lg_max)); }
  long advertised_size(int) override { return static_cast<long>(sk.get_serialized_size_bytes()); }
  bool image_order_unspecified(int) override { return true; }  // the map is dumped in slot order
  void feed(SK& s, const Op& op) { uint64_t n = op.uarg(0) % 3000; Rng r(op.uarg(2)); uint64_t span = 5 + op.uarg(1) % 200; for (uint64_t i = 0; i < n; ++i) { uint64_t v = static_cast<uint64_t>(span * r.unit() * r.unit()); s.update(FiItem<T>::get(v), 1 + r.below(3)); } }
  void cont(const Op& op) override { if (op.name == "m") { SK o(lg_max); feed(o, op); sk.merge(o); } else feed(sk, op); }
  bool beyond_exact() override { return sk.get_maximum_error() > 0; }
};

// ---------------------------------------------------------------- count-min
struct CmObj : Obj {
  typedef count_min_sketch<uint64_t> SK;
  SK sk; uint64_t seed;
  CmObj(SK&& s, uint64_t seed) : sk(std::move(s)), seed(seed) {}
  std::string observe() override {
    std::ostringstream o;
    o << "hashes=" << int(sk.get_num_hashes()) << " buckets=" << sk.get_num_buckets() << " seed=" << sk.get_seed() << " total=" << sk.get_total_weight() << " empty=" << sk.is_empty() << " relerr=" << num(sk.get_relative_error());
    uint64_t h = 7; for (auto it = sk.begin(); it != sk.end(); ++it) h = mix64(h ^ *it);
    o << " cells-hash=" << h;
    for (int64_t v : {0, 1, 2, 77, 100000}) o << " e(" << v << ")=" << sk.get_estimate(static_cast<uint64_t>(v)) << "/" << sk.get_lower_bound(static_cast<uint64_t>(v)) << "/" << sk.get_upper_bound(static_cast<uint64_t>(v));
    o << " e(\"abc\")=" << sk.get_estimate(std::string("abc"));
    return o.str();
  }
  Bytes bytes(unsigned h, int) override { return to_bytes(sk.serialize(h)); }
  std::string stream(int) override { return ser_stream(sk); }
  P from_bytes(const uint8_t* p, size_t n) override { return P(new CmObj(SK::deserialize(p, n, seed), seed)); }
  P from_stream(std::istream& is) override { return P(new CmObj(SK::deserialize(is, seed), seed)); }
  long advertised_size(int) override { return static_cast<long>(sk.get_serialized_size_bytes()); }
  void feed(SK& s, const Op& op) { uint64_t n = op.uarg(0) % 3000; Rng r(op.uarg(2)); for (uint64_t i = 0; i < n; ++i) { if (i % 17 == 0) s.update(std::string("abc"), 2); else s.update(static_cast<uint64_t>(r.below(200)), 1 + r.below(4)); } }
  void cont(const Op& op) override { if (op.name == "m") { SK o(sk.get_num_hashes(), sk.get_num_buckets(), seed); feed(o, op); sk.merge(o); } else feed(sk, op); }
  bool beyond_exact() override { return !sk.is_empty(); }
};

// ---------------------------------------------------------------- VarOpt sketch / union, EBPPS
template <typename T> struct VoItem;
template <> struct VoItem<int64_t> { static int64_t get(uint64_t v) { return static_cast<int64_t>(v); } static std::string show(int64_t v) { return std::to_string(v); } };
template <> struct VoItem<std::string> { static std::string get(uint64_t v) { std::string s = "item" + std::to_string(v) + std::string(v % 9, '.'); add_binary_bytes(s, v); return s; } static std::string show(const std::string& v) { return v; } };
inline double weight_pat(int pat, uint64_t i, Rng& r) {
  switch (pat % 5) { case 0: return 1.0; case 1: return std::ldexp(1.0, static_cast<int>(i % 20)); case 2: return 1.0 + static_cast<double>(r.below(1000)); case 3: return static_cast<double>(i + 1); default: return i == 3 ? 1e9 : 2.0; }
}
template <typename SK, typename T> std::string observe_samples(const SK& sk) {
  std::vector<std::string> e; double tw = 0;
  for (auto it = sk.begin(); it != sk.end(); ++it) { e.push_back(VoItem<T>::show((*it).first) + ":" + num((*it).second)); tw += (*it).second; }
  std::sort(e.begin(), e.end());
  std::ostringstream o; o << " samples=" << e.size() << " wsum=" << num(tw) << " list:"; for (auto& x : e) o << ' ' << x;
  return o.str();
}
template <typename T>
struct VoObj : Obj {
  typedef var_opt_sketch<T> SK;
  SK sk; uint64_t next_id;
  VoObj(SK&& s, uint64_t next_id) : sk(std::move(s)), next_id(next_id) {}
  std::string observe() override {
    std::ostringstream o; o << "k=" << sk.get_k() << " n=" << sk.get_n() << " num=" << sk.get_num_samples() << " empty=" << sk.is_empty() << observe_samples<SK, T>(sk);
    auto ss = sk.estimate_subset_sum([](const T&) { return true; });
    o << " subset=" << num(ss.lower_bound) << "/" << num(ss.estimate) << "/" << num(ss.upper_bound) << "/" << num(ss.total_sketch_weight);
    return o.str();
  }
  Bytes bytes(unsigned h, int) override { return to_bytes(sk.serialize(h)); }
  std::string stream(int) override { return ser_stream(sk); }
  P from_bytes(const uint8_t* p, size_t n) override { return P(new VoObj(SK::deserialize(p, n), next_id)); }
  P from_stream(std::istream& is) override { return P(new VoObj(SK::deserialize(is), next_id)); }
  long advertised_size(int) override { return static_cast<long>(sk.get_serialized_size_bytes()); }
  void cont(const Op& op) override { uint64_t n = op.uarg(0) % 3000; Rng r(op.uarg(2)); for (uint64_t i = 0; i < n; ++i) sk.update(VoItem<T>::get(next_id++), weight_pat(static_cast<int>(op.uarg(1)), i, r)); }
  bool beyond_exact() override { return sk.get_n() > sk.get_k(); }
};
struct VouObj : Obj {
  typedef var_opt_union<int64_t> U;
  U u; uint32_t max_k; uint64_t next_id;
  VouObj(U&& x, uint32_t max_k, uint64_t next_id) : u(std::move(x)), max_k(max_k), next_id(next_id) {}
  std::string observe() override {
    // the union exposes its state through get_result() (seeded randomness: observation re-seeds it) and to_string()
    rand_seed(4242);
    auto r = u.get_result();
    std::ostringstream o; o << "result: k=" << r.get_k() << " n=" << r.get_n() << " num=" << r.get_num_samples() << observe_samples<var_opt_sketch<int64_t>, int64_t>(r);
    // to_string without the allocation-capacity line ("Current size" is not logical state)
    std::istringstream in(std::string(u.to_string().c_str())); std::string line, kept;
    while (std::getline(in, line)) if (line.find("Current size") == std::string::npos) kept += line + "\n";
    o << " str-fnv=" << fnv1a(kept);
    return o.str();
  }
  Bytes bytes(unsigned h, int) override { return to_bytes(u.serialize(h)); }
  std::string stream(int) override { std::ostringstream os(std::ios::binary); u.serialize(os); return os.str(); }
  P from_bytes(const uint8_t* p, size_t n) override { return P(new VouObj(U::deserialize(p, n), max_k, next_id)); }
  P from_stream(std::istream& is) override { return P(new VouObj(U::deserialize(is), max_k, next_id)); }
  long advertised_size(int) override { return static_cast<long>(u.get_serialized_size_bytes()); }
  void cont(const Op& op) override {
    uint32_t k = 1 + static_cast<uint32_t>(op.uarg(3) % 40);
    var_opt_sketch<int64_t> s(k); uint64_t n = op.uarg(0) % 2000; Rng r(op.uarg(2));
    for (uint64_t i = 0; i < n; ++i) s.update(static_cast<int64_t>(next_id++), weight_pat(static_cast<int>(op.uarg(1)), i, r));
    u.update(s);
  }
  bool beyond_exact() override { rand_seed(4242); auto r = u.get_result(); return r.get_n() > r.get_k(); }
};
struct EbObj : Obj {
  typedef ebpps_sketch<int64_t> SK;
  SK sk; uint64_t next_id;
  EbObj(SK&& s, uint64_t next_id) : sk(std::move(s)), next_id(next_id) {}
  std::string observe() override {
    std::ostringstream o; o << "k=" << sk.get_k() << " n=" << sk.get_n() << " cumw=" << num(sk.get_cumulative_weight()) << " c=" << num(sk.get_c()) << " empty=" << sk.is_empty();
    o << " str-fnv=" << fnv1a(std::string(sk.to_string().c_str()) + std::string(sk.items_to_string().c_str()));
    return o.str();
  }
  Bytes bytes(unsigned h, int) override { return to_bytes(sk.serialize(h)); }
  std::string stream(int) override { return ser_stream(sk); }
  P from_bytes(const uint8_t* p, size_t n) override { return P(new EbObj(SK::deserialize(p, n), next_id)); }
  P from_stream(std::istream& is) override { return P(new EbObj(SK::deserialize(is), next_id)); }
  long advertised_size(int) override { return static_cast<long>(sk.get_serialized_size_bytes()); }
  void cont(const Op& op) override {
    uint64_t n = op.uarg(0) % 2000; Rng r(op.uarg(2));
    if (op.name == "m") { SK o(1 + static_cast<uint32_t>(op.uarg(3) % 40)); for (uint64_t i = 0; i < n; ++i) o.update(static_cast<int64_t>(next_id++), weight_pat(static_cast<int>(op.uarg(1)), i, r)); sk.merge(o); }
    else for (uint64_t i = 0; i < n; ++i) sk.update(static_cast<int64_t>(next_id++), weight_pat(static_cast<int>(op.uarg(1)), i, r));
  }
  bool beyond_exact() override { return sk.get_n() > sk.get_k(); }
};

// ---------------------------------------------------------------- t-digest
template <typename T>
struct TdObj : Obj {
  typedef tdigest<T> SK;
  SK sk;
  explicit TdObj(SK&& s) : sk(std::move(s)) {}
  std::string observe() override {  // queries compress the digest (documented): images that must contain a buffer are taken before observing
    std::ostringstream o; o << "k=" << sk.get_k() << " w=" << sk.get_total_weight() << " empty=" << sk.is_empty();
    if (sk.is_empty()) return o.str();
    o << " min=" << num(sk.get_min_value()) << " max=" << num(sk.get_max_value());
    for (double v : {-600.0, 0.0, 2.0, 7.0, 50.0, 333.5, 1e9}) o << " r(" << v << ")=" << num(sk.get_rank(static_cast<T>(v)));
    // to_string is not used: it shows whether a value sits in the buffer or in a centroid, which is representation, not content
    for (int i = 0; i <= 40; ++i) o << " q(" << i / 40.0 << ")=" << num(sk.get_quantile(i / 40.0));
    return o.str();
  }
  int variants() const override { return 2; }
  Bytes bytes(unsigned h, int v) override { return to_bytes(sk.serialize(h, v == 1)); }
  std::string stream(int v) override { std::ostringstream os(std::ios::binary); sk.serialize(os, v == 1); return os.str(); }
  P from_bytes(const uint8_t* p, size_t n) override { return P(new TdObj(SK::deserialize(p, n))); }
  P from_stream(std::istream& is) override { return P(new TdObj(SK::deserialize(is))); }
  long advertised_size(int v) override { return static_cast<long>(sk.get_serialized_size_bytes(v == 1)); }
  void feed(SK& s, const Op& op) { uint64_t n = op.uarg(0) % 6000; Rng r(op.uarg(2)); for (uint64_t i = 0; i < n; ++i) s.update(static_cast<T>(fval(static_cast<int>(op.uarg(1)), i, n, r))); }
  void cont(const Op& op) override { if (op.name == "m") { SK o(sk.get_k()); feed(o, op); sk.merge(o); } else feed(sk, op); }
  bool observe_changes_state() override { return true; }
  bool beyond_exact() override { return sk.get_total_weight() > 2u * sk.get_k(); }
  // After continuing, compare at 9 significant digits: an image does not record whether a value sat in the buffer or in a
  // centroid (e.g. the single-value form), so the restored digest may compress the same values in another order and its
  // answers differ in the last digits - same content, different floating-point summation order.
  std::string observe_coarse() override {
    std::ostringstream o; o << "k=" << sk.get_k() << " w=" << sk.get_total_weight() << " empty=" << sk.is_empty();
    if (sk.is_empty()) return o.str();
    o << " min=" << num(sk.get_min_value()) << " max=" << num(sk.get_max_value());
    char b[40];
    for (double v : {-600.0, 0.0, 2.0, 7.0, 50.0, 333.5, 1e9}) { snprintf(b, sizeof b, "%.9g", sk.get_rank(static_cast<T>(v))); o << " r(" << v << ")=" << b; }
    for (int i = 0; i <= 40; ++i) { snprintf(b, sizeof b, "%.9g", static_cast<double>(sk.get_quantile(i / 40.0))); o << " q(" << i / 40.0 << ")=" << b; }
    return o.str();
  }
};

// ---------------------------------------------------------------- Bloom filter
struct BloomObj : Obj {
  bloom_filter bf;
  explicit BloomObj(bloom_filter&& b) : bf(std::move(b)) {}
  static std::string obs(bloom_filter& b) {
    std::ostringstream o; o << "cap=" << b.get_capacity() << " hashes=" << b.get_num_hashes() << " seed=" << b.get_seed() << " used=" << b.get_bits_used() << " empty=" << b.is_empty();
    uint64_t h = 3; for (uint64_t v = 0; v < 400; ++v) h = h * 31 + (b.query(v) ? 1 : 0);
    o << " q-hash=" << h << " q(\"abc\")=" << b.query(std::string("abc")) << " q(2.5)=" << b.query(2.5);
    return o.str();
  }
  std::string observe() override { return obs(bf); }
  Bytes bytes(unsigned h, int) override { return to_bytes(bf.serialize(h)); }
  std::string stream(int) override { return ser_stream(bf); }
  P from_bytes(const uint8_t* p, size_t n) override { return P(new BloomObj(bloom_filter::deserialize(p, n))); }
  P from_stream(std::istream& is) override { return P(new BloomObj(bloom_filter::deserialize(is))); }
  long advertised_size(int) override { return static_cast<long>(bf.get_serialized_size_bytes()); }
  void cont(const Op& op) override {
    uint64_t n = op.uarg(0) % 300; Rng r(op.uarg(2));
    if (op.name == "m") { auto o = bloom_filter::builder::create_by_size(bf.get_capacity(), bf.get_num_hashes(), bf.get_seed()); for (uint64_t i = 0; i < n; ++i) o.update(r.below(400)); if (op.arg(1) & 1) bf.intersect(o); else bf.union_with(o); }
    else { for (uint64_t i = 0; i < n; ++i) bf.update(r.below(400)); if (n % 7 == 0) bf.update(std::string("abc")); if (n % 5 == 0) bf.update(2.5); if (n % 13 == 0) bf.invert(); }
  }
  std::string extra_view(const Bytes& b) override {
    // read-only wrap of an image: a non-empty image written by serialize() is directly wrappable
    Bytes copy(b);
    std::string note;
    {
      // a read-only view reproduces the memory it wraps: serialized again (before anything is asked of it) it is the same image
      bloom_filter w0 = bloom_filter::wrap(copy.data(), copy.size());
      if (!(to_bytes(w0.serialize()) == b)) note = " || the read-only view re-serializes to a different image";
    }
    bloom_filter w = bloom_filter::wrap(copy.data(), copy.size());
    std::string a = obs(w) + note;
    if (w.is_empty()) return a;  // writable_wrap documents that it refuses an empty filter image
    bloom_filter ww = bloom_filter::writable_wrap(copy.data(), copy.size());
    std::string c = obs(ww);
    return a == c ? a : a + " || writable: " + c;
  }
  bool beyond_exact() override { return !bf.is_empty(); }
};

// ---------------------------------------------------------------- density
struct DensObj : Obj {
  typedef density_sketch<float> SK;
  SK sk;
  explicit DensObj(SK&& s) : sk(std::move(s)) {}
  std::vector<float> point(uint64_t v, uint32_t dim) { std::vector<float> p(dim); for (uint32_t d = 0; d < dim; ++d) p[d] = static_cast<float>(static_cast<double>(mix64(v * 131 + d) % 2000) / 100.0 - 10.0); return p; }
  std::string observe() override {
    std::ostringstream o; o << "k=" << sk.get_k() << " dim=" << sk.get_dim() << " n=" << sk.get_n() << " retained=" << sk.get_num_retained() << " est_mode=" << sk.is_estimation_mode() << " empty=" << sk.is_empty();
    std::vector<std::string> e;
    for (auto it = sk.begin(); it != sk.end(); ++it) { std::string s; for (float x : (*it).first) { s += num(x); s += ','; } e.push_back(s + ":" + std::to_string((*it).second)); }
    std::sort(e.begin(), e.end());
    uint64_t h = 5; for (auto& x : e) h = fnv1a(x + std::to_string(h));
    o << " points=" << e.size() << " fnv=" << h;
    if (!sk.is_empty()) for (uint64_t v : {1ull, 2ull, 3ull}) o << " est" << v << "=" << num(sk.get_estimate(point(v, sk.get_dim())));
    return o.str();
  }
  // open finding: the image does not store the number of levels, so a trailing empty level is lost (and with it the compaction threshold k * levels)
  std::string finding_key() override {
    std::string t = sk.to_string(true, false);
    size_t e = t.rfind("### End sketch levels"); if (e == std::string::npos) return "";
    size_t l = t.rfind(": ", e); if (l == std::string::npos) return "";
    bool last_empty = std::atoi(t.c_str() + l + 2) == 0;
    return (sk.is_estimation_mode() && last_empty) ? "C09|density|trailing-empty-level-lost|number-of-levels-not-stored-in-the-image" : "";
  }
  Bytes bytes(unsigned h, int) override { return to_bytes(sk.serialize(h)); }
  std::string stream(int) override { return ser_stream(sk); }
  P from_bytes(const uint8_t* p, size_t n) override { return P(new DensObj(SK::deserialize(p, n))); }
  P from_stream(std::istream& is) override { return P(new DensObj(SK::deserialize(is))); }
  void feed(SK& s, const Op& op) { uint64_t n = op.uarg(0) % 1500; Rng r(op.uarg(2)); for (uint64_t i = 0; i < n; ++i) s.update(point(r.below(5000), s.get_dim())); }
  void cont(const Op& op) override { if (op.name == "m") { SK o(sk.get_k(), sk.get_dim()); feed(o, op); sk.merge(o); } else feed(sk, op); }
  bool beyond_exact() override { return sk.is_estimation_mode(); }
};

// ---------------------------------------------------------------- construction from a recipe
inline uint64_t seed_sel(int64_t s) { return s == 0 ? 9001ull : mix64(static_cast<uint64_t>(s) + 99); }

inline P make(const Case& rc) {
  int f = static_cast<int>(rc.get("fam", 0) % NFAM);
  int64_t a = rc.get("a", 0), b = rc.get("b", 0), c = rc.get("c", 0);
  uint64_t seed = seed_sel(rc.get("seed", 0));
  own_randomness(mix64(static_cast<uint64_t>(rc.get("rnd", 1)) + f));
  binary_strings() = (rc.get("bs", 0) & 1) != 0;   // absent in the frozen corpus recipes
  P obj;
  switch (f) {
    case F_THETA: case F_TUPLE: case F_AOD: {
      uint8_t lg_k = static_cast<uint8_t>(5 + a % 6);
      float p = (b % 3) == 0 ? 1.0f : (b % 3) == 1 ? 0.5f : 0.05f;
      bool ordered = c & 1;
      const bool trim = (rc.get("t", 0) & 1) != 0;   // absent in the frozen corpus recipes
      if (f == F_THETA) {
        auto us = update_theta_sketch::builder().set_lg_k(lg_k).set_p(p).set_seed(seed).build();
        for (const Op& op : rc.ops) if (op.name == "u") { uint64_t n = op.uarg(0) % 6000; for (uint64_t i = 0; i < n; ++i) us.update(static_cast<int64_t>(op.uarg(2) % 1000 + i)); }
        if (trim) us.trim();  // exactly k entries in estimation mode (counts at byte-width boundaries: 256 at lg_k 8)
        obj.reset(new ThetaObj(us.compact(ordered), seed, lg_k));
      } else if (f == F_TUPLE) {
        auto us = update_tuple_sketch<double>::builder().set_lg_k(lg_k).set_p(p).set_seed(seed).build();
        for (const Op& op : rc.ops) if (op.name == "u") { uint64_t n = op.uarg(0) % 6000; for (uint64_t i = 0; i < n; ++i) us.update(static_cast<int64_t>(op.uarg(2) % 1000 + i), 0.25 * static_cast<double>(i % 9)); }
        if (trim) us.trim(); obj.reset(new TupleObj(us.compact(ordered), seed, lg_k));
      } else {
        uint8_t nv = static_cast<uint8_t>(1 + (c >> 1) % 4);
        auto us = update_array_of_doubles_sketch::builder(nv).set_lg_k(lg_k).set_p(p).set_seed(seed).build();
        std::vector<double> vals(nv);
        for (const Op& op : rc.ops) if (op.name == "u") { uint64_t n = op.uarg(0) % 6000; for (uint64_t i = 0; i < n; ++i) { for (uint8_t j = 0; j < nv; ++j) vals[j] = static_cast<double>(i % 5) + j; us.update(static_cast<int64_t>(op.uarg(2) % 1000 + i), vals); } }
        if (trim) us.trim(); obj.reset(new AodObj(us.compact(ordered), seed));
      }
      return obj;  // compact forms: ops already consumed
    }
    case F_HLL: obj.reset(new HllObj(hll_sketch(static_cast<uint8_t>(4 + a % 9), static_cast<target_hll_type>(b % 3), (c & 3) == 3))); break;
    case F_CPC: obj.reset(new CpcObj(cpc_sketch(static_cast<uint8_t>(4 + a % 9), seed), seed)); break;
    // recipe key "bk" (quantile families, absent in the frozen corpus recipes): a large k, so that one level holds thousands of items
    // (readers that take the items in steps, buffers beyond the first allocation unit)
    case F_KLL_F: if (rc.get("bk", 0) & 1) { int k = 1000 + static_cast<int>(a % 3000); obj.reset(new QObj<KllF, float, std::less<float>, 0>(KllF(static_cast<uint16_t>(k)), k, false)); break; } { int k = 8 + static_cast<int>(a % 60); obj.reset(new QObj<KllF, float, std::less<float>, 0>(KllF(static_cast<uint16_t>(k)), k, false)); break; }
    case F_KLL_S: if (rc.get("bk", 0) & 1) { int k = 1000 + static_cast<int>(a % 3000); obj.reset(new QObj<KllS, std::string, GreaterLen, 0>(KllS(static_cast<uint16_t>(k)), k, false)); break; } { int k = 8 + static_cast<int>(a % 60); obj.reset(new QObj<KllS, std::string, GreaterLen, 0>(KllS(static_cast<uint16_t>(k)), k, false)); break; }
    case F_REQ_F: if (rc.get("bk", 0) & 1) { int k = (a & 1) ? 1024 : 700 + 2 * static_cast<int>(a % 150); obj.reset(new QObj<ReqF, float, std::less<float>, 1>(ReqF(static_cast<uint16_t>(k), b & 1), k, b & 1)); break; } { int k = 4 + 2 * static_cast<int>(a % 6); obj.reset(new QObj<ReqF, float, std::less<float>, 1>(ReqF(static_cast<uint16_t>(k), b & 1), k, b & 1)); break; }
    case F_REQ_S: if (rc.get("bk", 0) & 1) { int k = (a & 1) ? 1024 : 700 + 2 * static_cast<int>(a % 150); obj.reset(new QObj<ReqS, std::string, GreaterLen, 1>(ReqS(static_cast<uint16_t>(k), b & 1), k, b & 1)); break; } { int k = 4 + 2 * static_cast<int>(a % 6); obj.reset(new QObj<ReqS, std::string, GreaterLen, 1>(ReqS(static_cast<uint16_t>(k), b & 1), k, b & 1)); break; }
    case F_QS_F: if (rc.get("bk", 0) & 1) { int k = 512 << (a % 3); obj.reset(new QObj<QsF, float, std::less<float>, 2>(QsF(static_cast<uint16_t>(k)), k, false)); break; } { int k = 2 << (a % 6); obj.reset(new QObj<QsF, float, std::less<float>, 2>(QsF(static_cast<uint16_t>(k)), k, false)); break; }
    case F_QS_S: if (rc.get("bk", 0) & 1) { int k = 512 << (a % 3); obj.reset(new QObj<QsS, std::string, GreaterLen, 2>(QsS(static_cast<uint16_t>(k)), k, false)); break; } { int k = 2 << (a % 6); obj.reset(new QObj<QsS, std::string, GreaterLen, 2>(QsS(static_cast<uint16_t>(k)), k, false)); break; }
    case F_FI_I: { uint8_t lg = static_cast<uint8_t>(3 + a % 6); obj.reset(new FiObj<int64_t>(frequent_items_sketch<int64_t>(lg), lg)); break; }
    case F_FI_S: { uint8_t lg = static_cast<uint8_t>(3 + a % 6); obj.reset(new FiObj<std::string>(frequent_items_sketch<std::string>(lg), lg)); break; }
    case F_CM: obj.reset(new CmObj(count_min_sketch<uint64_t>(static_cast<uint8_t>(1 + a % 6), static_cast<uint32_t>(3 + b % 300), seed), seed)); break;
    case F_VO_I: obj.reset(new VoObj<int64_t>(var_opt_sketch<int64_t>(1 + static_cast<uint32_t>(a % 40), static_cast<resize_factor>(b % 4)), 0)); break;
    case F_VO_S: obj.reset(new VoObj<std::string>(var_opt_sketch<std::string>(1 + static_cast<uint32_t>(a % 40), static_cast<resize_factor>(b % 4)), (rc.get("ls", 0) & 1) ? (1ull << 40) : 0)); break;  // "ls": ids from 2^40 give 17-character items, which own heap memory
    case F_VOU: { uint32_t mk = 1 + static_cast<uint32_t>(a % 40); obj.reset(new VouObj(var_opt_union<int64_t>(mk), mk, 0)); break; }
    case F_EBPPS: obj.reset(new EbObj(ebpps_sketch<int64_t>(1 + static_cast<uint32_t>(a % 40)), 0)); break;
    case F_TD_D: { static const uint16_t ks[] = {10, 20, 50, 100, 200}; obj.reset(new TdObj<double>(tdigest<double>(ks[a % 5]))); break; }
    case F_TD_F: { static const uint16_t ks[] = {10, 20, 50, 100, 200}; obj.reset(new TdObj<float>(tdigest<float>(ks[a % 5]))); break; }
    case F_BLOOM: obj.reset(new BloomObj(bloom_filter::builder::create_by_size(1 + static_cast<uint64_t>(a % 3000), static_cast<uint16_t>(1 + b % 9), seed))); break;
    default: obj.reset(new DensObj(density_sketch<float>(static_cast<uint16_t>(2 + a % 30), static_cast<uint32_t>(1 + b % 4))));
  }
  // recipe key "hp" (HLL): a few keys with register value >= 15 first - HLL_4 keeps them in its exception table (aux area of the images)
  if (f == F_HLL && rc.get("hp", 0) > 0) {
    const auto& pool = high_pool().keys;
    HllObj& h = static_cast<HllObj&>(*obj);
    for (int64_t j = 0; j < rc.get("hp", 0) % 8 && !pool.empty(); ++j) h.sk.update(static_cast<int64_t>(pool[static_cast<size_t>(mix64(static_cast<uint64_t>(a) * 31 + static_cast<uint64_t>(j)) % pool.size())].first));
  }
  for (const Op& op : rc.ops) {
    if (op.name == "u" || op.name == "m") obj->cont(op);
    else if (op.name == "mk") { Op o2 = op; if (!(f >= F_KLL_F && f <= F_QS_S)) o2.name = "m"; obj->cont(o2); }  // only the quantile families merge across k
  }
  return obj;
}

// generator of recipes
inline rc::Gen<Case> recipe_gen(rc::Gen<int64_t> famgen) {
  auto nGen = rc::gen::weightedOneOf<int64_t>({{2, range(0, 1)}, {2, range(2, 12)}, {3, range(13, 300)}, {3, range(300, 3500)}});
  auto u = rc::gen::map(rc::gen::tuple(nGen, range(0, 7), range(0, 1 << 20), range(0, 63)), [](std::tuple<int64_t, int64_t, int64_t, int64_t> t) { return Op{"u", {std::get<0>(t), std::get<1>(t), std::get<2>(t), std::get<3>(t)}}; });
  auto m = rc::gen::map(rc::gen::tuple(nGen, range(0, 7), range(0, 1 << 20), range(0, 63)), [](std::tuple<int64_t, int64_t, int64_t, int64_t> t) { return Op{"m", {std::get<0>(t), std::get<1>(t), std::get<2>(t), std::get<3>(t)}}; });
  auto mk = rc::gen::map(rc::gen::tuple(nGen, range(0, 7), range(0, 1 << 20), range(0, 63)), [](std::tuple<int64_t, int64_t, int64_t, int64_t> t) { return Op{"mk", {std::get<0>(t), std::get<1>(t), std::get<2>(t), std::get<3>(t)}}; });
  auto ops = oplist(choose({{6, u}, {1, m}, {1, mk}}), 1, 0.05);
  return make_case({{"fam", std::move(famgen)}, {"a", range(0, 1 << 16)}, {"b", range(0, 1 << 16)}, {"c", range(0, 1 << 16)},
                    {"seed", rc::gen::weightedOneOf<int64_t>({{3, rc::gen::just<int64_t>(0)}, {1, range(1, 1000)}})}, {"rnd", range(1, 1 << 20)}, {"t", range(0, 1)}, {"ls", range(0, 1)}, {"bs", range(0, 1)}, {"hp", rc::gen::weightedOneOf<int64_t>({{2, rc::gen::just<int64_t>(0)}, {1, range(1, 7)}})},
                    {"bk", rc::gen::weightedOneOf<int64_t>({{5, rc::gen::just<int64_t>(0)}, {1, rc::gen::just<int64_t>(1)}})}},
                   ops);
}

}}  // namespace vf::fam
#endif
