"""Per-property configuration is one JSON file per property under /verif/props/<ID>.json:
  {"level": "exploration"|"fault_enumeration", "units": [{"harness": <name>, "variant": "asan"|"fast"|"fuzz",
    "tiers": ["quick","thorough"], "quick": {"cases": N, "maxsize": S, "workers": W, "timeout": T, "env": {...}},
    "thorough": {...}, "env": {...}}], "require_labels": {label: min_fraction}, "assumptions": [...],
   "manifest": {"text": ..., "note": ..., "technique": ..., "design_ref": ...}}
"""
import glob, json, os
ROOT = os.path.dirname(os.path.dirname(os.path.abspath(__file__)))
PROPS = {}
for f in sorted(glob.glob(os.path.join(ROOT, "props", "C*.json"))):
    PROPS[os.path.basename(f)[:-5]] = json.load(open(f))
# properties whose checks are finished and claimed in MANIFEST.json (others can be run by hand while in progress)
ENABLED = [l.strip() for l in open(os.path.join(ROOT, "props", "ENABLED")) if l.strip() and not l.startswith("#")]
NOT_APPLICABLE = {}
na = os.path.join(ROOT, "props", "not_applicable.json")
if os.path.exists(na):
    NOT_APPLICABLE = json.load(open(na))
