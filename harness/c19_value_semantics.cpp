// C19 — Sketch objects have value semantics and return every byte they allocate.
//
// One sub-property per family (sketch or operator class, built with the stateful tracking allocator of
// vf/c19_track_alloc.hpp and, for item-generic families, with the instrumented item of vf/c19_probe_item.hpp and with
// std::string). A case is a generated history over NS = 4 slots of live objects of that family:
//   new / update batch / merge by reference / merge by move / copy-construct / move-construct / copy-assign /
//   move-assign / chained assign a = b = c (with aliases) / SELF copy-assign / serialize + deserialize into a slot /
//   reset / destroy / query / twin (copy, then the same mutation of both sides).
// Oracle (vf/c19_engine.hpp), evaluated after EVERY step, with observe() = canonical text of everything the public API
// of the family reports (including the serialized image):
//   * copy == source (construction and assignment, also into a moved-from target), self copy-assign keeps the value,
//     a = b = c leaves all three equal to the old c;
//   * move: target observes what the source observed; the moved-from source is then destroyed or assigned to and
//     behaves as the assigned value;
//   * independence: an object no step touched observes exactly what it observed before (mutating a copy never shows in
//     its source and vice versa; const queries change nothing);
//   * a copy behaves like its source: the same update batch with the same internal randomness on both gives equal
//     observations; merge(std::move(x)) == merge(x) on an identical copy;
//   * allocator: every deallocation names a live block of the same allocator instance with the same byte size, nothing
//     allocated or released through a default-constructed (registry-less) instance, no live block and
//     allocations == deallocations when every slot is dead (two unequal allocator instances in half of the cases);
//   * instrumented items: no construction on a live address, no destruction / use of a dead one, no read of a
//     moved-from value, live count 0 at the end;
//   * ASan / LSan / UBSan silent.
// Allocation that bypasses the supplied allocator (malloc hook outside track_alloc::allocate while inside a library
// call) is reported as a counter only (DESIGN C19).
#include "vf/core.hpp"
#include "vf/c19_engine.hpp"
#include "vf/c19_fam_quantiles.hpp"
#include "vf/c19_fam_theta.hpp"
#include "vf/c19_fam_hllcpc.hpp"
#include "vf/c19_fam_misc.hpp"

using vf::Case; using vf::Op;
using namespace vf19;

namespace {

struct FamSpec {
  std::string sub;                 // sub-property name
  const IFamily* fam;
  HistoryHooks hooks;
  bool has_merge, has_reset, has_serde;
  int cfg_a_max;                   // family-specific configuration range (0..cfg_a_max)
  unsigned max_batch;              // largest update batch
  std::function<std::string(const std::string& id, const std::string& msg, const char* after)> alloc_key;
  std::set<std::string> leaky_keys;
};

void run_history(const Case& cs, const FamSpec& spec) {
  install_bypass_hooks();
  reset_alloc_tracking();
  reset_probe_tracking();
  Env env;
  env.nreg = (cs.get("two_allocs", 0) & 1) ? 2 : 1;
  env.seed = static_cast<uint64_t>(cs.get("seed", 1));
  env.cfg_a = static_cast<uint64_t>(cs.get("cfg_a", 0));
  all_registries().push_back(&env.reg[0]);
  all_registries().push_back(&env.reg[1]);
  vf::own_randomness(env.seed);
  {
    History h(*spec.fam, env, spec.hooks);
    h.alloc_key = spec.alloc_key;
    h.leaky_keys = spec.leaky_keys;
    if (!spec.leaky_keys.empty()) h.leak_key = *spec.leaky_keys.begin();
    auto slot = [](const Op& op, size_t i) { return static_cast<int>(op.uarg(i) % NS); };
    // first usable slot starting at i (so that shrunk / mutated cases keep doing something)
    auto usable_from = [&](int i) { for (int k = 0; k < NS; ++k) { int j = (i + k) % NS; if (h.s[j].st == LIVE) return j; } return -1; };
    // two objects exist from the start
    h.op_new(0, static_cast<uint64_t>(cs.get("v0", 0)), 0);
    h.op_new(1, static_cast<uint64_t>(cs.get("v1", 0)), 1);
    for (const Op& op : cs.ops) try {
      h.step++;
      const std::string& n = op.name;
      if (n == "new") h.op_new(slot(op, 0), op.uarg(1), static_cast<int>(op.uarg(2) & 1));
      else if (n == "upd") { int d = usable_from(slot(op, 0)); if (d >= 0) h.op_update(d, op.uarg(1), static_cast<unsigned>(op.uarg(2) % (spec.max_batch + 1))); }
      else if (n == "mref" || n == "mmov") {
        int d = usable_from(slot(op, 0)); if (d < 0) continue;
        int s = usable_from(slot(op, 1)); if (s == d) s = usable_from((d + 1) % NS);
        if (s >= 0 && s != d) h.op_merge(d, s, n == "mmov");
      }
      else if (n == "cpc" || n == "mvc") {
        int s = usable_from(slot(op, 1)); if (s < 0) continue;
        int d = slot(op, 0); if (d == s) d = (d + 1) % NS;
        if (n == "cpc") h.op_copy_construct(d, s); else h.op_move_construct(d, s);
      }
      else if (n == "cpa" || n == "mva") {
        int s = usable_from(slot(op, 1)); if (s < 0) continue;
        int d = slot(op, 0);
        if (h.s[d].st == DEAD) { if (d == s) continue; if (n == "cpa") h.op_copy_construct(d, s); else h.op_move_construct(d, s); continue; }
        if (n == "cpa") h.op_copy_assign(d, s);
        else { if (d == s) d = (d + 1) % NS; if (h.s[d].st == DEAD) h.op_move_construct(d, s); else h.op_move_assign(d, s); }
      }
      else if (n == "self") { int d = usable_from(slot(op, 0)); if (d >= 0) h.op_copy_assign(d, d); }
      else if (n == "chain") {
        int c = usable_from(slot(op, 2)); if (c < 0) continue;
        int a = slot(op, 0), b = slot(op, 1);
        if (h.s[a].st == DEAD || h.s[b].st == DEAD) continue;
        h.op_chain(a, b, c);
      }
      else if (n == "ser") { int s = usable_from(slot(op, 1)); if (s >= 0) h.op_serde(slot(op, 0), s, op.uarg(2), static_cast<int>(op.uarg(3) & 1)); }
      else if (n == "rst") { int d = usable_from(slot(op, 0)); if (d >= 0) h.op_reset(d); }
      else if (n == "del") h.op_destroy(slot(op, 0));
      else if (n == "qry") { int d = usable_from(slot(op, 0)); if (d >= 0) h.op_query(d, op.uarg(1)); }
      else if (n == "twin") { int d = usable_from(slot(op, 0)); if (d >= 0) h.op_twin(d, op.uarg(1), static_cast<unsigned>(op.uarg(2) % (spec.max_batch + 1)), static_cast<int>(op.uarg(3))); }
    } catch (const std::logic_error&) {
      // families whose calls can throw std::logic_error because of findings owned by another property (VarOpt: C16): the
      // history ends here; every object must still die cleanly and the allocator must balance
      if (!spec.hooks.tolerate_logic_error) throw;
      vf::label("history-ended-by-tolerated-logic-error");
      break;
    }
    h.finish();
    if (h.nt) vf::nontrivial();
  }
  // evidence counters
  vf::count("bypass-mallocs:" + spec.sub, scopes().bypass_mallocs);
  vf::count("default-constructed-allocators:" + spec.sub, alloc_errors().default_constructed);
  vf::count("null-deallocations:" + spec.sub, alloc_errors().null_deallocs);
  vf::count("allocations:" + spec.sub, env.reg[0].n_alloc + env.reg[1].n_alloc);
  vf::count("item-constructions", probes().constructed + probes().copied + probes().moved);
  if (env.nreg == 2) vf::label("two-allocator-instances");
  vf::label("family:" + spec.sub);
}

rc::Gen<Case> gen_history(const FamSpec& spec) {
  using namespace vf;
  int64_t mb = spec.max_batch;
  auto sl = [] { return range(0, NS - 1); };
  std::vector<std::pair<int, rc::Gen<Op>>> w = {
      {6, op3("upd", sl(), range(0, 1 << 20), rc::gen::weightedOneOf<int64_t>({{3, range(1, 12)}, {3, range(13, mb)}}))},
      {2, op3("new", sl(), range(0, 63), range(0, 1))},
      {3, op2("cpc", sl(), sl())},
      {3, op2("mvc", sl(), sl())},
      {4, op2("cpa", sl(), sl())},
      {4, op2("mva", sl(), sl())},
      {2, op1("self", sl())},
      {3, op3("chain", sl(), sl(), sl())},
      {2, op1("del", sl())},
      {2, op2("qry", sl(), range(0, 1 << 16))},
      {3, op4("twin", sl(), range(0, 1 << 20), range(1, mb), range(0, 1))},
  };
  if (spec.has_merge) { w.push_back({3, op2("mref", sl(), sl())}); w.push_back({3, op2("mmov", sl(), sl())}); }
  if (spec.has_serde) w.push_back({3, op4("ser", sl(), sl(), range(0, 7), range(0, 1))});
  if (spec.has_reset) w.push_back({1, op1("rst", sl())});
  return make_case({{"seed", range(1, 1 << 30)}, {"two_allocs", range(0, 1)}, {"cfg_a", range(0, spec.cfg_a_max)}, {"v0", range(0, 7)}, {"v1", range(0, 7)}},
                   oplist(choose(w), 3, 0.25));
}

// ---------------------------------------------------------------- known findings (keys)
// KLL / REQ / classic: copy and move assignment swap allocator_ but neither release the cached sorted view first nor hand
// it over: the view allocated by the old instance is released through the new one (by the target at once, by the
// moved-from source when it dies)
std::string quant_view_key(const std::string& fam) {
  return "C19|" + fam + "|assign|cached-sorted-view-released-through-another-allocator-instance|assignment-between-objects-with-unequal-allocators-while-a-sorted-view-is-cached";
}
std::string quant_alloc_key(const std::string& fam, const std::string& id, const std::string& msg) {
  if (id == "dealloc-wrong-instance" && msg.find("quantiles_sorted_view") != std::string::npos) return quant_view_key(fam);
  return "";
}

// HLL: operator=(const&) releases its own impl before copying (use after free on self assignment) and dereferences the
// impl pointer that the move constructor left null (copy assignment to a moved-from sketch). hll_union has an implicit
// operator= over its gadget sketch and inherits both.
std::string hll_crash_key(const std::string& fam, const char* op, bool dst_moved, bool self) {
  if (std::string(op) != "copy-assign") return "";
  if (self) return "C19|" + fam + "|copy-assign|use-after-free|self-assignment";
  if (dst_moved) return "C19|" + fam + "|copy-assign|null-dereference|target-is-moved-from";
  return "";
}

// ebpps_sample::get_sample() builds its result vector with a default-constructed allocator
const char* K_EBPPS_RESULT = "C19|ebpps|get_result|result-vector-built-with-default-constructed-allocator|any-non-empty-sketch";
std::string ebpps_alloc_key(const std::string& id, const std::string& msg) {
  if ((id == "alloc-default-instance" || id == "dealloc-default-instance") && msg.find("[during ebpps_sketch::get_result]") != std::string::npos) return K_EBPPS_RESULT;
  return "";
}
// cpc_union: the accumulator sketch object is allocated with the union's allocator, but released with
// accumulator->get_allocator(), which `*accumulator = sketch` (first sparse input, equal lg_k) replaces by the input's allocator
const char* K_CPC_UNION_ACC = "C19|cpc-union|update|accumulator-object-released-through-the-adopted-input-allocator|first-sparse-input-with-equal-lg_k-and-unequal-allocator";
const char* K_VAROPT_UNION_ASSIGN = "C19|varopt-union|copy-assign|does-not-compile|any-copy-assignment";

std::vector<FamSpec>& specs() { static std::vector<FamSpec> v; return v; }

template <typename F> void add_family(const std::string& sub, bool merge, bool reset, bool serde, int cfg_a_max, unsigned max_batch, HistoryHooks hooks = HistoryHooks()) {
  static FamilyImpl<F> impl;
  specs().push_back(FamSpec{sub, &impl, std::move(hooks), merge, reset, serde, cfg_a_max, max_batch, nullptr, {}});
}

}  // namespace

int main(int argc, char** argv) {
  add_family<QuantFamily<Q_KLL, Probe>>("kll-probe", true, false, true, 0, 120);

  add_family<QuantFamily<Q_KLL, std::string>>("kll-string", true, false, true, 0, 120);
  add_family<QuantFamily<Q_REQ, Probe>>("req-probe", true, false, true, 1, 120);
  add_family<QuantFamily<Q_REQ, std::string>>("req-string", true, false, true, 1, 120);
  add_family<QuantFamily<Q_CLS, Probe>>("classic-probe", true, false, true, 0, 120);
  add_family<QuantFamily<Q_CLS, std::string>>("classic-string", true, false, true, 0, 120);

  add_family<ThetaUpdateFamily>("theta-update", false, true, false, 0, 150);
  add_family<ThetaCompactFamily>("theta-compact", true, false, true, 0, 100);
  add_family<ThetaUnionFamily>("theta-union", false, true, false, 0, 150);
  add_family<ThetaIntersectionFamily>("theta-intersection", false, false, false, 0, 100);
  add_family<ThetaANotBFamily>("theta-a-not-b", false, false, false, 0, 4);
  add_family<TupleUpdateFamily>("tuple-update", false, true, false, 0, 150);
  add_family<TupleCompactFamily>("tuple-compact", true, false, true, 0, 100);
  add_family<TupleUnionFamily>("tuple-union", false, true, false, 0, 150);
  add_family<TupleIntersectionFamily>("tuple-intersection", false, false, false, 0, 100);
  add_family<TupleANotBFamily>("tuple-a-not-b", false, false, false, 0, 4);
  {
    HistoryHooks hs; hs.crash_key = [](const char* op, bool dm, bool self) { return hll_crash_key("hll-sketch", op, dm, self); };
    add_family<HllSketchFamily>("hll-sketch", false, true, true, 2, 400, hs);
    HistoryHooks hu; hu.crash_key = [](const char* op, bool dm, bool self) { return hll_crash_key("hll-union", op, dm, self); };
    add_family<HllUnionFamily>("hll-union", false, true, false, 0, 400, hu);
  }
  add_family<CpcSketchFamily>("cpc-sketch", false, false, true, 0, 400);
  add_family<CpcUnionFamily>("cpc-union", false, false, false, 0, 300);
  add_family<FrequentFamily<Probe>>("frequent-probe", true, false, true, 0, 150);
  add_family<FrequentFamily<std::string>>("frequent-string", true, false, true, 0, 150);
  add_family<CountMinFamily>("count-min", true, false, true, 31, 60);
  {
    HistoryHooks hv; hv.freeze_after_serde = true; hv.tolerate_logic_error = true;   // a deserialized sampling-mode VarOpt sketch cannot be updated / reset (open findings of C16)
    add_family<VarOptFamily<Probe>>("varopt-probe", false, true, true, 0, 120, hv);
    add_family<VarOptFamily<std::string>>("varopt-string", false, true, true, 0, 120, hv);
  }
  {
    HistoryHooks hu; hu.tolerate_logic_error = true;
#if !C19_VAROPT_UNION_COPY_ASSIGN_COMPILES
    hu.crash_key = [](const char* op, bool, bool) { return std::string(op) == "copy-assign" ? std::string(K_VAROPT_UNION_ASSIGN) : std::string(); };
#endif
    add_family<VarOptUnionFamily<Probe>>("varopt-union-probe", false, true, false, 0, 120, hu);
    add_family<VarOptUnionFamily<std::string>>("varopt-union-string", false, true, false, 0, 120, hu);
  }
  add_family<EbppsFamily<Probe>>("ebpps-probe", true, true, true, 3, 100);
  add_family<EbppsFamily<std::string>>("ebpps-string", true, true, true, 3, 100);
  add_family<TDigestFamily>("tdigest", true, false, true, 0, 300);
  add_family<BloomFamily>("bloom", true, true, true, 15, 60);
  add_family<DensityFamily>("density", true, false, true, 1, 80);
  for (FamSpec& sp : specs()) {
    std::string f = sp.sub.substr(0, sp.sub.find('-'));
    if (sp.sub.rfind("varopt-union", 0) == 0) {
      sp.alloc_key = [](const std::string& id, const std::string& msg, const char*) {
        return id.rfind("probe-", 0) == 0 && msg.find("[during var_opt_union::get_result]") != std::string::npos ? std::string(varopt_union_result_key()) : std::string();
      };
      sp.leaky_keys.insert(varopt_union_result_key());
    }
    if (sp.sub == "cpc-union") sp.alloc_key = [](const std::string& id, const std::string& msg, const char*) {
      return id == "dealloc-wrong-instance" && msg.find("track_alloc<datasketches::cpc_sketch_alloc<") != std::string::npos ? std::string(K_CPC_UNION_ACC) : std::string();
    };
    if (f == "ebpps") sp.alloc_key = [](const std::string& id, const std::string& msg, const char*) { return ebpps_alloc_key(id, msg); };
    if (f == "kll" || f == "req" || f == "classic") sp.alloc_key = [f](const std::string& id, const std::string& msg, const char*) { return quant_alloc_key(f, id, msg); };
  }
  std::vector<vf::Sub> subs;
  for (const FamSpec& sp : specs()) {
    const FamSpec* p = &sp;
    subs.push_back({sp.sub, [p] { return gen_history(*p); }, [p](const Case& c) { run_history(c, *p); }, 1.0 / static_cast<double>(specs().size())});
  }
  return vf::main_driver(argc, argv, "C19", "c19_value_semantics",
                         "case = family (sub-property) x allocator set-up (one or two unequal stateful allocator instances) x generated lifecycle history over 4 "
                         "slots; the value-semantics / allocation oracle runs after every step; non-trivial = a copy after which BOTH sides were mutated while "
                         "both alive (including the twin step: copy, same mutation of both, compare) or a move after which the moved-to object was mutated; "
                         "distinct = distinct case text",
                         subs);
}
