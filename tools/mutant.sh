#!/bin/bash
# tools/mutant.sh <name> <file-relative-to-repo> <sed-expression> <ID> [tier]  — sensitivity experiment:
# copies the repo headers to a scratch dir, applies one sed edit, runs the check against it, removes the copy.
set -u
name=$1; file=$2; expr=$3; id=$4; tier=${5:-quick}
d=/tmp/vf-mut-$name-$$
mkdir -p $d
(cd /repo && tar cf - --exclude=_build --exclude=build --exclude=.git .) | (cd $d && tar xf -)
before=$(sha256sum $d/$file | cut -d' ' -f1)
sed -i -E "$expr" $d/$file
after=$(sha256sum $d/$file | cut -d' ' -f1)
if [ "$before" = "$after" ]; then echo "MUTANT $name: sed did not change $file"; rm -rf $d; exit 9; fi
(cd $d && diff -u /repo/$file $file | head -20)
VERIF_REPO=$d VERIF_EVIDENCE_DIR=/tmp/vf-mut-ev-$$ VERIF_OUT_DIR=/tmp/vf-mut-out-$$ /verif/check $id $tier > /tmp/vf-mut-log-$$ 2>&1
rc=$?
grep -E "VIOLATION|FAIL|evaluations=|machinery" /tmp/vf-mut-log-$$ | cut -c1-400 | head -8
mkdir -p /verif/out/mutants
echo "MUTANT $name [$id $tier] $file -> exit $rc ($( [ $rc = 1 ] && echo CAUGHT || echo MISSED )) $(grep -m1 -o 'check=[^ ]*' /tmp/vf-mut-log-$$)" | tee /verif/out/mutants/$id-$name.txt
rm -rf $d /tmp/vf-mut-ev-$$ /tmp/vf-mut-out-$$ /tmp/vf-mut-log-$$
# drop the mutant binaries from the build cache
exit 0
