// C13 — Tuple sketches keep theta-sketch keys and exact per-key summaries.
// Two sub-properties, each run for one of four summary families (vf/c13_summaries.hpp):
//   upd : a generated history of typed (key, value) updates / bulk / replays / trim / reset / compact / filter / copy /
//         serialize round trips on one update_tuple_sketch next to (a) a real update_theta_sketch with the same
//         configuration fed the same keys and (b) a reference-hash model  hash -> fold of every value offered.
//   ops : generated input sketches in many physical forms (update, compact, deserialized, converted Theta sketch,
//         filtered, set-operation result) and a history over one union, one intersection and a_not_b; every result is
//         compared with the set-algebra model of vf/theta_model.hpp extended by a per-hash summary map folded in
//         presentation order; lvalue inputs must stay intact; the final union / intersection is recomputed in a
//         permuted order with substituted forms.
// The array_of_doubles family is additionally compared, observation by observation, with the generic tuple sketch over
// std::vector<double> run on the same case.
#include "vf/core.hpp"
#include "vf/items.hpp"
#include "vf/theta_model.hpp"
#include "vf/c13_summaries.hpp"
#include <theta_sketch.hpp>
#include <map>
#include <memory>
#include <sstream>

using namespace datasketches;
using vf::Case; using vf::Op; using vf::MSk;
using c13::MS;

namespace {

struct Obs {
  bool empty = true; uint64_t theta = 0;
  std::vector<std::pair<uint64_t, MS>> e;  // sorted by key
  bool operator==(const Obs& o) const { return empty == o.empty && theta == o.theta && e == o.e; }
};
using Trace = std::vector<Obs>;

struct MT { MSk k; std::map<uint64_t, MS> s; };  // s has exactly the keys of k.set

float p_from(int64_t sel) {
  switch (sel & 3) { case 0: return 1.0f; case 1: return 0.5f; case 2: return 0.1f; default: return 0.75f; }
}
uint64_t theta0_from(float p) { return p < 1.0f ? static_cast<uint64_t>(std::ldexp(static_cast<double>(p), 63)) : vf::TH_MAX; }
uint64_t seed_from(int64_t sel) { return sel == 0 ? 9001ull : vf::mix64(static_cast<uint64_t>(sel)); }

std::string ms_str(const MS& m) {
  std::ostringstream os; os << "[";
  for (size_t i = 0; i < m.size() && i < 12; ++i) os << (i ? "," : "") << m[i];
  if (m.size() > 12) os << ",...(" << m.size() << ")";
  os << "]"; return os.str();
}
uint64_t ms_hash(const MS& m) {
  uint64_t h = 0x9e37 + m.size();
  for (double d : m) { uint64_t b; std::memcpy(&b, &d, 8); h = vf::mix64(h ^ b); }
  return h;
}
// predicate family used by filter(): decided on the observable content of the summary only
bool pred_ms(int sel, const MS& m) {
  switch (sel % 6) {
    case 0: return true;
    case 1: return false;
    case 2: return !m.empty() && m[0] >= 0.0;
    default: return (ms_hash(m) ^ vf::mix64(static_cast<uint64_t>(sel))) % 3 != 0;
  }
}
template <class T> struct Pred {
  int sel;
  bool operator()(const typename T::Summary& s) const { return pred_ms(sel, T::observe(s)); }
};

void inst_check(const char* where) {
  VF_CHECK(c13::IS().bad == 0, "moved-from-read", where << ": " << c13::IS().first_bad << " (" << c13::IS().bad << " events)");
}

// observation of any tuple sketch (iteration order kept in `order_ok`)
template <class T, class Sk>
Obs observe(const Sk& r, bool* sorted_as_iterated = nullptr) {
  Obs o; o.empty = r.is_empty(); o.theta = r.get_theta64();
  bool srt = true; uint64_t prev = 0;
  for (auto it = r.begin(); it != r.end(); ++it) {
    const auto& e = *it;
    if (e.first < prev) srt = false;
    prev = e.first;
    o.e.emplace_back(e.first, T::observe(e.second));
  }
  if (sorted_as_iterated) *sorted_as_iterated = srt;
  std::sort(o.e.begin(), o.e.end(), [](const std::pair<uint64_t, MS>& a, const std::pair<uint64_t, MS>& b) { return a.first < b.first; });
  return o;
}

// compares a real sketch with a model (keys both directions, summaries, emptiness, theta when non-empty, ordering claims)
template <class T, class Sk>
Obs check_against(const Sk& r, const MT& m, bool want_ordered, const char* what, uint64_t seed, bool compare_emptiness = true) {
  bool srt = true;
  Obs o = observe<T>(r, &srt);
  inst_check(what);
  if (want_ordered) VF_CHECK(r.is_ordered(), "result-ordered-flag", what << ": ordered result not flagged ordered");
  if (r.is_ordered()) VF_CHECK(srt, "result-sorted", what << ": flagged ordered but entries are not sorted");
  VF_CHECK(o.e.size() == r.get_num_retained(), "result-num-retained", what << ": iterated " << o.e.size() << " vs get_num_retained " << r.get_num_retained());
  for (size_t i = 0; i < o.e.size(); ++i) {
    VF_CHECK(o.e[i].first != 0, "zero-entry", what << ": key 0 retained");
    VF_CHECK(i == 0 || o.e[i].first != o.e[i - 1].first, "result-duplicate", what << ": key " << o.e[i].first << " retained twice");
  }
  size_t i = 0;
  for (; i < o.e.size() && i < m.k.set.size(); ++i) {
    VF_CHECK(o.e[i].first == m.k.set[i], "result-set", what << ": key set differs from the model at sorted index " << i << ": got " << o.e[i].first << " expected " << m.k.set[i]
             << " (got " << o.e.size() << " keys, expected " << m.k.set.size() << ", result theta " << o.theta << ", model theta " << m.k.theta << ")");
  }
  VF_CHECK(o.e.size() == m.k.set.size(), "result-set", what << ": " << o.e.size() << " keys retained, model has " << m.k.set.size() << " (result theta " << o.theta << ", model theta " << m.k.theta << ")");
  if (compare_emptiness) VF_CHECK(o.empty == m.k.empty, "result-empty", what << ": is_empty " << o.empty << " model " << m.k.empty);
  if (!m.k.empty && !o.empty) VF_CHECK(o.theta == m.k.theta, "result-theta", what << ": theta " << o.theta << " model " << m.k.theta);
  if (o.empty) VF_CHECK(o.e.empty(), "empty-result-entries", what << ": empty sketch with entries");
  for (size_t j = 0; j < o.e.size(); ++j) {
    auto it = m.s.find(o.e[j].first);
    VF_CHECK(it != m.s.end(), "model-internal", what << ": model has no summary for key " << o.e[j].first);
    VF_CHECK(o.e[j].second == it->second, "summary", what << ": summary of key " << o.e[j].first << " (sorted index " << j << ") is " << ms_str(o.e[j].second)
             << ", expected " << ms_str(it->second) << " [" << T::name() << "]");
  }
  VF_CHECK(r.get_seed_hash() == vf::ref_seed_hash(seed), "result-seed-hash", what << ": seed hash");
  return o;
}

// key with a forwarded value, for every documented key type
template <class T, class Sk>
void feed_kv(Sk& sk, const vf::Item& it, uint64_t vraw, int nv, int mode) {
  T::with_value(vraw, nv, mode, [&](auto&& v) {
    using V = decltype(v);
    switch (it.type) {
      case vf::T_U64: sk.update(static_cast<uint64_t>(it.raw), std::forward<V>(v)); break;
      case vf::T_I64: sk.update(static_cast<int64_t>(it.raw), std::forward<V>(v)); break;
      case vf::T_U32: sk.update(static_cast<uint32_t>(it.raw), std::forward<V>(v)); break;
      case vf::T_I32: sk.update(static_cast<int32_t>(static_cast<uint32_t>(it.raw)), std::forward<V>(v)); break;
      case vf::T_U16: sk.update(static_cast<uint16_t>(it.raw), std::forward<V>(v)); break;
      case vf::T_I16: sk.update(static_cast<int16_t>(static_cast<uint16_t>(it.raw)), std::forward<V>(v)); break;
      case vf::T_U8: sk.update(static_cast<uint8_t>(it.raw), std::forward<V>(v)); break;
      case vf::T_I8: sk.update(static_cast<int8_t>(static_cast<uint8_t>(it.raw)), std::forward<V>(v)); break;
      case vf::T_F64: sk.update(vf::item_double(it.raw), std::forward<V>(v)); break;
      case vf::T_F32: sk.update(vf::item_float(it.raw), std::forward<V>(v)); break;
      case vf::T_STR: sk.update(vf::item_string(it.raw), std::forward<V>(v)); break;
      default: { std::string b = vf::item_bytes(it.raw); sk.update(static_cast<const void*>(b.data()), b.size(), std::forward<V>(v)); }
    }
  });
}

// ====================================================================================== sub-property "upd"
template <class T>
struct UCtx {
  typename T::Upd sk;
  update_theta_sketch th;
  uint64_t seed = 0, theta0 = 0; uint32_t k = 0; int nv = 1;
  std::map<uint64_t, MS> vals;           // reference hash -> fold of every value offered since the last reset
  std::map<uint64_t, uint32_t> last_epoch;
  bool empty = true;
  std::vector<vf::Item> history;
  uint64_t fresh = 0, nvals = 0;
  uint32_t epoch = 0;                     // number of theta decreases (rebuilds) since reset
  bool repeat_across_rebuild = false, rebuilt = false, screened = false, repeats = false;
  uint32_t types_mask = 0;
};

template <class T>
MT model_of(const UCtx<T>& c, uint64_t theta) {
  MT m; m.k.empty = c.empty; m.k.theta = c.empty ? vf::TH_MAX : theta;
  if (!c.empty) for (const auto& kv : c.vals) { if (kv.first >= theta) break; m.k.set.push_back(kv.first); m.s.emplace(kv.first, kv.second); }
  return m;
}

template <class T>
Obs check_state(UCtx<T>& c, const char* after) {
  const typename T::Upd& sk = c.sk;
  VF_CHECK(sk.is_empty() == c.th.is_empty(), "theta-twin-empty", "after " << after << ": is_empty " << sk.is_empty() << ", theta sketch " << c.th.is_empty());
  VF_CHECK(sk.get_theta64() == c.th.get_theta64(), "theta-twin-theta", "after " << after << ": theta " << sk.get_theta64() << ", theta sketch with the same configuration " << c.th.get_theta64());
  VF_CHECK(sk.get_num_retained() == c.th.get_num_retained(), "theta-twin-num", "after " << after << ": retained " << sk.get_num_retained() << ", theta sketch " << c.th.get_num_retained());
  // (b) reference-hash model: keys = {h offered : h < theta}, summaries = folds
  MT m = model_of(c, sk.get_theta64());
  Obs o = check_against<T>(sk, m, false, after, c.seed);
  // (a) exactly the keys of the theta sketch
  std::vector<uint64_t> tk(c.th.begin(), c.th.end());
  std::sort(tk.begin(), tk.end());
  VF_CHECK(tk.size() == o.e.size(), "theta-twin-keys", "after " << after << ": " << o.e.size() << " keys, theta sketch retains " << tk.size());
  for (size_t i = 0; i < tk.size(); ++i) VF_CHECK(tk[i] == o.e[i].first, "theta-twin-keys", "after " << after << ": key " << o.e[i].first << " vs theta sketch key " << tk[i] << " at sorted index " << i);
  if (!c.empty && o.theta < c.theta0) c.rebuilt = true;
  return o;
}

template <class T>
void do_update(UCtx<T>& c, const vf::Item& it, uint64_t vraw, int mode) {
  bool was_empty = c.sk.is_empty();
  uint64_t before = c.sk.get_theta64();
  feed_kv<T>(c.sk, it, vraw, c.nv, mode);
  vf::feed(c.th, it);
  vf::H128 h;
  if (vf::ref_item_hash(it, c.seed, h)) {
    c.empty = false;
    uint64_t s = h.h1 >> 1;
    uint64_t now = c.sk.get_theta64();
    if (!was_empty && now < before) ++c.epoch;
    if (s != 0) {
      auto f = c.vals.find(s);
      if (f == c.vals.end()) f = c.vals.emplace(s, T::create(c.nv)).first;
      else {
        c.repeats = true;
        if (s < now && c.last_epoch[s] < c.epoch) c.repeat_across_rebuild = true;
      }
      T::m_update(f->second, vraw, c.nv);
      c.last_epoch[s] = c.epoch;
      if (s >= (was_empty ? c.theta0 : before)) c.screened = true;
    }
  }
  c.types_mask |= 1u << it.type;
  ++c.nvals;
}

template <class T, class Sk>
void check_equal_obs(const Sk& r, const Obs& ref, bool want_ordered, const char* what, uint64_t seed) {
  MT m; m.k.empty = ref.empty; m.k.theta = ref.theta;
  for (const auto& e : ref.e) { m.k.set.push_back(e.first); m.s.emplace(e.first, e.second); }
  Obs o = check_against<T>(r, m, want_ordered, what, seed);
  VF_CHECK(o.theta == ref.theta, "copy-theta", what << ": theta " << o.theta << " vs source " << ref.theta);
}

template <class T>
void check_serde(const typename T::Compact& c, const Obs& ref, int how, uint64_t seed) {
  if (how & 1) {
    std::stringstream ss;
    T::IO::to_stream(c, ss);
    auto d = T::IO::from_stream(ss, seed);
    check_equal_obs<T>(d, ref, false, "stream round trip", seed);
    VF_CHECK(d.is_ordered() == c.is_ordered(), "serde-ordered", "stream round trip changed is_ordered");
  } else {
    auto bytes = T::IO::to_bytes(c);
    auto d = T::IO::from_bytes(bytes.data(), bytes.size(), seed);
    check_equal_obs<T>(d, ref, false, "bytes round trip", seed);
    VF_CHECK(d.is_ordered() == c.is_ordered(), "serde-ordered", "bytes round trip changed is_ordered");
  }
}

// filter result == exactly the entries of the source that satisfy the predicate, theta unchanged
template <class T, class Sk>
void check_filter(const Sk& r, const Obs& src, int sel, const char* what, uint64_t seed) {
  MT m; m.k.theta = src.theta;
  for (const auto& e : src.e) if (pred_ms(sel, e.second)) { m.k.set.push_back(e.first); m.s.emplace(e.first, e.second); }
  m.k.empty = src.empty || (m.k.set.empty() && src.theta == vf::TH_MAX);  // an exact-mode set with nothing left is the empty set
  Obs o = check_against<T>(r, m, false, what, seed);
  VF_CHECK(o.theta == src.theta, "filter-theta", what << ": theta changed " << src.theta << " -> " << o.theta);
  if (m.k.set.size() < src.e.size()) vf::label("filter-dropped");
  if (m.k.set.size() < src.e.size() && src.theta < vf::TH_MAX && !src.empty) vf::label("filter-dropped-estimation");
}

template <class T>
void run_upd(const Case& cs, Trace* tr) {
  uint8_t lg_k = static_cast<uint8_t>(std::min<int64_t>(16, std::max<int64_t>(5, cs.get("lg_k", 5))));
  int rf = static_cast<int>(cs.get("rf", 3) & 3);
  float p = p_from(cs.get("p", 0));
  uint64_t seed = seed_from(cs.get("seed", 0));
  int nv = static_cast<int>(1 + (static_cast<uint64_t>(cs.get("nv", 0)) % 4));
  update_theta_sketch::builder tb;
  tb.set_lg_k(lg_k).set_resize_factor(static_cast<update_theta_sketch::resize_factor>(rf)).set_p(p).set_seed(seed);
  UCtx<T> c{T::make_upd(lg_k, rf, p, seed, nv), tb.build()};
  c.seed = seed; c.theta0 = theta0_from(p); c.k = 1u << lg_k; c.nv = nv;
  VF_CHECK(c.sk.get_lg_k() == lg_k, "config", "lg_k");
  auto snap = [&](const char* after) { Obs o = check_state(c, after); if (tr) tr->push_back(o); return o; };
  snap("build");
  for (const Op& op : cs.ops) {
    if (op.name == "upd") {
      vf::Item it{static_cast<int>(op.uarg(0) % vf::T_NTYPES), op.uarg(1)};
      do_update(c, it, op.uarg(2), static_cast<int>(op.uarg(3) % 6));
      c.history.push_back(it);
    } else if (op.name == "bulk") {
      uint64_t n = op.uarg(0) % 20000;
      int type = static_cast<int>(op.uarg(1) % vf::T_NTYPES);
      if (type == vf::T_U8 || type == vf::T_I8 || type == vf::T_U16 || type == vf::T_I16) type = vf::T_I64;
      vf::Rng r(op.uarg(2));
      for (uint64_t i = 0; i < n; ++i) {
        vf::Item it{type, vf::mix64(0xC13 + (c.fresh++)) | 4096};
        do_update(c, it, r.next(), static_cast<int>(i % 6));
        if (c.history.size() < 100000) c.history.push_back(it);
      }
    } else if (op.name == "old") {
      uint64_t n = op.uarg(0) % 3000;
      if (c.history.empty()) continue;
      vf::Rng r(op.uarg(1));
      for (uint64_t i = 0; i < n; ++i) { const vf::Item it = c.history[r.below(c.history.size())]; do_update(c, it, r.next(), static_cast<int>(i % 6)); }
      vf::label("replay-old-keys");
    } else if (op.name == "trim") {
      uint64_t before = c.sk.get_theta64();
      c.sk.trim(); c.th.trim();
      if (!c.empty) VF_CHECK(c.sk.get_num_retained() <= c.k, "trim-leaves-k", "after trim " << c.sk.get_num_retained() << " > k " << c.k);
      if (!c.empty && c.sk.get_theta64() < before) ++c.epoch;
      vf::label("trim");
    } else if (op.name == "reset") {
      c.sk.reset(); c.th.reset();
      c.vals.clear(); c.last_epoch.clear(); c.empty = true; c.history.clear(); c.epoch = 0;
      vf::label("reset");
    } else if (op.name == "compact") {
      bool ord = op.arg(0) & 1;
      Obs ref = check_state(c, "before compact");
      auto cp = c.sk.compact(ord);
      check_equal_obs<T>(cp, ref, ord, "compact", seed);
      auto c2 = T::compact_copy(cp, true);
      check_equal_obs<T>(c2, ref, true, "compact(compact)", seed);
      auto c3 = T::compact_copy(c.sk, !ord);
      check_equal_obs<T>(c3, ref, !ord, "compact constructed from the update sketch", seed);
      typename T::Compact c4(std::move(c3));
      check_equal_obs<T>(c4, ref, !ord, "move-constructed compact", seed);
      check_serde<T>(cp, ref, static_cast<int>(op.arg(1)), seed);
      vf::label("compact");
    } else if (op.name == "filter") {
      int sel = static_cast<int>(op.uarg(0) % 1000);
      Obs ref = check_state(c, "before filter");
      switch (op.uarg(1) % 4) {
        case 0: check_filter<T>(c.sk.filter(Pred<T>{sel}), ref, sel, "filter of the update sketch", seed); break;
        case 1: check_filter<T>(c.sk.compact(true).filter(Pred<T>{sel}), ref, sel, "filter of the ordered compact sketch", seed); break;
        case 2: check_filter<T>(c.sk.compact(false).filter(Pred<T>{sel}), ref, sel, "filter of the unordered compact sketch", seed); break;
        default: check_filter<T>(T::Base::filter(c.sk, Pred<T>{sel}), ref, sel, "static filter", seed);
      }
      vf::label("filter");
    } else if (op.name == "copy") {
      switch (op.uarg(0) % 3) {
        case 0: { typename T::Upd cp(c.sk); c.sk = std::move(cp); break; }
        case 1: { typename T::Upd mv(std::move(c.sk)); c.sk = std::move(mv); break; }
        default: {
          typename T::Upd other = T::make_upd(static_cast<uint8_t>(5 + op.uarg(1) % 4), 1, 1.0f, seed + 1, nv);
          vf::Item it{vf::T_I64, 77}; feed_kv<T>(other, it, 5, nv, 0);
          other = c.sk;
          check_state(c, "after being copied");
          c.sk = std::move(other);
        }
      }
      vf::label("copy");
    } else continue;
    snap(op.name.c_str());
  }
  Obs fin = snap("end");
  auto cpo = c.sk.compact(true);
  check_equal_obs<T>(cpo, fin, true, "final compact", seed);
  check_serde<T>(cpo, fin, static_cast<int>(cs.ops.size()), seed);
  if (c.rebuilt) vf::label("rebuild");
  if (c.repeats) vf::label("key-repeated");
  if (c.repeat_across_rebuild) vf::label("repeat-across-rebuild");
  if (c.screened && p < 1.0f) vf::label("p-screened");
  if (__builtin_popcount(c.types_mask) >= 3) vf::label("types>=3");
  if (lg_k > 12) vf::label("lg_k>12");
  if (c.repeat_across_rebuild) vf::nontrivial();
}

// ====================================================================================== sub-property "ops"
enum Form { F_UPDATE = 0, F_COMPACT_UNORD, F_COMPACT_ORD, F_DES_BYTES, F_DES_STREAM, F_THETA, F_FILTERED, F_ANOTB_SELF, F_NFORMS };
const int F_PLAIN = 5;  // forms 0..4 hold the same content and may be substituted for each other
const char* form_name(int f) {
  static const char* n[] = {"update", "compact-unord", "compact-ord", "des-bytes", "des-stream", "theta-converted", "filtered", "anotb-self"};
  return n[f];
}

struct Spec { uint32_t start = 0, count = 0; uint8_t lg_k = 5; int p_sel = 0; int form = 0; uint64_t vseed = 0; uint32_t dups = 0; };

template <class T>
struct Input {
  int holder = 0;  // 0 update sketch, 1 compact (family type), 2 compact_tuple_sketch base type
  std::unique_ptr<typename T::Upd> us;
  std::unique_ptr<typename T::Compact> cs;
  std::unique_ptr<typename T::Base> bs;
  std::shared_ptr<const MT> model;
};

// mode 0: const lvalue, 1: non-const lvalue, 2: rvalue
template <class T, class F>
void with_sketch(Input<T>& in, int mode, F&& f) {
  auto go = [&](auto& s) {
    using S = typename std::remove_reference<decltype(s)>::type;
    if (mode == 2) f(std::move(s)); else if (mode == 1) f(s); else f(static_cast<const S&>(s));
  };
  if (in.holder == 0) go(*in.us); else if (in.holder == 1) go(*in.cs); else go(*in.bs);
}

MT filter_model(const MT& src, int sel) {
  MT m; m.k.theta = src.k.theta;
  for (auto h : src.k.set) { const MS& s = src.s.at(h); if (pred_ms(sel, s)) { m.k.set.push_back(h); m.s.emplace(h, s); } }
  m.k.empty = src.k.empty || (m.k.set.empty() && src.k.theta == vf::TH_MAX);
  return m;
}

template <class T>
Input<T> build_input(const Spec& sp, uint64_t seed, int nv, std::shared_ptr<const MT>* cache = nullptr) {
  Input<T> in;
  float p = p_from(sp.p_sel);
  bool need_model = !(cache && *cache);
  auto m = std::make_shared<MT>();
  std::map<uint64_t, MS> vals;
  auto finish_model = [&](uint64_t theta, bool empty) {
    m->k.empty = empty; m->k.theta = theta;
    for (auto& kv : vals) { if (kv.first >= theta) break; m->k.set.push_back(kv.first); m->s.emplace(kv.first, std::move(kv.second)); }
  };
  if (sp.form == F_THETA) {
    update_theta_sketch::builder tb; tb.set_lg_k(sp.lg_k).set_p(p).set_seed(seed);
    auto ts = tb.build();
    typename T::Summary summ = T::const_summary(sp.vseed, nv);
    MS ms = T::observe(summ);
    for (uint32_t i = 0; i < sp.count; ++i) {
      int64_t key = static_cast<int64_t>(sp.start + i);
      ts.update(key);
      if (need_model) { uint64_t h = vf::ref_hash_i64(key, seed).h1 >> 1; if (h != 0) vals.emplace(h, ms); }
    }
    bool ord = (sp.start & 1) != 0;
    switch ((sp.start >> 1) % 3) {
      case 0: in.bs.reset(new typename T::Base(ts, summ, ord)); break;
      case 1: in.bs.reset(new typename T::Base(ts.compact(true), summ, ord)); break;
      default: in.bs.reset(new typename T::Base(ts.compact(false), summ, ord));
    }
    in.holder = 2;
    if (need_model) finish_model(ts.get_theta64(), sp.count == 0);
  } else {
    auto us = T::make_upd(sp.lg_k, static_cast<int>(sp.vseed & 3), p, seed, nv);
    auto one = [&](int64_t key, uint64_t vraw, int mode) {
      T::with_value(vraw, nv, mode, [&](auto&& v) { us.update(key, std::forward<decltype(v)>(v)); });
      if (need_model) {
        uint64_t h = vf::ref_hash_i64(key, seed).h1 >> 1;
        if (h != 0) { auto f = vals.find(h); if (f == vals.end()) f = vals.emplace(h, T::create(nv)).first; T::m_update(f->second, vraw, nv); }
      }
    };
    for (uint32_t i = 0; i < sp.count; ++i) { int64_t key = static_cast<int64_t>(sp.start + i); one(key, vf::mix64(sp.vseed * 0x9E37 + static_cast<uint64_t>(key)), static_cast<int>(i % 6)); }
    if (sp.count > 0) for (uint32_t j = 0; j < sp.dups; ++j) {
      int64_t key = static_cast<int64_t>(sp.start + vf::mix64(sp.vseed + 31 * j) % sp.count);
      one(key, vf::mix64(sp.vseed ^ (0xD00D + j)), static_cast<int>(j % 6));
    }
    if (need_model) finish_model(us.get_theta64(), sp.count == 0);
    switch (sp.form) {
      case F_UPDATE: in.us.reset(new typename T::Upd(std::move(us))); in.holder = 0; break;
      case F_COMPACT_UNORD: in.cs.reset(new typename T::Compact(us.compact(false))); in.holder = 1; break;
      case F_COMPACT_ORD: in.cs.reset(new typename T::Compact(us.compact(true))); in.holder = 1; break;
      case F_DES_BYTES: {
        auto bytes = T::IO::to_bytes(us.compact((sp.start & 1) != 0));
        in.cs.reset(new typename T::Compact(T::IO::from_bytes(bytes.data(), bytes.size(), seed))); in.holder = 1; break;
      }
      case F_DES_STREAM: {
        std::stringstream ss; T::IO::to_stream(us.compact((sp.start & 1) != 0), ss);
        in.cs.reset(new typename T::Compact(T::IO::from_stream(ss, seed))); in.holder = 1; break;
      }
      case F_FILTERED: {
        int sel = static_cast<int>(sp.vseed % 1000);
        if (sp.start & 1) in.bs.reset(new typename T::Base(us.filter(Pred<T>{sel})));
        else in.bs.reset(new typename T::Base(us.compact((sp.start & 2) != 0).filter(Pred<T>{sel})));
        in.holder = 2;
        if (need_model) *m = filter_model(*m, sel);
        break;
      }
      default: {  // X \ X: in estimation mode a non-empty sketch without entries
        in.bs.reset(new typename T::Base(T::anotb(seed, nv, static_cast<const typename T::Upd&>(us), us, (sp.start & 1) != 0)));
        in.holder = 2;
        if (need_model) { MT d; d.k = vf::m_a_not_b(m->k, m->k); *m = d; }
      }
    }
  }
  if (need_model) { in.model = m; if (cache) *cache = m; } else in.model = *cache;
  return in;
}

template <class T>
MT model_union(const std::vector<const MT*>& ins, uint64_t theta0, uint32_t k, bool* policy_applied = nullptr) {
  std::vector<const MSk*> ptrs;
  for (auto* i : ins) ptrs.push_back(&i->k);
  MT r; r.k = vf::m_union(ptrs, theta0, k);
  for (auto h : r.k.set) {
    bool first = true; MS acc;
    for (auto* i : ins) {
      if (i->k.empty) continue;
      auto it = i->s.find(h);
      if (it == i->s.end()) continue;
      if (first) { acc = it->second; first = false; } else { T::m_merge(acc, it->second); if (policy_applied) *policy_applied = true; }
    }
    r.s.emplace(h, std::move(acc));
  }
  return r;
}

template <class T>
struct MInterT {
  vf::MInter ki;
  MT st;  // st.k mirrors ki.st
  bool policy_applied = false;
  void update(const MT& in) {
    bool was_valid = ki.valid, was_empty = ki.st.empty;
    ki.update(in.k);
    if (!was_empty) {
      std::map<uint64_t, MS> ns;
      for (auto h : ki.st.set) {
        const MS& inc = in.s.at(h);
        if (!was_valid) ns.emplace(h, inc);
        else { MS acc = st.s.at(h); T::m_merge(acc, inc); ns.emplace(h, std::move(acc)); policy_applied = true; }
      }
      st.s.swap(ns);
    }
    st.k = ki.st;
  }
};

template <class Sk>
void check_num_values(const Sk& r, int nv, const char* what) {
  if constexpr (c13::has_num_values<Sk>::value) {
    VF_CHECK(r.get_num_values() == nv, "aod-num-values", what << " reports " << int(r.get_num_values()) << " values per key, expected " << nv);
  } else { (void)r; (void)nv; (void)what; }
}

template <class T>
struct HItem { int spec; int mode; std::shared_ptr<typename T::Base> derived; std::shared_ptr<const MT> model; };

template <class T>
void run_ops(const Case& cs, Trace* tr) {
  using Base = typename T::Base;
  uint64_t seed = seed_from(cs.get("seed", 0));
  int nv = static_cast<int>(1 + (static_cast<uint64_t>(cs.get("nv", 0)) % 4));
  uint8_t u_lgk = static_cast<uint8_t>(std::min<int64_t>(12, std::max<int64_t>(5, cs.get("u_lgk", 5))));
  float u_p = p_from(cs.get("u_p", 0));
  int u_rf = static_cast<int>(cs.get("u_rf", 3) & 3);
  uint64_t u_theta0 = theta0_from(u_p);
  uint32_t u_k = 1u << u_lgk;

  std::vector<Spec> specs;
  std::vector<std::shared_ptr<const MT>> models;
  auto fresh = [&](size_t i) { return build_input<T>(specs[i], seed, nv, &models[i]); };
  auto U = T::make_union(u_lgk, u_rf, u_p, seed, nv);
  auto I = std::make_unique<typename T::Inter>(T::make_inter(seed, nv));
  std::vector<HItem<T>> uh, ih;
  MInterT<T> im;
  std::set<int> forms_used;
  bool est_input = false, zero_retained_input = false, any_rvalue = false, any_theta = false, any_policy = false, chained = false;
  int n_ops = 0;

  auto record = [&](const Obs& o) { if (tr) tr->push_back(o); };
  auto note_input = [&](const Input<T>& in, const Spec& sp, int mode) {
    forms_used.insert(sp.form);
    if (!in.model->k.empty && in.model->k.theta < vf::TH_MAX) est_input = true;
    if (!in.model->k.empty && in.model->k.set.empty()) zero_retained_input = true;
    if (mode == 2) any_rvalue = true;
    if (sp.form == F_THETA) any_theta = true;
    vf::label(std::string("form:") + form_name(sp.form));
  };
  auto intact = [&](Input<T>& in, int mode) {
    if (mode == 2) return;
    with_sketch<T>(in, 0, [&](const auto& s) { check_against<T>(s, *in.model, false, "input after being used as an lvalue operand", seed); });
  };
  auto union_model = [&](const std::vector<HItem<T>>& h) {
    std::vector<const MT*> ptrs;
    for (auto& x : h) ptrs.push_back(x.model.get());
    return model_union<T>(ptrs, u_theta0, u_k, &any_policy);
  };
  auto to_base = [](typename T::Compact&& c) { return std::make_shared<Base>(Base(std::move(c))); };

  for (const Op& op : cs.ops) {
    if (op.name == "inp") {
      if (specs.size() >= 6) continue;
      Spec sp;
      sp.start = static_cast<uint32_t>(op.uarg(0) % 3000);
      sp.count = static_cast<uint32_t>(op.uarg(1) % 2500);
      sp.lg_k = static_cast<uint8_t>(5 + op.uarg(2) % 6);
      sp.p_sel = static_cast<int>(op.uarg(3) & 3);
      sp.form = static_cast<int>(op.uarg(4) % F_NFORMS);
      sp.vseed = op.uarg(5);
      sp.dups = static_cast<uint32_t>(op.uarg(6) % 1200);
      specs.push_back(sp); models.emplace_back();
      continue;
    }
    if (specs.empty()) continue;
    ++n_ops;
    if (op.name == "u_upd") {
      size_t i = op.uarg(0) % specs.size(); int mode = static_cast<int>(op.uarg(1) % 3);
      Input<T> in = fresh(i); note_input(in, specs[i], mode);
      with_sketch<T>(in, mode, [&](auto&& s) { U.update(std::forward<decltype(s)>(s)); });
      inst_check("union update");
      intact(in, mode);
      uh.push_back({static_cast<int>(i), mode, nullptr, in.model});
    } else if (op.name == "u_res") {
      bool ord = op.arg(0) & 1;
      MT m = union_model(uh);
      auto r = U.get_result(ord);
      record(check_against<T>(r, m, ord, "union get_result", seed));
      check_num_values(r, nv, "union result");
      vf::label("union-result");
      if (!m.k.empty && m.k.theta < vf::TH_MAX && m.k.set.size() == u_k) vf::label("union-trimmed-to-k");
    } else if (op.name == "u_reset") {
      U.reset(); uh.clear();
      vf::label("union-reset");
    } else if (op.name == "i_upd") {
      size_t i = op.uarg(0) % specs.size(); int mode = static_cast<int>(op.uarg(1) % 3);
      Input<T> in = fresh(i); note_input(in, specs[i], mode);
      with_sketch<T>(in, mode, [&](auto&& s) { I->update(std::forward<decltype(s)>(s)); });
      inst_check("intersection update");
      intact(in, mode);
      im.update(*in.model);
      ih.push_back({static_cast<int>(i), mode, nullptr, in.model});
    } else if (op.name == "i_res") {
      bool ord = op.arg(0) & 1;
      if (!im.ki.valid) {
        VF_CHECK(!I->has_result(), "intersection-has-result", "has_result true before any update");
        bool threw = false;
        try { I->get_result(ord); } catch (const std::invalid_argument&) { threw = true; }
        VF_CHECK(threw, "intersection-undefined", "get_result before update did not throw");
      } else {
        VF_CHECK(I->has_result(), "intersection-has-result", "has_result false after update");
        auto r = I->get_result(ord);
        record(check_against<T>(r, im.st, ord, "intersection get_result", seed));
        check_num_values(r, nv, "intersection result");
        vf::label("intersection-result");
        if (im.st.k.empty) vf::label("intersection-empty");
        if (!im.st.k.set.empty() && ih.size() >= 2) vf::label("intersection-nonempty>=2");
      }
    } else if (op.name == "i_new") {
      I = std::make_unique<typename T::Inter>(T::make_inter(seed, nv)); im = MInterT<T>(); ih.clear();
    } else if (op.name == "anotb") {
      size_t i = op.uarg(0) % specs.size(), j = op.uarg(1) % specs.size(); bool ord = op.arg(2) & 1; int mode = static_cast<int>(op.uarg(3) % 3);
      Input<T> a = fresh(i), b = fresh(j); note_input(a, specs[i], mode); note_input(b, specs[j], 0);
      MT m; m.k = vf::m_a_not_b(a.model->k, b.model->k);
      for (auto h : m.k.set) m.s.emplace(h, a.model->s.at(h));
      bool a_ordered = false;
      with_sketch<T>(a, 0, [&](const auto& s) { a_ordered = s.is_ordered(); });
      with_sketch<T>(b, 0, [&](const auto& sb) {
        with_sketch<T>(a, mode, [&](auto&& sa) {
          Base r = T::anotb(seed, nv, std::forward<decltype(sa)>(sa), sb, ord);
          record(check_against<T>(r, m, ord || a_ordered, "a_not_b", seed));
        });
      });
      inst_check("a_not_b");
      intact(a, mode); intact(b, 0);
      vf::label("a-not-b");
      if (!m.k.set.empty() && m.k.set.size() < a.model->k.set.size()) vf::label("a-not-b-partial");
    } else if (op.name == "u_upd_ires") {  // intersection result presented to the union
      if (!im.ki.valid) continue;
      int mode = (op.arg(0) & 1) ? 2 : 0;
      auto d = to_base(I->get_result(op.arg(1) & 1));
      auto dm = std::make_shared<MT>(im.st);
      if (mode == 2) { Base tmp(*d); U.update(std::move(tmp)); any_rvalue = true; } else U.update(static_cast<const Base&>(*d));
      inst_check("union update with an intersection result");
      check_against<T>(*d, *dm, false, "intersection result after being used as an operand", seed);
      uh.push_back({-1, mode, d, dm});
      chained = true;
    } else if (op.name == "i_upd_ures") {  // union result presented to the intersection
      if (uh.empty()) continue;
      int mode = (op.arg(0) & 1) ? 2 : 0;
      auto dm = std::make_shared<MT>(union_model(uh));
      auto d = to_base(U.get_result(op.arg(1) & 1));
      if (mode == 2) { Base tmp(*d); I->update(std::move(tmp)); any_rvalue = true; } else I->update(static_cast<const Base&>(*d));
      inst_check("intersection update with a union result");
      check_against<T>(*d, *dm, false, "union result after being used as an operand", seed);
      im.update(*dm);
      ih.push_back({-1, mode, d, dm});
      chained = true;
    } else if (op.name == "anotb_res") {  // (union result) \ input j
      if (uh.empty()) continue;
      size_t j = op.uarg(0) % specs.size(); bool ord = op.arg(1) & 1; bool rv = op.arg(2) & 1;
      MT am = union_model(uh);
      Input<T> b = fresh(j); note_input(b, specs[j], 0);
      MT m; m.k = vf::m_a_not_b(am.k, b.model->k);
      for (auto h : m.k.set) m.s.emplace(h, am.s.at(h));
      auto a = U.get_result(op.arg(3) & 1);
      bool a_ordered = a.is_ordered();
      with_sketch<T>(b, 0, [&](const auto& sb) {
        Base r = rv ? T::anotb(seed, nv, std::move(a), sb, ord) : T::anotb(seed, nv, a, sb, ord);
        record(check_against<T>(r, m, ord || a_ordered, "a_not_b of a union result", seed));
      });
      if (rv) any_rvalue = true;
      inst_check("a_not_b of a union result");
      chained = true;
    } else if (op.name == "wrongseed") {
      uint64_t other = seed + 1 + (op.uarg(1) % 5);
      if (vf::ref_seed_hash(other) == vf::ref_seed_hash(seed)) continue;
      auto ws = T::make_upd(5, 3, 1.0f, other, nv);
      auto good = T::make_upd(5, 3, 1.0f, seed, nv);
      // the foreign sketch is in estimation mode half of the time (400 keys at lg_k 5): neither its theta nor its emptiness may leak anywhere
      const int nforeign = ((op.uarg(1) & 8) != 0 || (op.uarg(0) & 4) != 0) ? 400 : 10;
      for (int k = 10; k < nforeign; ++k) T::with_value(static_cast<uint64_t>(k), nv, 0, [&](auto&& v) { ws.update(static_cast<int64_t>(k), std::forward<decltype(v)>(v)); });
      for (int k = 0; k < 10; ++k) {
        T::with_value(static_cast<uint64_t>(k), nv, 0, [&](auto&& v) { ws.update(static_cast<int64_t>(k), std::forward<decltype(v)>(v)); });
        T::with_value(static_cast<uint64_t>(k), nv, 0, [&](auto&& v) { good.update(static_cast<int64_t>(k), std::forward<decltype(v)>(v)); });
      }
      auto wc = ws.compact();
      int which = static_cast<int>(op.uarg(0) % 4);
      bool threw = false;
      try {
        // which 0: the LIVE union of the case refuses it - a refused update is a no-op, every later result of that union is still the model's
        if (which == 0) { U.update(wc); }
        else if (which == 1) { auto i2 = T::make_inter(seed, nv); i2.update(wc); }
        else if (which == 2) T::anotb(seed, nv, wc, good, true);
        else T::anotb(seed, nv, good, wc, true);
      } catch (const std::invalid_argument&) { threw = true; }
      VF_CHECK(threw, "seed-mismatch-refused", "operand with a different seed accepted by operation " << which);
      vf::label("wrong-seed");
    }
  }

  // ---- end of history: final results; recomputation in a permuted order with substituted physical forms
  auto replay = [&](const std::vector<HItem<T>>& perm, vf::Rng& rng, auto&& sink) {
    for (auto& u : perm) {
      if (u.spec < 0) { sink(static_cast<const Base&>(*u.derived)); continue; }
      Spec sp = specs[u.spec];
      if (sp.form < F_PLAIN) sp.form = static_cast<int>(rng.below(F_PLAIN));
      Input<T> in = build_input<T>(sp, seed, nv, &models[u.spec]);
      with_sketch<T>(in, static_cast<int>(rng.below(3)), sink);
    }
  };
  if (!uh.empty()) {
    MT m = union_model(uh);
    auto r = U.get_result(true);
    Obs o1 = check_against<T>(r, m, true, "final union", seed);
    record(o1);
    vf::Rng rng(static_cast<uint64_t>(cs.get("perm", 1)) + 77);
    std::vector<HItem<T>> perm = uh;
    for (size_t i = perm.size(); i > 1; --i) std::swap(perm[i - 1], perm[rng.below(i)]);
    auto U2 = T::make_union(u_lgk, static_cast<int>(rng.below(4)), u_p, seed, nv);
    replay(perm, rng, [&](auto&& s) { U2.update(std::forward<decltype(s)>(s)); });
    MT m2 = union_model(perm);
    auto r2 = U2.get_result(true);
    Obs o2 = check_against<T>(r2, m2, true, "union recomputed in a permuted order", seed);
    VF_CHECK(o1.empty == o2.empty && o1.e.size() == o2.e.size(), "union-order-independence", "union key set depends on order/form: " << o1.e.size() << " vs " << o2.e.size() << " entries");
    for (size_t i = 0; i < o1.e.size(); ++i) VF_CHECK(o1.e[i].first == o2.e[i].first, "union-order-independence", "union key set depends on order/form at sorted index " << i);
    if (!o1.empty) VF_CHECK(o1.theta == o2.theta, "union-order-independence", "union theta depends on order/form: " << o1.theta << " vs " << o2.theta);
    if (T::commutative) VF_CHECK(o1.e == o2.e, "union-order-independence", "summaries of a commutative policy depend on order/form");
    if (perm.size() >= 2) vf::label("union-permuted");
  }
  if (!ih.empty()) {
    auto r = I->get_result(true);
    Obs o1 = check_against<T>(r, im.st, true, "final intersection", seed);
    record(o1);
    vf::Rng rng(static_cast<uint64_t>(cs.get("perm", 1)) + 99);
    std::vector<HItem<T>> perm = ih;
    for (size_t i = perm.size(); i > 1; --i) std::swap(perm[i - 1], perm[rng.below(i)]);
    auto I2 = T::make_inter(seed, nv);
    MInterT<T> im2;
    replay(perm, rng, [&](auto&& s) { I2.update(std::forward<decltype(s)>(s)); });
    for (auto& u : perm) im2.update(*u.model);
    auto r2 = I2.get_result(true);
    Obs o2 = check_against<T>(r2, im2.st, true, "intersection recomputed in a permuted order", seed);
    VF_CHECK(o1.e.size() == o2.e.size(), "intersection-order-independence", "intersection key set depends on order/form: " << o1.e.size() << " vs " << o2.e.size());
    for (size_t i = 0; i < o1.e.size(); ++i) VF_CHECK(o1.e[i].first == o2.e[i].first, "intersection-order-independence", "intersection key set depends on order/form at sorted index " << i);
    // the exact-empty representation (empty, theta = 1) vs (non-empty, theta < 1, no entries) may differ by order: both are the empty set (DESIGN C02)
    if (!o1.e.empty()) VF_CHECK(o1.theta == o2.theta && o1.empty == o2.empty, "intersection-order-independence", "intersection theta/emptiness depends on order/form");
    if (T::commutative) VF_CHECK(o1.e == o2.e, "intersection-order-independence", "summaries of a commutative policy depend on order/form");
    if (perm.size() >= 2) vf::label("intersection-permuted");
    if (im.policy_applied) any_policy = true;
  }
  if (est_input) vf::label("estimation-input");
  if (zero_retained_input) vf::label("zero-retained-nonempty-input");
  if (forms_used.size() >= 2) vf::label("forms>=2");
  if (any_rvalue) vf::label("rvalue-operand");
  if (any_theta) vf::label("theta-operand");
  if (any_policy) vf::label("policy-applied");
  if (im.policy_applied) vf::label("intersection-policy-applied");
  if (chained) vf::label("chained-results");
  if (any_rvalue && any_theta && n_ops > 0) vf::nontrivial();
}

// ====================================================================================== dispatch
void compare_traces(const Trace& a, const Trace& b) {
  VF_CHECK(a.size() == b.size(), "aod-vs-generic", "array_of_doubles produced " << a.size() << " observations, generic tuple sketch over vector<double> " << b.size());
  for (size_t i = 0; i < a.size(); ++i) {
    VF_CHECK(a[i].empty == b[i].empty && a[i].theta == b[i].theta && a[i].e.size() == b[i].e.size(), "aod-vs-generic",
             "observation " << i << ": array_of_doubles (empty " << a[i].empty << ", theta " << a[i].theta << ", " << a[i].e.size() << " entries) vs generic (empty " << b[i].empty << ", theta " << b[i].theta << ", " << b[i].e.size() << " entries)");
    for (size_t j = 0; j < a[i].e.size(); ++j) {
      VF_CHECK(a[i].e[j].first == b[i].e[j].first, "aod-vs-generic", "observation " << i << ": key differs at sorted index " << j);
      VF_CHECK(a[i].e[j].second == b[i].e[j].second, "aod-vs-generic", "observation " << i << " key " << a[i].e[j].first << ": columns " << ms_str(a[i].e[j].second) << " vs generic " << ms_str(b[i].e[j].second));
    }
  }
}

template <template <class> class Runner>
void dispatch(const Case& cs) {
  c13::IS() = c13::InstStats();
  int st = static_cast<int>(static_cast<uint64_t>(cs.get("st", 0)) % 4);
  switch (st) {
    case 0: Runner<c13::TrSum>::run(cs, nullptr); vf::label("st:sum"); break;
    case 1: Runner<c13::TrRec>::run(cs, nullptr); vf::label("st:rec"); break;
    case 2: {
      Runner<c13::TrInst>::run(cs, nullptr);
      vf::label("st:inst");
      inst_check("end of case");
      VF_CHECK(c13::IS().live == 0, "summary-lifetime", "constructions minus destructions of the instrumented summary = " << c13::IS().live << " after every sketch was destroyed");
      vf::count("inst-copies", c13::IS().copies); vf::count("inst-moves", c13::IS().moves);
      break;
    }
    default: {
      Trace a, b;
      Runner<c13::TrAod>::run(cs, &a);
      std::set<std::string> keep = vf::stats().case_labels; bool nt = vf::stats().case_nontrivial;
      Runner<c13::TrVec>::run(cs, &b);
      vf::stats().case_labels = keep; vf::stats().case_nontrivial = nt;
      compare_traces(a, b);
      vf::label("st:aod"); vf::label("aod-columns:" + std::to_string(1 + static_cast<uint64_t>(cs.get("nv", 0)) % 4));
    }
  }
}
template <class T> struct RunUpd { static void run(const Case& cs, Trace* tr) { run_upd<T>(cs, tr); } };
template <class T> struct RunOps { static void run(const Case& cs, Trace* tr) { run_ops<T>(cs, tr); } };
void prop_upd(const Case& cs) { dispatch<RunUpd>(cs); }
void prop_ops(const Case& cs) { dispatch<RunOps>(cs); }

// ====================================================================================== generators
rc::Gen<Op> opn(const std::string& n, std::vector<rc::Gen<int64_t>> gs) {
  return rc::gen::exec([n, gs]() { Op o; o.name = n; for (const auto& g : gs) o.a.push_back(*g); return o; });
}

rc::Gen<Case> gen_upd() {
  using namespace vf;
  auto small_key = rc::gen::weightedOneOf<int64_t>({{2, raw_gen()}, {3, range(4096, 4096 + 40)}});  // small pool: repeated keys
  auto opg = choose({
      {6, op4("upd", range(0, T_NTYPES - 1), small_key, range(0, 1 << 20), range(0, 5))},
      {3, op3("bulk", rc::gen::withSize([](int s) { return range(0, 40 + 40 * s); }), range(0, T_NTYPES - 1), range(0, 1 << 20))},
      {2, op3("bulk", range(0, 300), range(0, T_NTYPES - 1), range(0, 1 << 20))},
      {3, op2("old", range(1, 400), range(0, 1 << 20))},
      {1, rc::gen::map(range(0, 99), [](int64_t x) { return x < 20 ? Op{"reset", {}} : Op{"trim", {}}; })},
      {1, op2("compact", range(0, 1), range(0, 1))},
      {2, op2("filter", range(0, 999), range(0, 3))},
      {1, op2("copy", range(0, 2), range(0, 3))},
  });
  return make_case({{"st", range(0, 3)},
                    {"nv", range(0, 3)},
                    {"lg_k", rc::gen::weightedOneOf<int64_t>({{16, range(5, 7)}, {6, range(8, 10)}, {2, range(11, 12)}, {1, range(13, 16)}})},
                    {"rf", range(0, 3)},
                    {"p", rc::gen::weightedOneOf<int64_t>({{3, rc::gen::just<int64_t>(0)}, {2, range(1, 3)}})},
                    {"seed", rc::gen::weightedOneOf<int64_t>({{2, rc::gen::just<int64_t>(0)}, {1, range(1, 1 << 20)}})}},
                   oplist(opg, 2, 0.35));
}

rc::Gen<Case> gen_ops() {
  using namespace vf;
  auto inp = opn("inp", {range(0, 2999), rc::gen::weightedOneOf<int64_t>({{1, range(0, 3)}, {3, range(4, 200)}, {4, range(200, 2499)}}), range(0, 5), range(0, 3),
                         rc::gen::weightedOneOf<int64_t>({{5, range(0, F_PLAIN - 1)}, {3, rc::gen::just<int64_t>(F_THETA)}, {2, rc::gen::just<int64_t>(F_FILTERED)}, {1, rc::gen::just<int64_t>(F_ANOTB_SELF)}}),
                         range(0, 1 << 20), rc::gen::weightedOneOf<int64_t>({{1, rc::gen::just<int64_t>(0)}, {2, range(1, 1199)}})});
  auto hist = choose({
      {6, op2("u_upd", range(0, 5), range(0, 2))},
      {2, op1("u_res", range(0, 1))},
      {1, rc::gen::map(range(0, 9), [](int64_t x) { return x < 3 ? Op{"u_reset", {}} : Op{"i_new", {}}; })},
      {6, op2("i_upd", range(0, 5), range(0, 2))},
      {2, op1("i_res", range(0, 1))},
      {4, op4("anotb", range(0, 5), range(0, 5), range(0, 1), range(0, 2))},
      {1, op2("u_upd_ires", range(0, 1), range(0, 1))},
      {1, op2("i_upd_ures", range(0, 1), range(0, 1))},
      {1, op4("anotb_res", range(0, 5), range(0, 1), range(0, 1), range(0, 1))},
      {1, op2("wrongseed", range(0, 7), range(0, 15))},
  });
  auto ops = rc::gen::map(rc::gen::tuple(rc::gen::mapcat(range(2, 5), [inp](int64_t n) { return rc::gen::container<std::vector<Op>>(static_cast<size_t>(n), inp); }), oplist(hist, 3, 0.2)),
                          [](std::tuple<std::vector<Op>, std::vector<Op>> t) { auto v = std::get<0>(t); auto& h = std::get<1>(t); v.insert(v.end(), h.begin(), h.end()); return v; });
  return make_case({{"st", range(0, 3)},
                    {"nv", range(0, 3)},
                    {"seed", rc::gen::weightedOneOf<int64_t>({{2, rc::gen::just<int64_t>(0)}, {1, range(1, 1000)}})},
                    {"u_lgk", rc::gen::weightedOneOf<int64_t>({{3, range(5, 6)}, {1, range(7, 12)}})},
                    {"u_p", rc::gen::weightedOneOf<int64_t>({{3, rc::gen::just<int64_t>(0)}, {1, range(1, 3)}})},
                    {"u_rf", range(0, 3)},
                    {"perm", range(0, 1 << 20)}},
                   ops);
}

}  // namespace

int main(int argc, char** argv) {
  std::vector<vf::Sub> subs;
  subs.push_back({"upd", gen_upd, prop_upd, 1.0});
  subs.push_back({"ops", gen_ops, prop_ops, 1.0});
  return vf::main_driver(argc, argv, "C13", "c13_tuple",
                         "sub upd: case = summary family (double sum / order-recording vector / instrumented move-aware / array_of_doubles 1..4 columns vs generic "
                         "vector<double>) + builder config + history of typed (key,value) updates, bulk, replays of old keys, trim, reset, compact, filter, copy, "
                         "serialize round trips; after every op the sketch is compared with a real theta sketch of the same configuration (keys, theta, emptiness) "
                         "and with the reference-hash model hash -> fold of all values offered; non-trivial = a retained key received values both before and after a "
                         "rebuild. sub ops: case = 2..5 input sketches (key range, repeated keys, lg_k, p, form: update/compact/deserialized/converted theta sketch/"
                         "filtered/set-operation result) + history over one union, one intersection, a_not_b, chained results, wrong-seed operands, lvalue/rvalue "
                         "presentation; every result compared key-for-key and summary-for-summary with the set-algebra + presentation-order fold model, lvalue inputs "
                         "re-checked intact, final results recomputed in permuted order with substituted forms; non-trivial = at least one rvalue operand and one "
                         "converted theta operand; distinct = distinct case text",
                         subs);
}
