#!/usr/bin/env python3
"""tools/c11_survey.py <outdir> <workers> <cases-per-worker> [families e.g. 3,4]  — development aid: runs the C11 harness in survey
mode (every finding is logged, none stops the run) against $VERIF_REPO (default /repo) and prints the distinct finding keys."""
import subprocess, os, sys, glob
sys.path.insert(0, '/verif/engine')
import vfengine
exe = vfengine.build('c11_faults', 'asan')
out = sys.argv[1]
os.makedirs(out, exist_ok=True)
for f in glob.glob(out + '/survey.*.txt'):
    os.remove(f)
procs = []
for w in range(int(sys.argv[2])):
    env = vfengine.sanitizer_env()
    env['ASAN_OPTIONS'] += ':max_allocation_size_mb=256'
    env.update(VF_SURVEY='1', VF_CASES=sys.argv[3], VF_SEED=str(100 + w), VF_OUT=out, VF_WORKER=str(w), VF_FAULT_CPU_S='3')
    if len(sys.argv) > 4:
        env['VF_FAMS'] = sys.argv[4]
    procs.append(subprocess.Popen([exe], env=env, stdout=subprocess.DEVNULL, stderr=subprocess.DEVNULL))
for p in procs:
    p.wait()
keys = {}
for f in glob.glob(out + '/survey.*.txt'):
    for line in open(f, errors='replace'):
        if line.startswith('C11|'):
            k, _, msg = line.partition('\t')
            keys.setdefault(k, msg.strip()[:300])
for k in sorted(keys):
    print(k, '\n      e.g.', keys[k])
print(len(keys), 'distinct finding keys')
