// C11 — truncated or corrupted images are rejected safely, never read out of bounds (fault enumeration).
// For every generated valid image (22 concrete sketch types, all format variants) the harness injects
//   (i)  every strict prefix length 0..size-1 on the bytes path (exact-size heap block), the stream path (stream that ends
//        there) and the wrap paths (theta, Bloom; the wrapped object is used afterwards), and
//   (ii) every byte of the documented preamble x {0x00, 0xFF, b^1, b^0x80, b+1, b-1} on both paths,
// inside a forked child so that a sanitizer report, a signal, an over-large allocation or an endless loop is observed by the
// parent, classified by a structured signature, and the enumeration resumes behind the fault.
// Oracle: prefix -> exception, or the very same sketch (padding only); corruption -> exception or a usable sketch;
// never a sanitizer report / signal / timeout; LeakSanitizer clean after the rejections.
#include "vf/families.hpp"
#include "vf/c11_preamble.hpp"
#include <sys/mman.h>
#include <sys/wait.h>
#include <sys/resource.h>
#include <sys/time.h>
#include <signal.h>
#include <sanitizer/lsan_interface.h>

using vf::Case; using vf::Op;
namespace fam = vf::fam;

namespace {

enum Outcome { O_EXCEPTION = 0, O_SAME, O_USABLE, O_USABLE_THROWS_LATER, O_ACCEPT_DIFFERENT, O_N };
const char* outcome_name(int o) { static const char* n[] = {"rejected", "same-sketch", "usable-sketch", "usable-then-exception", "ACCEPTED-DIFFERENT"}; return n[o]; }

struct Shared {
  volatile uint64_t next;           // index of the fault being executed
  volatile uint64_t done;           // 1 when the child finished the whole list
  volatile uint64_t outcomes[O_N];
  volatile uint64_t accept_diff_first;  // first fault index that returned a different sketch for a prefix
  volatile uint64_t have_accept_diff;
  volatile uint64_t leak;
};

struct Fault { int path; int kind; size_t pos; uint8_t val; };  // path 0 bytes, 1 stream, 2 wrap ; kind 0 prefix (pos = length), 1 corrupt (pos, val)
const char* path_name(int p) { return p == 0 ? "bytes" : p == 1 ? "stream" : "wrap"; }

std::string sig_from_report(const std::string& text) {
  std::string kind = "crash";
  size_t a = text.find("ERROR: AddressSanitizer: ");
  if (a != std::string::npos) {
    size_t s = a + 25, e = text.find_first_of(" \n", s);
    kind = text.substr(s, e - s);
    if (text.find("READ of size", a) != std::string::npos) kind += "-read"; else if (text.find("WRITE of size", a) != std::string::npos) kind += "-write";
  } else if ((a = text.find("runtime error: ")) != std::string::npos) {
    size_t e = text.find('\n', a); std::string m = text.substr(a + 15, std::min<size_t>(50, e - a - 15));
    // numbers and addresses (0x...) are not part of the signature
    { std::string t; for (size_t i = 0; i < m.size(); ++i) { if (m[i] == '0' && i + 1 < m.size() && m[i + 1] == 'x') { i += 2; while (i < m.size() && isxdigit(static_cast<unsigned char>(m[i]))) ++i; --i; t += 'N'; } else t += m[i]; } m = t; }
    for (auto& ch : m) if (isdigit(static_cast<unsigned char>(ch))) ch = 'N';
    std::string sq; for (char ch : m) { if (ch == ' ') ch = '_'; if (!(ch == 'N' && !sq.empty() && sq.back() == 'N')) sq += ch; }
    kind = "ubsan:" + sq;
  } else if (text.find("LeakSanitizer") != std::string::npos) kind = "leak";
  std::string frame;
  size_t pos = 0;
  while ((pos = text.find(" in ", pos)) != std::string::npos) {
    size_t eol = text.find('\n', pos);
    std::string line = text.substr(pos + 4, eol - pos - 4);
    pos = eol == std::string::npos ? text.size() : eol;
    size_t sp = line.rfind(' ');
    if (sp == std::string::npos) continue;
    std::string file = line.substr(sp + 1), fn = line.substr(0, sp);
    if (file.find("/include/") == std::string::npos || file.find("/usr/") == 0 || file.find("/harness/") != std::string::npos) continue;
    size_t par = fn.find('('); if (par != std::string::npos) fn = fn.substr(0, par);
    std::string clean; int depth = 0; for (char ch : fn) { if (ch == '<') ++depth; else if (ch == '>') --depth; else if (!depth) clean += ch; }
    size_t cc = clean.rfind("::"); if (cc != std::string::npos) clean = clean.substr(cc + 2);
    size_t sl = file.rfind('/'); size_t col = file.find(':', sl);
    frame = file.substr(sl + 1, col - sl - 1) + ":" + clean;
    break;
  }
  return kind + "|" + frame;
}

// executes one fault inside the child
void do_fault(fam::Obj& proto, int f, int variant, const fam::Bytes& img, const std::string& full_obs, const Fault& ft, Shared* sh) {
  fam::Bytes data;
  if (ft.kind == 0) data.assign(img.begin(), img.begin() + ft.pos);
  else { data = img; data[ft.pos] = ft.val; }
  int outcome = O_EXCEPTION;
  try {
    fam::P r; std::string wrapped;
    bool have_wrapped = false;
    if (ft.path == 0) {
      uint8_t* blk = static_cast<uint8_t*>(malloc(data.size() ? data.size() : 1));
      if (!data.empty()) std::memcpy(blk, data.data(), data.size());
      try { r = proto.from_bytes(blk, data.size()); } catch (...) { free(blk); throw; }
      free(blk);
    } else if (ft.path == 1) {
      std::istringstream is(std::string(data.begin(), data.end()), std::ios::binary);
      r = proto.from_stream(is);
    } else {
      fam::Bytes exact(data); exact.shrink_to_fit();
      wrapped = proto.extra_view(exact); have_wrapped = true;
    }
    // something was returned
    if (ft.kind == 0) {
      std::string o = have_wrapped ? wrapped : r->observe();
      if (o == full_obs) outcome = O_SAME;
      else { outcome = O_ACCEPT_DIFFERENT; if (!sh->have_accept_diff) { sh->have_accept_diff = 1; sh->accept_diff_first = sh->next; } }
    } else {
      outcome = O_USABLE;
      if (!have_wrapped) {
        try { r->observe(); Op op{"u", {5, 0, 1, 1}}; if (f != fam::F_AOD) r->cont(op); r->bytes(0, variant); }
        catch (const std::exception&) { outcome = O_USABLE_THROWS_LATER; }
      }
    }
  } catch (const std::exception&) {
    outcome = O_EXCEPTION;
  }
  sh->outcomes[outcome]++;
}

struct Finding { std::string key, msg; };

void prop(const Case& cs) {
  int f = static_cast<int>(cs.get("fam", 0) % fam::NFAM);
  const char* fn = fam::name(f);
  {  // development aid: VF_FAMS="3,4" restricts a run to some families (never set by MANIFEST commands)
    static const std::string only = vf::env("VF_FAMS");
    if (!only.empty() && ("," + only + ",").find("," + std::to_string(f) + ",") == std::string::npos) return;
  }
  fam::P obj0 = fam::make(cs);
  int nv = obj0->variants();
  int variant = static_cast<int>(cs.get("variant", 0) % nv);
  fam::P obj = (variant == nv - 1) ? std::move(obj0) : fam::make(cs);
  fam::Bytes img = obj->bytes(0, variant);
  std::string full_obs = obj->observe();
  bool has_wrap = !obj->extra_view(img).empty();
  if (img.size() > 2000000) { vf::label("image-too-large-skipped"); return; }
  // fault list
  std::vector<Fault> faults;
  uint64_t excluded_large_config = 0;
  if (img.size() <= 20000) {
    for (int path = 0; path < (has_wrap ? 3 : 2); ++path) for (size_t L = 0; L < img.size(); ++L) faults.push_back(Fault{path, 0, L, 0});
  } else {
    // large images (thousands of items in one level): the first and last 96 prefix lengths and a case-derived sample of 400 in between, per path
    std::set<size_t> lens;
    for (size_t L = 0; L < 96; ++L) { lens.insert(L); lens.insert(img.size() - 1 - L); }
    vf::Rng pr(vf::mix64(static_cast<uint64_t>(cs.get("rnd", 1)) * 977 + img.size()));
    while (lens.size() < 592) lens.insert(static_cast<size_t>(pr.below(img.size())));
    for (int path = 0; path < (has_wrap ? 3 : 2); ++path) for (size_t L : lens) faults.push_back(Fault{path, 0, L, 0});
    vf::label("large-image-sampled-prefixes");
  }
  size_t pre = preamble_len(f, img);
  for (int path = 0; path < 2; ++path) for (size_t p = 0; p < pre; ++p) {
    uint8_t b = img[p];
    uint8_t reps[] = {0x00, 0xFF, static_cast<uint8_t>(b ^ 1), static_cast<uint8_t>(b ^ 0x80), static_cast<uint8_t>(b + 1), static_cast<uint8_t>(b - 1)};
    std::set<uint8_t> seen;
    for (uint8_t v : reps) if (v != b && seen.insert(v).second) {
      // Excluded by construction (counted): a changed configuration field that turns the image into a VALID image of a
      // legitimately huge sketch - the library is documented to allocate such a sketch (count-min: up to 2^30 counters;
      // density: any dimension), so the allocation is not "unbounded" in the sense of the property, and executing it
      // would only exhaust the sandbox. Only images that stay self-consistent are excluded (empty images).
      fam::Bytes m = img; m[p] = v;
      bool empty_image = img.size() <= 16;
      if (f == fam::F_CM && empty_image && m.size() >= 13 && static_cast<uint64_t>(vf::ref_le32(m.data() + 8)) * m[12] * 8 > (48ull << 20)) { ++excluded_large_config; continue; }
      if ((f == fam::F_VO_I || f == fam::F_VO_S || f == fam::F_VOU || f == fam::F_EBPPS) && img.size() <= 8 && m.size() >= 8 && vf::ref_le32(m.data() + 4) > 65536) { ++excluded_large_config; continue; }  // empty image, k field
      // VarOpt in warm-up mode (n <= k, preamble longs 3): a larger k leaves the image self-consistent, and a sketch of that k with
      // resize factor X1 allocates k+1 slots up front exactly as its constructor does
      if ((f == fam::F_VO_I || f == fam::F_VO_S) && p >= 4 && p <= 7 && (img[0] & 0x3f) == 3 && vf::ref_le32(m.data() + 4) > 65536) { ++excluded_large_config; continue; }
      if (f == fam::F_CPC && p == 3 && m[3] >= 20 && m[3] <= 26) { ++excluded_large_config; continue; }  // another valid lg_k: observing such a sketch (validate) builds a 2^lg_k-row matrix
      if (f == fam::F_BLOOM && img.size() <= 24 && p >= 16 && m.size() >= 20 && vf::ref_le32(m.data() + 16) > (1u << 20)) { ++excluded_large_config; continue; }  // empty image, huge bit-array length: valid huge empty filter
      if (f == fam::F_DENS && empty_image && m.size() >= 12 && vf::ref_le32(m.data() + 8) > 4096) { ++excluded_large_config; continue; }
      faults.push_back(Fault{path, 1, p, v});
    }
  }
  vf::count("excluded:valid-image-of-a-huge-configuration", excluded_large_config);
  static Shared* sh = static_cast<Shared*>(mmap(nullptr, sizeof(Shared), PROT_READ | PROT_WRITE, MAP_SHARED | MAP_ANONYMOUS, -1, 0));
  std::memset(const_cast<uint64_t*>(&sh->next), 0, sizeof(Shared));
  std::string errfile = vf::env("VF_OUT", "/tmp") + "/c11.child." + vf::env("VF_WORKER", "0") + ".err";
  std::vector<Finding> findings;
  std::set<std::string> seen_keys;
  uint64_t start = 0; int restarts = 0;
  long cpu_limit = vf::env_long("VF_FAULT_CPU_S", 20);
  while (start < faults.size() && restarts < 400) {
    fflush(stdout); fflush(stderr);
    pid_t pid = fork();
    if (pid == 0) {
      int fd = open(errfile.c_str(), O_CREAT | O_WRONLY | O_TRUNC, 0644);
      if (fd >= 0) { dup2(fd, 2); close(fd); }
      for (uint64_t i = start; i < faults.size(); ++i) {
        sh->next = i;
        struct itimerval tv; tv.it_interval.tv_sec = 0; tv.it_interval.tv_usec = 0; tv.it_value.tv_sec = cpu_limit; tv.it_value.tv_usec = 0;
        setitimer(ITIMER_VIRTUAL, &tv, nullptr);   // CPU-time budget per fault: an endless loop ends in SIGVTALRM
        do_fault(*obj, f, variant, img, full_obs, faults[i], sh);
      }
      struct itimerval off; std::memset(&off, 0, sizeof off); setitimer(ITIMER_VIRTUAL, &off, nullptr);
      sh->next = faults.size();
#ifdef VF_ASAN
      if (__lsan_do_recoverable_leak_check()) sh->leak = 1;
#endif
      sh->done = 1;
      _exit(0);
    }
    int status = 0;
    waitpid(pid, &status, 0);
    if (sh->done) break;
    // the child died at fault sh->next
    uint64_t at = sh->next;
    ++restarts;
    std::string report;
    { std::ifstream in(errfile); std::stringstream ss; ss << in.rdbuf(); report = ss.str(); }
    std::string sig;
    if (WIFSIGNALED(status) && WTERMSIG(status) == SIGVTALRM) sig = "endless-loop|cpu>" + std::to_string(cpu_limit) + "s";
    else if (WIFSIGNALED(status) && report.find("ERROR: ") == std::string::npos && report.find("runtime error") == std::string::npos) sig = "signal-" + std::to_string(WTERMSIG(status)) + "|";
    else sig = sig_from_report(report);
    const Fault& ft = at < faults.size() ? faults[at] : faults.back();
    std::string key = std::string("C11|") + fn + "|" + path_name(ft.path) + "|" + (ft.kind == 0 ? "truncate" : "corrupt") + "|" + sig;
    if (seen_keys.insert(key).second) {
      std::ostringstream m;
      m << fn << " variant " << variant << " (" << img.size() << "-byte image), " << path_name(ft.path) << " path, ";
      if (ft.kind == 0) m << "prefix of " << ft.pos << " bytes"; else m << "preamble byte " << ft.pos << " 0x" << std::hex << int(img[ft.pos]) << " -> 0x" << int(ft.val) << std::dec;
      m << ": " << sig;
      size_t e = report.find("ERROR: "); if (e == std::string::npos) e = report.find("runtime error");
      if (e != std::string::npos) m << " :: " << report.substr(e, 300);
      findings.push_back(Finding{key, m.str()});
    }
    start = at + 1;
  }
  // evidence counters
  uint64_t nfaults = faults.size();
  vf::count("faults", nfaults);
  for (int o = 0; o < O_N; ++o) vf::count(std::string("outcome:") + outcome_name(o), sh->outcomes[o]);
  vf::count("child-deaths", static_cast<uint64_t>(restarts));
  vf::label(std::string("family:") + fn);
  if (img.size() > 8) vf::nontrivial();
  // verdicts
  static const bool survey = !vf::env("VF_SURVEY").empty();   // development aid: log every finding instead of stopping at the first
  auto survey_log = [&](const std::string& key, const std::string& msg) {
    std::ofstream o(vf::env("VF_OUT", "/tmp") + "/survey." + vf::env("VF_WORKER", "0") + ".txt", std::ios::app);
    o << key << "\t" << msg.substr(0, 400) << "\n";
  };
  for (const auto& fd : findings) {
    if (vf::known_keys().count(fd.key)) { vf::stats().known_hits[fd.key]++; continue; }
    if (survey) { survey_log(fd.key, fd.msg); continue; }
    vf::fail("fault-crash", fd.msg, fd.key);
  }
  if (sh->have_accept_diff) {
    const Fault& ft = faults[sh->accept_diff_first];
    std::string key = std::string("C11|") + fn + "|" + path_name(ft.path) + "|truncate|accepted-as-a-different-sketch";
    std::ostringstream m; m << fn << " variant " << variant << " (" << img.size() << "-byte image), " << path_name(ft.path) << " path: a prefix of " << ft.pos << " bytes is accepted and yields a different sketch (" << sh->outcomes[O_ACCEPT_DIFFERENT] << " such prefixes)";
    if (vf::known_keys().count(key)) vf::stats().known_hits[key]++; else if (survey) survey_log(key, m.str()); else vf::fail("truncated-accepted", m.str(), key);
  }
  if (sh->leak) {
    std::string key = std::string("C11|") + fn + "|leak-after-rejections";
    if (vf::known_keys().count(key)) vf::stats().known_hits[key]++; else if (survey) survey_log(key, "leak"); else vf::fail("leak", std::string(fn) + ": LeakSanitizer reports leaked memory after the fault list of this image (rejected images must not leak)", key);
  }
  VF_CHECK(restarts < 400, "too-many-deaths", fn << ": child died more than 400 times for one image");
}

rc::Gen<Case> gen() {
  using namespace vf;
  // small states: images up to a few KiB with every structural region present
  auto nGen = rc::gen::weightedOneOf<int64_t>({{8, range(0, 1)}, {8, range(2, 12)}, {16, range(13, 120)}, {8, range(120, 600)}, {1, range(3000, 5999)}});
  auto u = rc::gen::map(rc::gen::tuple(nGen, range(0, 7), range(0, 1 << 20), range(0, 63)), [](std::tuple<int64_t, int64_t, int64_t, int64_t> t) { return Op{"u", {std::get<0>(t), std::get<1>(t), std::get<2>(t), std::get<3>(t)}}; });
  auto m = rc::gen::map(rc::gen::tuple(nGen, range(0, 7), range(0, 1 << 20), range(0, 63)), [](std::tuple<int64_t, int64_t, int64_t, int64_t> t) { return Op{"m", {std::get<0>(t), std::get<1>(t), std::get<2>(t), std::get<3>(t)}}; });
  auto mk = rc::gen::map(rc::gen::tuple(nGen, range(0, 7), range(0, 1 << 20), range(0, 63)), [](std::tuple<int64_t, int64_t, int64_t, int64_t> t) { return Op{"mk", {std::get<0>(t), std::get<1>(t), std::get<2>(t), std::get<3>(t)}}; });
  auto ops = oplist(choose({{6, u}, {1, m}, {1, mk}}), 1, 0.03);
  return make_case({{"fam", range(0, fam::NFAM - 1)}, {"a", range(0, 1 << 16)}, {"b", range(0, 1 << 16)}, {"c", range(0, 1 << 16)},
                    {"seed", rc::gen::weightedOneOf<int64_t>({{3, rc::gen::just<int64_t>(0)}, {1, range(1, 1000)}})}, {"rnd", range(1, 1 << 20)}, {"variant", range(0, 1)}, {"t", range(0, 1)}, {"ls", range(0, 1)}, {"bs", range(0, 1)}, {"hp", rc::gen::weightedOneOf<int64_t>({{2, rc::gen::just<int64_t>(0)}, {1, range(1, 7)}})},
                    {"bk", rc::gen::weightedOneOf<int64_t>({{6, rc::gen::just<int64_t>(0)}, {1, rc::gen::just<int64_t>(1)}})}},
                   ops);
}
// large states of the quantile families with a large k: one level holds thousands of items, the image has tens of kilobytes
rc::Gen<Case> gen_big() {
  using namespace vf;
  auto nGen = range(2500, 5999);
  auto u = rc::gen::map(rc::gen::tuple(nGen, range(0, 7), range(0, 1 << 20), range(0, 63)), [](std::tuple<int64_t, int64_t, int64_t, int64_t> t) { return Op{"u", {std::get<0>(t), std::get<1>(t), std::get<2>(t), std::get<3>(t)}}; });
  auto ops = rc::gen::mapcat(range(1, 3), [u](int64_t n) { return rc::gen::container<std::vector<Op>>(static_cast<size_t>(n), u); });
  return make_case({{"fam", range(fam::F_KLL_F, fam::F_QS_S)}, {"a", range(0, 1 << 16)}, {"b", range(0, 1 << 16)}, {"c", range(0, 1 << 16)},
                    {"seed", rc::gen::just<int64_t>(0)}, {"rnd", range(1, 1 << 20)}, {"variant", range(0, 1)}, {"bs", range(0, 1)}, {"bk", rc::gen::just<int64_t>(1)}},
                   ops);
}

}  // namespace

int main(int argc, char** argv) {
  return vf::main_driver(argc, argv, "C11", "c11_faults",
                         "fault enumeration: case = one valid image (family out of 22 concrete types, format variant, small generated state; sub big = quantile families with k ~ 1000 and thousands of items, prefixes sampled); faults = EVERY strict "
                         "prefix length on the bytes / stream / wrap paths + every documented preamble byte x {0x00,0xFF,b^1,b^0x80,b+1,b-1} on bytes and stream; "
                         "each fault runs in a forked child with a CPU-time limit, the parent classifies deaths by sanitizer signature and resumes behind them; "
                         "non-trivial = image longer than 8 bytes (prefixes cut inside multi-byte fields); evaluations counts images, counter 'faults' the injected faults; "
                         "distinct = distinct case text",
                         {{"faults", gen, prop, 1.0}, {"big", gen_big, prop, 0.02, 100}});
}
