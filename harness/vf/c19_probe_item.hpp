// vf/c19_probe_item.hpp — instrumented item / summary type for C19.
//
// Every Probe object registers its address in a global live-address set on construction and removes it on destruction:
//   * construction on an address that already holds a live Probe        -> "probe-construct-on-live"
//   * destruction (or any member use) of an address that holds no Probe  -> "probe-destroy-dead" / "probe-use-dead"
//   * reading the VALUE of a moved-from Probe (compare, hash, serialize, print, value()) -> "probe-use-moved"
//     (moving / copying a moved-from object itself is legal and only propagates the state: std::swap(x, x) does it)
//   * live count != 0 when every sketch is dead                          -> checked by the harness (probe_live())
// Errors are recorded, never thrown (destructors), and drained by the harness after every step.
// The type has no default constructor (the library says none is required), is ordered / hashable / comparable through
// the functors below and has a variable-length serde (1 + 8 + (v & 3) bytes) so that size bookkeeping matters.
#ifndef VF_C19_PROBE_ITEM_HPP
#define VF_C19_PROBE_ITEM_HPP
#include <cstdint>
#include <cstring>
#include <iostream>
#include <stdexcept>
#include <string>
#include <unordered_set>
#include <vector>
#include "c19_track_alloc.hpp"  // InternalScope

namespace vf19 {

struct ProbeRegistry {
  std::unordered_set<const void*> live;   // membership only, never iterated by an oracle
  std::vector<std::pair<std::string, std::string>> errors;
  uint64_t total_errors = 0;
  uint64_t constructed = 0, copied = 0, moved = 0, destroyed = 0, assigned = 0;
};
inline ProbeRegistry& probes() { static ProbeRegistry r; return r; }
inline void probe_error(const char* id, const std::string& msg) {
  InternalScope in;
#if defined(VF_ASAN)
  static const bool trace = std::getenv("VF19_TRACE") != nullptr;
  if (trace) { fprintf(stderr, "VF19 %s: %s\n", id, msg.c_str()); __sanitizer_print_stack_trace(); }
#endif
  ProbeRegistry& r = probes();
  r.total_errors++;
  if (r.errors.size() < 64) r.errors.emplace_back(id, *scopes().tag ? msg + " [during " + scopes().tag + "]" : msg);
}
inline size_t probe_live() { return probes().live.size(); }
inline std::vector<std::pair<std::string, std::string>> take_probe_errors(uint64_t* total = nullptr) {
  InternalScope in;
  ProbeRegistry& r = probes();
  std::vector<std::pair<std::string, std::string>> out;
  out.swap(r.errors);
  if (total) *total = r.total_errors;
  r.total_errors = 0;
  return out;
}
inline void reset_probe_tracking() {
  InternalScope in;
  ProbeRegistry& r = probes();
  r.live.clear(); r.errors.clear(); r.total_errors = 0;
  r.constructed = r.copied = r.moved = r.destroyed = r.assigned = 0;
}

class Probe {
  enum : uint32_t { LIVE = 0x600DF00Du, MOVED = 0x0E0E0E0Eu, DEAD = 0xDEADDEADu };
  static const uint64_t GARBAGE = 0xBADBADBADBADBADull;

 public:
  explicit Probe(uint64_t v) : v_(v), state_(LIVE) { enter("constructor"); probes().constructed++; }
  Probe(const Probe& o) : v_(o.v_), state_(LIVE) {
    o.check_alive("copy-construct from");
    state_ = o.state_ == MOVED ? MOVED : LIVE;
    enter("copy constructor");
    probes().copied++;
  }
  Probe(Probe&& o) noexcept : v_(o.v_), state_(LIVE) {
    o.check_alive("move-construct from");
    state_ = o.state_ == MOVED ? MOVED : LIVE;
    enter("move constructor");
    o.v_ = GARBAGE; o.state_ = MOVED;
    probes().moved++;
  }
  Probe& operator=(const Probe& o) {
    check_alive("copy-assign to");
    o.check_alive("copy-assign from");
    v_ = o.v_; state_ = o.state_ == MOVED ? MOVED : LIVE;
    probes().assigned++;
    return *this;
  }
  Probe& operator=(Probe&& o) noexcept {
    check_alive("move-assign to");
    o.check_alive("move-assign from");
    if (&o == this) return *this;
    v_ = o.v_; state_ = o.state_ == MOVED ? MOVED : LIVE;
    o.v_ = GARBAGE; o.state_ = MOVED;
    probes().assigned++;
    return *this;
  }
  ~Probe() {
    InternalScope in;
    ProbeRegistry& r = probes();
    if (r.live.erase(this) != 1) {
      probe_error("probe-destroy-dead", "destructor runs on address " + ptr_text(this) + " that holds no live item (state word " + std::to_string(state_) + ")");
    }
    r.destroyed++;
    v_ = GARBAGE; state_ = DEAD;
  }

  // the value; reading it from a dead or moved-from object is recorded
  uint64_t value(const char* what = "value()") const {
    if (check_alive(what) && state_ == MOVED) probe_error("probe-use-moved", std::string(what) + " reads the value of a moved-from item at " + ptr_text(this));
    return v_;
  }
  bool is_moved_from() const { return state_ == MOVED; }
  // for the harness only: value without any check (observation of possibly broken objects must not cascade)
  uint64_t raw_value() const { return v_; }

 private:
  void enter(const char* what) {
    InternalScope in;
    if (!probes().live.insert(this).second) {
      probe_error("probe-construct-on-live", std::string(what) + " runs on address " + ptr_text(this) + " that already holds a live item (never destroyed)");
    }
  }
  bool check_alive(const char* what) const {
    InternalScope in;
    if (probes().live.count(this) == 0) {
      probe_error("probe-use-dead", std::string(what) + " an address that holds no live item: " + ptr_text(this));
      return false;
    }
    return true;
  }
  uint64_t v_;
  uint32_t state_;
};

struct ProbeLess { bool operator()(const Probe& a, const Probe& b) const { return a.value("comparator") < b.value("comparator"); } };
struct ProbeEqual { bool operator()(const Probe& a, const Probe& b) const { return a.value("equality") == b.value("equality"); } };
struct ProbeHash {
  size_t operator()(const Probe& a) const {
    uint64_t x = a.value("hash") + 0x9e3779b97f4a7c15ull;
    x = (x ^ (x >> 30)) * 0xbf58476d1ce4e5b9ull;
    x = (x ^ (x >> 27)) * 0x94d049bb133111ebull;
    return static_cast<size_t>(x ^ (x >> 31));
  }
};
inline bool operator==(const Probe& a, const Probe& b) { return a.value("operator==") == b.value("operator=="); }
inline bool operator<(const Probe& a, const Probe& b) { return a.value("operator<") < b.value("operator<"); }
inline std::ostream& operator<<(std::ostream& os, const Probe& p) { return os << "P" << p.value("operator<<"); }

// variable-length serde: [len = v & 3][8 bytes of v][len bytes 0xEE]
struct ProbeSerde {
  static size_t enc_size(uint64_t v) { return 9 + (v & 3); }
  void serialize(std::ostream& os, const Probe* items, unsigned num) const {
    for (unsigned i = 0; i < num; ++i) {
      char buf[12];
      size_t n = encode(items[i].value("serde.serialize"), buf);
      os.write(buf, static_cast<std::streamsize>(n));
    }
  }
  void deserialize(std::istream& is, Probe* items, unsigned num) const {
    unsigned done = 0;
    try {
      for (; done < num; ++done) {
        char buf[12];
        is.read(buf, 9);
        if (!is.good()) throw std::runtime_error("ProbeSerde: stream ended inside an item");
        size_t len = static_cast<unsigned char>(buf[0]);
        if (len > 3) throw std::runtime_error("ProbeSerde: corrupt item length");
        if (len) { is.read(buf + 9, static_cast<std::streamsize>(len)); if (!is.good()) throw std::runtime_error("ProbeSerde: stream ended inside an item"); }
        new (&items[done]) Probe(decode(buf, len));
      }
    } catch (...) {
      for (unsigned i = 0; i < done; ++i) items[i].~Probe();
      throw;
    }
  }
  size_t size_of_item(const Probe& item) const { return enc_size(item.value("serde.size_of_item")); }
  size_t serialize(void* ptr, size_t capacity, const Probe* items, unsigned num) const {
    char* p = static_cast<char*>(ptr);
    size_t used = 0;
    for (unsigned i = 0; i < num; ++i) {
      uint64_t v = items[i].value("serde.serialize");
      size_t n = enc_size(v);
      if (used + n > capacity) throw std::out_of_range("ProbeSerde: serialize beyond the given capacity " + std::to_string(capacity));
      encode(v, p + used);
      used += n;
    }
    return used;
  }
  size_t deserialize(const void* ptr, size_t capacity, Probe* items, unsigned num) const {
    const char* p = static_cast<const char*>(ptr);
    size_t used = 0;
    unsigned done = 0;
    try {
      for (; done < num; ++done) {
        if (used + 9 > capacity) throw std::out_of_range("ProbeSerde: deserialize beyond the given capacity");
        size_t len = static_cast<unsigned char>(p[used]);
        if (len > 3 || used + 9 + len > capacity) throw std::out_of_range("ProbeSerde: corrupt item or beyond capacity");
        new (&items[done]) Probe(decode(p + used, len));
        used += 9 + len;
      }
    } catch (...) {
      for (unsigned i = 0; i < done; ++i) items[i].~Probe();
      throw;
    }
    return used;
  }

 private:
  static size_t encode(uint64_t v, char* buf) {
    size_t len = v & 3;
    buf[0] = static_cast<char>(len);
    std::memcpy(buf + 1, &v, 8);
    for (size_t i = 0; i < len; ++i) buf[9 + i] = static_cast<char>(0xEE);
    return 9 + len;
  }
  static uint64_t decode(const char* buf, size_t len) {
    uint64_t v;
    std::memcpy(&v, buf + 1, 8);
    if ((v & 3) != len) throw std::runtime_error("ProbeSerde: length byte does not match the value");
    for (size_t i = 0; i < len; ++i) if (static_cast<unsigned char>(buf[9 + i]) != 0xEE) throw std::runtime_error("ProbeSerde: corrupt padding");
    return v;
  }
};

}  // namespace vf19
#endif
