#!/usr/bin/env python3
"""tools/seed_import.py <ID> [n...] — imports the seeded changes an independent sub-agent left in /tmp/seed-<ID>/out
(changeN.diff, demoN.cpp, README.md) into /verif/seeded/<ID>-<n>/ after confirming, in a scratch copy of /repo:
  1. the patch applies and the library's existing unit tests of the touched components still pass with it,
  2. the demonstration passes on the unchanged code and fails with the change.
Writes patch.diff, demo.cpp, README.md and meta.json (property, what it needs to manifest, what was run and its outcome)."""
import json, os, re, shutil, subprocess, sys, time

ID = sys.argv[1]
ns = [int(x) for x in sys.argv[2:]] or [1, 2]
ROUND = int(os.environ.get("SEED_ROUND", "1"))   # round r of seeding: worktree /tmp/seed<r>-<ID>, kept as <ID>-(n + 2(r-1))
SRC = f"/tmp/seed{ROUND if ROUND > 1 else ''}-{ID}/out"
TARGETS = {"hll": ["hll_test"], "theta": ["theta_test", "tuple_test"], "tuple": ["tuple_test"], "cpc": ["cpc_test"], "kll": ["kll_test"],
           "req": ["req_test"], "quantiles": ["quantiles_test"], "fi": ["fi_test"], "count": ["count_min_test"],
           "sampling": ["var_opt_sampling_test", "ebpps_sampling_test"], "tdigest": ["tdigest_test"], "filters": ["bloom_filter_test"],
           "density": ["density_test"],
           "common": ["common_test", "kll_test", "req_test", "quantiles_test", "theta_test", "hll_test", "cpc_test", "fi_test", "count_min_test",
                      "var_opt_sampling_test", "ebpps_sampling_test", "tdigest_test", "bloom_filter_test", "density_test", "tuple_test"]}


def sh(cmd, cwd=None, timeout=3600):
    r = subprocess.run(cmd, shell=True, cwd=cwd, stdout=subprocess.PIPE, stderr=subprocess.STDOUT, text=True, timeout=timeout, errors="replace")
    return r.returncode, r.stdout


def demo(scratch, democpp, exe):
    inc = " ".join(f"-I{scratch}/{d}/include" for d in sorted(os.listdir(scratch)) if os.path.isdir(f"{scratch}/{d}/include"))
    # extra flags (-D..., -fsanitize=..., -pthread) from the compile command the author put at the top of the demo
    head = "".join(open(democpp, errors="replace").readlines()[:25])
    extra = " ".join(sorted(set(re.findall(r"(?<![\w/])(-D[\w=]+|-fsanitize=[\w,]+|-fno-sanitize[\w=,-]*|-pthread|-g)\b", head))))
    rc, out = sh(f"g++ -std=c++17 -O1 {extra} {inc} {democpp} -o {exe}")
    if rc != 0:
        return None, "compile failed: " + out[-800:]
    try:
        rc, out = sh(exe, timeout=900)
    except subprocess.TimeoutExpired:
        return 124, "timeout"
    return rc, out[-600:]


readme = open(f"{SRC}/README.md", errors="replace").read() if os.path.exists(f"{SRC}/README.md") else ""
for n in ns:
    patch, dcpp = f"{SRC}/change{n}.diff", f"{SRC}/demo{n}.cpp"
    if not (os.path.exists(patch) and os.path.exists(dcpp)):
        print(f"{ID}-{n}: missing files"); continue
    dn = n + 2 * (ROUND - 1)
    dst = f"/verif/seeded/{ID}-{dn}"
    os.makedirs(dst, exist_ok=True)
    scratch = f"/tmp/vf-si-{ID}-{dn}"
    shutil.rmtree(scratch, ignore_errors=True); os.makedirs(scratch)
    sh(f"cd /repo && tar cf - --exclude=_build --exclude=build --exclude=.git . | (cd {scratch} && tar xf -)")
    ran = {}
    # the demo's include paths point into the agent's worktree: compile against the scratch copy instead
    src = open(dcpp, errors="replace").read()
    democopy = f"{scratch}/demo.cpp"; open(democopy, "w").write(src)
    rc0, out0 = demo(scratch, democopy, f"{scratch}/demo_orig")
    ran["demo_on_unchanged_code"] = {"exit": rc0, "tail": out0}
    rc, out = sh(f"patch -p1 -s < {patch}", cwd=scratch)
    ran["patch_applies"] = rc == 0
    comps = sorted({m.group(1) for m in re.finditer(r"^\+\+\+ b/([^/]+)/", open(patch).read(), re.M)})
    rc1, out1 = demo(scratch, democopy, f"{scratch}/demo_mut")
    ran["demo_with_change"] = {"exit": rc1, "tail": out1}
    targets = sorted({t for c in comps for t in TARGETS.get(c, [])})
    t0 = time.time()
    rc, out = sh(f"cmake -S {scratch} -B {scratch}/_b -DBUILD_TESTS=ON -DFETCHCONTENT_TRY_FIND_PACKAGE_MODE=ALWAYS > /dev/null && cmake --build {scratch}/_b -j6 --target {' '.join(targets)} 2>&1 | tail -3")
    ok_build = rc == 0
    rc, out = sh(f"cd {scratch}/_b && ctest -R '^({'|'.join(targets)})$' -j4 --timeout 1200 2>&1 | tail -8") if ok_build else (1, out)
    ran["existing_tests_with_change"] = {"targets": targets, "passed": ok_build and rc == 0 and "100% tests passed" in out, "tail": out[-500:], "seconds": round(time.time() - t0)}
    ok = ran["patch_applies"] and rc0 == 0 and rc1 not in (0, None) and ran["existing_tests_with_change"]["passed"]
    shutil.copy(patch, f"{dst}/patch.diff"); shutil.copy(dcpp, f"{dst}/demo.cpp")
    # the part of the agent's README about this change
    m = re.search(rf"(#+ *Change {n}\b.*?)(?=\n#+ *Change {n + 1}\b|\n#+ *(Verification output|Demo compile)|\Z)", readme, re.S | re.I)
    open(f"{dst}/README.md", "w").write((m.group(1) if m else readme)[:6000])
    need = ""
    m2 = re.search(r"(?:needed for it to manifest|What is needed)[^\n]*\n(.*?)(?=\n\*\*|\n#+ |\Z)", (m.group(1) if m else readme), re.S | re.I)
    if m2: need = re.sub(r"\s+", " ", m2.group(1)).strip()[:900]
    meta = {"property": ID, "source": f"independent sub-agent seed{ROUND if ROUND > 1 else ''}-{ID} (given only the property text" + (", one-line titles of the round-1 changes to avoid" if ROUND > 1 else "") + " and a scratch worktree)", "components": comps,
            "needs_to_manifest": need, "confirmed": ok, "ran": ran}
    json.dump(meta, open(f"{dst}/meta.json", "w"), indent=1)
    shutil.rmtree(scratch, ignore_errors=True)
    print(f"{ID}-{dn}: confirmed={ok} demo_orig={rc0} demo_mut={rc1} tests={ran['existing_tests_with_change']['passed']} comps={comps}")
