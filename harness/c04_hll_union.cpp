// C04 — HLL union equals the sketch of the concatenated streams at reduced precision.
// Model: the set of reference coupons of every item ever offered (directly or through an input sketch);
// result lg_k = min(lg_max_k, lg_k of every HLL-mode input); registers = per-slot maxima folded to that lg_k.
#include "vf/core.hpp"
#include "vf/items.hpp"
#include "vf/hll_model.hpp"
#include <hll.hpp>

using namespace datasketches;
using vf::Case; using vf::Op;

namespace {

struct Spec {
  int lg_k, type; bool full; uint32_t start, n;
  uint32_t hp = 0;     // low 3 bits = number of high-value keys (registers >= 15), rest = first pool index
  uint32_t level = 0;  // 1..3: instead of the range, one key per slot whose register value is exactly this (lg_k <= 8): all registers equal, non-zero
  uint32_t tw = 0;     // > 0: first two items are a pair of keys sharing the 26-bit coupon address (pair (tw-1)/2, order by the low bit)
  uint64_t salt = 0;
};

// the items a spec stands for, in feeding order
std::vector<vf::Item> spec_items(const Spec& sp) {
  std::vector<vf::Item> v;
  if (sp.tw > 0 && !vf::twin_pool().pairs.empty()) {
    const auto& pr = vf::twin_pool().pairs[((sp.tw - 1) / 2) % vf::twin_pool().pairs.size()];
    const bool small_first = ((sp.tw - 1) & 1) != 0;
    v.push_back(vf::Item{vf::T_I64, static_cast<uint64_t>(small_first ? pr.first : pr.second)});
    v.push_back(vf::Item{vf::T_I64, static_cast<uint64_t>(small_first ? pr.second : pr.first)});
  }
  if (sp.level > 0 && sp.lg_k <= 8) {
    const uint32_t k = 1u << sp.lg_k;
    std::vector<char> filled(k, 0); uint32_t left = k;
    uint64_t key = vf::mix64(sp.salt + 0xC04C04) >> 8;
    for (uint64_t tries = 0; left > 0 && tries < 4000000; ++tries, ++key) {
      vf::Item it{vf::T_U64, key | (1ull << 56)};
      uint32_t c;
      if (!vf::ref_hll_item_coupon(it, c) || (c >> 26) != sp.level) continue;
      const uint32_t slot = c & (k - 1);
      if (filled[slot]) continue;
      filled[slot] = 1; --left;
      v.push_back(it);
    }
    return v;
  }
  for (uint32_t i = 0; i < sp.n; ++i) v.push_back(vf::Item{vf::T_I64, static_cast<uint64_t>(static_cast<int64_t>(sp.start) + i)});
  // keys whose register value is >= 15: with cur_min > 0 an HLL_4 input then carries exception registers
  const auto& pool = vf::high_pool().keys;
  for (uint32_t j = 0; j < (sp.hp & 7u); ++j) v.push_back(vf::Item{vf::T_I64, static_cast<uint64_t>(pool[((sp.hp >> 3) + j) % pool.size()].first)});
  return v;
}

hll_sketch build_sketch(const Spec& sp, std::set<uint32_t>* coupons) {
  hll_sketch sk(static_cast<uint8_t>(sp.lg_k), static_cast<target_hll_type>(sp.type), sp.full);
  for (const vf::Item& it : spec_items(sp)) {
    vf::feed(sk, it);
    if (coupons) { uint32_t c; if (vf::ref_hll_item_coupon(it, c)) coupons->insert(c); }
  }
  return sk;
}

vf::HllImage parse(const hll_sketch& sk) {
  auto bytes = sk.serialize_updatable();
  try { return vf::parse_hll_image(bytes.data(), bytes.size()); }
  catch (const std::runtime_error& e) { VF_CHECK(false, "image-layout", "image does not follow the documented layout: " << e.what()); }
  return vf::HllImage();
}

bool close(double a, double b, double rel) { return std::fabs(a - b) <= rel * std::max(1.0, std::max(std::fabs(a), std::fabs(b))); }

struct Step { int kind; int idx; bool rv; vf::Item item; uint64_t bulk_start, bulk_n; };  // kind 0 sketch, 1 raw, 2 bulk

struct State {
  int lg_max_k;
  vf::HllModel m;
  int lg_k;            // model result lg_k
  bool any_hll = false;
  std::vector<Step> steps;  // since last reset
  int hll_inputs = 0; std::set<int> hll_lgks;
  bool downsample_before_second = false;
  int reset_lg_k = -1;   // precision retained by the last reset (-1: never reset)
  bool gadget_hll = false;  // the union's gadget is known to be in HLL mode (by an HLL input or by self-promotion)
};

void check_result(hll_union& u, State& st, int type, const char* when) {
  hll_sketch r = u.get_result(static_cast<target_hll_type>(type));
  VF_CHECK(r.is_empty() == st.m.coupons.empty(), "result-empty", when << ": result is_empty " << r.is_empty() << " but " << st.m.coupons.size() << " distinct coupons were offered");
  VF_CHECK(u.is_empty() == st.m.coupons.empty(), "union-empty", when << ": union is_empty " << u.is_empty() << " but " << st.m.coupons.size() << " distinct coupons were offered");
  VF_CHECK(static_cast<int>(r.get_target_type()) == type, "result-type", when << ": result type");
  VF_CHECK(r.get_lg_config_k() == st.lg_k, "result-lg-k", when << ": result lg_k " << int(r.get_lg_config_k()) << " model " << st.lg_k);
  VF_CHECK(u.get_lg_config_k() == st.lg_k, "union-lg-k", when << ": union lg_k " << int(u.get_lg_config_k()) << " model " << st.lg_k);
  vf::HllImage im = parse(r);
  if (st.any_hll) VF_CHECK(im.mode == 2, "result-mode", when << ": an HLL-mode input was merged but the result is in coupon mode");
  if (im.mode < 2) {
    VF_CHECK(im.coupons == st.m.coupons, "result-coupons", when << ": result stores " << im.coupons.size() << " coupons, " << st.m.coupons.size() << " distinct were offered");
  } else {
    std::vector<uint8_t> regs = st.m.registers(st.lg_k);
    if (im.regs != regs) {
      size_t i = 0, bad = 0; size_t first = regs.size();
      for (i = 0; i < regs.size(); ++i) if (im.regs[i] != regs[i]) { if (first == regs.size()) first = i; ++bad; }
      VF_CHECK(false, "result-registers", when << ": " << bad << " of " << regs.size() << " registers differ; slot " << first << " holds " << int(im.regs[first]) << " model max " << int(regs[first]));
    }
    uint8_t mn = 255; for (auto v : regs) mn = std::min(mn, v);
    if (type == 0) {
      uint32_t cnt = 0; for (auto v : regs) cnt += v == mn;
      VF_CHECK(im.cur_min == mn, "result-cur-min", when << ": HLL_4 cur_min " << im.cur_min << " with register minimum " << int(mn));
      VF_CHECK(im.num_at_cur_min == cnt, "result-num-at-cur-min", when << ": num_at_cur_min " << im.num_at_cur_min << " but " << cnt << " registers equal cur_min");
    } else {
      // absolute-valued arrays use (cur_min, num_at_cur_min) only as "number of zero registers": cur_min > 0 means "none"
      // (the union gadget may carry a cur_min from an earlier rebuild that later coupon updates have outgrown)
      uint32_t zeros = 0; for (auto v : regs) zeros += v == 0;
      VF_CHECK(im.cur_min <= mn, "result-cur-min", when << ": cur_min " << im.cur_min << " above the register minimum " << int(mn));
      if (im.cur_min == 0) VF_CHECK(im.num_at_cur_min == zeros, "result-num-at-cur-min", when << ": zero-register counter " << im.num_at_cur_min << " but " << zeros << " registers are zero");
    }
    double kxq0 = 0, kxq1 = 0;
    for (auto v : regs) { if (v < 32) kxq0 += std::ldexp(1.0, -v); else kxq1 += std::ldexp(1.0, -v); }
    VF_CHECK(im.kxq0 == kxq0 && im.kxq1 == kxq1, "result-kxq", when << ": kxq0/1 " << im.kxq0 << "/" << im.kxq1 << " model " << kxq0 << "/" << kxq1);
  }
  double est = u.get_estimate(), comp = u.get_composite_estimate();
  VF_CHECK(std::isfinite(est) && std::isfinite(comp) && est >= 0, "estimate-finite", when << ": estimate not finite");
  // relative tolerance 1e-9: the lower bound is max(est/(1+e), number of non-zero registers) and the bitmap estimate of a
  // nearly empty array can round a hair below that integer (0.99999999999997 for one register)
  for (uint8_t sd = 1; sd <= 3; ++sd) VF_CHECK(u.get_lower_bound(sd) <= est * (1 + 1e-9) && est <= u.get_upper_bound(sd) * (1 + 1e-9), "bounds-order", when << ": lb<=est<=ub violated at " << int(sd) << ": " << u.get_lower_bound(sd) << " " << est << " " << u.get_upper_bound(sd));
  VF_CHECK(close(r.get_composite_estimate(), comp, 1e-12), "result-composite", when << ": result composite " << r.get_composite_estimate() << " union " << comp);
}

void prop(const Case& cs) {
  State st;
  st.lg_max_k = static_cast<int>(std::min<int64_t>(21, std::max<int64_t>(4, cs.get("lg_max_k", 4))));
  st.lg_k = st.lg_max_k;
  hll_union u(static_cast<uint8_t>(st.lg_max_k));
  std::vector<Spec> specs;
  uint64_t fresh = 0;

  auto offer_sketch = [&](hll_union& un, const Spec& sp, bool rv) {
    hll_sketch sk = build_sketch(sp, nullptr);
    if (rv) un.update(std::move(sk)); else un.update(sk);
  };
  auto model_sketch = [&](const Spec& sp, bool rvalue) {
    std::set<uint32_t> c;
    hll_sketch sk = build_sketch(sp, &c);
    vf::HllImage im0 = parse(sk);
    int mode = im0.mode;
    // Only after a reset that retained a reduced precision can an EMPTY union work below lg_max_k. In that (quirk) state an rvalue HLL_8
    // sketch in coupon mode with lg_k == lg_max_k is adopted as the new gadget, which brings the union back to lg_max_k, while the lvalue
    // path keeps the retained precision. Like the order of arrival, lvalue / rvalue independence is claimed for histories that start at
    // lg_max_k; here the model follows the adoption and the case is labelled.
    if (rvalue && st.m.coupons.empty() && st.lg_k < st.lg_max_k && !sk.is_empty() && mode < 2 && sp.type == 2 && sp.lg_k == st.lg_max_k) {
      st.lg_k = st.lg_max_k;
      vf::label("post-reset-rvalue-adoption-restores-lg-max-k");
    }
    if (mode == 2 && !im0.aux.empty()) vf::label(im0.cur_min > 0 ? "input:HLL_4-exceptions-cur-min>0" : "input:HLL_4-exceptions");
    for (auto x : c) st.m.add(x);
    if (sp.level > 0 && sp.lg_k <= 8) vf::label("input:all-registers-equal");
    if (sp.tw > 0) vf::label("input:twin-address-keys");
    if (mode == 2 && !sk.is_empty()) {
      if (st.hll_inputs == 0 && sp.lg_k > st.lg_max_k) st.downsample_before_second = true;
      st.any_hll = true; st.hll_inputs++; st.hll_lgks.insert(sp.lg_k);
      // an HLL input into a gadget still in coupon mode (or empty) builds the new gadget at min(lg_max_k, source lg_k) -
      // a precision retained by an earlier reset only matters while the gadget stays in coupon mode or promotes by itself
      if (!st.gadget_hll) st.lg_k = std::min(st.lg_max_k, sp.lg_k); else st.lg_k = std::min(st.lg_k, sp.lg_k);
      st.gadget_hll = true;
    }
    return mode;
  };

  for (const Op& op : cs.ops) {
    if (op.name == "sk") {
      if (specs.size() >= 6) continue;
      Spec sp;
      sp.lg_k = static_cast<int>(4 + op.uarg(0) % 18);
      sp.type = static_cast<int>(op.uarg(1) % 3);
      sp.full = (op.uarg(2) % 4) == 0;
      sp.start = static_cast<uint32_t>(op.uarg(3) % 6000);
      uint64_t n = op.uarg(4);
      sp.n = static_cast<uint32_t>(n % 200001);
      sp.hp = op.a.size() > 5 ? static_cast<uint32_t>(op.uarg(5) % 2048) : 0;
      sp.level = op.a.size() > 6 ? static_cast<uint32_t>(op.uarg(6) % 4) : 0;
      sp.tw = op.a.size() > 7 ? static_cast<uint32_t>(op.uarg(7) % 49) : 0;
      sp.salt = op.uarg(3) * 7919 + op.uarg(4);
      specs.push_back(sp);
      continue;
    }
    if (op.name == "u_sk") {
      if (specs.empty()) continue;
      size_t i = op.uarg(0) % specs.size(); bool rv = op.arg(1) & 1;
      int mode = model_sketch(specs[i], rv);
      offer_sketch(u, specs[i], rv);
      st.steps.push_back(Step{0, static_cast<int>(i), rv, vf::Item{0, 0}, 0, 0});
      if (!st.gadget_hll && !st.m.coupons.empty()) st.gadget_hll = parse(u.get_result(HLL_8)).mode == 2;  // self-promotion at the current lg_k
      vf::label((specs[i].n == 0 && specs[i].tw == 0 && !(specs[i].level > 0 && specs[i].lg_k <= 8)) ? "input:empty" : mode == 0 ? "input:LIST" : mode == 1 ? "input:SET" : "input:HLL");
      if (rv) vf::label("rvalue-update");
    } else if (op.name == "u_raw") {
      vf::Item it{static_cast<int>(op.uarg(0) % vf::T_NTYPES), op.uarg(1)};
      vf::feed(u, it);
      uint32_t c; if (vf::ref_hll_item_coupon(it, c)) st.m.add(c);
      st.steps.push_back(Step{1, 0, false, it, 0, 0});
      if (!st.gadget_hll && !st.m.coupons.empty()) st.gadget_hll = parse(u.get_result(HLL_8)).mode == 2;
      vf::label("raw-update");
    } else if (op.name == "u_twin") {
      // two raw items sharing the 26-bit coupon address with different values, in either order
      const auto& tp = vf::twin_pool().pairs;
      if (tp.empty()) continue;
      const auto& pr = tp[op.uarg(0) % tp.size()];
      const bool small_first = (op.uarg(1) & 1) != 0;
      for (int64_t key : {small_first ? pr.first : pr.second, small_first ? pr.second : pr.first}) {
        vf::Item it{vf::T_I64, static_cast<uint64_t>(key)};
        vf::feed(u, it);
        uint32_t c; if (vf::ref_hll_item_coupon(it, c)) st.m.add(c);
        st.steps.push_back(Step{1, 0, false, it, 0, 0});
      }
      if (!st.gadget_hll && !st.m.coupons.empty()) st.gadget_hll = parse(u.get_result(HLL_8)).mode == 2;
      vf::label("raw-twin-address-keys");
    } else if (op.name == "u_bulk") {
      uint64_t n = op.uarg(0) % 20000;
      uint64_t start = 1000000 + fresh; fresh += n;
      for (uint64_t i = 0; i < n; ++i) { int64_t key = static_cast<int64_t>(start + i); u.update(key); st.m.add(vf::ref_hll_coupon(vf::ref_hash_i64(key, 9001))); }
      st.steps.push_back(Step{2, 0, false, vf::Item{0, 0}, start, n});
      if (!st.gadget_hll && !st.m.coupons.empty()) st.gadget_hll = parse(u.get_result(HLL_8)).mode == 2;
    } else if (op.name == "res") {
      check_result(u, st, static_cast<int>(op.uarg(0) % 3), "get_result");
      vf::label("intermediate-result");
    } else if (op.name == "est") {
      double e = (op.arg(0) & 1) ? u.get_estimate() : u.get_composite_estimate();
      VF_CHECK(std::isfinite(e), "estimate-finite", "estimate not finite");
      VF_CHECK(u.is_empty() == st.m.coupons.empty(), "union-empty", "after estimate: union is_empty " << u.is_empty() << " with " << st.m.coupons.size() << " coupons offered");
      vf::label("intermediate-estimate");
    } else if (op.name == "reset") {
      u.reset();
      // reset empties the union "in coupon collection mode"; like the Java implementation (which documents it) it keeps the
      // precision the union had been reduced to, so the model keeps lg_k and only forgets the content
      int kept = st.lg_k;
      st.m = vf::HllModel(); st.any_hll = false; st.steps.clear(); st.hll_inputs = 0; st.hll_lgks.clear(); st.gadget_hll = false;
      st.reset_lg_k = kept;
      VF_CHECK(u.is_empty(), "reset-empty", "union not empty after reset");
      VF_CHECK(u.get_lg_config_k() == kept, "reset-lg-k", "after reset union lg_k " << int(u.get_lg_config_k()) << " expected the retained " << kept);
      vf::label("reset");
    }
  }
  check_result(u, st, static_cast<int>(cs.get("rtype", 2) % 3), "final");
  // permuted replay, no intermediate queries, opposite lvalue/rvalue choice
  // after a reset that retained a reduced precision the result's lg_k depends on whether an HLL input or coupons arrive
  // first (documented quirk, see DESIGN changelog): order independence is only claimed for histories starting at lg_max_k
  bool plain = st.reset_lg_k < 0 || st.reset_lg_k == st.lg_max_k;
  if (!plain) vf::label("post-reset-reduced-precision");
  if (st.steps.size() >= 1 && plain) {
    vf::Rng r(static_cast<uint64_t>(cs.get("perm", 1)) + 5);
    std::vector<Step> perm = st.steps;
    for (size_t i = perm.size(); i > 1; --i) std::swap(perm[i - 1], perm[r.below(i)]);
    hll_union u2(static_cast<uint8_t>(st.lg_max_k));
    for (const Step& s : perm) {
      if (s.kind == 0) offer_sketch(u2, specs[s.idx], !s.rv);
      else if (s.kind == 1) vf::feed(u2, s.item);
      else for (uint64_t i = 0; i < s.bulk_n; ++i) u2.update(static_cast<int64_t>(s.bulk_start + i));
    }
    check_result(u2, st, 2, "permuted replay");
    hll_sketch a = u.get_result(HLL_8), b = u2.get_result(HLL_8);
    vf::HllImage ia = parse(a), ib = parse(b);
    // A union that was reset keeps the representation of its gadget: after adopting a sketch that was started full size it is an empty
    // HLL array, not an empty coupon list (hll_sketch::reset keeps start_full_size). The content is the same, the representation - and the
    // estimator that goes with it - is not: after a reset the comparison is made on registers only.
    const bool repr_may_differ = st.reset_lg_k >= 0;
    if (!repr_may_differ || ia.mode == ib.mode) {
      VF_CHECK(ia.mode == ib.mode, "order-independence", "result mode depends on the order of presentation: " << ia.mode << " vs " << ib.mode);
      VF_CHECK(ia.regs == ib.regs && ia.coupons == ib.coupons && ia.lg_k == ib.lg_k, "order-independence", "result content depends on the order of presentation");
      VF_CHECK(close(u.get_composite_estimate(), u2.get_composite_estimate(), 1e-9), "order-independence", "composite estimate depends on order: " << u.get_composite_estimate() << " vs " << u2.get_composite_estimate());
    } else {
      auto regs_of = [](const vf::HllImage& im) {
        if (im.mode == 2) return im.regs;
        std::vector<uint8_t> r(size_t(1) << im.lg_k, 0);
        for (uint32_t c : im.coupons) { const size_t slot = c & ((size_t(1) << im.lg_k) - 1); r[slot] = std::max<uint8_t>(r[slot], static_cast<uint8_t>(c >> 26)); }
        return r;
      };
      VF_CHECK(ia.lg_k == ib.lg_k && regs_of(ia) == regs_of(ib), "order-independence", "result content (as registers) depends on the order of presentation after a reset");
      vf::label("post-reset-representation-differs");
    }
    // a single sketch of the result's lg_k that saw every item
    uint64_t total = 0;
    for (const Step& s : st.steps) total += s.kind == 0 ? specs[s.idx].n + 300 : s.kind == 2 ? s.bulk_n : 1;
    if (total <= 700000) {
      hll_sketch direct(static_cast<uint8_t>(st.lg_k), HLL_8, ia.mode == 2);
      for (const Step& s : st.steps) {
        if (s.kind == 0) { for (const vf::Item& it : spec_items(specs[s.idx])) vf::feed(direct, it); }
        else if (s.kind == 1) vf::feed(direct, s.item);
        else for (uint64_t i = 0; i < s.bulk_n; ++i) direct.update(static_cast<int64_t>(s.bulk_start + i));
      }
      vf::HllImage id = parse(direct);
      if (id.mode == ia.mode) {
        VF_CHECK(id.regs == ia.regs && id.coupons == ia.coupons, "equals-direct-sketch", "result content differs from a single sketch that saw every item");
        VF_CHECK(close(direct.get_composite_estimate(), u.get_composite_estimate(), 1e-9), "equals-direct-estimate", "composite estimate " << u.get_composite_estimate() << " differs from a single sketch that saw every item: " << direct.get_composite_estimate());
        vf::label("compared-with-direct");
      }
    }
    if (perm.size() >= 2) vf::label("permuted");
  }
  if (st.hll_lgks.size() >= 2) vf::label("hll-inputs-different-lgk");
  if (st.downsample_before_second && st.hll_inputs >= 2) vf::label("downsample-then-second-hll");
  if (st.any_hll) vf::label("result:HLL");
  if (st.hll_lgks.size() >= 2 || (st.downsample_before_second && st.hll_inputs >= 2)) vf::nontrivial();
}

rc::Gen<Case> gen_main() {
  using namespace vf;
  // n: mostly sizes that matter for mode transitions at the given lg_k; start_full_size makes HLL mode cheap at large lg_k
  auto nGen = rc::gen::weightedOneOf<int64_t>({{1, range(0, 0)}, {1, range(1, 7)}, {2, range(8, 200)}, {6, range(200, 5000)}, {1, range(5000, 200000)}});
  auto skBase = op4("sk", rc::gen::weightedOneOf<int64_t>({{5, range(0, 6)}, {2, range(7, 12)}, {1, range(13, 17)}}), range(0, 2), range(0, 3), range(0, 5999));
  auto hpGen = rc::gen::weightedOneOf<int64_t>({{1, range(0, 0)}, {1, range(0, 2047)}});
  auto lvGen = rc::gen::weightedOneOf<int64_t>({{7, range(0, 0)}, {1, range(1, 3)}});
  auto twGen = rc::gen::weightedOneOf<int64_t>({{5, range(0, 0)}, {1, range(1, 48)}});
  auto sk = rc::gen::map(rc::gen::tuple(skBase, nGen, hpGen, lvGen, twGen), [](std::tuple<Op, int64_t, int64_t, int64_t, int64_t> t) { Op o = std::get<0>(t); o.a.push_back(std::get<1>(t)); o.a.push_back(std::get<2>(t)); o.a.push_back(std::get<3>(t)); o.a.push_back(std::get<4>(t)); return o; });
  auto hist = choose({
      {8, op2("u_sk", range(0, 5), range(0, 1))},
      {2, op2("u_raw", range(0, T_NTYPES - 1), raw_gen())},
      {1, op2("u_twin", range(0, 23), range(0, 1))},
      {1, op1("u_bulk", range(1, 3000))},
      {2, op1("res", range(0, 2))},
      {2, op1("est", range(0, 1))},
      {1, rc::gen::map(range(0, 9), [](int64_t x) { return x < 6 ? Op{"reset", {}} : Op{"est", {x}}; })},
  });
  auto ops = rc::gen::map(rc::gen::tuple(rc::gen::mapcat(range(2, 5), [sk](int64_t n) { return rc::gen::container<std::vector<Op>>(static_cast<size_t>(n), sk); }), oplist(hist, 2, 0.12)),
                          [](std::tuple<std::vector<Op>, std::vector<Op>> t) { auto v = std::get<0>(t); auto& h = std::get<1>(t); v.insert(v.end(), h.begin(), h.end()); return v; });
  return make_case({{"lg_max_k", rc::gen::weightedOneOf<int64_t>({{5, range(4, 8)}, {3, range(9, 13)}, {1, range(14, 21)}})}, {"rtype", range(0, 2)}, {"perm", range(0, 1 << 20)}}, ops);
}

// large precisions: unions and inputs with 2^16 .. 2^21 registers (inputs start full size or carry tens of thousands of items), so that
// down-sampling folds onto arrays with more than 65 536 registers
rc::Gen<Case> gen_big() {
  using namespace vf;
  auto nGen = rc::gen::weightedOneOf<int64_t>({{2, range(0, 200)}, {2, range(200, 5000)}, {3, range(20000, 120000)}});
  auto skBase = op4("sk", range(11, 17), range(0, 2), rc::gen::weightedOneOf<int64_t>({{3, rc::gen::just<int64_t>(0)}, {1, range(1, 3)}}), range(0, 5999));
  auto sk = rc::gen::map(rc::gen::tuple(skBase, nGen), [](std::tuple<Op, int64_t> t) { Op o = std::get<0>(t); o.a.push_back(std::get<1>(t)); return o; });
  auto hist = choose({{8, op2("u_sk", range(0, 5), range(0, 1))}, {1, op2("u_raw", range(0, T_NTYPES - 1), raw_gen())}, {1, op1("res", range(0, 2))}, {1, op1("est", range(0, 1))}});
  auto ops = rc::gen::map(rc::gen::tuple(rc::gen::mapcat(range(2, 3), [sk](int64_t n) { return rc::gen::container<std::vector<Op>>(static_cast<size_t>(n), sk); }), oplist(hist, 2, 0.04)),
                          [](std::tuple<std::vector<Op>, std::vector<Op>> t) { auto v = std::get<0>(t); auto& h = std::get<1>(t); v.insert(v.end(), h.begin(), h.end()); return v; });
  return make_case({{"lg_max_k", range(15, 21)}, {"rtype", range(0, 2)}, {"perm", range(0, 1 << 20)}}, ops);
}

}  // namespace

int main(int argc, char** argv) {
  return vf::main_driver(argc, argv, "C04", "c04_hll_union",
                         "case = lg_max_k + 2..5 generated input sketches (lg_k 4..21, 3 types, start_full_size, n chosen around mode transitions) + a history "
                         "over one union (update by lvalue/rvalue sketch, raw typed items, bulk, get_result, estimates, reset); after queries and at the end the "
                         "result image is decoded from the documented layout and compared exactly with the reference coupon/register model at the model's lg_k, "
                         "with a permuted replay and with a single sketch fed every item; non-trivial = >=2 HLL-mode inputs with different lg_k, or a first "
                         "HLL input that had to be down-sampled followed by a second HLL input; distinct = distinct case text",
                         {{"main", gen_main, prop, 1.0}, {"big", gen_big, prop, 0.03, 100}});
}
