// vf/ref_hash.hpp — independent reference implementations of the two published hash functions, written from
// their public definitions (Austin Appleby's MurmurHash3_x64_128; Yann Collet's XXH64), not from the repository.
// The only deviation from the published murmur is the one the DataSketches family documents: the seed is 64-bit
// and initialises both lanes.
#ifndef VF_REF_HASH_HPP
#define VF_REF_HASH_HPP
#include <cstdint>
#include <cstring>
#include <string>

namespace vf {

struct H128 { uint64_t h1, h2; };

inline uint64_t ref_rotl(uint64_t x, int r) { return (x << r) | (x >> (64 - r)); }
inline uint64_t ref_le64(const unsigned char* p) { uint64_t v = 0; for (int i = 7; i >= 0; --i) v = (v << 8) | p[i]; return v; }
inline uint32_t ref_le32(const unsigned char* p) { uint32_t v = 0; for (int i = 3; i >= 0; --i) v = (v << 8) | p[i]; return v; }

inline uint64_t ref_fmix64(uint64_t k) {
  k ^= k >> 33; k *= 0xff51afd7ed558ccdull; k ^= k >> 33; k *= 0xc4ceb9fe1a85ec53ull; k ^= k >> 33; return k;
}

inline H128 ref_murmur3_128(const void* data, size_t len, uint64_t seed) {
  const unsigned char* p = static_cast<const unsigned char*>(data);
  const uint64_t c1 = 0x87c37b91114253d5ull, c2 = 0x4cf5ad432745937full;
  uint64_t h1 = seed, h2 = seed;
  size_t nblocks = len / 16;
  for (size_t i = 0; i < nblocks; ++i) {
    uint64_t k1 = ref_le64(p + 16 * i), k2 = ref_le64(p + 16 * i + 8);
    k1 *= c1; k1 = ref_rotl(k1, 31); k1 *= c2; h1 ^= k1;
    h1 = ref_rotl(h1, 27); h1 += h2; h1 = h1 * 5 + 0x52dce729;
    k2 *= c2; k2 = ref_rotl(k2, 33); k2 *= c1; h2 ^= k2;
    h2 = ref_rotl(h2, 31); h2 += h1; h2 = h2 * 5 + 0x38495ab5;
  }
  const unsigned char* tail = p + 16 * nblocks;
  uint64_t k1 = 0, k2 = 0;
  size_t rem = len & 15;
  for (size_t i = rem; i > 8; --i) k2 |= static_cast<uint64_t>(tail[i - 1]) << (8 * (i - 9));
  if (rem > 8) { k2 *= c2; k2 = ref_rotl(k2, 33); k2 *= c1; h2 ^= k2; }
  for (size_t i = (rem > 8 ? 8 : rem); i > 0; --i) k1 |= static_cast<uint64_t>(tail[i - 1]) << (8 * (i - 1));
  if (rem > 0) { k1 *= c1; k1 = ref_rotl(k1, 31); k1 *= c2; h1 ^= k1; }
  h1 ^= len; h2 ^= len;
  h1 += h2; h2 += h1;
  h1 = ref_fmix64(h1); h2 = ref_fmix64(h2);
  h1 += h2; h2 += h1;
  return H128{h1, h2};
}

inline uint64_t ref_xxh64(const void* data, size_t len, uint64_t seed) {
  const uint64_t P1 = 11400714785074694791ull, P2 = 14029467366897019727ull, P3 = 1609587929392839161ull,
                 P4 = 9650029242287828579ull, P5 = 2870177450012600261ull;
  const unsigned char* p = static_cast<const unsigned char*>(data);
  const unsigned char* end = p + len;
  uint64_t h;
  auto round = [&](uint64_t acc, uint64_t in) { acc += in * P2; acc = ref_rotl(acc, 31); acc *= P1; return acc; };
  auto merge = [&](uint64_t acc, uint64_t v) { v = round(0, v); acc ^= v; acc = acc * P1 + P4; return acc; };
  if (len >= 32) {
    uint64_t v1 = seed + P1 + P2, v2 = seed + P2, v3 = seed, v4 = seed - P1;
    while (end - p >= 32) {
      v1 = round(v1, ref_le64(p)); v2 = round(v2, ref_le64(p + 8)); v3 = round(v3, ref_le64(p + 16)); v4 = round(v4, ref_le64(p + 24));
      p += 32;
    }
    h = ref_rotl(v1, 1) + ref_rotl(v2, 7) + ref_rotl(v3, 12) + ref_rotl(v4, 18);
    h = merge(h, v1); h = merge(h, v2); h = merge(h, v3); h = merge(h, v4);
  } else {
    h = seed + P5;
  }
  h += static_cast<uint64_t>(len);
  while (end - p >= 8) { uint64_t k = round(0, ref_le64(p)); h ^= k; h = ref_rotl(h, 27) * P1 + P4; p += 8; }
  if (end - p >= 4) { h ^= static_cast<uint64_t>(ref_le32(p)) * P1; h = ref_rotl(h, 23) * P2 + P3; p += 4; }
  while (p < end) { h ^= (*p) * P5; h = ref_rotl(h, 11) * P1; ++p; }
  h ^= h >> 33; h *= P2; h ^= h >> 29; h *= P3; h ^= h >> 32;
  return h;
}

// documented canonical forms of inputs (DataSketches cross-language convention):
// integers are sign-extended to 8 bytes little-endian; floating point goes through the canonical double bits
// (-0.0 -> +0.0, every NaN -> 0x7ff8000000000000); float is widened to double; strings are their bytes.
inline int64_t ref_canonical_double_bits(double d) {
  if (d == 0.0) return 0;
  if (d != d) return 0x7ff8000000000000ll;
  int64_t v; std::memcpy(&v, &d, 8); return v;
}
inline H128 ref_hash_i64(int64_t v, uint64_t seed) { unsigned char b[8]; for (int i = 0; i < 8; ++i) b[i] = static_cast<unsigned char>(static_cast<uint64_t>(v) >> (8 * i)); return ref_murmur3_128(b, 8, seed); }
inline H128 ref_hash_double(double d, uint64_t seed) { return ref_hash_i64(ref_canonical_double_bits(d), seed); }
inline H128 ref_hash_str(const std::string& s, uint64_t seed) { return ref_murmur3_128(s.data(), s.size(), seed); }

// 16-bit seed hash stored in images: low 16 bits of h1 of murmur(seed as 8 LE bytes, seed 0)
inline uint16_t ref_seed_hash(uint64_t seed) { return static_cast<uint16_t>(ref_hash_i64(static_cast<int64_t>(seed), 0).h1 & 0xffff); }

}  // namespace vf
#endif
