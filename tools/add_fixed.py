#!/usr/bin/env python3
"""tools/add_fixed.py <property> <substring of the fix commit subject> <key> <what failed> — records a fixed finding."""
import json, subprocess, sys
prop, sub, key, what = sys.argv[1:5]
log = subprocess.run(['git', '-C', '/repo', 'log', '--format=%h %s'], capture_output=True, text=True).stdout.splitlines()
hs = [l.split()[0] for l in log if sub in l]
assert len(hs) == 1, (sub, hs)
p = '/verif/known_findings.json'
k = json.load(open(p))
k['findings'] = [f for f in k['findings'] if f['key'] != key]
k['findings'].append({"property": prop, "key": key, "status": "fixed", "commit": hs[0], "what": f"fixed: property={prop} {hs[0]} {what}"})
json.dump(k, open(p, 'w'), indent=1)
print("recorded", prop, hs[0])
