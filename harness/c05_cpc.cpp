// C05 — CPC sketch is an exact coupon bit-matrix; union ORs row-folded matrices; compression is lossless.
// Model: set P of (row = h1 mod 2^lg_k, col = min(lz(h2), 63)) pairs from the reference hash. The matrix has no public
// accessor, so equality is decided by a membership oracle built from the public API (see DESIGN C05):
//   count == |P| after every single update, validate(), and re-offering every item to a copy leaves the count unchanged.
#include "vf/core.hpp"
#include "vf/items.hpp"
#include "vf/hll_model.hpp"   // ref_clz64, high_pool
#include "vf/ref_icon.hpp"
#include <cpc_sketch.hpp>
#include <cpc_union.hpp>
#include <sstream>

using namespace datasketches;
using vf::Case; using vf::Op;

namespace {

uint64_t seed_from(int64_t sel) { return sel == 0 ? 9001ull : vf::mix64(static_cast<uint64_t>(sel) + 17); }

struct Pair { uint32_t row26; uint8_t col; };  // row kept at 26 bits so it can be folded to any lg_k
bool ref_pair(const vf::Item& it, uint64_t seed, Pair& p) {
  vf::H128 h;
  if (!vf::ref_item_hash(it, seed, h)) return false;
  int lz = vf::ref_clz64(h.h2);
  p.col = static_cast<uint8_t>(lz > 63 ? 63 : lz);
  p.row26 = static_cast<uint32_t>(h.h1 & 0x3ffffffu);
  return true;
}
uint32_t fold(const Pair& p, int lg_k) { return ((p.row26 & ((1u << lg_k) - 1)) << 6) | p.col; }

struct Info { std::string flavor; int offset = -1; };
Info info_of(const cpc_sketch& sk) {
  Info i; std::string s = sk.to_string(); std::istringstream in(s); std::string line;
  while (std::getline(in, line)) {
    auto pos = line.find(':');
    if (pos == std::string::npos) continue;
    std::string key = line.substr(0, pos), val = line.substr(pos + 1);
    while (!val.empty() && val[0] == ' ') val.erase(0, 1);
    if (key.find("flavor") != std::string::npos) i.flavor = val;
    if (key.find("window offset") != std::string::npos) i.offset = atoi(val.c_str());
  }
  return i;
}
const char* flavor_name(const std::string& f) {
  // determine_flavor() prints the enum as an integer
  if (f == "0") return "EMPTY"; if (f == "1") return "SPARSE"; if (f == "2") return "HYBRID"; if (f == "3") return "PINNED"; if (f == "4") return "SLIDING";
  return "?";
}

// membership: every item of `items` is already represented in sk (re-offering to a copy adds nothing)
void check_membership(const cpc_sketch& sk, const std::vector<vf::Item>& items, size_t sample, uint64_t rseed, const char* who) {
  cpc_sketch cp(sk);
  uint32_t before = cp.get_num_coupons();
  if (sample == 0 || sample >= items.size()) {
    for (const auto& it : items) vf::feed(cp, it);
  } else {
    vf::Rng r(rseed);
    for (size_t i = 0; i < sample; ++i) vf::feed(cp, items[r.below(items.size())]);
  }
  VF_CHECK(cp.get_num_coupons() == before, "coupon-lost", who << ": re-offering already seen items raised the coupon count from " << before << " to " << cp.get_num_coupons() << " (a collected coupon was lost)");
  VF_CHECK(cp.validate(), "validate", who << ": validate() failed after re-offering");
}

void check_bounds(const cpc_sketch& sk, const char* who) {
  double est = sk.get_estimate();
  VF_CHECK(std::isfinite(est) && est >= 0, "estimate-finite", who << ": estimate " << est);
  double plb = est, pub = est;
  for (unsigned kappa = 1; kappa <= 3; ++kappa) {
    double lb = sk.get_lower_bound(kappa), ub = sk.get_upper_bound(kappa);
    VF_CHECK(lb <= est && est <= ub, "bounds-order", who << ": lb " << lb << " est " << est << " ub " << ub << " kappa " << kappa);
    VF_CHECK(lb <= plb && ub >= pub, "bounds-widen", who << ": interval does not widen at kappa " << kappa);
    plb = lb; pub = ub;
  }
  for (unsigned bad : {0u, 4u}) {
    bool t = false; try { sk.get_lower_bound(bad); } catch (const std::invalid_argument&) { t = true; }
    bool t2 = false; try { sk.get_upper_bound(bad); } catch (const std::invalid_argument&) { t2 = true; }
    VF_CHECK(t && t2, "bounds-reject", who << ": kappa " << bad << " accepted");
  }
}

// serialize -> deserialize (bytes and stream) must reproduce the same sketch
void check_roundtrip(const cpc_sketch& sk, uint64_t seed, const std::vector<vf::Item>& items, size_t expect_count, const char* who) {
  auto bytes = sk.serialize();
  std::stringstream ss; sk.serialize(ss);
  std::string sbytes = ss.str();
  VF_CHECK(sbytes.size() == bytes.size() && std::memcmp(sbytes.data(), bytes.data(), bytes.size()) == 0, "bytes-vs-stream", who << ": stream and byte images differ");
  // get_max_serialized_size_bytes is documented as an empirical 99.9th percentile, not a bound: not asserted
  cpc_sketch r1 = cpc_sketch::deserialize(bytes.data(), bytes.size(), seed);
  std::stringstream ss2(sbytes);
  cpc_sketch r2 = cpc_sketch::deserialize(ss2, seed);
  for (const cpc_sketch* r : {&r1, &r2}) {
    VF_CHECK(r->get_num_coupons() == expect_count, "roundtrip-count", who << ": restored count " << r->get_num_coupons() << " expected " << expect_count);
    VF_CHECK(r->validate(), "roundtrip-validate", who << ": restored sketch fails validate()");
    VF_CHECK(std::string(r->to_string().c_str()) == std::string(sk.to_string().c_str()), "roundtrip-state", who << ": to_string differs after round trip:\n" << sk.to_string() << "\nvs\n" << r->to_string());
    VF_CHECK(r->get_estimate() == sk.get_estimate(), "roundtrip-estimate", who << ": estimate " << r->get_estimate() << " vs " << sk.get_estimate());
    for (unsigned k = 1; k <= 3; ++k) VF_CHECK(r->get_lower_bound(k) == sk.get_lower_bound(k) && r->get_upper_bound(k) == sk.get_upper_bound(k), "roundtrip-bounds", who << ": bounds differ after round trip");
    auto again = r->serialize();
    VF_CHECK(again.size() == bytes.size() && std::memcmp(again.data(), bytes.data(), bytes.size()) == 0, "roundtrip-bytes", who << ": re-serialized image differs");
  }
  check_membership(r1, items, items.size() > 4000 ? 4000 : 0, 7, who);
}

// ---------------------------------------------------------------- single sketch
struct SkCtx {
  int lg_k; uint64_t seed;
  cpc_sketch sk;
  std::set<uint32_t> P;          // folded pairs (row<<6|col)
  std::vector<vf::Item> items;
  uint64_t fresh = 0;
  std::string last_flavor; int last_offset = -2;
  int max_offset = 0; std::set<std::string> flavors;
};

void sk_feed(SkCtx& c, const vf::Item& it) {
  uint32_t before = c.sk.get_num_coupons();
  vf::feed(c.sk, it);
  Pair p; bool novel = false;
  if (ref_pair(it, c.seed, p)) novel = c.P.insert(fold(p, c.lg_k)).second;
  uint32_t after = c.sk.get_num_coupons();
  if (after != before + (novel ? 1u : 0u)) {
    VF_CHECK(false, novel ? "coupon-missed" : "coupon-extra", "update of " << vf::item_type_name(it.type) << " raw " << it.raw << ": coupon count " << before << " -> " << after
             << " but the model says the (row,col) pair is " << (novel ? "new" : "already collected") << " (|P|=" << c.P.size() << ")");
  }
  c.items.push_back(it);
}

void sk_check(SkCtx& c, bool force_full, const char* after) {
  VF_CHECK(c.sk.get_num_coupons() == c.P.size(), "coupon-count", "after " << after << ": get_num_coupons " << c.sk.get_num_coupons() << " model |P| " << c.P.size());
  VF_CHECK(c.sk.is_empty() == c.P.empty(), "is-empty", "after " << after << ": is_empty " << c.sk.is_empty());
  VF_CHECK(c.sk.validate(), "validate", "after " << after << ": validate() failed");
  Info i = info_of(c.sk);
  bool changed = i.flavor != c.last_flavor || i.offset != c.last_offset;
  c.last_flavor = i.flavor; c.last_offset = i.offset;
  c.flavors.insert(i.flavor); c.max_offset = std::max(c.max_offset, i.offset);
  if (!c.items.empty()) check_membership(c.sk, c.items, (force_full || changed) ? 0 : 300, c.items.size(), "sketch");
  check_bounds(c.sk, "sketch");
}

void prop_sketch(const Case& cs) {
  int lg_k = static_cast<int>(std::min<int64_t>(26, std::max<int64_t>(4, cs.get("lg_k", 4))));
  uint64_t seed = seed_from(cs.get("seed", 0));
  SkCtx c{lg_k, seed, cpc_sketch(static_cast<uint8_t>(lg_k), seed), {}, {}};
  sk_check(c, true, "build");
  int serde_points = 0;
  for (const Op& op : cs.ops) {
    if (op.name == "upd") {
      sk_feed(c, vf::Item{static_cast<int>(op.uarg(0) % vf::T_NTYPES), op.uarg(1)});
    } else if (op.name == "bulk") {
      uint64_t n = op.uarg(0) % 1200000;
      if (lg_k > 20) n %= 3000;  // the bit matrix rebuilt by validate() is 8 * 2^lg_k bytes: stay sparse at huge lg_k
      for (uint64_t i = 0; i < n; ++i) sk_feed(c, vf::Item{vf::T_I64, vf::mix64(0xC05 + c.fresh++) | 4096});
    } else if (op.name == "pool") {
      if (seed != 9001) continue;  // the pool was built for the default seed
      const auto& pool = vf::high_pool().keys;
      uint64_t n = op.uarg(0) % 200; vf::Rng r(op.uarg(1));
      for (uint64_t i = 0; i < n; ++i) sk_feed(c, vf::Item{vf::T_I64, static_cast<uint64_t>(pool[r.below(pool.size())].first)});
      vf::label("high-column-keys");
    } else if (op.name == "cluster") {
      // items chosen by their row (reference hash): n items in the lowest k >> shift rows, then a few in the highest k/16 rows - the
      // occupied rows are clustered, so the row gaps of the pair coding are far larger than with uniformly hashed input
      const uint32_t k = 1u << lg_k, lim = std::max<uint32_t>(1, k >> (2 + op.uarg(1) % 4)), top = k - std::max<uint32_t>(1, k >> 4);
      const uint64_t n = op.uarg(0) % 600, salt = op.uarg(2);
      uint64_t ctr = 0, fed = 0, tops = 1 + (salt & 1);
      while (fed < n && ctr < 200000) {
        vf::Item it{vf::T_I64, vf::mix64(salt * 1000003ull + ctr++) | 4096};
        Pair p; if (!ref_pair(it, seed, p)) continue;
        if ((p.row26 & (k - 1)) < lim) { sk_feed(c, it); ++fed; }
      }
      while (tops > 0 && ctr < 400000) {
        vf::Item it{vf::T_I64, vf::mix64(salt * 1000003ull + ctr++) | 4096};
        Pair p; if (!ref_pair(it, seed, p)) continue;
        if ((p.row26 & (k - 1)) >= top) { sk_feed(c, it); --tops; }
      }
      vf::label("clustered-rows");
    } else if (op.name == "dups") {
      uint64_t n = op.uarg(0) % 3000; if (c.items.empty()) continue;
      vf::Rng r(op.uarg(1));
      for (uint64_t i = 0; i < n; ++i) { vf::Item it = c.items[r.below(c.items.size())]; sk_feed(c, it); c.items.pop_back(); }
    } else if (op.name == "serde") {
      check_roundtrip(c.sk, seed, c.items, c.P.size(), "sketch");
      // continue on the restored sketch
      if (op.arg(0) & 1) { auto b = c.sk.serialize(); c.sk = cpc_sketch::deserialize(b.data(), b.size(), seed); vf::label("continue-on-restored"); }
      ++serde_points;
    } else if (op.name == "copy") {
      cpc_sketch cp(c.sk); c.sk = std::move(cp);
    } else continue;
    if (lg_k <= 20) sk_check(c, false, op.name.c_str());
  }
  if (lg_k <= 22) sk_check(c, true, "end");
  else { VF_CHECK(c.sk.get_num_coupons() == c.P.size(), "coupon-count", "end: get_num_coupons " << c.sk.get_num_coupons() << " model " << c.P.size()); }
  if (lg_k <= 22) check_roundtrip(c.sk, seed, c.items, c.P.size(), "final");
  for (const auto& f : c.flavors) vf::label(std::string("flavor:") + flavor_name(f));
  if (c.max_offset >= 1) vf::label("offset>=1");
  if (c.max_offset >= 4) vf::label("offset>=4");
  if (c.max_offset >= 10) vf::label("offset>=10");
  if (serde_points) vf::label("serde");
  if (c.max_offset >= 1) vf::nontrivial();
}

// ---------------------------------------------------------------- union
struct USpec { int lg_k; uint32_t start, n; };

void prop_union(const Case& cs) {
  int u_lgk = static_cast<int>(std::min<int64_t>(16, std::max<int64_t>(4, cs.get("u_lgk", 4))));
  uint64_t seed = seed_from(cs.get("seed", 0));
  std::vector<USpec> specs;
  cpc_union u(static_cast<uint8_t>(u_lgk), seed);
  std::vector<std::pair<int, bool>> steps;
  std::vector<Pair> pairs;        // all pairs offered through non-empty inputs
  std::vector<vf::Item> items;
  int lg_k = u_lgk;
  std::set<int> lgks;
  auto build = [&](const USpec& sp, bool collect) {
    cpc_sketch sk(static_cast<uint8_t>(sp.lg_k), seed);
    for (uint32_t i = 0; i < sp.n; ++i) {
      vf::Item it{vf::T_I64, static_cast<uint64_t>(sp.start) + i};
      vf::feed(sk, it);
      if (collect) { Pair p; if (ref_pair(it, seed, p)) pairs.push_back(p); items.push_back(it); }
    }
    return sk;
  };
  auto check_result = [&](const cpc_union& un, const char* when) {
    cpc_sketch r = un.get_result();
    std::set<uint32_t> P;
    for (const auto& p : pairs) P.insert(fold(p, lg_k));
    VF_CHECK(r.get_lg_k() == lg_k, "union-lg-k", when << ": result lg_k " << int(r.get_lg_k()) << " model " << lg_k);
    VF_CHECK(r.get_num_coupons() == P.size(), "union-count", when << ": result has " << r.get_num_coupons() << " coupons, OR of folded inputs has " << P.size());
    VF_CHECK(r.is_empty() == P.empty(), "union-empty", when << ": is_empty");
    VF_CHECK(r.validate(), "union-validate", when << ": validate() failed on the result");
    if (!items.empty()) check_membership(r, items, items.size() > 20000 ? 20000 : 0, 11, when);
    if (!P.empty()) {
      VF_CHECK(r.get_estimate() == compute_icon_estimate(static_cast<uint8_t>(lg_k), static_cast<uint32_t>(P.size())), "merged-estimate", when << ": merged estimate " << r.get_estimate() << " is not icon(lg_k, C)");
      // ... and that function is the ICON estimator: the cardinality at which the expected number of coupons equals C (independent reference)
      const double ref = vf::ref_icon(lg_k, static_cast<double>(P.size()));
      VF_CHECK(std::fabs(r.get_estimate() - ref) <= vf::ref_icon_tolerance(ref), "merged-estimate-vs-reference", when << ": merged estimate " << r.get_estimate() << " for C = " << P.size() << " at lg_k " << lg_k << ", reference " << ref << " (tolerance " << vf::ref_icon_tolerance(ref) << ")");
    }
    check_bounds(r, when);
    return r;
  };
  for (const Op& op : cs.ops) {
    if (op.name == "sk") {
      if (specs.size() >= 6) continue;
      USpec sp; sp.lg_k = static_cast<int>(4 + op.uarg(0) % 13); sp.start = static_cast<uint32_t>(op.uarg(1) % 20000); sp.n = static_cast<uint32_t>(op.uarg(2) % 60001);
      specs.push_back(sp);
    } else if (op.name == "u_sk") {
      if (specs.empty()) continue;
      size_t i = op.uarg(0) % specs.size(); bool rv = op.arg(1) & 1;
      cpc_sketch sk = build(specs[i], true);
      if (specs[i].n > 0) { lg_k = std::min(lg_k, specs[i].lg_k); lgks.insert(specs[i].lg_k); }
      vf::label(std::string("input:") + flavor_name(info_of(sk).flavor));
      if (rv) u.update(std::move(sk)); else u.update(sk);
      steps.emplace_back(static_cast<int>(i), rv);
    } else if (op.name == "res") {
      check_result(u, "get_result");
      vf::label("intermediate-result");
    } else if (op.name == "wrongseed") {
      cpc_sketch ws(10, seed + 1);
      ws.update(static_cast<int64_t>(1));
      if (vf::ref_seed_hash(seed + 1) == vf::ref_seed_hash(seed)) continue;
      bool t = false; try { u.update(ws); } catch (const std::invalid_argument&) { t = true; }
      VF_CHECK(t, "seed-mismatch-refused", "sketch with another seed accepted by the union");
    }
  }
  cpc_sketch r = check_result(u, "final");
  // lossless compression of the union result
  check_roundtrip(r, seed, items, r.get_num_coupons(), "union result");
  // the union's state is a value: a union of ANOTHER lg_k (empty or already fed) that is overwritten by copy assignment, and a third
  // one by move assignment, gives the same result as the source and keeps doing so when both receive one more sketch
  {
    const uint64_t sel = vf::mix64(static_cast<uint64_t>(cs.get("perm", 1)) + 991);
    const uint8_t other_lgk = static_cast<uint8_t>(4 + (static_cast<unsigned>(u_lgk) - 4 + 1 + sel % 11) % 13);
    cpc_union v(other_lgk, seed), w(static_cast<uint8_t>(4 + (other_lgk - 4 + 5) % 13), seed);
    if (sel & 16) { cpc_sketch t(other_lgk, seed); for (uint32_t i = 0; i < 40 + sel % 3000; ++i) vf::feed(t, vf::Item{vf::T_I64, static_cast<uint64_t>(700000) + i}); v.update(t); }
    v = u;
    cpc_sketch rv = v.get_result();
    auto b0 = r.serialize(), b1 = rv.serialize();
    VF_CHECK(rv.get_lg_k() == r.get_lg_k() && rv.get_num_coupons() == r.get_num_coupons() && b0.size() == b1.size() && std::memcmp(b0.data(), b1.data(), b0.size()) == 0, "union-copy-assign",
             "union(lg_k " << int(other_lgk) << ") = union(lg_k " << u_lgk << "): result lg_k/coupons " << int(rv.get_lg_k()) << "/" << rv.get_num_coupons() << " vs source " << int(r.get_lg_k()) << "/" << r.get_num_coupons());
    w = std::move(v);
    cpc_sketch rw = w.get_result();
    auto b2 = rw.serialize();
    VF_CHECK(rw.get_lg_k() == r.get_lg_k() && rw.get_num_coupons() == r.get_num_coupons() && b0.size() == b2.size() && std::memcmp(b0.data(), b2.data(), b0.size()) == 0, "union-move-assign",
             "move-assigned union: result lg_k/coupons " << int(rw.get_lg_k()) << "/" << rw.get_num_coupons() << " vs source " << int(r.get_lg_k()) << "/" << r.get_num_coupons());
    // one more sketch into the original and into the assigned union
    cpc_sketch extra(static_cast<uint8_t>(4 + sel % 13), seed);
    for (uint32_t i = 0; i < 20 + (sel >> 8) % 2000; ++i) vf::feed(extra, vf::Item{vf::T_I64, static_cast<uint64_t>(800000) + i});
    cpc_union u_copy(u);
    u_copy.update(extra); w.update(extra);
    cpc_sketch e1 = u_copy.get_result(), e2 = w.get_result();
    VF_CHECK(e1.get_lg_k() == e2.get_lg_k() && e1.get_num_coupons() == e2.get_num_coupons(), "union-assign-continue", "after one more input: copy-constructed union gives lg_k/coupons " << int(e1.get_lg_k()) << "/" << e1.get_num_coupons() << ", assigned union " << int(e2.get_lg_k()) << "/" << e2.get_num_coupons());
    vf::label("union-assigned");
  }
  // the result is a sketch like any other: continuing the stream on it - directly and on its restored image - keeps the exact
  // coupon set (nothing offered later is dropped, nothing is invented)
  {
    const uint32_t extra = 100 + static_cast<uint32_t>(vf::mix64(static_cast<uint64_t>(cs.get("perm", 1)) + 77) % 2500);
    std::set<uint32_t> P;
    for (const auto& p : pairs) P.insert(fold(p, lg_k));
    auto bytes = r.serialize();
    cpc_sketch direct(r), restored = cpc_sketch::deserialize(bytes.data(), bytes.size(), seed);
    std::vector<vf::Item> all = items;
    for (uint32_t i = 0; i < extra; ++i) {
      vf::Item it{vf::T_I64, static_cast<uint64_t>(200000) + i};
      vf::feed(direct, it); vf::feed(restored, it);
      Pair p; if (ref_pair(it, seed, p)) P.insert(fold(p, lg_k));
      all.push_back(it);
    }
    VF_CHECK(direct.get_num_coupons() == P.size(), "result-continued", "union result fed " << extra << " further items has " << direct.get_num_coupons() << " coupons, exact coupon set has " << P.size());
    VF_CHECK(restored.get_num_coupons() == P.size(), "result-continued", "restored union result fed " << extra << " further items has " << restored.get_num_coupons() << " coupons, exact coupon set has " << P.size());
    VF_CHECK(direct.validate() && restored.validate(), "result-continued", "validate() failed on the continued union result");
    check_membership(direct, all, all.size() > 20000 ? 20000 : 0, 13, "continued union result");
    vf::label("result-continued");
  }
  // permuted order with opposite lvalue/rvalue, no intermediate results: identical outcome
  if (!steps.empty()) {
    vf::Rng rng(static_cast<uint64_t>(cs.get("perm", 1)) + 3);
    auto perm = steps;
    for (size_t i = perm.size(); i > 1; --i) std::swap(perm[i - 1], perm[rng.below(i)]);
    cpc_union u2(static_cast<uint8_t>(u_lgk), seed);
    for (auto& s : perm) { cpc_sketch sk = build(specs[s.first], false); if (!s.second) u2.update(std::move(sk)); else u2.update(sk); }
    cpc_sketch r2 = u2.get_result();
    VF_CHECK(r2.get_lg_k() == r.get_lg_k() && r2.get_num_coupons() == r.get_num_coupons(), "union-order-independence", "lg_k/count depend on order: " << int(r2.get_lg_k()) << "/" << r2.get_num_coupons() << " vs " << int(r.get_lg_k()) << "/" << r.get_num_coupons());
    VF_CHECK(r2.get_estimate() == r.get_estimate() && r2.get_lower_bound(2) == r.get_lower_bound(2) && r2.get_upper_bound(2) == r.get_upper_bound(2), "union-order-independence", "estimate/bounds depend on order");
    auto b1 = r.serialize(), b2 = r2.serialize();
    VF_CHECK(b1.size() == b2.size() && std::memcmp(b1.data(), b2.data(), b1.size()) == 0, "union-order-independence", "serialized result depends on order");
    if (perm.size() >= 2) vf::label("permuted");
  }
  if (lgks.size() >= 2) { vf::label("unequal-lg-k"); vf::nontrivial(); }
  vf::label(std::string("result:") + flavor_name(info_of(r).flavor));
}

// thorough tier only: one very large sketch per lg_k 19..20 — coupon counts above 2^32/1000 (arithmetic in the compressor's
// pseudo-phase selection); only the round trip is checked (the pair model would need 20M set insertions)
void prop_huge(const Case& cs) {
  int lg_k = static_cast<int>(cs.get("lg_k", 20));
  uint64_t n = static_cast<uint64_t>(cs.get("n", 20000000));
  cpc_sketch sk(static_cast<uint8_t>(lg_k));
  for (uint64_t i = 0; i < n; ++i) sk.update(i);
  VF_CHECK(sk.get_num_coupons() > 0 && sk.validate(), "huge-validate", "validate() failed");
  std::vector<uint8_t> bytes;
  try { auto b = sk.serialize(); bytes.assign(b.begin(), b.end()); }
  catch (const std::exception& e) {
    VF_CHECK_K(false, "huge-serialize", "C09|cpc|serialize-throws|coupon-count-above-2^32/1000", "serialize() of a valid sketch (lg_k " << lg_k << ", " << n << " updates, " << sk.get_num_coupons() << " coupons) throws: " << e.what());
  }
  cpc_sketch r = cpc_sketch::deserialize(bytes.data(), bytes.size());
  VF_CHECK(r.get_num_coupons() == sk.get_num_coupons() && r.get_estimate() == sk.get_estimate() && std::string(r.to_string().c_str()) == std::string(sk.to_string().c_str()), "huge-roundtrip", "round trip of the huge sketch differs");
  auto again = r.serialize();
  VF_CHECK(again.size() == bytes.size() && std::memcmp(again.data(), bytes.data(), bytes.size()) == 0, "huge-roundtrip-bytes", "re-serialized image differs");
  vf::label("huge"); vf::nontrivial();
}
// The merged-form estimate over the estimator's whole range: for every lg_k 4..15 and coupon densities C/k from 0.5 to 6.5 (both sides of the
// polynomial / exponential switch at 5.6-5.7) a union of two overlapping streams sized by the reference estimator; the result's estimate
// must be the ICON value of (lg_k, C): the library's own function AND the independent reference (inverse of the expected coupon count).
void prop_icon_band(const Case& cs) {
  const int lg_k = static_cast<int>(std::min<int64_t>(15, std::max<int64_t>(4, cs.get("lg_k", 4))));
  const double dens = static_cast<double>(cs.get("dens1000", 1000)) / 1000.0;
  const uint64_t k = 1ull << lg_k;
  const uint64_t n = static_cast<uint64_t>(vf::ref_icon(lg_k, dens * static_cast<double>(k)));
  const uint64_t base = vf::mix64(static_cast<uint64_t>(lg_k) * 1000003ull + static_cast<uint64_t>(cs.get("dens1000", 1000))) >> 8;
  cpc_sketch a(static_cast<uint8_t>(lg_k)), c(static_cast<uint8_t>(lg_k));
  for (uint64_t i = 0; i < n; ++i) { if (i < 2 * n / 3) a.update(base + i); if (i >= n / 3) c.update(base + i); }
  cpc_union u(static_cast<uint8_t>(lg_k)); u.update(a); u.update(c);
  cpc_sketch r = u.get_result();
  const uint32_t C = r.get_num_coupons();
  VF_CHECK(r.validate(), "union-validate", "lg_k " << lg_k << ": validate() failed on the union result");
  VF_CHECK(r.get_estimate() == compute_icon_estimate(static_cast<uint8_t>(lg_k), C), "merged-estimate", "lg_k " << lg_k << " C " << C << ": merged estimate " << r.get_estimate() << " is not icon(lg_k, C)");
  const double ref = vf::ref_icon(lg_k, static_cast<double>(C));
  VF_CHECK(std::fabs(r.get_estimate() - ref) <= vf::ref_icon_tolerance(ref), "merged-estimate-vs-reference", "lg_k " << lg_k << " C " << C << " (C/k = " << static_cast<double>(C) / k << "): merged estimate " << r.get_estimate() << ", reference " << ref << " (tolerance " << vf::ref_icon_tolerance(ref) << ")");
  for (unsigned kappa = 1; kappa <= 3; ++kappa) VF_CHECK(r.get_lower_bound(kappa) <= r.get_estimate() && r.get_estimate() <= r.get_upper_bound(kappa), "bounds-order", "lg_k " << lg_k << " C " << C << ": bounds at kappa " << kappa);
  vf::label("icon-band"); vf::nontrivial();
}
void enum_icon_band(std::function<bool(const Case&)> run) {
  long w = vf::env_long("VF_WORKER", 0), nw = std::max<long>(1, vf::env_long("VF_NWORKERS", 1));
  long idx = 0;
  for (int lg_k = 4; lg_k <= 15; ++lg_k)
    for (int d : {500, 2000, 4000, 4600, 5000, 5300, 5550, 5650, 5750, 6100, 6500}) {
      if ((idx++ % nw) != w) continue;
      Case c; c.set("lg_k", lg_k); c.set("dens1000", d);
      if (!run(c)) return;
    }
}

void enum_huge(std::function<bool(const Case&)> run) {
  if (vf::env("VF_TIER") != "thorough") return;
  long w = vf::env_long("VF_WORKER", 0);
  if (w == 0) { Case c; c.set("lg_k", 20); c.set("n", 20000000); run(c); }
  if (w == 1) { Case c; c.set("lg_k", 19); c.set("n", 12000000); run(c); }
}

rc::Gen<Case> gen_sketch() {
  using namespace vf;
  auto opg = choose({
      {4, op2("upd", range(0, T_NTYPES - 1), raw_gen())},
      {4, op1("bulk", rc::gen::withSize([](int s) { return range(0, 50 + 400 * s); }))},
      {2, op1("bulk", range(0, 60))},
      {2, op2("pool", range(1, 150), range(0, 1 << 20))},
      {2, op3("cluster", range(1, 599), range(0, 3), range(0, 1 << 20))},
      {1, op2("dups", range(1, 1000), range(0, 1 << 20))},
      {2, op1("serde", range(0, 1))},
      {1, op0("copy")},
  });
  return make_case({{"lg_k", rc::gen::weightedOneOf<int64_t>({{6, range(4, 6)}, {4, range(7, 9)}, {2, range(10, 12)}})},
                    {"seed", rc::gen::weightedOneOf<int64_t>({{3, rc::gen::just<int64_t>(0)}, {1, range(1, 1000)}})}},
                   oplist(opg, 2, 0.2));
}
// many window shifts: tiny k, long streams
rc::Gen<Case> gen_deep() {
  using namespace vf;
  auto opg = choose({{4, op1("bulk", range(10000, 1199999))}, {2, op2("pool", range(50, 199), range(0, 1 << 20))}, {1, op1("serde", range(0, 1))}, {1, op2("upd", range(0, T_NTYPES - 1), raw_gen())}});
  return make_case({{"lg_k", range(4, 6)}, {"seed", pick({0, 0, 5})}}, oplist(opg, 2, 0.05));
}
// large lg_k (13..26): sparse/hybrid flavors only at the top end
rc::Gen<Case> gen_large() {
  using namespace vf;
  auto opg = choose({{3, op1("bulk", range(0, 200000))}, {1, op2("upd", range(0, T_NTYPES - 1), raw_gen())}, {1, op1("serde", range(0, 1))}, {1, op3("cluster", range(1, 599), range(0, 3), range(0, 1 << 20))}});
  return make_case({{"lg_k", range(13, 26)}, {"seed", pick({0, 0, 9})}}, oplist(opg, 1, 0.04));
}
rc::Gen<Case> gen_union() {
  using namespace vf;
  auto nGen = rc::gen::weightedOneOf<int64_t>({{1, range(0, 0)}, {2, range(1, 30)}, {4, range(30, 3000)}, {2, range(3000, 60000)}});
  auto sk = rc::gen::map(rc::gen::tuple(range(0, 12), range(0, 19999), nGen), [](std::tuple<int64_t, int64_t, int64_t> t) { return Op{"sk", {std::get<0>(t), std::get<1>(t), std::get<2>(t)}}; });
  auto hist = choose({{8, op2("u_sk", range(0, 5), range(0, 1))}, {2, op0("res")}, {1, op0("wrongseed")}});
  auto ops = rc::gen::map(rc::gen::tuple(rc::gen::mapcat(range(2, 5), [sk](int64_t n) { return rc::gen::container<std::vector<Op>>(static_cast<size_t>(n), sk); }), oplist(hist, 2, 0.1)),
                          [](std::tuple<std::vector<Op>, std::vector<Op>> t) { auto v = std::get<0>(t); auto& h = std::get<1>(t); v.insert(v.end(), h.begin(), h.end()); return v; });
  return make_case({{"u_lgk", rc::gen::weightedOneOf<int64_t>({{3, range(4, 8)}, {2, range(9, 12)}, {1, range(13, 16)}})}, {"seed", pick({0, 0, 0, 3})}, {"perm", range(0, 1 << 20)}}, ops);
}

}  // namespace

int main(int argc, char** argv) {
  return vf::main_driver(argc, argv, "C05", "c05_cpc",
                         "sketch subs: case = (lg_k, seed) + stream ops (typed updates, bulk fresh keys, keys with >=14 leading zeros, duplicates, serialize/"
                         "deserialize points incl. continuing on the restored sketch, copy); the coupon count is compared with the reference (row,col) pair set "
                         "after EVERY update, and validate + re-offering all items to a copy after every op / at every flavor or window-offset change; "
                         "union sub: 2..5 input sketches with unequal lg_k in generated orders, lvalue/rvalue, intermediate results, permuted replay, "
                         "round trip of the result. non-trivial = window offset >= 1 reached (sketch) or inputs with unequal lg_k (union); distinct = distinct case text",
                         {{"sketch", gen_sketch, prop_sketch, 0.6}, {"deep", gen_deep, prop_sketch, 0.02, 60}, {"large", gen_large, prop_sketch, 0.04, 60}, {"union", gen_union, prop_union, 0.4}, vf::Sub{"huge", nullptr, prop_huge, 1.0, -1, enum_huge}, vf::Sub{"icon_band", nullptr, prop_icon_band, 1.0, -1, enum_icon_band}});
}
