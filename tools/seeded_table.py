#!/usr/bin/env python3
"""Prints a markdown table of the seeded changes under /verif/seeded: what was changed, and which check catches it
(latest line per property/tier of results.txt; earlier MISSED lines are the history of a check that was strengthened)."""
import glob, json, os, re
rows = []
for d in sorted(glob.glob('/verif/seeded/C*-*'), key=lambda x: (x.split('/')[-1].split('-')[0], x)):
    runs = []
    if os.path.exists(d + '/results.txt'):
        for l in open(d + '/results.txt'):
            mm = re.search(r'\[(C\d+) (\w+)\] exit (\d+) (CAUGHT|MISSED) ?(check=\S+)?', l)
            if mm: runs.append((mm.group(1), mm.group(2), mm.group(4), (mm.group(5) or '').replace('check=', '')))
    patch = open(d + '/patch.diff').read()
    files = sorted(set(re.findall(r'^\+\+\+ b/(\S+)', patch, re.M)))
    readme = open(d + '/README.md', errors='replace').read() if os.path.exists(d + '/README.md') else ''
    title = ''
    n = os.path.basename(d).split('-')[1]
    heads = [l for l in readme.splitlines() if l.startswith('#')]
    own = [l for l in heads if re.match(rf'^#+\s*change ?{n}\b', l, re.I)]
    for l in (own or heads)[:1]:
        title = re.sub(r'^#+\s*change ?\d+(\.diff)?\s*[-:(—]*\s*', '', l, flags=re.I).strip(' -:()—')
    title = re.sub(r'`?change\d\.diff`?,?\s*`?demo\d\.cpp`?\)?\s*[-:]*\s*', '', title)[:150].replace('|', '/')
    latest = {}
    for r in runs: latest[(r[0], r[1])] = r
    caught = [f"{k[0]} {k[1]} (`{v[3]}`)" for k, v in latest.items() if v[2] == 'CAUGHT']
    missed_now = [f"{k[0]} {k[1]}" for k, v in latest.items() if v[2] == 'MISSED']
    n_missed_before = sum(1 for r in runs if r[2] == 'MISSED' and latest[(r[0], r[1])][2] == 'CAUGHT')
    verdict = ("caught by " + ", ".join(caught)) if caught else ("MISSED" if runs else "not run")
    if missed_now and caught: verdict += "; not by " + ", ".join(missed_now)
    if n_missed_before: verdict += f" — after strengthening (missed {n_missed_before}x before)"
    rows.append((os.path.basename(d), ", ".join(os.path.basename(f) for f in files), title, verdict))
print("| seeded change | file | what the change does | result |\n|---|---|---|---|")
for r in rows: print("| " + " | ".join(r) + " |")
