// C01 — Theta update sketch is an exact hash-threshold sample of the distinct inputs.
// Model: set S of reference hashes (MurmurHash3 of the documented canonical form, >> 1) offered since the last reset,
// theta0 = floor(2^63 * p) (or 2^63-1 for p = 1). After every operation the retained entries must be exactly
// {s in S : s < theta}, theta must be monotone, in {theta0} u S, and < theta0 only while >= k entries are retained.
#include "vf/core.hpp"
#include "vf/items.hpp"
#include <theta_sketch.hpp>
#include <set>

using namespace datasketches;
using vf::Case; using vf::Op;

namespace {

const uint64_t MAX_THETA = 0x7fffffffffffffffull;

uint64_t seed_from(int64_t sel) { return sel == 0 ? 9001ull : vf::mix64(static_cast<uint64_t>(sel)); }
float p_from(int64_t sel) {
  switch (sel) {
    case 0: return 1.0f;
    case 1: return 0.5f;
    case 2: return 1e-3f;
    case 3: return 0.25f;
    default: {  // generated float in (0,1]
      float f = static_cast<float>((vf::mix64(static_cast<uint64_t>(sel)) >> 40) + 1) / 16777216.0f;
      return f > 1.0f ? 1.0f : f;
    }
  }
}

struct Model {
  uint64_t seed, theta0, prev_theta;
  uint32_t k;
  std::set<uint64_t> S;   // all hashes offered since reset (0 excluded: documented as reserved)
  bool empty = true;
  std::vector<vf::Item> history;  // items fed (for replays of old keys)
  uint64_t fresh = 0;
};

struct Ctx {
  update_theta_sketch sk;
  Model m;
  int ntypes_seen = 0; uint32_t types_mask = 0;
  bool rebuilt = false, screened = false;
};

void check_state(Ctx& c, const char* after) {
  Model& m = c.m;
  const update_theta_sketch& sk = c.sk;
  uint64_t theta = sk.get_theta64();
  // emptiness
  VF_CHECK(sk.is_empty() == m.empty, "is-empty", "after " << after << ": is_empty=" << sk.is_empty() << " model=" << m.empty);
  if (m.empty) {
    VF_CHECK(theta == MAX_THETA, "theta-empty", "empty sketch reports theta " << theta);
    VF_CHECK(sk.get_num_retained() == 0, "retained-empty", "empty sketch retains " << sk.get_num_retained());
    VF_CHECK(sk.begin() == sk.end(), "iter-empty", "empty sketch iterates");
    VF_CHECK(sk.get_estimate() == 0.0, "estimate-empty", "estimate " << sk.get_estimate());
    VF_CHECK(!sk.is_estimation_mode(), "estmode-empty", "empty sketch in estimation mode");
    return;
  }
  // theta rules
  VF_CHECK(theta <= m.prev_theta, "theta-monotone", "after " << after << ": theta increased " << m.prev_theta << " -> " << theta);
  VF_CHECK(theta == m.theta0 || m.S.count(theta) == 1, "theta-is-hash", "theta " << theta << " is neither theta0 " << m.theta0 << " nor a seen hash");
  // retained set
  std::vector<uint64_t> R;
  for (auto it = sk.begin(); it != sk.end(); ++it) R.push_back(*it);
  VF_CHECK(R.size() == sk.get_num_retained(), "num-retained", "iterated " << R.size() << " get_num_retained " << sk.get_num_retained());
  std::sort(R.begin(), R.end());
  for (size_t i = 0; i < R.size(); ++i) {
    VF_CHECK(R[i] != 0, "zero-entry", "entry 0 retained");
    VF_CHECK(i == 0 || R[i] != R[i - 1], "duplicate-entry", "entry " << R[i] << " retained twice");
    VF_CHECK(R[i] < theta, "entry-above-theta", "entry " << R[i] << " >= theta " << theta);
  }
  // expected = {s in S : s < theta}
  size_t i = 0;
  for (auto it = m.S.begin(); it != m.S.end() && *it < theta; ++it, ++i) {
    VF_CHECK(i < R.size() && R[i] == *it, "retained-set", "after " << after << ": expected hash " << *it << " at sorted position " << i
             << (i < R.size() ? " found " + std::to_string(R[i]) : std::string(" but only ") + std::to_string(R.size()) + " retained")
             << " (theta " << theta << ", |S|=" << m.S.size() << ")");
  }
  VF_CHECK(i == R.size(), "retained-set", "after " << after << ": " << R.size() << " retained, model has " << i << " below theta");
  if (theta < m.theta0) {
    VF_CHECK(R.size() >= m.k, "theta-needs-k", "theta " << theta << " < theta0 with only " << R.size() << " < k=" << m.k << " retained");
    c.rebuilt = true;
  }
  // estimate
  bool est_mode = theta < MAX_THETA;
  VF_CHECK(sk.is_estimation_mode() == est_mode, "estimation-mode", "is_estimation_mode " << sk.is_estimation_mode() << " theta " << theta);
  if (!est_mode) {
    VF_CHECK(sk.get_estimate() == static_cast<double>(m.S.size()), "exact-estimate", "exact mode estimate " << sk.get_estimate() << " distinct " << m.S.size());
    for (uint8_t sd = 1; sd <= 3; ++sd) {
      VF_CHECK(sk.get_lower_bound(sd) == sk.get_estimate() && sk.get_upper_bound(sd) == sk.get_estimate(), "exact-bounds", "bounds differ from estimate in exact mode");
    }
  } else {
    double expect = static_cast<double>(R.size()) / (static_cast<double>(theta) / static_cast<double>(MAX_THETA));
    double est = sk.get_estimate();
    VF_CHECK(std::fabs(est - expect) <= 1e-9 * std::max(1.0, expect), "estimate-formula", "estimate " << est << " expected retained/theta = " << expect);
    for (uint8_t sd = 1; sd <= 3; ++sd) {
      VF_CHECK(sk.get_lower_bound(sd) <= est && est <= sk.get_upper_bound(sd), "bounds-order", "lb<=est<=ub violated at " << int(sd));
    }
  }
  m.prev_theta = theta;
}

void check_compact(Ctx& c, bool ordered) {
  const update_theta_sketch& sk = c.sk;
  compact_theta_sketch cs = sk.compact(ordered);
  VF_CHECK(cs.get_theta64() == sk.get_theta64(), "compact-theta", "compact theta " << cs.get_theta64() << " vs " << sk.get_theta64());
  VF_CHECK(cs.is_empty() == sk.is_empty(), "compact-empty", "compact emptiness differs");
  VF_CHECK(cs.get_seed_hash() == vf::ref_seed_hash(c.m.seed), "seed-hash", "seed hash " << cs.get_seed_hash() << " reference " << vf::ref_seed_hash(c.m.seed));
  VF_CHECK(sk.get_seed_hash() == cs.get_seed_hash(), "seed-hash", "seed hash differs");
  std::vector<uint64_t> a, b;
  for (auto h : sk) a.push_back(h);
  for (auto h : cs) b.push_back(h);
  if (ordered) {
    VF_CHECK(cs.is_ordered(), "compact-ordered-flag", "ordered compact not flagged ordered");
    VF_CHECK(std::is_sorted(b.begin(), b.end()), "compact-sorted", "ordered compact not sorted");
  } else if (cs.is_ordered()) {
    VF_CHECK(std::is_sorted(b.begin(), b.end()), "compact-sorted", "compact flagged ordered but not sorted");
  }
  std::sort(a.begin(), a.end()); std::sort(b.begin(), b.end());
  VF_CHECK(a == b, "compact-entries", "compact entry set differs: " << a.size() << " vs " << b.size());
  VF_CHECK(cs.get_num_retained() == a.size(), "compact-num", "compact num retained");
  VF_CHECK(cs.get_estimate() == sk.get_estimate(), "compact-estimate", "compact estimate differs");
  // compact of compact keeps it
  compact_theta_sketch cs2(cs, true);
  std::vector<uint64_t> d; for (auto h : cs2) d.push_back(h);
  VF_CHECK(d == b && cs2.get_theta64() == cs.get_theta64(), "compact-compact", "compact(compact) differs");
}

void do_update(Ctx& c, const vf::Item& it) {
  Model& m = c.m;
  uint64_t before = c.sk.is_empty() ? m.theta0 : c.sk.get_theta64();
  vf::feed(c.sk, it);
  vf::H128 h;
  if (vf::ref_item_hash(it, m.seed, h)) {
    m.empty = false;
    uint64_t s = h.h1 >> 1;
    if (s != 0) m.S.insert(s);
    if (s >= before) c.screened = true;
  }
  // cheap per-update pin of the rebuild pivot: right after theta decreases exactly k entries are retained
  uint64_t after = c.sk.get_theta64();
  if (!m.empty && after < before) {
    VF_CHECK(c.sk.get_num_retained() == m.k, "rebuild-keeps-k", "right after theta decreased, retained " << c.sk.get_num_retained() << " != k " << m.k);
  }
  if (!(c.types_mask & (1u << it.type))) { c.types_mask |= 1u << it.type; c.ntypes_seen++; }
}

void prop(const Case& cs) {
  uint8_t lg_k = static_cast<uint8_t>(std::min<int64_t>(26, std::max<int64_t>(5, cs.get("lg_k", 5))));
  int rf = static_cast<int>(cs.get("rf", 3) & 3);
  if (rf == 0 && lg_k > 20) rf = 3;  // X1 preallocates 2^(lg_k+1) entries; kept out of routine cases (memory), see DESIGN C01
  float p = p_from(cs.get("p", 0));
  uint64_t seed = seed_from(cs.get("seed", 0));
  update_theta_sketch::builder b;
  b.set_lg_k(lg_k).set_resize_factor(static_cast<update_theta_sketch::resize_factor>(rf)).set_p(p).set_seed(seed);
  // a builder that refused an argument still builds the last accepted configuration (cfg "refuse": which illegal setter calls are made first)
  const int refuse = static_cast<int>(cs.get("refuse", 0) & 7);
  if (refuse & 1) { bool t = false; try { b.set_lg_k(4); } catch (const std::invalid_argument&) { t = true; } VF_CHECK(t, "builder-refuses", "set_lg_k(4) accepted"); }
  if (refuse & 2) { bool t = false; try { b.set_lg_k(27); } catch (const std::invalid_argument&) { t = true; } VF_CHECK(t, "builder-refuses", "set_lg_k(27) accepted"); }
  if (refuse & 4) { bool t = false; try { b.set_p(1.5f); } catch (const std::invalid_argument&) { t = true; } VF_CHECK(t, "builder-refuses", "set_p(1.5) accepted"); }
  if (refuse) vf::label("builder-reused-after-refusal");
  Ctx c{b.build(), Model{}};
  Model& m = c.m;
  m.seed = seed; m.k = 1u << lg_k;
  m.theta0 = p < 1.0f ? static_cast<uint64_t>(std::ldexp(static_cast<double>(p), 63)) : MAX_THETA;
  m.prev_theta = m.theta0;
  VF_CHECK(c.sk.get_lg_k() == lg_k, "config", "lg_k");
  check_state(c, "build");
  bool big = lg_k > 14;
  for (const Op& op : cs.ops) {
    if (op.name == "upd") {
      vf::Item it{static_cast<int>(op.uarg(0) % vf::T_NTYPES), op.uarg(1)};
      do_update(c, it);
      m.history.push_back(it);
    } else if (op.name == "bulk") {
      uint64_t n = op.uarg(0) % 70000;
      int type = static_cast<int>(op.uarg(1) % vf::T_NTYPES);
      if (type == vf::T_U8 || type == vf::T_I8 || type == vf::T_U16 || type == vf::T_I16) type = vf::T_I64;  // need many distinct keys
      for (uint64_t i = 0; i < n; ++i) {
        vf::Item it{type, vf::mix64(0xC01 + (m.fresh++)) | 4096};
        do_update(c, it);
        if (m.history.size() < 200000) m.history.push_back(it);
      }
    } else if (op.name == "old") {
      uint64_t n = op.uarg(0) % 5000;
      if (m.history.empty()) continue;
      vf::Rng r(op.uarg(1));
      for (uint64_t i = 0; i < n; ++i) do_update(c, m.history[r.below(m.history.size())]);
      vf::label("duplicates");
    } else if (op.name == "trim") {
      c.sk.trim();
      if (!m.empty) VF_CHECK(c.sk.get_num_retained() <= m.k, "trim-leaves-k", "after trim " << c.sk.get_num_retained() << " > k " << m.k);
      vf::label("trim");
    } else if (op.name == "reset") {
      c.sk.reset();
      m.S.clear(); m.empty = true; m.prev_theta = m.theta0; m.history.clear();
      vf::label("reset");
    } else if (op.name == "compact") {
      check_compact(c, op.arg(0) & 1);
      vf::label("compact");
    } else if (op.name == "copy") {
      const unsigned mode = static_cast<unsigned>(op.uarg(0) % 4);
      if (mode == 0) {
        update_theta_sketch cp(c.sk);
        c.sk = std::move(cp);
        vf::label("copy");
      } else {
        // a sketch of ANOTHER configuration is overwritten by assignment and then takes the place of the sketch under test (by
        // move construction): the whole configuration (lg_k, p, seed, resize factor) has to travel with the assigned value,
        // which shows at the next reset / rebuild / update
        update_theta_sketch::builder ob;
        ob.set_lg_k(lg_k == 5 ? 7 : 5).set_p(p < 1.0f ? 1.0f : 0.25f).set_seed(seed + 17).set_resize_factor(static_cast<update_theta_sketch::resize_factor>((rf + 1) & 3));
        update_theta_sketch other = ob.build();
        if (mode == 3) for (int64_t i = 0; i < 40; ++i) other.update(i);
        if (mode == 1) { other = c.sk; vf::label("copy-assign-over-other-config"); }
        else { update_theta_sketch cp(c.sk); other = std::move(cp); vf::label("move-assign-over-other-config"); }
        c.sk.~update_theta_sketch();
        new (&c.sk) update_theta_sketch(std::move(other));
      }
    } else continue;
    if (!big || &op == &cs.ops.back()) check_state(c, op.name.c_str());
  }
  if (big) check_state(c, "end");
  check_compact(c, true);
  check_compact(c, false);
  if (c.rebuilt) vf::label("rebuild");
  if (c.screened && p < 1.0f) vf::label("p-screened");
  if (c.ntypes_seen >= 3) vf::label("types>=3");
  if (m.theta0 < MAX_THETA) vf::label("p<1");
  vf::label(std::string("rf=X") + std::to_string(1 << rf));
  if (lg_k > 12) vf::label("lg_k>12");
  if (c.rebuilt || (c.screened && p < 1.0f) || c.ntypes_seen >= 3) vf::nontrivial();
}

rc::Gen<Case> gen_main() {
  using namespace vf;
  auto opg = choose({
      {6, op2("upd", range(0, T_NTYPES - 1), raw_gen())},
      {3, op2("bulk", rc::gen::withSize([](int s) { return range(0, 40 + 60 * s); }), range(0, T_NTYPES - 1))},
      {2, op2("bulk", range(0, 300), range(0, T_NTYPES - 1))},
      {1, op2("old", range(1, 400), range(0, 1 << 20))},
      {1, op0("trim")},
      {1, rc::gen::map(range(0, 99), [](int64_t x) { return x < 25 ? Op{"reset", {}} : Op{"trim", {}}; })},
      {1, op1("compact", range(0, 1))},
      {2, op1("copy", range(0, 3))},
  });
  return make_case({{"lg_k", rc::gen::weightedOneOf<int64_t>({{8, range(5, 7)}, {3, range(8, 10)}, {1, range(11, 13)}})},
                    {"rf", range(0, 3)},
                    {"p", rc::gen::weightedOneOf<int64_t>({{4, rc::gen::just<int64_t>(0)}, {3, range(1, 3)}, {2, range(4, 1 << 20)}})},
                    {"seed", rc::gen::weightedOneOf<int64_t>({{2, rc::gen::just<int64_t>(0)}, {1, range(1, 1 << 20)}})},
                    {"refuse", rc::gen::weightedOneOf<int64_t>({{3, rc::gen::just<int64_t>(0)}, {1, vf::pick({1, 2, 3, 4, 5, 6, 7})}})}},
                   oplist(opg, 2, 0.4));
}

// large nominal sizes in exact mode (and one rebuild at moderate size); few ops, state checked at the end
rc::Gen<Case> gen_large() {
  using namespace vf;
  auto opg = choose({{3, op2("bulk", range(1000, 69999), range(0, 1))}, {1, op2("upd", range(0, T_NTYPES - 1), raw_gen())}, {1, op0("trim")}, {1, op1("compact", range(0, 1))}});
  return make_case({{"lg_k", range(14, 26)}, {"rf", range(0, 3)}, {"p", pick({0, 0, 1})}, {"seed", range(0, 3)}}, oplist(opg, 1, 0.05));
}

}  // namespace

int main(int argc, char** argv) {
  std::vector<vf::Sub> subs;
  subs.push_back({"main", gen_main, prop, 1.0});
  subs.push_back({"large", gen_large, prop, 0.03, 60});
  return vf::main_driver(argc, argv, "C01", "c01_theta_update",
                         "case = builder config (lg_k, rf, p, seed) + generated op history (typed updates with edge values, bulk fresh keys, "
                         "duplicates, trim, reset, compact, copy); the whole state is compared with the reference-hash model after every op; "
                         "non-trivial = a rebuild lowered theta, or p<1 screened out at least one hash, or >=3 input types were mixed; "
                         "distinct = distinct case text",
                         subs);
}
