// vf/c19_engine.hpp — family-independent part of C19: the lifecycle history over NS slots of live objects.
//
// A family F (see c19_fam_*.hpp) supplies
//   using Obj = ...;                                          the sketch / operator class, built with track_alloc
//   static const char* name();
//   static Obj* make(Env&, uint64_t variant, int reg);        construct with the user's allocator instance `reg`
//   static void update(Env&, Obj&, uint64_t seed, unsigned n);     a batch of updates (for operators: feeds input sketches)
//   static bool merge_ref(Env&, Obj& d, const Obj& s);        false = the family has no such operation / operands incompatible
//   static bool merge_move(Env&, Obj& d, Obj&& s);
//   static bool reset(Obj&);                                  false = no reset in the API
//   static Obj* serde(Env&, const Obj&, uint64_t mode, int reg);   serialize + deserialize with allocator `reg` (nullptr = none)
//   static void observe(const Obj&, std::ostream&);           canonical text of everything the public API reports
//   static void canon(const Obj&, std::ostream&);             what must survive serialization ("" = not compared)
//   static void query(Env&, const Obj&, uint64_t seed);       extra const queries (temporaries, to_string, ...)
// The engine owns the objects (plain new/delete of Obj, never the tracked allocator), runs the generated history and
// evaluates the value-semantics oracle after every step.
#ifndef VF_C19_ENGINE_HPP
#define VF_C19_ENGINE_HPP
#include "core.hpp"
#include "c19_track_alloc.hpp"
#include "c19_probe_item.hpp"
#include <common_defs.hpp>
#include "coin.hpp"
#include <memory>
#include <sstream>

namespace vf19 {

const int NS = 4;

struct Env {
  AllocRegistry reg[2] = {AllocRegistry(0), AllocRegistry(1)};
  int nreg = 1;
  uint64_t seed = 0;
  uint64_t cfg_a = 0, cfg_b = 0;   // family-specific configuration values of the case
  template <typename T> track_alloc<T> alloc(int i) { return track_alloc<T>(reg[(i & 1) % nreg]); }
};

// storage of the objects themselves is harness memory (not a library allocation): taken outside the library scope
inline void* raw_storage(size_t n) { InternalScope in; return ::operator new(n); }
inline void release_storage(void* p) { InternalScope in; ::operator delete(p); }
// construct<Obj>([&](void* mem) { return new (mem) Obj(args...); })
template <typename Obj, typename Fn> Obj* construct(Fn&& placement) {
  void* mem = raw_storage(sizeof(Obj));
  try { LibScope ls; return placement(mem); }
  catch (...) { release_storage(mem); throw; }
}

// ---------------------------------------------------------------- type-erased family
struct IFamily {
  virtual ~IFamily() {}
  virtual const char* name() const = 0;
  virtual void* make(Env&, uint64_t variant, int reg) const = 0;
  virtual void destroy(void*) const = 0;
  virtual void* copy_construct(const void*) const = 0;
  virtual void* move_construct(void*) const = 0;
  virtual const char* copy_assign_defect() const = 0;   // nullptr = copy assignment exists
  virtual void copy_assign(void* d, const void* s) const = 0;
  virtual void move_assign(void* d, void* s) const = 0;
  virtual void chain_assign(void* a, void* b, const void* c) const = 0;
  virtual void update(Env&, void*, uint64_t seed, unsigned n) const = 0;
  virtual bool merge_ref(Env&, void* d, const void* s) const = 0;
  virtual bool merge_move(Env&, void* d, void* s) const = 0;
  virtual bool merge_lval(Env&, void* d, void* s) const = 0;   // the source as a NON-const lvalue (forwarding overloads deduce another type than for const&)
  virtual bool reset(void*) const = 0;
  virtual void* serde(Env&, const void*, uint64_t mode, int reg) const = 0;
  virtual std::string observe(const void*) const = 0;
  virtual std::string canon(const void*) const = 0;
  virtual void query(Env&, const void*, uint64_t seed) const = 0;
};

// A family whose class has no usable copy assignment (it does not compile) declares
//   static const char* copy_assign_defect() { return "<why>"; }
// the copy-assignment steps then fail with that message (keyed by the family's hook) instead of being compiled.
template <typename F, typename = void> struct copy_assign_broken : std::false_type {};
template <typename F> struct copy_assign_broken<F, decltype(void(F::copy_assign_defect()))> : std::true_type {};

template <typename F>
struct FamilyImpl : IFamily {
  using Obj = typename F::Obj;
  static Obj* o(void* p) { return static_cast<Obj*>(p); }
  static const Obj* o(const void* p) { return static_cast<const Obj*>(p); }
  const char* name() const override { return F::name(); }
  void* make(Env& e, uint64_t v, int reg) const override { return F::make(e, v, reg); }
  void destroy(void* p) const override { { LibScope ls; o(p)->~Obj(); } release_storage(p); }
  void* copy_construct(const void* s) const override { return construct<Obj>([&](void* m) { return new (m) Obj(*o(s)); }); }
  void* move_construct(void* s) const override { return construct<Obj>([&](void* m) { return new (m) Obj(std::move(*o(s))); }); }
  const char* copy_assign_defect() const override { if constexpr (copy_assign_broken<F>::value) return F::copy_assign_defect(); else return nullptr; }
  void copy_assign(void* d, const void* s) const override {
    if constexpr (copy_assign_broken<F>::value) { (void)d; (void)s; throw std::logic_error("copy assignment is not available"); }
    else { LibScope ls; *o(d) = *o(s); }
  }
  void move_assign(void* d, void* s) const override { LibScope ls; *o(d) = std::move(*o(s)); }
  void chain_assign(void* a, void* b, const void* c) const override {
    if constexpr (copy_assign_broken<F>::value) { (void)a; (void)b; (void)c; throw std::logic_error("copy assignment is not available"); }
    else { LibScope ls; *o(a) = *o(b) = *o(c); }
  }
  void update(Env& e, void* p, uint64_t seed, unsigned n) const override { F::update(e, *o(p), seed, n); }
  bool merge_ref(Env& e, void* d, const void* s) const override { return F::merge_ref(e, *o(d), *o(s)); }
  bool merge_move(Env& e, void* d, void* s) const override { return F::merge_move(e, *o(d), std::move(*o(s))); }
  bool merge_lval(Env& e, void* d, void* s) const override { return F::merge_ref(e, *o(d), *o(s)); }
  bool reset(void* p) const override { return F::reset(*o(p)); }
  void* serde(Env& e, const void* s, uint64_t mode, int reg) const override { return F::serde(e, *o(s), mode, reg); }
  std::string observe(const void* p) const override { std::ostringstream os; F::observe(*o(p), os); return os.str(); }
  std::string canon(const void* p) const override { std::ostringstream os; F::canon(*o(p), os); return os.str(); }
  void query(Env& e, const void* p, uint64_t seed) const override { F::query(e, *o(p), seed); }
};

// ---------------------------------------------------------------- non-template check helpers (keeps the TU small)
[[noreturn]] inline void raise(const char* id, const std::string& msg, const std::string& key = "") { vf::count("checks"); vf::fail(id, msg, key); }
inline std::string first_diff(const std::string& a, const std::string& b) {
  size_t i = 0;
  while (i < a.size() && i < b.size() && a[i] == b[i]) ++i;
  size_t from = i > 40 ? i - 40 : 0;
  std::string x = a.substr(from, 120), y = b.substr(from, 120);
  for (char& c : x) if (c == '\n') c = '|';
  for (char& c : y) if (c == '\n') c = '|';
  return "first difference at char " + std::to_string(i) + ": ..." + x + "...  VS  ..." + y + "...";
}
inline void expect_same(const std::string& got, const std::string& want, const char* id, const std::string& what, const std::string& key = "") {
  vf::count("checks");
  if (got != want) vf::fail(id, what + ": " + first_diff(got, want), key);
}

// ---------------------------------------------------------------- the history
enum SlotState { DEAD = 0, LIVE = 1, MOVED = 2 };  // MOVED: moved-from (only destroy / assign-to are exercised)

struct Slot {
  void* p = nullptr;
  SlotState st = DEAD;
  bool frozen = false;       // family-declared: no further mutation (e.g. a state another property's open finding breaks)
  std::string rec;           // recorded observation (valid while LIVE)
  int copy_peer = -1;        // slot this one was copied from / to, while neither side has been mutated
  bool mutated_since_copy = false;
};

struct HistoryHooks {
  // called before an operation that a known, still open, finding turns into a crash: return the key to skip the case
  // (KnownSkip) when that key is listed; nullptr / "" otherwise
  std::function<std::string(const char* op, bool dst_moved_from, bool self)> crash_key;
  // family-declared: object created by serde must not be mutated (defect owned by another property)
  bool freeze_after_serde = false;
  // exceptions of this family's mutating calls that are outcomes owned by other properties: the slot is only destroyed afterwards
  bool tolerate_logic_error = false;
};

struct History {
  const IFamily& fam;
  Env& env;
  HistoryHooks hooks;
  Slot s[NS];
  uint64_t step = 0;
  bool nt = false;
  std::string famname;

  History(const IFamily& f, Env& e, HistoryHooks h) : fam(f), env(e), hooks(std::move(h)), famname(f.name()) {}
  ~History() { for (int i = 0; i < NS; ++i) kill(i); }

  void kill(int i) {
    if (s[i].st != DEAD && s[i].p) fam.destroy(s[i].p);
    s[i] = Slot();
  }
  void reseed(uint64_t salt) { vf::own_randomness(vf::mix64(env.seed ^ vf::mix64(step * 0x100 + salt))); }

  // Allocator errors of one step. A family may map an allocator or item error to the key of a known finding (alloc_key). Such a finding is
  // benign for the rest of the history (the tracking allocator releases the block in the registry that owns it), so when
  // its key is listed as open the error is counted once per case and the history goes on; everything else fails here.
  std::function<std::string(const std::string& id, const std::string& msg, const char* after)> alloc_key;
  std::set<std::string> tolerated_keys;
  void drain(const char* after) {
    for (int pass = 0; pass < 2; ++pass) {
      uint64_t total = 0;
      auto errs = pass == 0 ? take_alloc_errors(&total) : take_probe_errors(&total);
      for (const auto& e : errs) {
        vf::count("checks");
        std::string key = alloc_key ? alloc_key(e.first, e.second, after) : std::string();
        if (!key.empty() && vf::known_keys().count(key)) {
          if (tolerated_keys.insert(key).second) vf::stats().known_hits[key]++;
          vf::label("known-finding-tolerated");
          continue;
        }
        std::string more = total > 1 ? "  (" + std::to_string(total) + (pass == 0 ? " allocator" : " item") + " errors in this step)" : "";
        vf::fail(e.first, famname + " after " + after + ": " + e.second + more, key);
      }
    }
  }
  // keys of tolerated findings that are known to leave items undestroyed: the end-of-case item balance is then not evaluated
  std::set<std::string> leaky_keys;
  std::string leak_key;   // key of the family's known finding that leaves items undestroyed without any earlier symptom

  std::string obs(int i) { return fam.observe(s[i].p); }

  // after every step: every live object other than `touched` still observes what it observed before
  void verify(const char* after, int t1 = -1, int t2 = -1) {
    drain(after);
    for (int i = 0; i < NS; ++i) {
      if (s[i].st != LIVE) continue;
      std::string cur = obs(i);
      if (i == t1 || i == t2) { s[i].rec = cur; continue; }
      expect_same(cur, s[i].rec, "independence", famname + ": slot " + std::to_string(i) + " changed its observation although step '" + after +
                  "' (targets " + std::to_string(t1) + "," + std::to_string(t2) + ") did not touch it");
    }
    drain("observe");
  }
  void mutated(int i) {
    Slot& x = s[i];
    if (x.copy_peer == -2) { nt = true; vf::label("move-then-mutated"); x.copy_peer = -1; }
    if (x.copy_peer >= 0) {
      x.mutated_since_copy = true;
      Slot& y = s[x.copy_peer];
      if (y.st == LIVE && y.copy_peer == i && y.mutated_since_copy) { nt = true; vf::label("copy-then-both-mutated"); }
    }
  }
  void relate(int d, int src) {
    for (int i = 0; i < NS; ++i) if (s[i].copy_peer == d) { s[i].copy_peer = -1; }
    s[d].copy_peer = src; s[d].mutated_since_copy = false;
    if (src >= 0 && src != d) { s[src].copy_peer = d; s[src].mutated_since_copy = false; }
  }
  // An operation that a still-open known finding turns into a crash (sanitizer abort) is not executed when its key is
  // listed: the hit is counted once per case, the step is dropped and the history goes on (everything that IS executed is
  // still checked). When the key is not listed the operation runs and the sanitizer reports it.
  std::set<std::string> skipped_keys;
  bool skip_known(const char* op, bool dst_moved, bool self) {
    if (!hooks.crash_key) return false;
    std::string k = hooks.crash_key(op, dst_moved, self);
    if (k.empty() || !vf::known_keys().count(k)) return false;
    if (skipped_keys.insert(k).second) vf::stats().known_hits[k]++;
    vf::label("known-finding-step-skipped");
    return true;
  }
  void no_copy_assign(const char* op, bool dst_moved, bool self) {
    const char* why = fam.copy_assign_defect();
    if (!why) return;
    raise("copy-assign-compiles", famname + ": " + why, hooks.crash_key ? hooks.crash_key(op, dst_moved, self) : std::string());
  }
  bool usable(int i) const { return s[i].st == LIVE; }
  bool mutable_(int i) const { return s[i].st == LIVE && !s[i].frozen; }

  // ---- operations -------------------------------------------------------------------------------------------
  void op_new(int d, uint64_t variant, int reg) {
    kill(d);
    s[d].p = fam.make(env, variant, reg);
    s[d].st = LIVE;
    verify("new", d);
    vf::label("op:new");
  }
  void op_update(int d, uint64_t seed, unsigned n) {
    if (!mutable_(d)) return;
    reseed(1);
    if (!guarded([&] { fam.update(env, s[d].p, seed, n); }, d)) return;
    mutated(d);
    verify("update", d);
    vf::label("op:update");
  }
  // returns false when the family's tolerated exception escaped: the slot is then only destructible
  template <typename Fn> bool guarded(Fn&& f, int d) {
    if (!hooks.tolerate_logic_error) { f(); return true; }
    try { f(); return true; }
    catch (const std::logic_error&) {
      // outcome owned by another property (its open finding); this property only requires that the object can still die
      vf::label("tolerated-logic-error");
      drain("throwing update");
      kill(d);
      verify("destroy after exception");
      return false;
    }
  }
  void op_merge(int d, int src, bool by_move) {
    if (d == src || !mutable_(d) || !usable(src)) return;
    if (!by_move) {
      reseed(2);
      bool ok = false;
      // alternately through a const reference and through a non-const lvalue: either way the source is only read
      // (verify() below checks that it still observes what it observed before)
      const bool lval = ((d ^ src) & 1) != 0;
      if (!guarded([&] { ok = lval ? fam.merge_lval(env, s[d].p, s[src].p) : fam.merge_ref(env, s[d].p, s[src].p); }, d)) return;
      if (!ok) return;
      mutated(d);
      verify(lval ? "merge of a non-const lvalue" : "merge by reference", d);
      vf::label(lval ? "op:merge-nonconst-lvalue" : "op:merge-ref");
      return;
    }
    // by move: the result must be what the merge by reference of an identical copy gives (same internal randomness)
    void* twin = fam.copy_construct(s[d].p);
    struct Guard { const IFamily& f; void* p; ~Guard() { if (p) f.destroy(p); } } g{fam, twin};
    reseed(2);
    bool ok = false;
    if (!guarded([&] { ok = fam.merge_ref(env, twin, s[src].p); }, d)) return;
    if (!ok) return;
    std::string want = fam.observe(twin);
    reseed(2);
    if (!guarded([&] { ok = fam.merge_move(env, s[d].p, s[src].p); }, d)) return;
    if (!ok) return;
    s[src].st = MOVED;
    relate(src, -1);
    mutated(d);
    drain("merge by move");
    expect_same(obs(d), want, "merge-move-equals-merge-ref", famname + ": merge(std::move(src)) gives another result than merge(src) on an identical copy");
    fam.destroy(twin); g.p = nullptr;
    verify("merge by move", d);
    vf::label("op:merge-move");
  }
  void op_copy_construct(int d, int src) {
    if (d == src || !usable(src)) return;
    kill(d);
    s[d].p = fam.copy_construct(s[src].p);
    s[d].st = LIVE; s[d].frozen = s[src].frozen;
    drain("copy construction");
    expect_same(obs(d), s[src].rec, "copy-equals-source", famname + ": copy-constructed object differs from its source");
    relate(d, src);
    verify("copy construction", d);
    vf::label("op:copy-construct");
  }
  void op_move_construct(int d, int src) {
    if (d == src || !usable(src)) return;
    kill(d);
    std::string want = s[src].rec;
    s[d].p = fam.move_construct(s[src].p);
    s[d].st = LIVE; s[d].frozen = s[src].frozen;
    s[src].st = MOVED;
    drain("move construction");
    expect_same(obs(d), want, "move-transfers-state", famname + ": move-constructed object differs from what its source observed");
    relate(d, -1); relate(src, -1);
    s[d].copy_peer = -2;  // marker: result of a move (used by the non-trivial rule)
    verify("move construction", d);
    vf::label("op:move-construct");
  }
  void op_copy_assign(int d, int src) {
    if (s[d].st == DEAD || !usable(src)) return;
    bool self = d == src, dst_moved = s[d].st == MOVED;
    if (skip_known("copy-assign", dst_moved, self)) return;
    no_copy_assign("copy-assign", dst_moved, self);
    std::string want = s[src].rec;
    fam.copy_assign(s[d].p, s[src].p);
    s[d].st = LIVE; s[d].frozen = s[src].frozen;
    drain(self ? "self copy assignment" : "copy assignment");
    expect_same(obs(d), want, self ? "self-assign-keeps-value" : "copy-equals-source",
                famname + (self ? ": object changed by assigning it to itself" : std::string(": copy-assigned object differs from its source") + (dst_moved ? " (target was moved-from)" : "")));
    if (!self) relate(d, src);
    verify("copy assignment", d);
    vf::label(self ? "op:self-copy-assign" : dst_moved ? "op:copy-assign-to-moved-from" : "op:copy-assign");
  }
  void op_move_assign(int d, int src) {
    if (d == src || s[d].st == DEAD || !usable(src)) return;
    bool dst_moved = s[d].st == MOVED;
    if (skip_known("move-assign", dst_moved, false)) return;
    std::string want = s[src].rec;
    bool fr = s[src].frozen;
    fam.move_assign(s[d].p, s[src].p);
    s[d].st = LIVE; s[d].frozen = fr;
    s[src].st = MOVED;
    drain("move assignment");
    expect_same(obs(d), want, "move-transfers-state", famname + ": move-assigned object differs from what its source observed" + (dst_moved ? " (target was moved-from)" : ""));
    relate(d, -1); relate(src, -1);
    s[d].copy_peer = -2;
    verify("move assignment", d);
    vf::label(dst_moved ? "op:move-assign-to-moved-from" : "op:move-assign");
  }
  void op_chain(int a, int b, int c) {
    // *a = *b = *c  means  *b = *c; *a = *b
    if (s[a].st == DEAD || s[b].st == DEAD || !usable(c)) return;
    if (skip_known("copy-assign", s[b].st == MOVED, b == c) || skip_known("copy-assign", s[a].st == MOVED && a != b, a == b)) return;
    no_copy_assign("copy-assign", s[b].st == MOVED, b == c);
    std::string want = s[c].rec;
    fam.chain_assign(s[a].p, s[b].p, s[c].p);
    s[a].st = LIVE; s[b].st = LIVE;
    s[a].frozen = s[b].frozen = s[c].frozen;
    drain("chained assignment");
    expect_same(obs(b), want, "chain-assign", famname + ": after a = b = c, b differs from c");
    expect_same(obs(a), want, "chain-assign", famname + ": after a = b = c, a differs from c");
    expect_same(obs(c), want, "chain-assign", famname + ": after a = b = c, c changed");
    if (a != b) relate(a, b);
    verify("chained assignment", a, b);
    vf::label("op:chain-assign");
    if (a == c || b == c || a == b) vf::label("op:chain-with-alias");
  }
  void op_serde(int d, int src, uint64_t mode, int reg) {
    if (!usable(src)) return;
    if (d != src && s[d].st != DEAD && skip_known("move-assign", s[d].st == MOVED, false)) return;
    void* fresh = fam.serde(env, s[src].p, mode, reg);
    if (!fresh) return;
    drain("serialize/deserialize");
    std::string cs = fam.canon(s[src].p), cf = fam.canon(fresh);
    if (d == src || s[d].st == DEAD) {
      // construct into a dead slot (or replace the source itself by its image through move assignment)
      if (s[d].st == DEAD) { s[d].p = fresh; s[d].st = LIVE; }
      else { fam.move_assign(s[d].p, fresh); fam.destroy(fresh); }
    } else {
      fam.move_assign(s[d].p, fresh);   // a slot that is live or moved-from receives the image by move assignment
      fam.destroy(fresh);               // the moved-from temporary dies
      s[d].st = LIVE;
    }
    s[d].frozen = hooks.freeze_after_serde || s[src].frozen;
    relate(d, -1);
    drain("deserialize into slot");
    if (!cs.empty()) {
      expect_same(cf, cs, "serde-image", famname + ": deserialized object differs from the serialized one");
      expect_same(fam.canon(s[d].p), cs, "serde-image", famname + ": object differs from the serialized one after being moved into the slot");
    }
    verify("serialize/deserialize", d);
    vf::label("op:serde");
  }
  void op_reset(int d) {
    if (!mutable_(d)) return;
    if (!fam.reset(s[d].p)) return;
    mutated(d);
    verify("reset", d);
    vf::label("op:reset");
  }
  void op_destroy(int d) {
    if (s[d].st == DEAD) return;
    bool mv = s[d].st == MOVED;
    relate(d, -1);
    kill(d);
    verify("destroy");
    vf::label(mv ? "op:destroy-moved-from" : "op:destroy");
  }
  void op_query(int d, uint64_t seed) {
    if (!usable(d)) return;
    reseed(3);
    fam.query(env, s[d].p, seed);
    verify("query");   // queries are const: nobody changes, the queried object included
    vf::label("op:query");
  }
  // copy (or copy + move) followed by the same mutation of both sides: both must end up observing the same
  void op_twin(int d, uint64_t seed, unsigned n, int how) {
    if (!mutable_(d)) return;
    void* t = fam.copy_construct(s[d].p);
    struct Guard { const IFamily& f; void* p; ~Guard() { if (p) f.destroy(p); } } g{fam, t};
    if (how & 1) {  // route the copy through a move construction as well
      void* t2 = fam.move_construct(t);
      fam.destroy(t);
      t = g.p = t2;
    }
    drain("twin copy");
    expect_same(fam.observe(t), s[d].rec, "copy-equals-source", famname + ": (twin) copy differs from its source");
    reseed(4);
    bool threw = false;
    if (!guarded([&] { fam.update(env, t, seed, n); }, d)) threw = true;   // guarded() killed slot d: the copy threw, nothing to compare
    if (threw) return;
    std::string want = fam.observe(t);
    expect_same(obs(d), s[d].rec, "independence", famname + ": (twin) mutating the copy changed the source");
    reseed(4);
    if (!guarded([&] { fam.update(env, s[d].p, seed, n); }, d)) return;
    mutated(d);
    drain("twin update");
    expect_same(obs(d), want, "copy-behaves-like-source", famname + ": the same update batch (same internal randomness) on a copy and on its source gives different observations");
    expect_same(fam.observe(t), want, "independence", famname + ": (twin) mutating the source changed the copy");
    fam.destroy(t); g.p = nullptr;
    nt = true;
    verify("twin", d);
    vf::label("op:twin");
  }

  // ---- end of the history: everything dies, nothing may remain --------------------------------------------------
  void finish() {
    for (int i = 0; i < NS; ++i) { if (s[i].st != DEAD) { kill(i); drain("final destroy"); } }
    for (int r = 0; r < 2; ++r) {
      AllocRegistry& R = env.reg[r];
      vf::count("checks");
      if (!R.live.empty()) {
        auto b = R.live.begin();
        vf::fail("alloc-leak", famname + ": every object is dead but allocator instance " + std::to_string(r) + " still holds " + std::to_string(R.live.size()) +
                 " live block(s), " + std::to_string(R.bytes_live) + " bytes (first: " + std::to_string(b->second) + " bytes)");
      }
      vf::count("checks");
      if (R.n_alloc != R.n_dealloc || R.bytes_live != 0) vf::fail("alloc-balance", famname + ": allocations " + std::to_string(R.n_alloc) + " != deallocations " + std::to_string(R.n_dealloc));
    }
    vf::count("checks");
    if (!orphan_registry().live.empty()) vf::fail("alloc-leak", famname + ": blocks from a default-constructed allocator are still live");
    for (const auto& k : tolerated_keys) if (leaky_keys.count(k)) { vf::label("item-balance-not-evaluated(known finding)"); return; }
    vf::count("checks");
    if (probe_live() != 0) vf::fail("probe-leak", famname + ": every object is dead but " + std::to_string(probe_live()) + " instrumented item(s) were never destroyed", leak_key);
    ProbeRegistry& pr = probes();
    vf::count("checks");
    if (pr.constructed + pr.copied + pr.moved != pr.destroyed) vf::fail("probe-balance", famname + ": item constructions " + std::to_string(pr.constructed + pr.copied + pr.moved) + " != destructions " + std::to_string(pr.destroyed), leak_key);
  }
};

}  // namespace vf19
#endif
