// vf/hll_model.hpp — reference model of HLL content (coupons, per-slot register maxima) and a reader of HLL
// serialized images written from the documented layout (HllUtil.hpp constants / Java-compatible format), not
// from the library's deserializer. Used by C03, C04, C09/C10.
#ifndef VF_HLL_MODEL_HPP
#define VF_HLL_MODEL_HPP
#include <cstdint>
#include <cstring>
#include <map>
#include <set>
#include <stdexcept>
#include <string>
#include <vector>
#include "ref_hash.hpp"
#include "items.hpp"

namespace vf {

inline int ref_clz64(uint64_t x) { if (x == 0) return 64; int n = 0; while (!(x >> 63)) { x <<= 1; ++n; } return n; }

// coupon = (value << 26) | low 26 bits of h1, value = min(leading zeros of h2, 62) + 1   (published HLL coupon rule)
inline uint32_t ref_hll_coupon(const H128& h) {
  int lz = ref_clz64(h.h2);
  uint32_t value = static_cast<uint32_t>((lz > 62 ? 62 : lz) + 1);
  return (value << 26) | static_cast<uint32_t>(h.h1 & 0x3ffffffu);
}
inline bool ref_hll_item_coupon(const Item& it, uint32_t& coupon) {
  H128 h;
  if (!ref_item_hash(it, 9001, h)) return false;  // HLL always hashes with the default seed
  coupon = ref_hll_coupon(h);
  return true;
}

struct HllModel {
  std::set<uint32_t> coupons;
  void add(uint32_t c) { coupons.insert(c); }
  std::vector<uint8_t> registers(int lg_k) const {
    std::vector<uint8_t> m(size_t(1) << lg_k, 0);
    uint32_t mask = (1u << lg_k) - 1;
    for (uint32_t c : coupons) {
      uint32_t slot = c & mask; uint8_t v = static_cast<uint8_t>(c >> 26);
      if (v > m[slot]) m[slot] = v;
    }
    return m;
  }
};

struct HllImage {
  int pre_ints = 0, ser_ver = 0, family = 0, lg_k = 0, lg_arr = 0, flags = 0, byte6 = 0, mode = 0, type = 0;
  bool empty_flag = false, compact_flag = false, ooo_flag = false, full_size_flag = false;
  std::set<uint32_t> coupons;          // LIST / SET
  uint32_t coupon_slots_nonzero = 0;   // number of non-zero ints seen (duplicates would show as a mismatch with |coupons|)
  std::vector<uint8_t> regs;           // HLL: absolute values
  int cur_min = 0; uint32_t num_at_cur_min = 0, aux_count = 0;
  double hip = 0, kxq0 = 0, kxq1 = 0;
  std::map<uint32_t, uint8_t> aux;     // slot -> value
  size_t consumed = 0;
};

inline uint32_t rd32(const uint8_t* p) { return ref_le32(p); }
inline double rdf64(const uint8_t* p) { uint64_t v = ref_le64(p); double d; std::memcpy(&d, &v, 8); return d; }

// Parses an HLL image (compact or updatable). Throws std::runtime_error if the bytes do not follow the documented layout.
inline HllImage parse_hll_image(const uint8_t* b, size_t n) {
  auto need = [&](size_t x) { if (n < x) throw std::runtime_error("image shorter than the layout requires"); };
  HllImage im;
  need(8);
  im.pre_ints = b[0]; im.ser_ver = b[1]; im.family = b[2]; im.lg_k = b[3]; im.lg_arr = b[4]; im.flags = b[5]; im.byte6 = b[6];
  im.mode = b[7] & 3; im.type = (b[7] >> 2) & 3;
  im.empty_flag = im.flags & 4; im.compact_flag = im.flags & 8; im.ooo_flag = im.flags & 16; im.full_size_flag = im.flags & 32;
  if (im.ser_ver != 1 || im.family != 7) throw std::runtime_error("bad serial version / family");
  if (im.mode == 0) {  // LIST
    if (im.pre_ints != 2) throw std::runtime_error("LIST pre_ints != 2");
    size_t count = im.byte6;
    size_t ints = im.compact_flag ? count : (size_t(1) << im.lg_arr);
    if (im.empty_flag && im.compact_flag) ints = 0;
    need(8 + 4 * ints);
    for (size_t i = 0; i < ints; ++i) { uint32_t c = rd32(b + 8 + 4 * i); if (c) { im.coupons.insert(c); im.coupon_slots_nonzero++; } }
    im.consumed = 8 + 4 * ints;
    if (im.coupon_slots_nonzero != count) throw std::runtime_error("LIST count byte disagrees with the stored coupons");
  } else if (im.mode == 1) {  // SET
    if (im.pre_ints != 3) throw std::runtime_error("SET pre_ints != 3");
    need(12);
    size_t count = rd32(b + 8);
    size_t ints = im.compact_flag ? count : (size_t(1) << im.lg_arr);
    need(12 + 4 * ints);
    for (size_t i = 0; i < ints; ++i) { uint32_t c = rd32(b + 12 + 4 * i); if (c) { im.coupons.insert(c); im.coupon_slots_nonzero++; } }
    im.consumed = 12 + 4 * ints;
    if (im.coupon_slots_nonzero != count) throw std::runtime_error("SET count disagrees with the stored coupons");
  } else if (im.mode == 2) {  // HLL
    if (im.pre_ints != 10) throw std::runtime_error("HLL pre_ints != 10");
    need(40);
    im.cur_min = im.byte6;
    im.hip = rdf64(b + 8); im.kxq0 = rdf64(b + 16); im.kxq1 = rdf64(b + 24);
    im.num_at_cur_min = rd32(b + 32); im.aux_count = rd32(b + 36);
    size_t k = size_t(1) << im.lg_k;
    im.regs.assign(k, 0);
    size_t arr;
    if (im.type == 2) {  // HLL_8
      arr = k; need(40 + arr);
      for (size_t i = 0; i < k; ++i) im.regs[i] = b[40 + i];
    } else if (im.type == 1) {  // HLL_6: 6-bit fields, little-endian bit order
      arr = ((k * 3) >> 2) + 1; need(40 + arr);
      for (size_t i = 0; i < k; ++i) {
        size_t bit = i * 6, byte = bit >> 3, sh = bit & 7;
        uint32_t two = b[40 + byte] | (static_cast<uint32_t>(b[40 + byte + 1]) << 8);
        im.regs[i] = (two >> sh) & 0x3f;
      }
    } else if (im.type == 0) {  // HLL_4: nibbles relative to cur_min, 15 = exception in the aux table
      arr = k >> 1; need(40 + arr);
      size_t aux_ints = im.compact_flag ? im.aux_count : (size_t(1) << im.lg_arr);
      if (!im.compact_flag && im.aux_count == 0 && im.lg_arr == 0) aux_ints = 0;  // nothing stored (or zero padding, ignored)
      size_t aux_off = 40 + arr;
      if (im.aux_count > 0) need(aux_off + 4 * aux_ints);
      if (im.aux_count > 0) {
        for (size_t i = 0; i < aux_ints; ++i) {
          uint32_t p = rd32(b + aux_off + 4 * i);
          if (!p) continue;
          uint32_t slot = p & ((1u << im.lg_k) - 1); uint8_t v = static_cast<uint8_t>(p >> 26);
          if (im.aux.count(slot)) throw std::runtime_error("aux table holds a slot twice");
          im.aux[slot] = v;
        }
        if (im.aux.size() != im.aux_count) throw std::runtime_error("aux count disagrees with the stored exceptions");
      }
      for (size_t i = 0; i < k; ++i) {
        uint8_t byte = b[40 + (i >> 1)];
        uint8_t nib = (i & 1) ? (byte >> 4) : (byte & 0xf);
        if (nib == 15) {
          auto it = im.aux.find(static_cast<uint32_t>(i));
          if (it == im.aux.end()) throw std::runtime_error("aux token without an exception entry");
          im.regs[i] = it->second;
        } else im.regs[i] = static_cast<uint8_t>(nib + im.cur_min);
      }
      im.consumed = aux_off + (im.aux_count > 0 ? 4 * aux_ints : 0);
      return im;
    } else throw std::runtime_error("bad target type");
    im.consumed = 40 + arr;
  } else throw std::runtime_error("bad mode");
  return im;
}

// high-value key pool: integer keys whose coupon value is >= 15 (found by scanning with the reference hash)
struct HighPool {
  std::vector<std::pair<int64_t, uint8_t>> keys;  // (key, value)
  HighPool() {
    for (int64_t k = 1; k < (int64_t(1) << 22); ++k) {
      H128 h = ref_hash_i64(k + 1000000007ll, 9001);
      if ((h.h2 >> 50) != 0) continue;  // at least 14 leading zeros -> value >= 15
      uint8_t v = static_cast<uint8_t>(ref_hll_coupon(h) >> 26);
      keys.emplace_back(k + 1000000007ll, v);
    }
  }
};
inline const HighPool& high_pool() { static HighPool p; return p; }

// pairs of integer keys whose coupons share the 26-bit address (slot at every lg_k) but differ in the value: distinct coupons that a
// comparison of the address alone would take for duplicates (found by a birthday search with the reference hash)
struct TwinPool {
  std::vector<std::pair<int64_t, int64_t>> pairs;  // (key with the smaller value, key with the larger value)
  TwinPool() {
    std::map<uint32_t, std::pair<int64_t, uint32_t>> seen;  // address -> (key, coupon)
    for (int64_t k = 1; k < 400000 && pairs.size() < 24; ++k) {
      H128 h = ref_hash_i64(k + 2000000011ll, 9001);
      uint32_t c = ref_hll_coupon(h), addr = c & 0x3ffffffu;
      auto it = seen.find(addr);
      if (it == seen.end()) { seen[addr] = std::make_pair(k + 2000000011ll, c); continue; }
      if (it->second.second == c) continue;
      if ((it->second.second >> 26) < (c >> 26)) pairs.emplace_back(it->second.first, k + 2000000011ll);
      else pairs.emplace_back(k + 2000000011ll, it->second.first);
    }
  }
};
inline const TwinPool& twin_pool() { static TwinPool p; return p; }

// uint64 keys whose coupon has slot address 0 (all 26 address bits zero; found by a scan of 2^28 keys with the reference hash, one key in
// 2^26 qualifies) - an address that looks like "no entry" wherever an implementation tests the address instead of the whole coupon.
// Verified against the reference hash when first used.
inline const std::vector<uint64_t>& zero_addr_keys() {
  static const std::vector<uint64_t> keys = [] {
    std::vector<uint64_t> v;
    for (uint64_t k : {37587675ull, 42064733ull, 204235954ull, 222051002ull}) {
      uint32_t c;
      if (ref_hll_item_coupon(Item{T_U64, k}, c) && (c & 0x3ffffffu) == 0) v.push_back(k);
    }
    return v;
  }();
  return keys;
}

}  // namespace vf
#endif
