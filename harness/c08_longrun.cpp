// C08 (long-run part, statistical — weak evidence): on long streams the normalized rank error stays within the error
// the sketch itself publishes for its k at least as often as claimed, also after merging.
// One case = (family, k, stream pattern, n, parts merged) evaluated over T trials whose coin sequences are derived
// from the case. KLL / classic: fraction of trials in which max over the query grid of |est rank - true rank| <=
// get_normalized_rank_error(false) (and max PMF bin error <= get_normalized_rank_error(true)) must be >= 0.99 - 0.03 - 5 sigma.
// REQ: fraction of trials in which the true rank lies inside [get_rank_lower_bound, get_rank_upper_bound] (+- one item of rank
// discretisation) must be >= 0.9545 - 0.20 - 5 sigma at 2 sigma and >= 0.9973 - 0.05 - 5 sigma at 3 sigma (calibrated: observed
// minima over 60 configurations x 100 trials were 0.80 and 0.98); 1-sigma coverage is only reported.
#include "vf/core.hpp"
#include <kll_sketch.hpp>
#include <req_sketch.hpp>
#include <quantiles_sketch.hpp>
#include "vf/coin.hpp"

using namespace datasketches;
using vf::Case; using vf::Op;

namespace {

enum Fam { KLL = 0, REQ_HRA, REQ_LRA, CLASSIC, NFAM };
const char* fam_name(int f) { static const char* n[] = {"kll", "req-hra", "req-lra", "classic"}; return n[f]; }

std::vector<float> make_stream(uint64_t n, int pat, uint64_t seed) {
  std::vector<float> v(n);
  vf::Rng r(seed);
  switch (pat % 4) {
    case 0: for (uint64_t i = 0; i < n; ++i) v[i] = static_cast<float>(i); break;
    case 1: for (uint64_t i = 0; i < n; ++i) v[i] = static_cast<float>(n - 1 - i); break;
    case 2: for (uint64_t i = 0; i < n; ++i) v[i] = static_cast<float>(i); for (uint64_t i = n; i > 1; --i) std::swap(v[i - 1], v[r.below(i)]); break;
    default: for (uint64_t i = 0; i < n; ++i) { double u = r.unit(); v[i] = static_cast<float>(std::floor(1.0 / (u * u + 1e-4))); }  // heavy duplicates, long tail
  }
  return v;
}

template <typename SK> SK make(int fam, int k);
template <> kll_sketch<float> make<kll_sketch<float>>(int, int k) { return kll_sketch<float>(static_cast<uint16_t>(k)); }
template <> req_sketch<float> make<req_sketch<float>>(int fam, int k) { return req_sketch<float>(static_cast<uint16_t>(k), fam == REQ_HRA); }
template <> quantiles_sketch<float> make<quantiles_sketch<float>>(int, int k) { return quantiles_sketch<float>(static_cast<uint16_t>(k)); }

// ksmall > 0: the parts selected by small_mask (never the first) are built with the smaller ksmall, so that the merge tree mixes sizes and the
// error published by the result has to follow the smallest k that contributed data
template <typename SK>
SK build(int fam, int k, const std::vector<float>& s, int parts, int ksmall = 0, unsigned small_mask = 0) {
  if (parts <= 1) { SK sk = make<SK>(fam, k); for (float x : s) sk.update(x); return sk; }
  std::vector<SK> ps;
  for (int p = 0; p < parts; ++p) { ps.push_back(make<SK>(fam, (ksmall > 0 && p > 0 && ((small_mask >> p) & 1)) ? ksmall : k)); }
  int small_idx = -1;
  for (int p = 1; p < parts; ++p) if (ksmall > 0 && ((small_mask >> p) & 1)) small_idx = p;
  if (small_idx < 0) { for (size_t i = 0; i < s.size(); ++i) ps[(i * parts) / s.size()].update(s[i]); }
  else {  // the small-k part sees half of the stream, the rest is split evenly: its coarser error must dominate the published one
    size_t half = s.size() / 2, rest = s.size() - half;
    for (size_t i = 0; i < half; ++i) ps[small_idx].update(s[i]);
    for (size_t i = 0; i < rest; ++i) { int p = static_cast<int>((i * (parts - 1)) / rest); if (p >= small_idx) ++p; ps[p].update(s[half + i]); }
  }
  // binary merge tree
  while (ps.size() > 1) {
    std::vector<SK> next;
    for (size_t i = 0; i + 1 < ps.size(); i += 2) { ps[i].merge(ps[i + 1]); next.push_back(std::move(ps[i])); }
    if (ps.size() & 1) next.push_back(std::move(ps.back()));
    ps = std::move(next);
  }
  return std::move(ps[0]);
}

double need(double nominal, double slack, long T) { return nominal - slack - 5.0 * std::sqrt(nominal * (1 - nominal) / T); }

template <typename SK>
void run_eps(int fam, int k, const std::vector<float>& stream, int parts, uint64_t cseed, long T, const std::string& who, int ksmall = 0, unsigned small_mask = 0) {
  std::vector<float> sorted = stream; std::sort(sorted.begin(), sorted.end());
  const size_t n = sorted.size();
  // query grid: 25 positions of the sorted stream
  std::vector<float> qs; for (int i = 1; i <= 25; ++i) qs.push_back(sorted[std::min(n - 1, n * i / 26)]);
  std::sort(qs.begin(), qs.end()); qs.erase(std::unique(qs.begin(), qs.end()), qs.end());
  std::vector<double> truth; for (float q : qs) truth.push_back(static_cast<double>(std::upper_bound(sorted.begin(), sorted.end(), q) - sorted.begin()) / n);
  long ok_rank = 0, ok_pmf = 0;
  double eps = 0, eps_pmf = 0;
  for (long t = 0; t < T; ++t) {
    vf::own_randomness(vf::mix64(cseed + 1000003ull * t));
    SK sk = build<SK>(fam, k, stream, parts, ksmall, small_mask);
    VF_CHECK(sk.get_n() == n, "n", who << ": n " << sk.get_n());
    eps = sk.get_normalized_rank_error(false); eps_pmf = sk.get_normalized_rank_error(true);
    double worst = 0;
    for (size_t i = 0; i < qs.size(); ++i) worst = std::max(worst, std::fabs(sk.get_rank(qs[i], true) - truth[i]));
    ok_rank += worst <= eps;
    auto pmf = sk.get_PMF(qs.data(), static_cast<uint32_t>(qs.size()), true);
    double worstp = 0, prev = 0;
    for (size_t i = 0; i < qs.size(); ++i) { worstp = std::max(worstp, std::fabs(pmf[i] - (truth[i] - prev))); prev = truth[i]; }
    ok_pmf += worstp <= eps_pmf;
  }
  double fr = static_cast<double>(ok_rank) / T, fp = static_cast<double>(ok_pmf) / T;
  VF_CHECK(fr >= need(0.99, 0.03, T), "rank-error-within-published", who << ": max rank error over the grid within eps=" << eps << " in only " << fr << " of " << T << " trials");
  VF_CHECK(fp >= need(0.99, 0.03, T), "pmf-error-within-published", who << ": max PMF error within eps=" << eps_pmf << " in only " << fp << " of " << T << " trials");
}

void run_req(int fam, int k, const std::vector<float>& stream, int parts, uint64_t cseed, long T, const std::string& who) {
  std::vector<float> sorted = stream; std::sort(sorted.begin(), sorted.end());
  const size_t n = sorted.size();
  bool hra = fam == REQ_HRA;
  // one query near the accurate end, one in the middle, one at the other end
  std::vector<float> qs = {sorted[hra ? n - 1 - n / 200 : n / 200], sorted[n / 2], sorted[hra ? n / 50 : n - 1 - n / 50]};
  static const double nominal[] = {0.6827, 0.9545, 0.9973};
  long in[3][3] = {{0}};
  for (long t = 0; t < T; ++t) {
    vf::own_randomness(vf::mix64(cseed + 1000003ull * t));
    req_sketch<float> sk = build<req_sketch<float>>(fam, k, stream, parts);
    VF_CHECK(sk.get_n() == n, "n", who << ": n " << sk.get_n());
    for (int qi = 0; qi < 3; ++qi) {
      double truth = static_cast<double>(std::upper_bound(sorted.begin(), sorted.end(), qs[qi]) - sorted.begin()) / n;
      double est = sk.get_rank(qs[qi], true);
      for (uint8_t sd = 1; sd <= 3; ++sd) {
        double lb = sk.get_rank_lower_bound(est, sd), ub = sk.get_rank_upper_bound(est, sd);
        VF_CHECK(lb <= est && est <= ub, "req-bounds-order", who << ": lb " << lb << " est " << est << " ub " << ub);
        in[qi][sd - 1] += (lb - 1.0 / n <= truth && truth <= ub + 1.0 / n);  // ranks are multiples of 1/n: one item of discretisation allowed
      }
    }
  }
  // Asserted at 2 and 3 sigma only. At 1 sigma the bound is a soft a-priori estimate and the error at the accurate end is
  // a near-deterministic +-1 item, so a 68% requirement would raise alarms the documentation does not license; the 1-sigma
  // coverage is reported as a counter instead.
  if (!vf::env("VF_VERBOSE").empty()) { fprintf(stderr, "REQCOV %s :", who.c_str()); for (int qi = 0; qi < 3; ++qi) for (int s2 = 0; s2 < 3; ++s2) fprintf(stderr, " %.2f", double(in[qi][s2]) / T); fprintf(stderr, "\n"); }
  for (int qi = 0; qi < 3; ++qi) {
    vf::count(std::string("req_1sigma_inside_q") + std::to_string(qi), static_cast<uint64_t>(in[qi][0]));
    for (int s = 1; s < 3; ++s) {
      double f = static_cast<double>(in[qi][s]) / T;
      VF_CHECK(f >= need(nominal[s], s == 1 ? 0.20 : 0.05, T), "req-bounds-coverage", who << ": query " << qi << ": true rank inside the " << (s + 1) << "-sigma bounds in only " << f << " of " << T << " trials");
    }
  }
}

bool fam_has_large_k(int fam) { return fam == KLL || fam == CLASSIC; }

void prop(const Case& cs) {
  int fam = static_cast<int>(cs.get("fam", 0) % NFAM);
  int pat = static_cast<int>(cs.get("pat", 0) % 4);
  int parts = static_cast<int>(1 + cs.get("parts", 0) % 8);
  int ksel = static_cast<int>(cs.get("k", 0) % 5);
  uint64_t n = 10000 + static_cast<uint64_t>(cs.get("n", 0)) % 190000;
  // ksel 3, 4: the upper half of the 16-bit k range (KLL 32768 / 40000, classic 16384 / 32768) with streams long enough for estimation mode
  if (ksel >= 3 && fam_has_large_k(static_cast<int>(cs.get("fam", 0) % NFAM))) n = 150000 + n;
  uint64_t cseed = static_cast<uint64_t>(cs.get("seed", 1));
  long T = vf::env_long("VF_TRIALS", 20);
  static const int kk[] = {200, 64, 400, 32768, 40000}, kc[] = {128, 32, 256, 16384, 32768}, kr[] = {12, 6, 24, 12, 24};  // REQ thresholds are calibrated for k 6..24 only
  int k = fam == KLL ? kk[ksel] : fam == CLASSIC ? kc[ksel] : kr[ksel];
  if (k >= 16384) vf::label("large-k");
  std::vector<float> stream = make_stream(n, pat, cseed ^ 0x55);
  std::ostringstream who; who << fam_name(fam) << " k=" << k << " n=" << n << " pattern=" << pat << " parts=" << parts << " T=" << T;
  // exactly one part (never the first) is small; when it is the second operand of a pair whose result is later merged into
  // another sketch - e.g. part 3: (2<-3) then (0<-2) - the published error has to travel through a depth-2 merge chain
  unsigned small_mask = parts >= 2 ? (1u << (1 + vf::mix64(cseed ^ 0x77) % static_cast<uint64_t>(parts - 1))) : 0u;
  int ksmall = (parts >= 3 && (cs.get("mixk", 0) & 1)) ? (fam == KLL ? 8 : 2) : 0;
  if (ksmall) { who << " mixed-k(" << ksmall << ")"; vf::label("mixed-k-merge-tree"); }
  if (fam == KLL) run_eps<kll_sketch<float>>(fam, k, stream, parts, cseed, T, who.str(), ksmall, small_mask);
  else if (fam == CLASSIC) run_eps<quantiles_sketch<float>>(fam, k, stream, parts, cseed, T, who.str(), ksmall, small_mask);
  else run_req(fam, k, stream, parts, cseed, T, who.str());
  vf::count("trials", static_cast<uint64_t>(T));
  vf::label(std::string("family:") + fam_name(fam));
  if (parts > 1) vf::label("merged");
  vf::nontrivial();
}

rc::Gen<Case> gen() {
  using namespace vf;
  return make_case({{"fam", range(0, NFAM - 1)}, {"pat", range(0, 3)}, {"parts", rc::gen::weightedOneOf<int64_t>({{1, range(0, 0)}, {2, range(1, 7)}})}, {"k", rc::gen::weightedOneOf<int64_t>({{6, range(0, 2)}, {2, range(3, 4)}})},
                    {"n", range(0, 189999)}, {"seed", range(1, 1 << 30)}, {"mixk", range(0, 1)}},
                   rc::gen::just(std::vector<Op>{}));
}

}  // namespace

int main(int argc, char** argv) {
  return vf::main_driver(argc, argv, "C08", "c08_longrun",
                         "long-run (statistical, weak): case = (family, k, stream pattern sorted/reversed/shuffled/heavy-duplicates, n 10^4..2*10^5, 1..8 parts merged "
                         "in a binary tree) x T trials with case-derived coin sequences; KLL/classic: max rank / PMF error over a 25-point grid within the published "
                         "eps in >= 0.99 - 0.03 - 5 sigma of trials; REQ: true rank inside the 1/2/3-sigma bounds in >= nominal - 0.05 - 5 sigma of trials; "
                         "non-trivial = every case (estimation mode by construction); distinct = distinct case text",
                         {{"longrun", gen, prop, 1.0}});
}
