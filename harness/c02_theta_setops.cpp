// C02 — Theta set operations return the exact set expression over the hash samples, independent of the physical
// form and of the order of presentation. Oracle: vf/theta_model.hpp over reference hashes.
#include "vf/core.hpp"
#include "vf/items.hpp"
#include "vf/theta_model.hpp"
#include <theta_sketch.hpp>
#include <theta_union.hpp>
#include <theta_intersection.hpp>
#include <theta_a_not_b.hpp>
#include <theta_jaccard_similarity.hpp>
#include <sstream>

using namespace datasketches;
using vf::Case; using vf::Op; using vf::MSk;

namespace {

enum Form { F_UPDATE = 0, F_COMPACT_UNORD, F_COMPACT_ORD, F_DES_BYTES, F_DES_COMPRESSED, F_DES_STREAM, F_WRAP, F_WRAP_COMPRESSED, F_ANOTB_SELF, F_NFORMS };
const char* form_name(int f) {
  static const char* n[] = {"update", "compact-unord", "compact-ord", "des-bytes", "des-compressed", "des-stream", "wrap", "wrap-compressed", "anotb-self"};
  return n[f];
}

float p_from(int64_t sel) {
  switch (sel & 3) { case 0: return 1.0f; case 1: return 0.5f; case 2: return 0.1f; default: return 0.75f; }
}

struct Spec { uint32_t start, count; uint8_t lg_k; int p_sel; int form; };

// physical holder of an input in one of the forms
struct Input {
  int form = 0;
  std::unique_ptr<update_theta_sketch> us;
  std::unique_ptr<compact_theta_sketch> cs;
  std::vector<uint8_t> bytes;  // backing store for wrapped forms
  MSk model;
  uint64_t seed = 0;
};

template <typename F>
void with_sketch(Input& in, bool rvalue, F&& f) {
  switch (in.form) {
    case F_UPDATE:
      if (rvalue) f(std::move(*in.us)); else f(static_cast<const update_theta_sketch&>(*in.us));
      break;
    case F_WRAP: case F_WRAP_COMPRESSED: {
      auto w = wrapped_compact_theta_sketch::wrap(in.bytes.data(), in.bytes.size(), in.seed);
      f(w);
      break;
    }
    default:
      if (rvalue) f(std::move(*in.cs)); else f(static_cast<const compact_theta_sketch&>(*in.cs));
  }
}

uint64_t g_seed = 9001;

Input build_input(const Spec& sp, uint64_t seed) {
  Input in; in.form = sp.form; in.seed = seed;
  update_theta_sketch::builder b;
  b.set_lg_k(sp.lg_k).set_p(p_from(sp.p_sel)).set_seed(seed);
  auto us = b.build();
  std::vector<uint64_t> hs;
  for (uint32_t i = 0; i < sp.count; ++i) {
    int64_t key = static_cast<int64_t>(sp.start + i);
    us.update(key);
    uint64_t h = vf::ref_hash_i64(key, seed).h1 >> 1;
    if (h != 0) hs.push_back(h);
  }
  // model of the input: theta as observed on the update sketch (its own correctness is C01), set from reference hashes
  in.model.empty = sp.count == 0;
  in.model.theta = us.get_theta64();
  std::sort(hs.begin(), hs.end());
  hs.erase(std::unique(hs.begin(), hs.end()), hs.end());
  for (auto h : hs) if (h < in.model.theta) in.model.set.push_back(h);
  switch (sp.form) {
    case F_UPDATE: in.us.reset(new update_theta_sketch(std::move(us))); break;
    case F_COMPACT_UNORD: in.cs.reset(new compact_theta_sketch(us.compact(false))); break;
    case F_COMPACT_ORD: in.cs.reset(new compact_theta_sketch(us.compact(true))); break;
    case F_DES_BYTES: {
      auto bytes = us.compact((sp.start & 1) != 0).serialize();
      in.cs.reset(new compact_theta_sketch(compact_theta_sketch::deserialize(bytes.data(), bytes.size(), seed)));
      break;
    }
    case F_DES_COMPRESSED: {
      auto bytes = us.compact(true).serialize_compressed();
      in.cs.reset(new compact_theta_sketch(compact_theta_sketch::deserialize(bytes.data(), bytes.size(), seed)));
      break;
    }
    case F_DES_STREAM: {
      std::stringstream ss;
      if (sp.start & 1) us.compact(true).serialize_compressed(ss); else us.compact((sp.start & 2) != 0).serialize(ss);
      in.cs.reset(new compact_theta_sketch(compact_theta_sketch::deserialize(ss, seed)));
      break;
    }
    case F_WRAP: { auto bytes = us.compact((sp.start & 1) != 0).serialize(); in.bytes.assign(bytes.begin(), bytes.end()); break; }
    case F_WRAP_COMPRESSED: { auto bytes = us.compact(true).serialize_compressed(); in.bytes.assign(bytes.begin(), bytes.end()); break; }
    default: {  // result of an earlier set operation: X \ X — in estimation mode a non-empty sketch with zero entries
      theta_a_not_b anb(seed);
      in.cs.reset(new compact_theta_sketch(anb.compute(us, us, (sp.start & 1) != 0)));
      in.model = vf::m_a_not_b(in.model, in.model);
      in.form = F_COMPACT_ORD;
      vf::label("input:anotb-self");
    }
  }
  return in;
}

template <typename Sk>
void check_result(const Sk& r, const MSk& m, bool want_ordered, const char* what, bool compare_emptiness = true) {
  std::vector<uint64_t> got;
  for (auto it = r.begin(); it != r.end(); ++it) got.push_back(*it);
  if (want_ordered) {
    VF_CHECK(r.is_ordered(), "result-ordered-flag", what << ": ordered result not flagged ordered");
  }
  if (r.is_ordered()) VF_CHECK(std::is_sorted(got.begin(), got.end()), "result-sorted", what << ": result flagged ordered but not sorted");
  VF_CHECK(got.size() == r.get_num_retained(), "result-num-retained", what << ": iterated " << got.size() << " vs get_num_retained " << r.get_num_retained());
  std::sort(got.begin(), got.end());
  VF_CHECK(std::adjacent_find(got.begin(), got.end()) == got.end(), "result-duplicate", what << ": duplicate entry in result");
  if (got != m.set) {
    size_t i = 0; while (i < got.size() && i < m.set.size() && got[i] == m.set[i]) ++i;
    VF_CHECK(false, "result-set", what << ": entry set differs from the model: got " << got.size() << " expected " << m.set.size() << " first difference at sorted index " << i
             << " got " << (i < got.size() ? std::to_string(got[i]) : "-") << " expected " << (i < m.set.size() ? std::to_string(m.set[i]) : "-") << " model theta " << m.theta << " result theta " << r.get_theta64());
  }
  if (compare_emptiness) {
    VF_CHECK(r.is_empty() == m.empty, "result-empty", what << ": is_empty " << r.is_empty() << " model " << m.empty);
  }
  if (!m.empty && !r.is_empty()) {
    VF_CHECK(r.get_theta64() == m.theta, "result-theta", what << ": theta " << r.get_theta64() << " model " << m.theta);
  }
  if (r.is_empty()) {
    VF_CHECK(got.empty() && r.get_estimate() == 0.0, "empty-result-estimate", what << ": empty result with entries or non-zero estimate");
    VF_CHECK(r.get_lower_bound(2) == 0.0 && r.get_upper_bound(2) == 0.0, "empty-result-bounds", what << ": empty result with non-zero bounds");
  }
  VF_CHECK(r.get_seed_hash() == vf::ref_seed_hash(g_seed), "result-seed-hash", what << ": seed hash");
}

struct Hist { std::vector<std::pair<int, bool>> ups; };  // (input index, rvalue)

void prop(const Case& cs) {
  uint64_t seed = cs.get("seed", 0) == 0 ? 9001ull : vf::mix64(static_cast<uint64_t>(cs.get("seed", 0)));
  g_seed = seed;
  uint8_t u_lgk = static_cast<uint8_t>(std::min<int64_t>(12, std::max<int64_t>(5, cs.get("u_lgk", 5))));
  float u_p = p_from(cs.get("u_p", 0));
  uint64_t u_theta0 = u_p < 1.0f ? static_cast<uint64_t>(std::ldexp(static_cast<double>(u_p), 63)) : vf::TH_MAX;
  uint32_t u_k = 1u << u_lgk;

  std::vector<Spec> specs;
  auto fresh = [&](size_t i) { return build_input(specs[i], seed); };

  auto mk_union = [&]() { return theta_union::builder().set_lg_k(u_lgk).set_p(u_p).set_seed(seed).build(); };
  theta_union U = mk_union();
  std::unique_ptr<theta_intersection> I(new theta_intersection(seed));
  Hist uh, ih;
  vf::MInter im;
  std::set<int> forms_used;
  bool est_input = false, zero_retained_input = false;
  int n_ops = 0;

  auto note_input = [&](const Input& in, const Spec& sp) {
    forms_used.insert(sp.form);
    if (!in.model.empty && in.model.theta < vf::TH_MAX) est_input = true;
    if (!in.model.empty && in.model.set.empty()) zero_retained_input = true;
    vf::label(std::string("form:") + form_name(sp.form));
  };

  auto union_model = [&](const std::vector<std::pair<int, bool>>& ups) {
    std::vector<Input> ins; std::vector<const MSk*> ptrs;
    ins.reserve(ups.size());
    for (auto& u : ups) ins.push_back(fresh(u.first));
    for (auto& in : ins) ptrs.push_back(&in.model);
    return vf::m_union(ptrs, u_theta0, u_k);
  };

  for (const Op& op : cs.ops) {
    if (op.name == "inp") {
      if (specs.size() >= 6) continue;
      Spec sp;
      sp.start = static_cast<uint32_t>(op.uarg(0) % 3000);
      sp.count = static_cast<uint32_t>(op.uarg(1) % 2500);
      sp.lg_k = static_cast<uint8_t>(5 + op.uarg(2) % 6);
      sp.p_sel = static_cast<int>(op.uarg(3) & 3);
      sp.form = static_cast<int>(op.uarg(4) % F_NFORMS);
      specs.push_back(sp);
      continue;
    }
    if (specs.empty()) continue;
    ++n_ops;
    if (op.name == "u_upd") {
      size_t i = op.uarg(0) % specs.size(); bool rv = op.arg(1) & 1;
      Input in = fresh(i); note_input(in, specs[i]);
      with_sketch(in, rv, [&](auto&& s) { U.update(std::forward<decltype(s)>(s)); });
      uh.ups.emplace_back(static_cast<int>(i), rv);
    } else if (op.name == "u_res") {
      bool ord = op.arg(0) & 1;
      MSk m = union_model(uh.ups);
      auto r = U.get_result(ord);
      check_result(r, m, ord, "union get_result");
      vf::label("union-result");
      if (!m.empty && m.theta < vf::TH_MAX && m.set.size() == u_k) vf::label("union-trimmed-to-k");
    } else if (op.name == "u_reset") {
      U.reset(); uh.ups.clear();
      vf::label("union-reset");
    } else if (op.name == "i_upd") {
      size_t i = op.uarg(0) % specs.size(); bool rv = op.arg(1) & 1;
      Input in = fresh(i); note_input(in, specs[i]);
      with_sketch(in, rv, [&](auto&& s) { I->update(std::forward<decltype(s)>(s)); });
      im.update(in.model);
      ih.ups.emplace_back(static_cast<int>(i), rv);
    } else if (op.name == "i_res") {
      bool ord = op.arg(0) & 1;
      if (!im.valid) {
        VF_CHECK(!I->has_result(), "intersection-has-result", "has_result true before any update");
        bool threw = false;
        try { I->get_result(ord); } catch (const std::invalid_argument&) { threw = true; }
        VF_CHECK(threw, "intersection-undefined", "get_result before update did not throw");
      } else {
        VF_CHECK(I->has_result(), "intersection-has-result", "has_result false after update");
        auto r = I->get_result(ord);
        check_result(r, im.st, ord, "intersection get_result");
        vf::label("intersection-result");
        if (im.st.empty) vf::label("intersection-empty");
      }
    } else if (op.name == "i_new") {
      // a new life for the stateful object: a fresh object, or the same object overwritten by move / copy assignment of a fresh one
      // (nothing of the previous computation - theta, entries, validity - may survive the assignment)
      const int mode = static_cast<int>(op.uarg(0) % 3);
      if (mode == 0) I.reset(new theta_intersection(seed));
      else if (mode == 1) { *I = theta_intersection(seed); vf::label("intersection-move-assigned-fresh"); }
      else { theta_intersection fresh_i(seed); *I = fresh_i; vf::label("intersection-copy-assigned-fresh"); }
      im = vf::MInter(); ih.ups.clear();
    } else if (op.name == "u_new") {
      const int mode = static_cast<int>(op.uarg(0) % 2);
      if (mode == 0) { U = mk_union(); vf::label("union-move-assigned-fresh"); }
      else { theta_union fresh_u = mk_union(); U = fresh_u; vf::label("union-copy-assigned-fresh"); }
      uh.ups.clear();
    } else if (op.name == "anotb") {
      size_t i = op.uarg(0) % specs.size(), j = op.uarg(1) % specs.size(); bool ord = op.arg(2) & 1; bool rv = op.arg(3) & 1;
      Input a = fresh(i), b = fresh(j); note_input(a, specs[i]); note_input(b, specs[j]);
      theta_a_not_b anb(seed);
      MSk m = vf::m_a_not_b(a.model, b.model);
      bool a_ordered = false;
      with_sketch(a, false, [&](auto&& s) { a_ordered = s.is_ordered(); });
      with_sketch(b, false, [&](auto&& sb) {
        with_sketch(a, rv, [&](auto&& sa) {
          auto r = anb.compute(std::forward<decltype(sa)>(sa), sb, ord);
          check_result(r, m, ord || a_ordered, "a_not_b");
        });
      });
      vf::label("a-not-b");
    } else if (op.name == "jac") {
      size_t i = op.uarg(0) % specs.size(), j = op.uarg(1) % specs.size();
      Input a = fresh(i), b = fresh(j);
      std::array<double, 3> jc{}; bool eq = false;
      with_sketch(b, false, [&](auto&& sb) {
        with_sketch(a, false, [&](auto&& sa) {
          jc = theta_jaccard_similarity::jaccard(sa, sb, seed);
          eq = theta_jaccard_similarity::exactly_equal(sa, sb, seed);
        });
      });
      const MSk &ma = a.model, &mb = b.model;
      bool both_exact = (ma.empty || ma.theta == vf::TH_MAX) && (mb.empty || mb.theta == vf::TH_MAX);
      VF_CHECK(jc[0] <= jc[1] && jc[1] <= jc[2] && jc[0] >= 0.0 && jc[2] <= 1.0, "jaccard-order", "jaccard {" << jc[0] << "," << jc[1] << "," << jc[2] << "} not ordered in [0,1]");
      if (both_exact) {
        double expect;
        if (ma.empty && mb.empty) expect = 1.0;
        else if (ma.empty || mb.empty) expect = 0.0;
        else {
          std::vector<uint64_t> in, un;
          std::set_intersection(ma.set.begin(), ma.set.end(), mb.set.begin(), mb.set.end(), std::back_inserter(in));
          std::set_union(ma.set.begin(), ma.set.end(), mb.set.begin(), mb.set.end(), std::back_inserter(un));
          expect = static_cast<double>(in.size()) / static_cast<double>(un.size());
        }
        VF_CHECK(jc[0] == expect && jc[1] == expect && jc[2] == expect, "jaccard-exact", "exact-mode jaccard {" << jc[0] << "," << jc[1] << "," << jc[2] << "} expected " << expect);
        vf::label("jaccard-exact");
      } else vf::label("jaccard-estimation");
      bool model_eq = (ma.empty && mb.empty) || (!ma.empty && !mb.empty && ma.theta == mb.theta && ma.set == mb.set);
      VF_CHECK(eq == model_eq, "exactly-equal", "exactly_equal " << eq << " model " << model_eq);
    } else if (op.name == "wrongseed") {
      // a non-empty operand hashed with another seed must be refused wherever the operation looks at it
      uint64_t other = seed + 1 + (op.uarg(1) % 5);
      if (vf::ref_seed_hash(other) == vf::ref_seed_hash(seed)) continue;  // 16-bit seed hashes can collide: not a refusal case
      // the foreign sketch is in estimation mode half of the time (its theta must not leak into anything either)
      const bool foreign_est = (op.uarg(1) & 8) != 0 || (op.uarg(0) & 4) != 0;
      auto ws = update_theta_sketch::builder().set_lg_k(5).set_seed(other).build();
      for (int k = 0; k < (foreign_est ? 400 : 10); ++k) ws.update(static_cast<int64_t>(k));
      auto wc = ws.compact();
      int which = static_cast<int>(op.uarg(0) % 4);
      bool threw = false;
      try {
        // which 0: the LIVE union of the case refuses it - a refusal is a no-op, so every later result of that union is still the model's
        if (which == 0) { U.update(wc); }
        else if (which == 1) { theta_intersection i2(seed); i2.update(wc); }
        else {
          auto good = update_theta_sketch::builder().set_seed(seed).build();
          for (int k = 0; k < 10; ++k) good.update(static_cast<int64_t>(k));
          theta_a_not_b anb(seed);
          if (which == 2) anb.compute(wc, good); else anb.compute(good, wc);
        }
      } catch (const std::invalid_argument&) { threw = true; }
      VF_CHECK(threw, "seed-mismatch-refused", "operand with a different seed accepted by operation " << which);
      vf::label("wrong-seed");
    }
  }

  // ---- end of history: final results and the metamorphic relations (order / form / rvalue / interleaving independence)
  if (!uh.ups.empty()) {
    MSk m = union_model(uh.ups);
    auto r = U.get_result(true);
    check_result(r, m, true, "final union");
    vf::Rng rng(static_cast<uint64_t>(cs.get("perm", 1)) + 77);
    std::vector<std::pair<int, bool>> perm = uh.ups;
    for (size_t i = perm.size(); i > 1; --i) std::swap(perm[i - 1], perm[rng.below(i)]);
    theta_union U2 = mk_union();
    for (auto& u : perm) {
      Spec sp = specs[u.first];
      if (sp.form != F_ANOTB_SELF) sp.form = static_cast<int>(rng.below(F_NFORMS - 1));  // substitute the physical form (a derived input stays derived)
      Input in = build_input(sp, seed);
      with_sketch(in, rng.below(2) == 1, [&](auto&& s) { U2.update(std::forward<decltype(s)>(s)); });
    }
    auto r2 = U2.get_result(true);
    std::vector<uint64_t> e1(r.begin(), r.end()), e2(r2.begin(), r2.end());
    VF_CHECK(e1 == e2, "union-order-independence", "union result depends on order/form: " << e1.size() << " vs " << e2.size() << " entries");
    VF_CHECK(r.is_empty() == r2.is_empty(), "union-order-independence", "union emptiness depends on order/form");
    if (!r.is_empty()) VF_CHECK(r.get_theta64() == r2.get_theta64(), "union-order-independence", "union theta depends on order/form: " << r.get_theta64() << " vs " << r2.get_theta64());
    if (perm.size() >= 2) vf::label("union-permuted");
  }
  if (!ih.ups.empty()) {
    auto r = I->get_result(true);
    check_result(r, im.st, true, "final intersection");
    vf::Rng rng(static_cast<uint64_t>(cs.get("perm", 1)) + 99);
    std::vector<std::pair<int, bool>> perm = ih.ups;
    for (size_t i = perm.size(); i > 1; --i) std::swap(perm[i - 1], perm[rng.below(i)]);
    theta_intersection I2(seed);
    vf::MInter im2;
    for (auto& u : perm) {
      Spec sp = specs[u.first];
      if (sp.form != F_ANOTB_SELF) sp.form = static_cast<int>(rng.below(F_NFORMS - 1));
      Input in = build_input(sp, seed);
      with_sketch(in, rng.below(2) == 1, [&](auto&& s) { I2.update(std::forward<decltype(s)>(s)); });
      im2.update(in.model);
    }
    auto r2 = I2.get_result(true);
    check_result(r2, im2.st, true, "permuted intersection");
    std::vector<uint64_t> e1(r.begin(), r.end()), e2(r2.begin(), r2.end());
    VF_CHECK(e1 == e2, "intersection-order-independence", "intersection entries depend on order/form");
    VF_CHECK(r.get_estimate() == r2.get_estimate() || e1.empty(), "intersection-order-independence", "intersection estimate depends on order/form");
    // the exact-empty representation (empty, theta=1) vs (non-empty, theta<1, no entries) may differ by order: both are the empty set (DESIGN C02)
    if (!(e1.empty())) {
      VF_CHECK(r.get_theta64() == r2.get_theta64() && r.is_empty() == r2.is_empty(), "intersection-order-independence", "intersection theta/emptiness depends on order/form");
    }
    if (perm.size() >= 2) vf::label("intersection-permuted");
  }
  if (est_input) vf::label("estimation-input");
  if (zero_retained_input) vf::label("zero-retained-nonempty-input");
  if (forms_used.size() >= 2) vf::label("forms>=2");
  if ((est_input || zero_retained_input) && forms_used.size() >= 2 && n_ops > 0) vf::nontrivial();
}

rc::Gen<Case> gen_main() {
  using namespace vf;
  auto inp = op4("inp", range(0, 2999), rc::gen::weightedOneOf<int64_t>({{1, range(0, 3)}, {4, range(4, 30)}, {2, range(31, 200)}, {4, range(200, 2499)}}), range(0, 5), range(0, 3));
  // op4 has only four arguments: add the form as a fifth by mapping
  auto inp5 = rc::gen::map(rc::gen::tuple(inp, range(0, F_NFORMS - 1)), [](std::tuple<Op, int64_t> t) { Op o = std::get<0>(t); o.a.push_back(std::get<1>(t)); return o; });
  auto hist = choose({
      {5, op2("u_upd", range(0, 5), range(0, 1))},
      {2, op1("u_res", range(0, 1))},
      {2, rc::gen::map(range(0, 11), [](int64_t x) { return x < 3 ? Op{"u_reset", {}} : x < 6 ? Op{"u_new", {x}} : Op{"i_new", {x}}; })},
      {5, op2("i_upd", range(0, 5), range(0, 1))},
      {2, op1("i_res", range(0, 1))},
      {3, op4("anotb", range(0, 5), range(0, 5), range(0, 1), range(0, 1))},
      {2, op2("jac", range(0, 5), range(0, 5))},
      {1, op2("wrongseed", range(0, 7), range(0, 15))},
  });
  auto ops = rc::gen::map(rc::gen::tuple(rc::gen::mapcat(range(2, 5), [inp5](int64_t n) { return rc::gen::container<std::vector<Op>>(static_cast<size_t>(n), inp5); }), oplist(hist, 3, 0.25)),
                          [](std::tuple<std::vector<Op>, std::vector<Op>> t) { auto v = std::get<0>(t); auto& h = std::get<1>(t); v.insert(v.end(), h.begin(), h.end()); return v; });
  return make_case({{"seed", rc::gen::weightedOneOf<int64_t>({{2, rc::gen::just<int64_t>(0)}, {1, range(1, 1000)}})},
                    {"u_lgk", rc::gen::weightedOneOf<int64_t>({{3, range(5, 6)}, {1, range(7, 12)}})},
                    {"u_p", rc::gen::weightedOneOf<int64_t>({{3, rc::gen::just<int64_t>(0)}, {1, range(1, 3)}})},
                    {"perm", range(0, 1 << 20)}},
                   ops);
}

}  // namespace

int main(int argc, char** argv) {
  return vf::main_driver(argc, argv, "C02", "c02_theta_setops",
                         "case = 2..5 generated input sketches (key range, lg_k, p, physical form: update/compact/deserialized v3,v4/stream/wrapped/"
                         "set-operation result) + a history over one union, one intersection, a_not_b, jaccard, wrong-seed operands; every result is "
                         "compared entry-for-entry with the set-algebra model over reference hashes, and the final union/intersection is recomputed in a "
                         "permuted order with substituted forms; non-trivial = at least one estimation-mode or zero-retained-non-empty input and >=2 "
                         "distinct physical forms; distinct = distinct case text",
                         {{"main", gen_main, prop, 1.0}});
}
