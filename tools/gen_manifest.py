#!/usr/bin/env python3
"""Regenerates /verif/MANIFEST.json from engine/props.py and validates it against the schema."""
import json, os, subprocess, sys
ROOT = os.path.dirname(os.path.dirname(os.path.abspath(__file__)))
sys.path.insert(0, os.path.join(ROOT, "engine"))
from props import PROPS, NOT_APPLICABLE, ENABLED  # noqa
PROPS = {k: v for k, v in PROPS.items() if k in ENABLED}

ids = [json.loads(l)["id"] for l in open(os.path.join(ROOT, "properties.jsonl"))]
hook_commits = subprocess.run(["git", "-C", "/repo", "log", "--format=%H", "--grep=DATASKETCHES_VERIF"], capture_output=True, text=True).stdout.split()
checks = []
for pid in ids:
    if pid not in PROPS:
        continue
    p = PROPS[pid]
    m = p["manifest"]
    engines = sorted({("libFuzzer" if u.get("variant") == "fuzz" else "rapidcheck") for u in p["units"]})
    c = {
        "property_id": pid,
        "quick_cmd": f"./check {pid} quick",
        "evidence_file": f"/verif/evidence/{pid}.json",
        "replay_cmd_template": "./check --replay {path}",
        "engine": "+".join(engines) + " under the python supervisor ./check (engine/vfengine.py)",
        "level_claimed": {"category": p["level"], "text": m["text"], "design_ref": m.get("design_ref", f"DESIGN.md §6 {pid}")},
        "level_note": m["note"],
        "technique": m["technique"],
    }
    if any("thorough" in u.get("tiers", ["quick", "thorough"]) for u in p["units"]):
        c["thorough_cmd"] = f"./check {pid} thorough"
    checks.append(c)
man = {
    "version": 1,
    "setup_cmd": "./check --build-all",
    "hooks": {
        "guard": "DATASKETCHES_VERIF",
        "enable": "engine/vfengine.py compiles every harness translation unit against /repo's headers with -DDATASKETCHES_VERIF (the library is header-only, so this is the whole build)",
        "baseline_off_cmd": "cd /repo && cmake -G Ninja -B _build -DBUILD_TESTS=ON > /dev/null && cmake --build _build -j16 > /dev/null && ctest --test-dir _build -j8 --timeout 900",
        "source_commits": hook_commits,
        "add_only": True,
    },
    "engines": [
        {"name": "rapidcheck", "path": "/usr/include/rapidcheck.h (-lrapidcheck)", "serves_properties": [c["property_id"] for c in checks],
         "kind_free_text": "property-based testing: generated Case (config + op history) per property, shrinking, explicit model oracles in harness/*.cpp"},
        {"name": "libFuzzer", "path": "clang++ -fsanitize=fuzzer,address,undefined", "serves_properties": [pid for pid in ids if pid in PROPS and any(u.get("variant") == "fuzz" for u in PROPS[pid]["units"])],
         "kind_free_text": "coverage-guided fuzzing with structure-aware decoding and the semantic oracle inside the target"},
        {"name": "supervisor", "path": "/verif/check, /verif/engine/vfengine.py", "serves_properties": [c["property_id"] for c in checks],
         "kind_free_text": "builds harnesses from the current tree, runs workers, turns sanitizer aborts into minimised replay files (ddmin), matches known findings, writes evidence"},
    ],
    "checks": checks,
    "notes": "Technique family: property-based testing and fuzzing. See DESIGN.md. known_findings.json lists genuine defects (fixed / open).",
    "not_applicable": [{"property_id": pid, "reason": NOT_APPLICABLE.get(pid, "check not built yet in this session (work in progress; see DESIGN.md §6 for the planned design)")} for pid in ids if pid not in PROPS],
}
out = os.path.join(ROOT, "MANIFEST.json")
with open(out + ".tmp", "w") as fh:
    json.dump(man, fh, indent=1)
    fh.write("\n")
try:
    import jsonschema
except ImportError:
    jsonschema = None
if jsonschema:
    jsonschema.validate(man, json.load(open("/root/.vp/MANIFEST.schema.json")))
os.rename(out + ".tmp", out)
print("MANIFEST.json written:", len(checks), "checks,", len(man["not_applicable"]), "not applicable", "(validated)" if jsonschema else "(not validated)")
