// vf/c10_layout.hpp — C10 (a): an INDEPENDENT reader of every family's serialized image.
//
// Every decoder below is written from the documented layout only: the layout comments / offset constants next to
// each serializer in /repo/*/include and the published DataSketches binary formats (Java PreambleUtil tables).
// All multi-byte fields are little-endian and are assembled byte by byte here. Nothing in this file includes or
// calls a datasketches header: no library deserializer, no library bit_packing, no library constants.
//
// A decoder returns a small struct of logical content and THROWS std::runtime_error when the bytes do not follow
// the documented layout (short image, wrong family / serial version, preamble size that contradicts the flags,
// counts that contradict the stored data, order flags that contradict the stored order ...). Bytes the layout
// calls "unused" are counted in `unused_nonzero` (the writers zero them); `consumed` is the number of bytes the
// layout accounts for, so the caller can assert "nothing else" (consumed == image size).
#ifndef VF_C10_LAYOUT_HPP
#define VF_C10_LAYOUT_HPP
#include <cmath>
#include <cstdint>
#include <cstring>
#include <stdexcept>
#include <string>
#include <utility>
#include <vector>
#include "hll_model.hpp"  // vf::parse_hll_image / vf::HllImage (independent HLL reader, reused)

namespace vf { namespace c10 {

[[noreturn]] inline void bad(const std::string& m) { throw std::runtime_error(m); }

// ---------------------------------------------------------------- little-endian cursor
class Rd {
 public:
  Rd(const uint8_t* p, size_t n) : p_(p), n_(n) {}
  void need(size_t k, const char* what) const {
    if (n_ - pos_ < k) bad(std::string("image ends inside ") + what + " (offset " + std::to_string(pos_) + ", need " + std::to_string(k) + ", have " + std::to_string(n_ - pos_) + ")");
  }
  uint8_t u8(const char* w) { need(1, w); return p_[pos_++]; }
  uint16_t u16(const char* w) { need(2, w); uint16_t v = static_cast<uint16_t>(p_[pos_] | (p_[pos_ + 1] << 8)); pos_ += 2; return v; }
  uint32_t u32(const char* w) { need(4, w); uint32_t v = 0; for (int i = 3; i >= 0; --i) v = (v << 8) | p_[pos_ + i]; pos_ += 4; return v; }
  uint64_t u64(const char* w) { need(8, w); uint64_t v = 0; for (int i = 7; i >= 0; --i) v = (v << 8) | p_[pos_ + i]; pos_ += 8; return v; }
  float f32(const char* w) { uint32_t v = u32(w); float f; std::memcpy(&f, &v, 4); return f; }
  double f64(const char* w) { uint64_t v = u64(w); double d; std::memcpy(&d, &v, 8); return d; }
  void unused(size_t k, const char* w) { need(k, w); for (size_t i = 0; i < k; ++i) if (p_[pos_ + i]) ++unused_nonzero_; pos_ += k; }
  const uint8_t* cur() const { return p_ + pos_; }
  void skip(size_t k, const char* w) { need(k, w); pos_ += k; }
  size_t pos() const { return pos_; }
  size_t left() const { return n_ - pos_; }
  unsigned unused_nonzero() const { return unused_nonzero_; }
 private:
  const uint8_t* p_; size_t n_; size_t pos_ = 0; unsigned unused_nonzero_ = 0;
};

// ---------------------------------------------------------------- items (documented serdes)
// fixed-width arithmetic items are written raw little-endian; strings as a 4-byte length followed by the bytes
template <typename T> struct ItemRd;
template <> struct ItemRd<float> { static float get(Rd& r) { return r.f32("float item"); } };
template <> struct ItemRd<double> { static double get(Rd& r) { return r.f64("double item"); } };
template <> struct ItemRd<int64_t> { static int64_t get(Rd& r) { return static_cast<int64_t>(r.u64("int64 item")); } };
template <> struct ItemRd<std::string> {
  static std::string get(Rd& r) {
    uint32_t len = r.u32("string item length");
    r.need(len, "string item bytes");
    std::string s(reinterpret_cast<const char*>(r.cur()), len);
    r.skip(len, "string item bytes");
    return s;
  }
};

// ---------------------------------------------------------------- generic bit-level unpacker (MSB first)
// Theta v4 stores deltas as fixed-width big-endian bit fields laid end to end: the first field starts at the most
// significant bit of the first byte.
struct BitRd {
  const uint8_t* p; size_t nbits; size_t bit = 0;
  BitRd(const uint8_t* p, size_t nbytes) : p(p), nbits(nbytes * 8) {}
  uint64_t get(unsigned width) {
    uint64_t v = 0;
    for (unsigned i = 0; i < width; ++i) {
      if (bit >= nbits) bad("bit stream ends inside a packed field");
      v = (v << 1) | ((p[bit >> 3] >> (7 - (bit & 7))) & 1u);
      ++bit;
    }
    return v;
  }
  unsigned remaining_nonzero() const { unsigned c = 0; for (size_t b = bit; b < nbits; ++b) if ((p[b >> 3] >> (7 - (b & 7))) & 1u) ++c; return c; }
};

// ---------------------------------------------------------------- theta / tuple / array-of-doubles (compact)
static const uint64_t MAX_THETA = 0x7fffffffffffffffULL;  // Long.MAX_VALUE
// flags byte of the theta family: bit0 big-endian, bit1 read-only, bit2 empty, bit3 compact, bit4 ordered
struct ThetaFlags {
  int raw = 0; bool big_endian = false, read_only = false, empty = false, compact = false, ordered = false;
  void set(int f) { raw = f; big_endian = f & 1; read_only = f & 2; empty = f & 4; compact = f & 8; ordered = f & 16; }
};

struct ThetaImage {
  int pre_longs = 0, ser_ver = 0, family = 0, entry_bits = 64, num_entries_bytes = 0;
  ThetaFlags flags; uint16_t seed_hash = 0; uint64_t theta = MAX_THETA; bool has_theta = false;
  uint32_t num_entries = 0; std::vector<uint64_t> entries;  // in image order
  size_t consumed = 0; unsigned unused_nonzero = 0, pad_bits_nonzero = 0;
};

inline void check_hashes(const std::vector<uint64_t>& e, uint64_t theta, bool ordered, const char* who) {
  for (size_t i = 0; i < e.size(); ++i) {
    if (e[i] == 0) bad(std::string(who) + ": a retained hash is zero");
    if (e[i] >= theta) bad(std::string(who) + ": a retained hash is not below theta");
    if (ordered && i > 0 && e[i] <= e[i - 1]) bad(std::string(who) + ": ordered flag set but the hashes are not strictly ascending");
  }
}

inline ThetaImage decode_theta(const uint8_t* b, size_t n) {
  Rd r(b, n); ThetaImage im;
  im.pre_longs = r.u8("preamble longs"); im.ser_ver = r.u8("serial version"); im.family = r.u8("family id");
  if (im.family != 3) bad("theta: family id " + std::to_string(im.family) + " is not 3 (compact theta)");
  if (im.ser_ver == 3) {
    r.unused(2, "bytes 3-4 (lgNomLongs / lgArrLongs, unused in compact form)");
    im.flags.set(r.u8("flags")); im.seed_hash = r.u16("seed hash");
    if (im.flags.big_endian) bad("theta: big-endian flag set");
    if (!im.flags.compact) bad("theta v3: compact flag not set in a compact image");
    if (!im.flags.read_only) bad("theta v3: read-only flag not set in a compact image");
    if (im.pre_longs == 1) {
      if (!im.flags.empty) { im.entries.push_back(r.u64("single entry")); im.num_entries = 1; }
    } else if (im.pre_longs == 2 || im.pre_longs == 3) {
      im.num_entries = r.u32("retained count"); r.unused(4, "bytes 12-15 (p, unused in compact form)");
      if (im.pre_longs == 3) { im.theta = r.u64("theta"); im.has_theta = true; }
      if (im.flags.empty && im.num_entries) bad("theta v3: empty flag with a non-zero retained count");
      r.need(static_cast<size_t>(im.num_entries) * 8, "hash array");
      for (uint32_t i = 0; i < im.num_entries; ++i) im.entries.push_back(r.u64("hash"));
    } else bad("theta v3: preamble longs " + std::to_string(im.pre_longs) + " not in 1..3");
    if (im.flags.empty && im.theta != MAX_THETA) bad("theta v3: empty flag with theta below 1.0");
  } else if (im.ser_ver == 4) {
    im.entry_bits = r.u8("entry bits"); im.num_entries_bytes = r.u8("number of count bytes");
    im.flags.set(r.u8("flags")); im.seed_hash = r.u16("seed hash");
    if (im.flags.big_endian) bad("theta: big-endian flag set");
    if (!im.flags.compact || !im.flags.ordered || !im.flags.read_only) bad("theta v4: compact, read-only and ordered flags must be set");
    if (im.flags.empty) bad("theta v4: empty flag set (the compressed form always has entries)");
    if (im.pre_longs == 2) { im.theta = r.u64("theta"); im.has_theta = true; }
    else if (im.pre_longs != 1) bad("theta v4: preamble longs " + std::to_string(im.pre_longs) + " not in 1..2");
    if (im.num_entries_bytes < 1 || im.num_entries_bytes > 4) bad("theta v4: count byte width not in 1..4");
    if (im.entry_bits < 1 || im.entry_bits > 63) bad("theta v4: entry bits not in 1..63");
    for (int i = 0; i < im.num_entries_bytes; ++i) im.num_entries |= static_cast<uint32_t>(r.u8("count byte")) << (8 * i);
    if (im.num_entries == 0) bad("theta v4: zero entries");
    if (im.num_entries_bytes > 1 && (im.num_entries >> (8 * (im.num_entries_bytes - 1))) == 0) bad("theta v4: count stored in more bytes than it needs");
    size_t bits = static_cast<size_t>(im.entry_bits) * im.num_entries, bytes = (bits + 7) / 8;
    r.need(bytes, "packed deltas");
    BitRd br(r.cur(), bytes);
    uint64_t prev = 0, ored = 0;
    for (uint32_t i = 0; i < im.num_entries; ++i) { uint64_t d = br.get(static_cast<unsigned>(im.entry_bits)); ored |= d; prev += d; im.entries.push_back(prev); }
    if ((ored >> (im.entry_bits - 1)) == 0) bad("theta v4: entry bits wider than the widest delta");
    im.pad_bits_nonzero = br.remaining_nonzero();
    r.skip(bytes, "packed deltas");
  } else bad("theta: serial version " + std::to_string(im.ser_ver) + " not 3 or 4");
  check_hashes(im.entries, im.theta, im.flags.ordered, "theta");
  im.consumed = r.pos(); im.unused_nonzero = r.unused_nonzero();
  return im;
}

// tuple<double> compact: byte 0 preamble longs, 1 serial version (3), 2 family (9), 3 sketch type (1), 4 unused, 5 flags,
// 6-7 seed hash; then as theta v3; entries are (hash, summary) pairs, the summary of tuple<double> being one double
struct TupleImage {
  int pre_longs = 0, ser_ver = 0, family = 0, type = 0; ThetaFlags flags; uint16_t seed_hash = 0; uint64_t theta = MAX_THETA; bool has_theta = false;
  uint32_t num_entries = 0; std::vector<std::pair<uint64_t, double>> entries; size_t consumed = 0; unsigned unused_nonzero = 0;
};
inline TupleImage decode_tuple_double(const uint8_t* b, size_t n) {
  Rd r(b, n); TupleImage im;
  im.pre_longs = r.u8("preamble longs"); im.ser_ver = r.u8("serial version"); im.family = r.u8("family id"); im.type = r.u8("sketch type");
  if (im.ser_ver != 3) bad("tuple: serial version " + std::to_string(im.ser_ver) + " is not 3");
  if (im.family != 9) bad("tuple: family id " + std::to_string(im.family) + " is not 9");
  if (im.type != 1) bad("tuple: sketch type " + std::to_string(im.type) + " is not 1 (compact)");
  r.unused(1, "byte 4"); im.flags.set(r.u8("flags")); im.seed_hash = r.u16("seed hash");
  if (im.flags.big_endian) bad("tuple: big-endian flag set");
  if (!im.flags.compact || !im.flags.read_only) bad("tuple: compact and read-only flags must be set");
  if (im.pre_longs == 1) {
    if (!im.flags.empty) im.num_entries = 1;
  } else if (im.pre_longs == 2 || im.pre_longs == 3) {
    im.num_entries = r.u32("retained count"); r.unused(4, "bytes 12-15");
    if (im.pre_longs == 3) { im.theta = r.u64("theta"); im.has_theta = true; }
    if (im.flags.empty && im.num_entries) bad("tuple: empty flag with a non-zero retained count");
  } else bad("tuple: preamble longs " + std::to_string(im.pre_longs) + " not in 1..3");
  if (im.flags.empty && im.theta != MAX_THETA) bad("tuple: empty flag with theta below 1.0");
  std::vector<uint64_t> keys;
  for (uint32_t i = 0; i < im.num_entries; ++i) { uint64_t k = r.u64("hash"); double s = r.f64("double summary"); im.entries.emplace_back(k, s); keys.push_back(k); }
  check_hashes(keys, im.theta, im.flags.ordered, "tuple");
  im.consumed = r.pos(); im.unused_nonzero = r.unused_nonzero();
  return im;
}

// array of doubles compact: byte 0 preamble longs (1), 1 serial version (1), 2 family (9), 3 sketch type (3), 4 flags
// (bit0 big-endian, bit1 sampling, bit2 empty, bit3 has-entries, bit4 ordered), 5 number of values, 6-7 seed hash, 8-15 theta,
// [16-19 retained count, 20-23 unused, all hashes, then all value rows]
struct AodImage {
  int pre_longs = 0, ser_ver = 0, family = 0, type = 0, flags = 0, num_values = 0;
  bool f_big_endian = false, f_empty = false, f_has_entries = false, f_ordered = false;
  uint16_t seed_hash = 0; uint64_t theta = 0; uint32_t num_entries = 0;
  std::vector<uint64_t> keys; std::vector<std::vector<double>> values; size_t consumed = 0; unsigned unused_nonzero = 0;
};
inline AodImage decode_aod(const uint8_t* b, size_t n) {
  Rd r(b, n); AodImage im;
  im.pre_longs = r.u8("preamble longs"); im.ser_ver = r.u8("serial version"); im.family = r.u8("family id"); im.type = r.u8("sketch type");
  if (im.pre_longs != 1) bad("aod: preamble longs " + std::to_string(im.pre_longs) + " is not 1");
  if (im.ser_ver != 1) bad("aod: serial version " + std::to_string(im.ser_ver) + " is not 1");
  if (im.family != 9) bad("aod: family id " + std::to_string(im.family) + " is not 9");
  if (im.type != 3) bad("aod: sketch type " + std::to_string(im.type) + " is not 3 (compact array of doubles)");
  im.flags = r.u8("flags"); im.f_big_endian = im.flags & 1; im.f_empty = im.flags & 4; im.f_has_entries = im.flags & 8; im.f_ordered = im.flags & 16;
  if (im.f_big_endian) bad("aod: big-endian flag set");
  if (im.flags & 0xe2) bad("aod: undocumented flag bits set");
  im.num_values = r.u8("number of values"); im.seed_hash = r.u16("seed hash"); im.theta = r.u64("theta");
  if (im.f_empty && im.f_has_entries) bad("aod: empty and has-entries flags both set");
  if (im.f_has_entries) {
    im.num_entries = r.u32("retained count"); r.unused(4, "bytes 20-23");
    if (im.num_entries == 0) bad("aod: has-entries flag with a zero count");
    for (uint32_t i = 0; i < im.num_entries; ++i) im.keys.push_back(r.u64("hash"));
    for (uint32_t i = 0; i < im.num_entries; ++i) { std::vector<double> row; for (int j = 0; j < im.num_values; ++j) row.push_back(r.f64("value")); im.values.push_back(row); }
  }
  if (im.theta > MAX_THETA || im.theta == 0) bad("aod: theta outside (0, 2^63)");
  check_hashes(im.keys, im.theta, im.f_ordered, "aod");
  im.consumed = r.pos(); im.unused_nonzero = r.unused_nonzero();
  return im;
}

// ---------------------------------------------------------------- CPC (preamble only)
// byte 0 preamble ints, 1 serial version (1), 2 family (16), 3 lg_k, 4 first interesting column, 5 flags (bit0 big-endian,
// bit1 compressed, bit2 has-HIP, bit3 has-table, bit4 has-window), 6-7 seed hash; then, in 4-byte ints:
//   empty                 : nothing (2 ints)
//   table or window only  : numCoupons, [tableWords | windowWords], [kxp, hip if HIP]
//   table and window      : numCoupons, numTableEntries, [kxp, hip if HIP], tableWords, windowWords
// followed by the window words and then the table words (entropy coded, not decoded here).
struct CpcImage {
  int pre_ints = 0, ser_ver = 0, family = 0, lg_k = 0, fi_col = 0, flags = 0;
  bool f_big_endian = false, f_compressed = false, f_hip = false, f_table = false, f_window = false, empty = false;
  uint16_t seed_hash = 0; uint32_t num_coupons = 0, table_num_entries = 0, table_words = 0, window_words = 0;
  double kxp = 0, hip = 0; size_t payload_offset = 0, consumed = 0;
};
inline CpcImage decode_cpc(const uint8_t* b, size_t n) {
  Rd r(b, n); CpcImage im;
  im.pre_ints = r.u8("preamble ints"); im.ser_ver = r.u8("serial version"); im.family = r.u8("family id");
  if (im.ser_ver != 1) bad("cpc: serial version " + std::to_string(im.ser_ver) + " is not 1");
  if (im.family != 16) bad("cpc: family id " + std::to_string(im.family) + " is not 16");
  im.lg_k = r.u8("lg_k"); im.fi_col = r.u8("first interesting column"); im.flags = r.u8("flags"); im.seed_hash = r.u16("seed hash");
  im.f_big_endian = im.flags & 1; im.f_compressed = im.flags & 2; im.f_hip = im.flags & 4; im.f_table = im.flags & 8; im.f_window = im.flags & 16;
  if (im.f_big_endian) bad("cpc: big-endian flag set");
  if (!im.f_compressed) bad("cpc: compressed flag not set");
  if (im.flags & 0xe0) bad("cpc: undocumented flag bits set");
  if (im.lg_k < 4 || im.lg_k > 26) bad("cpc: lg_k outside 4..26");
  if (im.fi_col > 63) bad("cpc: first interesting column above 63");
  im.empty = !im.f_table && !im.f_window;
  int expect = 2;
  if (!im.empty) expect = 3 + (im.f_table && im.f_window ? 1 : 0) + (im.f_hip ? 4 : 0) + (im.f_table ? 1 : 0) + (im.f_window ? 1 : 0);
  if (im.pre_ints != expect) bad("cpc: preamble ints " + std::to_string(im.pre_ints) + " but the flags imply " + std::to_string(expect));
  if (!im.empty) {
    im.num_coupons = r.u32("number of coupons");
    if (im.num_coupons == 0) bad("cpc: non-empty image with zero coupons");
    if (im.f_table && im.f_window) {
      im.table_num_entries = r.u32("number of table entries");
      if (im.f_hip) { im.kxp = r.f64("kxp"); im.hip = r.f64("hip accumulator"); }
      im.table_words = r.u32("table words"); im.window_words = r.u32("window words");
    } else {
      if (im.f_table) { im.table_words = r.u32("table words"); im.table_num_entries = im.num_coupons; }
      if (im.f_window) im.window_words = r.u32("window words");
      if (im.f_hip) { im.kxp = r.f64("kxp"); im.hip = r.f64("hip accumulator"); }
    }
    if (im.f_table && im.table_words == 0) bad("cpc: table flag with zero table words");
    if (im.f_window && im.window_words == 0) bad("cpc: window flag with zero window words");
    if (im.table_num_entries > im.num_coupons) bad("cpc: more table entries than coupons");
  }
  if (r.pos() != static_cast<size_t>(im.pre_ints) * 4) bad("cpc: preamble fields do not fill the declared preamble");
  im.payload_offset = r.pos();
  r.skip((static_cast<size_t>(im.table_words) + im.window_words) * 4, "compressed window/table words");
  im.consumed = r.pos();
  return im;
}

// ---------------------------------------------------------------- KLL
// byte 0 preamble ints, 1 serial version, 2 family (15), 3 flags (bit0 empty, bit1 level-zero-sorted, bit2 single-item),
// 4-5 k, 6 m, 7 unused; empty: 2 ints, version 1; single item: 2 ints, version 2, the item at 8; otherwise 5 ints,
// version 1: 8-15 n, 16-17 min_k, 18 number of levels, 19 unused, then num_levels ints (level start offsets; the last
// boundary = total capacity of a sketch with that many levels is not stored), min item, max item, and the items
// from levels[0] to the capacity; level h holds items of weight 2^h.
inline uint32_t kll_cap_aux_aux(uint32_t k, unsigned depth) {
  static const uint64_t pow3[] = {1ull, 3ull, 9ull, 27ull, 81ull, 243ull, 729ull, 2187ull, 6561ull, 19683ull, 59049ull, 177147ull, 531441ull, 1594323ull, 4782969ull, 14348907ull,
    43046721ull, 129140163ull, 387420489ull, 1162261467ull, 3486784401ull, 10460353203ull, 31381059609ull, 94143178827ull, 282429536481ull, 847288609443ull, 2541865828329ull,
    7625597484987ull, 22876792454961ull, 68630377364883ull, 205891132094649ull};
  if (depth > 30) bad("kll: level depth above 30");
  uint64_t twok = static_cast<uint64_t>(k) << 1;
  uint64_t tmp = (twok << depth) / pow3[depth];
  return static_cast<uint32_t>((tmp + 1) >> 1);
}
inline uint32_t kll_cap_aux(uint32_t k, unsigned depth) {
  if (depth <= 30) return kll_cap_aux_aux(k, depth);
  unsigned half = depth / 2, rest = depth - half;
  return kll_cap_aux_aux(kll_cap_aux_aux(k, half), rest);
}
inline uint32_t kll_level_capacity(uint32_t k, unsigned num_levels, unsigned height, uint32_t m) {
  uint32_t c = kll_cap_aux(k, num_levels - height - 1);
  return c > m ? c : m;
}
inline uint32_t kll_total_capacity(uint32_t k, uint32_t m, unsigned num_levels) {
  uint32_t t = 0; for (unsigned h = 0; h < num_levels; ++h) t += kll_level_capacity(k, num_levels, h, m); return t;
}

template <typename T> struct KllImage {
  int pre_ints = 0, ser_ver = 0, family = 0, flags = 0; bool f_empty = false, f_l0_sorted = false, f_single = false;
  uint16_t k = 0, min_k = 0; uint8_t m = 0, num_levels = 0; uint64_t n = 0; uint32_t capacity = 0;
  std::vector<uint32_t> levels;  // num_levels + 1 boundaries (the last one derived)
  bool has_minmax = false; T min_item{}, max_item{};
  std::vector<std::vector<T>> level_items;  // per level, in image order
  size_t retained = 0, consumed = 0; unsigned unused_nonzero = 0;
};
template <typename T> KllImage<T> decode_kll(const uint8_t* b, size_t n) {
  Rd r(b, n); KllImage<T> im;
  im.pre_ints = r.u8("preamble ints"); im.ser_ver = r.u8("serial version"); im.family = r.u8("family id"); im.flags = r.u8("flags");
  if (im.family != 15) bad("kll: family id " + std::to_string(im.family) + " is not 15");
  if (im.flags & 0xf8) bad("kll: undocumented flag bits set");
  im.f_empty = im.flags & 1; im.f_l0_sorted = im.flags & 2; im.f_single = im.flags & 4;
  im.k = r.u16("k"); im.m = r.u8("m"); r.unused(1, "byte 7");
  if (im.k < 8) bad("kll: k below 8");
  if (im.m < 2 || im.m > 8) bad("kll: m outside 2..8");
  if (im.f_empty) {
    if (im.f_single) bad("kll: empty and single-item flags both set");
    if (im.pre_ints != 2 || im.ser_ver != 1) bad("kll: empty image must have 2 preamble ints and serial version 1");
    im.min_k = im.k; im.num_levels = 1;
  } else if (im.f_single) {
    if (im.pre_ints != 2 || im.ser_ver != 2) bad("kll: single-item image must have 2 preamble ints and serial version 2");
    im.n = 1; im.min_k = im.k; im.num_levels = 1;
    T it = ItemRd<T>::get(r);
    im.level_items.push_back(std::vector<T>(1, it)); im.retained = 1;
    im.has_minmax = true; im.min_item = it; im.max_item = it;
  } else {
    if (im.pre_ints != 5 || im.ser_ver != 1) bad("kll: full image must have 5 preamble ints and serial version 1");
    im.n = r.u64("n"); im.min_k = r.u16("min_k"); im.num_levels = r.u8("number of levels"); r.unused(1, "byte 19");
    if (im.n < 2) bad("kll: full image with n < 2");
    if (im.num_levels < 1 || im.num_levels > 60) bad("kll: number of levels outside 1..60");
    if (im.min_k > im.k || im.min_k < 8) bad("kll: min_k outside 8..k");
    for (unsigned i = 0; i < im.num_levels; ++i) im.levels.push_back(r.u32("level offset"));
    im.capacity = kll_total_capacity(im.k, im.m, im.num_levels);
    im.levels.push_back(im.capacity);
    for (unsigned i = 0; i < im.num_levels; ++i) if (im.levels[i] > im.levels[i + 1]) bad("kll: level offsets are not non-decreasing up to the total capacity " + std::to_string(im.capacity));
    im.min_item = ItemRd<T>::get(r); im.max_item = ItemRd<T>::get(r); im.has_minmax = true;
    uint64_t wsum = 0;
    for (unsigned h = 0; h < im.num_levels; ++h) {
      std::vector<T> lv;
      for (uint32_t i = im.levels[h]; i < im.levels[h + 1]; ++i) lv.push_back(ItemRd<T>::get(r));
      wsum += static_cast<uint64_t>(lv.size()) << h;
      im.retained += lv.size();
      im.level_items.push_back(std::move(lv));
    }
    if (wsum != im.n) bad("kll: the level weights sum to " + std::to_string(wsum) + " but n is " + std::to_string(im.n));
  }
  im.consumed = r.pos(); im.unused_nonzero = r.unused_nonzero();
  return im;
}

// ---------------------------------------------------------------- REQ
// byte 0 preamble ints (2 exact / 4 estimation), 1 serial version (1), 2 family (17), 3 flags (bit2 empty, bit3 high-rank
// accuracy, bit4 raw items, bit5 level-zero-sorted), 4-5 k, 6 number of levels, 7 number of raw items;
// estimation: 8-15 n, then min item, max item; then either the raw items (n <= 4) or one block per level:
// 8 bytes state, 4 bytes float section size, 1 byte lg weight, 1 byte number of sections, 2 unused, 4 bytes item count, items.
template <typename T> struct ReqLevel { uint64_t state = 0; float section_size_raw = 0; uint8_t lg_weight = 0, num_sections = 0; uint32_t num_items = 0; std::vector<T> items; };
template <typename T> struct ReqImage {
  int pre_ints = 0, ser_ver = 0, family = 0, flags = 0; bool f_empty = false, f_hra = false, f_raw = false, f_l0_sorted = false;
  uint16_t k = 0; uint8_t num_levels = 0, num_raw = 0; uint64_t n = 0; bool has_minmax = false; T min_item{}, max_item{};
  std::vector<ReqLevel<T>> levels;  // raw items are reported as one level of weight 1
  size_t retained = 0, consumed = 0; unsigned unused_nonzero = 0;
};
template <typename T> ReqImage<T> decode_req(const uint8_t* b, size_t n) {
  Rd r(b, n); ReqImage<T> im;
  im.pre_ints = r.u8("preamble ints"); im.ser_ver = r.u8("serial version"); im.family = r.u8("family id"); im.flags = r.u8("flags");
  if (im.ser_ver != 1) bad("req: serial version " + std::to_string(im.ser_ver) + " is not 1");
  if (im.family != 17) bad("req: family id " + std::to_string(im.family) + " is not 17");
  if (im.flags & 0xc3) bad("req: reserved / undocumented flag bits set");
  im.f_empty = im.flags & 4; im.f_hra = im.flags & 8; im.f_raw = im.flags & 16; im.f_l0_sorted = im.flags & 32;
  im.k = r.u16("k"); im.num_levels = r.u8("number of levels"); im.num_raw = r.u8("number of raw items");
  if (im.k < 4 || (im.k & 1)) bad("req: k must be even and at least 4");
  if (im.f_empty) {
    if (im.pre_ints != 2) bad("req: empty image must have 2 preamble ints");
    if (im.num_levels != 0 || im.num_raw != 0) bad("req: empty image with levels or raw items");
  } else {
    if (im.num_levels == 0) bad("req: non-empty image without levels");
    bool est = im.num_levels > 1;
    if (im.pre_ints != (est ? 4 : 2)) bad("req: preamble ints " + std::to_string(im.pre_ints) + " contradict " + std::to_string(im.num_levels) + " levels");
    if (est) { im.n = r.u64("n"); im.min_item = ItemRd<T>::get(r); im.max_item = ItemRd<T>::get(r); im.has_minmax = true; }
    if (im.f_raw) {
      if (est) bad("req: raw items in estimation mode");
      if (im.num_raw < 1 || im.num_raw > 4) bad("req: raw item count outside 1..4");
      ReqLevel<T> lv; lv.num_items = im.num_raw;
      for (unsigned i = 0; i < im.num_raw; ++i) lv.items.push_back(ItemRd<T>::get(r));
      im.levels.push_back(std::move(lv)); im.n = im.num_raw; im.retained = im.num_raw;
    } else {
      if (im.num_raw != 0) bad("req: raw item count without the raw-items flag");
      uint64_t wsum = 0;
      for (unsigned h = 0; h < im.num_levels; ++h) {
        ReqLevel<T> lv;
        lv.state = r.u64("compactor state"); lv.section_size_raw = r.f32("section size"); lv.lg_weight = r.u8("lg weight"); lv.num_sections = r.u8("number of sections");
        r.unused(2, "compactor padding"); lv.num_items = r.u32("compactor item count");
        if (lv.lg_weight > 63) bad("req: lg weight above 63");
        for (uint32_t i = 0; i < lv.num_items; ++i) lv.items.push_back(ItemRd<T>::get(r));
        wsum += static_cast<uint64_t>(lv.num_items) << lv.lg_weight; im.retained += lv.num_items;
        im.levels.push_back(std::move(lv));
      }
      if (est) { if (wsum != im.n) bad("req: the level weights sum to " + std::to_string(wsum) + " but n is " + std::to_string(im.n)); }
      else im.n = wsum;
    }
  }
  im.consumed = r.pos(); im.unused_nonzero = r.unused_nonzero();
  return im;
}

// ---------------------------------------------------------------- classic quantiles
// byte 0 preamble longs (1 empty / 2), 1 serial version (3), 2 family (8), 3 flags (bit2 empty, bit3 compact, bit4 ordered),
// 4-5 k, 6-7 unused, 8-15 n, min item, max item, then (compact form) the n mod 2k base-buffer items and, for every set
// bit h of n div 2k, k items of weight 2^(h+1).
template <typename T> struct QsImage {
  int pre_longs = 0, ser_ver = 0, family = 0, flags = 0; bool f_empty = false, f_compact = false, f_sorted = false;
  uint16_t k = 0; uint64_t n = 0; bool has_minmax = false; T min_item{}, max_item{};
  std::vector<T> base_buffer; std::vector<std::pair<unsigned, std::vector<T>>> levels;  // (height, items)
  size_t retained = 0, consumed = 0; unsigned unused_nonzero = 0;
};
template <typename T> QsImage<T> decode_quantiles(const uint8_t* b, size_t n) {
  Rd r(b, n); QsImage<T> im;
  im.pre_longs = r.u8("preamble longs"); im.ser_ver = r.u8("serial version"); im.family = r.u8("family id"); im.flags = r.u8("flags");
  if (im.ser_ver != 3) bad("quantiles: serial version " + std::to_string(im.ser_ver) + " is not 3");
  if (im.family != 8) bad("quantiles: family id " + std::to_string(im.family) + " is not 8");
  if (im.flags & 0xe3) bad("quantiles: reserved / undocumented flag bits set");
  im.f_empty = im.flags & 4; im.f_compact = im.flags & 8; im.f_sorted = im.flags & 16;
  im.k = r.u16("k"); r.unused(2, "bytes 6-7");
  if (im.k < 2 || (im.k & (im.k - 1))) bad("quantiles: k is not a power of two >= 2");
  if (im.f_empty) {
    if (im.pre_longs != 1) bad("quantiles: empty image must have 1 preamble long");
  } else {
    if (im.pre_longs != 2) bad("quantiles: non-empty image must have 2 preamble longs");
    if (!im.f_compact) bad("quantiles: this reader handles the compact form only");
    im.n = r.u64("n"); if (im.n == 0) bad("quantiles: non-empty image with n = 0");
    im.min_item = ItemRd<T>::get(r); im.max_item = ItemRd<T>::get(r); im.has_minmax = true;
    uint64_t two_k = 2ull * im.k, bb = im.n % two_k, pattern = im.n / two_k;
    for (uint64_t i = 0; i < bb; ++i) im.base_buffer.push_back(ItemRd<T>::get(r));
    im.retained = bb;
    for (unsigned h = 0; pattern >> h; ++h) if ((pattern >> h) & 1) {
      std::vector<T> lv; for (unsigned i = 0; i < im.k; ++i) lv.push_back(ItemRd<T>::get(r));
      im.retained += lv.size(); im.levels.emplace_back(h, std::move(lv));
    }
  }
  im.consumed = r.pos(); im.unused_nonzero = r.unused_nonzero();
  return im;
}

// ---------------------------------------------------------------- frequent items
// byte 0 preamble longs (1 empty / 4), 1 serial version (1), 2 family (10), 3 lg max map size, 4 lg current map size,
// 5 flags (bit2 empty; this implementation also sets bit0), 6-7 unused, 8-11 active items, 12-15 unused, 16-23 total weight,
// 24-31 offset, then the weights (8 bytes each) followed by the items.
template <typename T> struct FiImage {
  int pre_longs = 0, ser_ver = 0, family = 0, lg_max = 0, lg_cur = 0, flags = 0; bool f_empty = false, f_empty_bit0 = false;
  uint32_t num_active = 0; uint64_t total_weight = 0, offset = 0; std::vector<std::pair<T, uint64_t>> rows;  // image order
  size_t consumed = 0; unsigned unused_nonzero = 0;
};
template <typename T> FiImage<T> decode_fi(const uint8_t* b, size_t n) {
  Rd r(b, n); FiImage<T> im;
  im.pre_longs = r.u8("preamble longs"); im.ser_ver = r.u8("serial version"); im.family = r.u8("family id");
  if (im.ser_ver != 1) bad("fi: serial version " + std::to_string(im.ser_ver) + " is not 1");
  if (im.family != 10) bad("fi: family id " + std::to_string(im.family) + " is not 10");
  im.lg_max = r.u8("lg max map size"); im.lg_cur = r.u8("lg current map size"); im.flags = r.u8("flags"); r.unused(2, "bytes 6-7");
  if (im.flags & 0xfa) bad("fi: undocumented flag bits set");
  im.f_empty = im.flags & 4; im.f_empty_bit0 = im.flags & 1;
  if (im.lg_cur > im.lg_max || im.lg_cur < 3) bad("fi: lg current map size outside 3..lg max");
  if (im.f_empty) {
    if (im.pre_longs != 1) bad("fi: empty image must have 1 preamble long");
  } else {
    if (im.pre_longs != 4) bad("fi: non-empty image must have 4 preamble longs");
    im.num_active = r.u32("active items"); r.unused(4, "bytes 12-15"); im.total_weight = r.u64("total weight"); im.offset = r.u64("offset");
    if (static_cast<uint64_t>(im.num_active) > (3ull << im.lg_cur) / 4) bad("fi: more active items than the load factor of the current map allows");
    std::vector<uint64_t> w; r.need(static_cast<size_t>(im.num_active) * 8, "weights");
    for (uint32_t i = 0; i < im.num_active; ++i) w.push_back(r.u64("weight"));
    for (uint32_t i = 0; i < im.num_active; ++i) { T it = ItemRd<T>::get(r); im.rows.emplace_back(std::move(it), w[i]); }
  }
  im.consumed = r.pos(); im.unused_nonzero = r.unused_nonzero();
  return im;
}

// ---------------------------------------------------------------- count-min (64-bit cells)
// byte 0 preamble longs (2), 1 serial version (1), 2 family (18), 3 flags (bit0 empty), 4-7 unused, 8-11 buckets, 12 hashes,
// 13-14 seed hash, 15 unused; non-empty: 16-23 total weight, then hashes*buckets cells row by row.
struct CmImage {
  int pre_longs = 0, ser_ver = 0, family = 0, flags = 0; bool f_empty = false; uint32_t num_buckets = 0; uint8_t num_hashes = 0; uint16_t seed_hash = 0;
  uint64_t total_weight = 0; std::vector<uint64_t> cells; size_t consumed = 0; unsigned unused_nonzero = 0;
};
inline CmImage decode_count_min(const uint8_t* b, size_t n) {
  Rd r(b, n); CmImage im;
  im.pre_longs = r.u8("preamble longs"); im.ser_ver = r.u8("serial version"); im.family = r.u8("family id"); im.flags = r.u8("flags");
  if (im.pre_longs != 2) bad("count-min: preamble longs " + std::to_string(im.pre_longs) + " is not 2");
  if (im.ser_ver != 1) bad("count-min: serial version " + std::to_string(im.ser_ver) + " is not 1");
  if (im.family != 18) bad("count-min: family id " + std::to_string(im.family) + " is not 18");
  if (im.flags & 0xfe) bad("count-min: undocumented flag bits set");
  im.f_empty = im.flags & 1; r.unused(4, "bytes 4-7");
  im.num_buckets = r.u32("buckets"); im.num_hashes = r.u8("hashes"); im.seed_hash = r.u16("seed hash"); r.unused(1, "byte 15");
  if (im.num_buckets < 3 || im.num_hashes < 1) bad("count-min: fewer than 3 buckets or no hash");
  if (!im.f_empty) {
    im.total_weight = r.u64("total weight");
    size_t cells = static_cast<size_t>(im.num_buckets) * im.num_hashes; r.need(cells * 8, "cell array");
    for (size_t i = 0; i < cells; ++i) im.cells.push_back(r.u64("cell"));
  }
  im.consumed = r.pos(); im.unused_nonzero = r.unused_nonzero();
  return im;
}

// ---------------------------------------------------------------- VarOpt sketch / union
// byte 0: low 6 bits preamble longs (1 empty / 3 warm-up / 4 full), high 2 bits lg resize factor; 1 serial version (2),
// 2 family (13), 3 flags (bit2 empty, bit7 gadget), 4-7 k; 8-15 n; 16-19 h; 20-23 r; [24-31 total weight of R if r > 0];
// h weights (double); [ceil(h/8) mark bytes, bit i of the stream = mark of H item i, LSB first, only for a gadget];
// h items of H then r items of R.
template <typename T> struct VoImage {
  int pre_longs = 0, lg_rf = 0, ser_ver = 0, family = 0, flags = 0; bool f_empty = false, f_gadget = false;
  uint32_t k = 0, h = 0, r = 0; uint64_t n = 0; double total_wt_r = 0;
  std::vector<double> h_weights; std::vector<uint8_t> marks; uint32_t num_marks = 0; std::vector<T> h_items, r_items;
  size_t consumed = 0; unsigned unused_nonzero = 0, mark_pad_nonzero = 0;
};
template <typename T> VoImage<T> decode_varopt(const uint8_t* b, size_t n) {
  Rd r(b, n); VoImage<T> im;
  int b0 = r.u8("preamble longs / resize factor"); im.pre_longs = b0 & 0x3f; im.lg_rf = b0 >> 6;
  im.ser_ver = r.u8("serial version"); im.family = r.u8("family id"); im.flags = r.u8("flags");
  if (im.ser_ver != 2) bad("varopt: serial version " + std::to_string(im.ser_ver) + " is not 2");
  if (im.family != 13) bad("varopt: family id " + std::to_string(im.family) + " is not 13");
  if (im.flags & 0x7b) bad("varopt: undocumented flag bits set");
  im.f_empty = im.flags & 4; im.f_gadget = im.flags & 128;
  im.k = r.u32("k"); if (im.k == 0 || im.k > 0x7ffffffeu) bad("varopt: k outside 1..2^31-2");
  if (im.f_empty) {
    if (im.pre_longs != 1) bad("varopt: empty image must have 1 preamble long");
  } else {
    if (im.pre_longs != 3 && im.pre_longs != 4) bad("varopt: non-empty image must have 3 or 4 preamble longs");
    im.n = r.u64("n"); im.h = r.u32("h"); im.r = r.u32("r");
    if (im.n == 0) bad("varopt: non-empty image with n = 0");
    if ((im.pre_longs == 4) != (im.r > 0)) bad("varopt: preamble longs " + std::to_string(im.pre_longs) + " contradict r = " + std::to_string(im.r));
    if (im.r > 0) {
      im.total_wt_r = r.f64("total weight of R");
      if (!(im.total_wt_r > 0)) bad("varopt: R region with non-positive total weight");
      if (static_cast<uint64_t>(im.h) + im.r != im.k) bad("varopt: h + r != k in a full sketch");
    } else {
      if (im.h > im.k) bad("varopt: h > k"); if (im.h == 0) bad("varopt: non-empty image without items");
      if (im.n != im.h && !im.f_gadget) bad("varopt: warm-up image with h != n");
    }
    for (uint32_t i = 0; i < im.h; ++i) { double w = r.f64("H weight"); if (!(w > 0)) bad("varopt: non-positive H weight"); im.h_weights.push_back(w); }
    if (im.f_gadget) {
      size_t mb = (im.h + 7) / 8; r.need(mb, "mark bytes");
      for (uint32_t i = 0; i < im.h; ++i) { uint8_t m = (r.cur()[i >> 3] >> (i & 7)) & 1; im.marks.push_back(m); im.num_marks += m; }
      for (size_t i = im.h; i < mb * 8; ++i) if ((r.cur()[i >> 3] >> (i & 7)) & 1) ++im.mark_pad_nonzero;
      r.skip(mb, "mark bytes");
    }
    for (uint32_t i = 0; i < im.h; ++i) im.h_items.push_back(ItemRd<T>::get(r));
    for (uint32_t i = 0; i < im.r; ++i) im.r_items.push_back(ItemRd<T>::get(r));
  }
  im.consumed = r.pos(); im.unused_nonzero = r.unused_nonzero();
  return im;
}

// union: byte 0 preamble longs (1 empty / 4), 1 serial version (2), 2 family (14), 3 flags (bit2 empty), 4-7 max k,
// 8-15 n, 16-23 outer tau numerator (double), 24-31 outer tau denominator (uint64), then the gadget as a VarOpt sketch image
template <typename T> struct VouImage {
  int pre_longs = 0, ser_ver = 0, family = 0, flags = 0; bool f_empty = false; uint32_t max_k = 0; uint64_t n = 0; double outer_tau_numer = 0; uint64_t outer_tau_denom = 0;
  bool has_gadget = false; VoImage<T> gadget; size_t consumed = 0;
};
template <typename T> VouImage<T> decode_varopt_union(const uint8_t* b, size_t n) {
  Rd r(b, n); VouImage<T> im;
  im.pre_longs = r.u8("preamble longs"); im.ser_ver = r.u8("serial version"); im.family = r.u8("family id"); im.flags = r.u8("flags");
  if (im.ser_ver != 2) bad("varopt union: serial version " + std::to_string(im.ser_ver) + " is not 2");
  if (im.family != 14) bad("varopt union: family id " + std::to_string(im.family) + " is not 14");
  if (im.flags & 0xfb) bad("varopt union: undocumented flag bits set");
  im.f_empty = im.flags & 4; im.max_k = r.u32("max k"); if (im.max_k == 0) bad("varopt union: max k = 0");
  if (im.f_empty) {
    if (im.pre_longs != 1) bad("varopt union: empty image must have 1 preamble long");
  } else {
    if (im.pre_longs != 4) bad("varopt union: non-empty image must have 4 preamble longs");
    im.n = r.u64("n"); im.outer_tau_numer = r.f64("outer tau numerator"); im.outer_tau_denom = r.u64("outer tau denominator");
    if (im.n == 0) bad("varopt union: non-empty image with n = 0");
    // outer tau = (total weight, count) of the reservoir items of the input with the largest tau: a weight and a count of items seen
    if (!(im.outer_tau_numer >= 0) || std::isinf(im.outer_tau_numer)) bad("varopt union: outer tau numerator is not a finite non-negative weight");
    if (im.outer_tau_denom > im.n) bad("varopt union: outer tau denominator (an item count) exceeds n");
    if ((im.outer_tau_numer == 0) != (im.outer_tau_denom == 0)) bad("varopt union: outer tau numerator and denominator are not zero together");
    if (im.outer_tau_denom > 0 && im.outer_tau_numer < 2.2250738585072014e-308) bad("varopt union: outer tau numerator is a denormal weight");
    im.gadget = decode_varopt<T>(r.cur(), r.left()); im.has_gadget = true;
    if (im.gadget.k > im.max_k) bad("varopt union: gadget k above max k");
    r.skip(im.gadget.consumed, "gadget");
  }
  im.consumed = r.pos();
  return im;
}

// ---------------------------------------------------------------- EBPPS (int64 items)
// byte 0 preamble longs (1 empty / 5), 1 serial version (1), 2 family (19), 3 flags (bit2 empty, bit3 has partial item),
// 4-7 k, 8-15 n, 16-23 cumulative weight, 24-31 max weight, 32-39 rho, 40-47 c, then floor(c) items and the partial item if flagged
struct EbppsImage {
  int pre_longs = 0, ser_ver = 0, family = 0, flags = 0; bool f_empty = false, f_partial = false; uint32_t k = 0; uint64_t n = 0;
  double cum_wt = 0, wt_max = 0, rho = 0, c = 0; std::vector<int64_t> items; bool has_partial = false; int64_t partial = 0;
  size_t consumed = 0;
};
inline EbppsImage decode_ebpps_i64(const uint8_t* b, size_t n) {
  Rd r(b, n); EbppsImage im;
  im.pre_longs = r.u8("preamble longs"); im.ser_ver = r.u8("serial version"); im.family = r.u8("family id"); im.flags = r.u8("flags");
  if (im.ser_ver != 1) bad("ebpps: serial version " + std::to_string(im.ser_ver) + " is not 1");
  if (im.family != 19) bad("ebpps: family id " + std::to_string(im.family) + " is not 19");
  if (im.flags & 0xf3) bad("ebpps: undocumented flag bits set");
  im.f_empty = im.flags & 4; im.f_partial = im.flags & 8;
  im.k = r.u32("k"); if (im.k == 0 || im.k > 0x7ffffffeu) bad("ebpps: k outside 1..2^31-2");
  if (im.f_empty) {
    if (im.pre_longs != 1) bad("ebpps: empty image must have 1 preamble long");
    if (im.f_partial) bad("ebpps: empty image with the partial-item flag");
  } else {
    if (im.pre_longs != 5) bad("ebpps: non-empty image must have 5 preamble longs");
    im.n = r.u64("n"); im.cum_wt = r.f64("cumulative weight"); im.wt_max = r.f64("max weight"); im.rho = r.f64("rho"); im.c = r.f64("c");
    if (im.n == 0) bad("ebpps: non-empty image with n = 0");
    if (!(im.c > 0) || im.c > static_cast<double>(im.k) + 1e-9) bad("ebpps: c outside (0, k]");
    if (!(im.cum_wt > 0) || !(im.wt_max > 0) || !(im.rho > 0)) bad("ebpps: non-positive cumulative weight, max weight or rho");
    double ci = std::floor(im.c); bool frac = im.c != ci;
    if (frac != im.f_partial) bad("ebpps: partial-item flag contradicts the fractional part of c");
    for (uint64_t i = 0; i < static_cast<uint64_t>(ci); ++i) im.items.push_back(ItemRd<int64_t>::get(r));
    if (im.f_partial) { im.partial = ItemRd<int64_t>::get(r); im.has_partial = true; }
  }
  im.consumed = r.pos();
  return im;
}

// ---------------------------------------------------------------- t-digest
// byte 0 preamble longs (1 empty or single / 2), 1 serial version (1), 2 family (20), 3-4 k, 5 flags (bit0 empty, bit1 single
// value, bit2 reverse merge), 6-7 unused; single: the value at 8; otherwise 8-11 centroids, 12-15 buffered values, min, max,
// centroids as (mean, weight) with the weight 8 bytes for double / 4 bytes for float, then the buffered values.
template <typename T> struct TdWeight;
template <> struct TdWeight<double> { static uint64_t get(Rd& r) { return r.u64("centroid weight"); } };
template <> struct TdWeight<float> { static uint64_t get(Rd& r) { return r.u32("centroid weight"); } };
template <typename T> struct TdImage {
  int pre_longs = 0, ser_ver = 0, family = 0, flags = 0; bool f_empty = false, f_single = false, f_reverse = false; uint16_t k = 0;
  uint32_t num_centroids = 0, num_buffered = 0; bool has_minmax = false; T min = 0, max = 0;
  std::vector<std::pair<T, uint64_t>> centroids; std::vector<T> buffer; uint64_t total_weight = 0;
  size_t consumed = 0; unsigned unused_nonzero = 0;
};
template <typename T> TdImage<T> decode_tdigest(const uint8_t* b, size_t n) {
  Rd r(b, n); TdImage<T> im;
  im.pre_longs = r.u8("preamble longs"); im.ser_ver = r.u8("serial version"); im.family = r.u8("family id");
  if (im.ser_ver != 1) bad("tdigest: serial version " + std::to_string(im.ser_ver) + " is not 1");
  if (im.family != 20) bad("tdigest: family id " + std::to_string(im.family) + " is not 20");
  im.k = r.u16("k"); im.flags = r.u8("flags"); r.unused(2, "bytes 6-7");
  if (im.flags & 0xf8) bad("tdigest: undocumented flag bits set");
  im.f_empty = im.flags & 1; im.f_single = im.flags & 2; im.f_reverse = im.flags & 4;
  if (im.k < 10) bad("tdigest: k below 10");
  if (im.f_empty && im.f_single) bad("tdigest: empty and single-value flags both set");
  if (im.pre_longs != ((im.f_empty || im.f_single) ? 1 : 2)) bad("tdigest: preamble longs " + std::to_string(im.pre_longs) + " contradict the flags");
  if (im.f_single) {
    T v = ItemRd<T>::get(r); im.min = im.max = v; im.has_minmax = true; im.total_weight = 1;
    im.centroids.emplace_back(v, 1);  // logical content: one value of weight 1
  } else if (!im.f_empty) {
    im.num_centroids = r.u32("number of centroids"); im.num_buffered = r.u32("number of buffered values");
    im.min = ItemRd<T>::get(r); im.max = ItemRd<T>::get(r); im.has_minmax = true;
    for (uint32_t i = 0; i < im.num_centroids; ++i) {
      T m = ItemRd<T>::get(r); uint64_t w = TdWeight<T>::get(r);
      if (w == 0) bad("tdigest: centroid of weight 0");
      if (!(m >= im.min && m <= im.max)) bad("tdigest: centroid mean outside [min, max]");
      im.centroids.emplace_back(m, w); im.total_weight += w;
    }
    for (uint32_t i = 0; i < im.num_buffered; ++i) { T v = ItemRd<T>::get(r); if (!(v >= im.min && v <= im.max)) bad("tdigest: buffered value outside [min, max]"); im.buffer.push_back(v); }
    im.total_weight += im.num_buffered;
    if (im.total_weight < 2) bad("tdigest: multi-value image with total weight below 2");
  }
  im.consumed = r.pos(); im.unused_nonzero = r.unused_nonzero();
  return im;
}

// ---------------------------------------------------------------- Bloom filter
// byte 0 preamble longs (3 empty / 4), 1 serial version (1), 2 family (21), 3 flags (bit2 empty), 4-5 hashes, 6-7 unused,
// 8-15 seed, 16-19 bit array length in 64-bit words, 20-23 unused; non-empty: 24-31 number of bits set (all ones = dirty,
// must be recounted), then the words; bit i lives in word i/64 at bit i%64, i.e. byte i/8 bit i%8.
struct BloomImage {
  int pre_longs = 0, ser_ver = 0, family = 0, flags = 0; bool f_empty = false; uint16_t num_hashes = 0; uint64_t seed = 0; uint32_t num_longs = 0;
  uint64_t capacity_bits = 0, num_bits_set_field = 0, popcount = 0; bool dirty = false; std::vector<uint8_t> bits;  // byte array, empty if the filter is empty
  size_t consumed = 0; unsigned unused_nonzero = 0;
  bool bit(uint64_t i) const { return !bits.empty() && ((bits[i >> 3] >> (i & 7)) & 1); }
};
inline BloomImage decode_bloom(const uint8_t* b, size_t n) {
  Rd r(b, n); BloomImage im;
  im.pre_longs = r.u8("preamble longs"); im.ser_ver = r.u8("serial version"); im.family = r.u8("family id"); im.flags = r.u8("flags");
  if (im.ser_ver != 1) bad("bloom: serial version " + std::to_string(im.ser_ver) + " is not 1");
  if (im.family != 21) bad("bloom: family id " + std::to_string(im.family) + " is not 21");
  if (im.flags & 0xfb) bad("bloom: undocumented flag bits set");
  im.f_empty = im.flags & 4;
  if (im.pre_longs != (im.f_empty ? 3 : 4)) bad("bloom: preamble longs " + std::to_string(im.pre_longs) + " contradict the empty flag");
  im.num_hashes = r.u16("hashes"); r.unused(2, "bytes 6-7"); im.seed = r.u64("seed"); im.num_longs = r.u32("bit array words"); r.unused(4, "bytes 20-23");
  if (im.num_hashes == 0) bad("bloom: zero hashes"); if (im.num_longs == 0 || (im.num_longs >> 31)) bad("bloom: bit array length outside 1..2^31-1 words");
  im.capacity_bits = static_cast<uint64_t>(im.num_longs) << 6;
  if (!im.f_empty) {
    im.num_bits_set_field = r.u64("bits set"); im.dirty = im.num_bits_set_field == ~0ull;
    size_t bytes = static_cast<size_t>(im.num_longs) * 8; r.need(bytes, "bit array");
    im.bits.assign(r.cur(), r.cur() + bytes); r.skip(bytes, "bit array");
    for (uint8_t x : im.bits) for (; x; x &= static_cast<uint8_t>(x - 1)) ++im.popcount;
    if (!im.dirty && im.num_bits_set_field != im.popcount) bad("bloom: stored number of bits set " + std::to_string(im.num_bits_set_field) + " but the array has " + std::to_string(im.popcount));
    if (im.popcount == 0) bad("bloom: non-empty image with an all-zero bit array");
  }
  im.consumed = r.pos(); im.unused_nonzero = r.unused_nonzero();
  return im;
}

// ---------------------------------------------------------------- density sketch (float points)
// byte 0 preamble ints (3 empty / 6), 1 serial version (1), 2 family (19), 3 flags (bit2 empty), 4-5 k, 6-7 unused, 8-11 dimension,
// non-empty: 12-15 retained points, 16-23 n, then per level a 4-byte size followed by that many points of `dimension` floats;
// a point on level h has weight 2^h.
struct DensityImage {
  int pre_ints = 0, ser_ver = 0, family = 0, flags = 0; bool f_empty = false; uint16_t k = 0; uint32_t dim = 0, num_retained = 0; uint64_t n = 0;
  std::vector<std::vector<std::vector<float>>> levels; size_t consumed = 0; unsigned unused_nonzero = 0;
};
inline DensityImage decode_density_float(const uint8_t* b, size_t n) {
  Rd r(b, n); DensityImage im;
  im.pre_ints = r.u8("preamble ints"); im.ser_ver = r.u8("serial version"); im.family = r.u8("family id"); im.flags = r.u8("flags");
  if (im.ser_ver != 1) bad("density: serial version " + std::to_string(im.ser_ver) + " is not 1");
  if (im.family != 19) bad("density: family id " + std::to_string(im.family) + " is not 19");
  if (im.flags & 0xfb) bad("density: reserved / undocumented flag bits set");
  im.f_empty = im.flags & 4;
  if (im.pre_ints != (im.f_empty ? 3 : 6)) bad("density: preamble ints " + std::to_string(im.pre_ints) + " contradict the empty flag");
  im.k = r.u16("k"); r.unused(2, "bytes 6-7"); im.dim = r.u32("dimension");
  if (im.k < 2) bad("density: k below 2"); if (im.dim == 0) bad("density: zero dimension");
  if (!im.f_empty) {
    im.num_retained = r.u32("retained points"); im.n = r.u64("n"); if (im.n == 0) bad("density: non-empty image with n = 0");
    uint64_t got = 0;
    while (r.left() > 0) {
      if (im.levels.size() > 62) bad("density: more than 63 levels");
      uint32_t sz = r.u32("level size"); r.need(static_cast<size_t>(sz) * im.dim * 4, "level points");
      std::vector<std::vector<float>> lv;
      for (uint32_t i = 0; i < sz; ++i) { std::vector<float> pt; for (uint32_t d = 0; d < im.dim; ++d) pt.push_back(r.f32("coordinate")); lv.push_back(std::move(pt)); }
      got += sz;
      im.levels.push_back(std::move(lv));
    }
    if (got != im.num_retained) bad("density: the levels hold " + std::to_string(got) + " points but the preamble says " + std::to_string(im.num_retained));
  }
  im.consumed = r.pos(); im.unused_nonzero = r.unused_nonzero();
  return im;
}

}}  // namespace vf::c10
#endif
