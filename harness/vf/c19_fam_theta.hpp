// vf/c19_fam_theta.hpp — C19 families: theta update / compact / union / intersection / a-not-b and the tuple
// counterparts (summary = instrumented Probe).
#ifndef VF_C19_FAM_THETA_HPP
#define VF_C19_FAM_THETA_HPP
#include "c19_engine.hpp"
#include "c19_fam_quantiles.hpp"  // show_bytes, batch_value
#include <theta_sketch.hpp>
#include <theta_union.hpp>
#include <theta_intersection.hpp>
#include <theta_a_not_b.hpp>
#include <tuple_sketch.hpp>
#include <tuple_union.hpp>
#include <tuple_intersection.hpp>
#include <tuple_a_not_b.hpp>
#include <algorithm>

namespace vf19 {

using TA = track_alloc<uint64_t>;
using ThUpdate = datasketches::update_theta_sketch_alloc<TA>;
using ThCompact = datasketches::compact_theta_sketch_alloc<TA>;
using ThUnion = datasketches::theta_union_alloc<TA>;
using ThInter = datasketches::theta_intersection_alloc<TA>;
using ThANotB = datasketches::theta_a_not_b_alloc<TA>;

inline ThUpdate build_theta_update(Env& e, uint64_t v, int reg) {
  typename ThUpdate::builder b(e.alloc<uint64_t>(reg));
  b.set_lg_k(static_cast<uint8_t>(5 + (v & 1)));
  b.set_resize_factor(static_cast<datasketches::theta_constants::resize_factor>((v >> 1) & 3));
  if (v & 8) b.set_p(0.5f);
  return b.build();
}
// keys of a batch: a window chosen by the seed so that different batches overlap
inline void theta_feed(ThUpdate& sk, uint64_t seed, unsigned n) {
  vf::Rng r(seed);
  for (unsigned i = 0; i < n; ++i) { uint64_t key = batch_value(r, seed); LibScope ls; sk.update(key); }
}

template <typename Sk> void theta_show(const Sk& sk, std::ostream& os) {
  os << "empty=" << sk.is_empty() << " theta=" << sk.get_theta64() << " retained=" << sk.get_num_retained() << " est_mode=" << sk.is_estimation_mode()
     << " ordered=" << sk.is_ordered() << " seed_hash=" << sk.get_seed_hash() << " est=" << sk.get_estimate() << " lb=" << sk.get_lower_bound(2) << " ub=" << sk.get_upper_bound(2);
  std::vector<uint64_t> v;
  for (auto it = sk.begin(); it != sk.end(); ++it) v.push_back(*it);
  std::sort(v.begin(), v.end());
  os << "\nentries(" << v.size() << "):";
  for (uint64_t x : v) os << ' ' << std::hex << x << std::dec;
  os << "\n";
}

struct ThetaUpdateFamily {
  using Obj = ThUpdate;
  static const char* name() { return "theta-update"; }
  static Obj* make(Env& e, uint64_t v, int reg) { return construct<Obj>([&](void* m) { return new (m) Obj(build_theta_update(e, v, reg)); }); }
  static void update(Env&, Obj& sk, uint64_t seed, unsigned n) {
    theta_feed(sk, seed, n);
    if ((seed & 15) == 3) { LibScope ls; sk.trim(); }
  }
  static bool merge_ref(Env&, Obj&, const Obj&) { return false; }
  static bool merge_move(Env&, Obj&, Obj&&) { return false; }
  static bool reset(Obj& sk) { LibScope ls; sk.reset(); return true; }
  static Obj* serde(Env&, const Obj&, uint64_t, int) { return nullptr; }
  static void observe(const Obj& sk, std::ostream& os) {
    os << "lg_k=" << int(sk.get_lg_k()) << " rf=" << int(sk.get_rf()) << ' ';
    theta_show(sk, os);
    auto c = [&] { LibScope ls; return sk.compact(true); }();
    auto bytes = [&] { LibScope ls; return c.serialize(); }();
    show_bytes(os, bytes.data(), bytes.size());
  }
  static void canon(const Obj&, std::ostream&) {}
  static void query(Env&, const Obj& sk, uint64_t seed) {
    LibScope ls;
    auto c = sk.compact((seed & 1) != 0);
    auto c2(c);
    auto c3(std::move(c));
    (void)c2.get_estimate(); (void)c3.get_estimate();
    if (seed & 2) { ToStringScope ts; (void)sk.to_string((seed & 4) != 0); }
  }
};

struct ThetaCompactFamily {
  using Obj = ThCompact;
  static const char* name() { return "theta-compact"; }
  static Obj* make(Env& e, uint64_t v, int reg) {
    ThUpdate u = build_theta_update(e, v, reg);
    if (v & 4) theta_feed(u, v, 20 + 30 * static_cast<unsigned>(v & 3));
    return construct<Obj>([&](void* m) { return new (m) Obj(u.compact((v & 2) != 0)); });
  }
  // "update": union with a freshly fed update sketch, result move-assigned
  static void update(Env& e, Obj& sk, uint64_t seed, unsigned n) {
    TA a = [&] { LibScope ls; return sk.get_allocator(); }();
    typename ThUpdate::builder b(a);
    ThUpdate u = [&] { LibScope ls; return b.set_lg_k(5).build(); }();
    theta_feed(u, seed, n);
    (void)e;
    LibScope ls;
    ThUnion un = typename ThUnion::builder(a).set_lg_k(6).build();
    un.update(sk);
    un.update(u);
    sk = un.get_result((seed & 1) != 0);
  }
  template <typename SrcT> static bool merge_ref(Env&, Obj& d, SrcT& s) {
    LibScope ls;
    ThUnion un = typename ThUnion::builder(d.get_allocator()).set_lg_k(6).build();
    un.update(d); un.update(s);
    d = un.get_result(true);
    return true;
  }
  static bool merge_move(Env&, Obj& d, Obj&& s) {
    LibScope ls;
    ThUnion un = typename ThUnion::builder(d.get_allocator()).set_lg_k(6).build();
    un.update(d); un.update(std::move(s));
    d = un.get_result(true);
    return true;
  }
  static bool reset(Obj&) { return false; }
  static Obj* serde(Env& e, const Obj& sk, uint64_t mode, int reg) {
    uint64_t seed = datasketches::DEFAULT_SEED;
    if (mode & 1) {
      std::stringstream ss(std::ios::in | std::ios::out | std::ios::binary);
      { LibScope ls; if (mode & 4) sk.serialize_compressed(ss); else sk.serialize(ss); }
      return construct<Obj>([&](void* m) { return new (m) Obj(Obj::deserialize(ss, seed, e.alloc<uint64_t>(reg))); });
    }
    unsigned header = (mode & 2) ? 8 : 0;
    auto bytes = [&] { LibScope ls; return (mode & 4) ? sk.serialize_compressed(header) : sk.serialize(header); }();
    return construct<Obj>([&](void* m) { return new (m) Obj(Obj::deserialize(bytes.data() + header, bytes.size() - header, seed, e.alloc<uint64_t>(reg))); });
  }
  static void observe(const Obj& sk, std::ostream& os) {
    theta_show(sk, os);
    auto bytes = [&] { LibScope ls; return sk.serialize(); }();
    show_bytes(os, bytes.data(), bytes.size());
    os << " declared=" << sk.get_serialized_size_bytes(false);
  }
  static void canon(const Obj& sk, std::ostream& os) { theta_show(sk, os); }
  static void query(Env&, const Obj& sk, uint64_t seed) {
    LibScope ls;
    Obj c(sk, (seed & 1) != 0);   // the "compact of anything" constructor
    (void)c.get_estimate();
    if (seed & 2) { ToStringScope ts; (void)sk.to_string((seed & 4) != 0); }
  }
};

// feeds one generated input into a set operator in one of four ways
template <typename Op> void theta_op_feed(Env&, Op& op, TA a, uint64_t seed, unsigned n) {
  typename ThUpdate::builder b(a);
  ThUpdate u = [&] { LibScope ls; return b.set_lg_k(static_cast<uint8_t>(5 + (seed >> 4 & 1))).build(); }();
  theta_feed(u, seed, n);
  LibScope ls;
  switch (seed & 3) {
    case 0: op.update(u); break;                                   // update sketch by reference
    case 1: { ThCompact c = u.compact(true); op.update(c); break; }  // ordered compact by reference
    case 2: op.update(u.compact(true)); break;                     // ordered compact rvalue
    default: op.update(u.compact(false));                          // unordered compact rvalue
  }
}

struct ThetaUnionFamily {
  using Obj = ThUnion;
  static const char* name() { return "theta-union"; }
  static Obj* make(Env& e, uint64_t v, int reg) {
    return construct<Obj>([&](void* m) {
      typename Obj::builder b(e.alloc<uint64_t>(reg));
      b.set_lg_k(static_cast<uint8_t>(5 + (v & 1))).set_resize_factor(static_cast<datasketches::theta_constants::resize_factor>((v >> 1) & 3));
      return new (m) Obj(b.build());
    });
  }
  static TA alloc_of(const Obj& u) { LibScope ls; return u.get_result().get_allocator(); }
  static void update(Env& e, Obj& u, uint64_t seed, unsigned n) { theta_op_feed(e, u, alloc_of(u), seed, n); }
  static bool merge_ref(Env&, Obj&, const Obj&) { return false; }
  static bool merge_move(Env&, Obj&, Obj&&) { return false; }
  static bool reset(Obj& u) { LibScope ls; u.reset(); return true; }
  static Obj* serde(Env&, const Obj&, uint64_t, int) { return nullptr; }
  static void observe(const Obj& u, std::ostream& os) {
    auto r = [&] { LibScope ls; return u.get_result(true); }();
    theta_show(r, os);
    auto r2 = [&] { LibScope ls; return u.get_result(false); }();
    os << "unordered:"; theta_show(r2, os);
  }
  static void canon(const Obj&, std::ostream&) {}
  static void query(Env&, const Obj& u, uint64_t) { LibScope ls; auto r = u.get_result(); auto r2 = r; (void)r2.get_estimate(); }
};

struct ThetaIntersectionFamily {
  using Obj = ThInter;
  static const char* name() { return "theta-intersection"; }
  static Obj* make(Env& e, uint64_t, int reg) { return construct<Obj>([&](void* m) { return new (m) Obj(datasketches::DEFAULT_SEED, e.alloc<uint64_t>(reg)); }); }
  // the operator does not expose its allocator: inputs are built with the first instance (any instance is legal for an input)
  static void update(Env& e, Obj& x, uint64_t seed, unsigned n) { theta_op_feed(e, x, e.alloc<uint64_t>(static_cast<int>(seed >> 8 & 1)), seed | 0x700, n + 60); }
  static bool merge_ref(Env&, Obj&, const Obj&) { return false; }
  static bool merge_move(Env&, Obj&, Obj&&) { return false; }
  static bool reset(Obj&) { return false; }
  static Obj* serde(Env&, const Obj&, uint64_t, int) { return nullptr; }
  static void observe(const Obj& x, std::ostream& os) {
    os << "has_result=" << x.has_result() << ' ';
    if (!x.has_result()) return;
    auto r = [&] { LibScope ls; return x.get_result(true); }();
    theta_show(r, os);
  }
  static void canon(const Obj&, std::ostream&) {}
  static void query(Env&, const Obj& x, uint64_t) { if (x.has_result()) { LibScope ls; auto r = x.get_result(false); (void)r.get_estimate(); } }
};

struct ThetaANotBFamily {
  using Obj = ThANotB;
  static const char* name() { return "theta-a-not-b"; }
  static Obj* make(Env& e, uint64_t, int reg) { return construct<Obj>([&](void* m) { return new (m) Obj(datasketches::DEFAULT_SEED, e.alloc<uint64_t>(reg)); }); }
  static void update(Env&, Obj&, uint64_t, unsigned) {}   // stateless operator
  static bool merge_ref(Env&, Obj&, const Obj&) { return false; }
  static bool merge_move(Env&, Obj&, Obj&&) { return false; }
  static bool reset(Obj&) { return false; }
  static Obj* serde(Env&, const Obj&, uint64_t, int) { return nullptr; }
  static void run(const Obj& x, std::ostream& os, uint64_t seed) {
    // inputs use std::allocator-free set-up: the operator's own allocator instance is what the result must come from
    AllocRegistry scratch(7);
    all_registries().push_back(&scratch);
    {
      TA a(scratch);
      typename ThUpdate::builder b(a);
      ThUpdate ua = b.set_lg_k(5).build(), ub = b.set_lg_k(5).build();
      theta_feed(ua, 1 + seed, 90); theta_feed(ub, 8 + seed, 40);
      auto r1 = [&] { LibScope ls; return x.compute(ua, ub, true); }();
      auto r2 = [&] { LibScope ls; return x.compute(ua.compact(false), ub.compact(true), false); }();   // rvalue a
      theta_show(r1, os); theta_show(r2, os);
    }
    all_registries().pop_back();
    if (!scratch.live.empty()) alloc_error("alloc-leak", "a-not-b inputs: blocks left in the scratch allocator instance");
  }
  static void observe(const Obj& x, std::ostream& os) { run(x, os, 0); }
  static void canon(const Obj&, std::ostream&) {}
  static void query(Env&, const Obj& x, uint64_t seed) { std::ostringstream os; run(x, os, seed & 0xff); }
};

// ---------------------------------------------------------------- tuple (summary = Probe)
struct ProbePolicy {   // update policy of the update sketch: summary = sum of the update values
  Probe create() const { return Probe(0); }
  void update(Probe& summary, const uint64_t& u) const { summary = Probe(summary.value("policy.update") + u); }
};
struct ProbeUnionPolicy { void operator()(Probe& summary, const Probe& other) const { summary = Probe(summary.value("union policy") + other.value("union policy")); } };
struct ProbeInterPolicy { void operator()(Probe& summary, const Probe& other) const { summary = Probe(summary.value("intersection policy") * 31 + other.value("intersection policy")); } };

using PA = track_alloc<Probe>;
using TuUpdate = datasketches::update_tuple_sketch<Probe, uint64_t, ProbePolicy, PA>;
using TuCompact = datasketches::compact_tuple_sketch<Probe, PA>;
using TuUnion = datasketches::tuple_union<Probe, ProbeUnionPolicy, PA>;
using TuInter = datasketches::tuple_intersection<Probe, ProbeInterPolicy, PA>;

inline TuUpdate build_tuple_update(Env& e, uint64_t v, int reg) {
  typename TuUpdate::builder b(ProbePolicy(), e.alloc<Probe>(reg));
  b.set_lg_k(static_cast<uint8_t>(5 + (v & 1)));
  b.set_resize_factor(static_cast<datasketches::theta_constants::resize_factor>((v >> 1) & 3));
  if (v & 8) b.set_p(0.5f);
  return b.build();
}
inline void tuple_feed(TuUpdate& sk, uint64_t seed, unsigned n) {
  vf::Rng r(seed);
  for (unsigned i = 0; i < n; ++i) { uint64_t key = batch_value(r, seed); uint64_t val = 1 + r.below(5); LibScope ls; sk.update(key, val); }
}
template <typename Sk> void tuple_show(const Sk& sk, std::ostream& os) {
  os << "empty=" << sk.is_empty() << " theta=" << sk.get_theta64() << " retained=" << sk.get_num_retained() << " est_mode=" << sk.is_estimation_mode()
     << " ordered=" << sk.is_ordered() << " seed_hash=" << sk.get_seed_hash() << " est=" << sk.get_estimate();
  std::vector<std::pair<uint64_t, uint64_t>> v;
  for (auto it = sk.begin(); it != sk.end(); ++it) v.emplace_back((*it).first, (*it).second.value("observation of a retained summary"));
  std::sort(v.begin(), v.end());
  os << "\nentries(" << v.size() << "):";
  for (auto& x : v) os << ' ' << std::hex << x.first << std::dec << '=' << x.second;
  os << "\n";
}

struct TupleUpdateFamily {
  using Obj = TuUpdate;
  static const char* name() { return "tuple-update"; }
  static Obj* make(Env& e, uint64_t v, int reg) { return construct<Obj>([&](void* m) { return new (m) Obj(build_tuple_update(e, v, reg)); }); }
  static void update(Env&, Obj& sk, uint64_t seed, unsigned n) {
    tuple_feed(sk, seed, n);
    if ((seed & 15) == 3) { LibScope ls; sk.trim(); }
  }
  static bool merge_ref(Env&, Obj&, const Obj&) { return false; }
  static bool merge_move(Env&, Obj&, Obj&&) { return false; }
  static bool reset(Obj& sk) { LibScope ls; sk.reset(); return true; }
  static Obj* serde(Env&, const Obj&, uint64_t, int) { return nullptr; }
  static void observe(const Obj& sk, std::ostream& os) {
    os << "lg_k=" << int(sk.get_lg_k()) << " rf=" << int(sk.get_rf()) << ' ';
    tuple_show(sk, os);
    auto c = [&] { LibScope ls; return sk.compact(true); }();
    auto bytes = [&] { LibScope ls; return c.serialize(0, ProbeSerde()); }();
    show_bytes(os, bytes.data(), bytes.size());
  }
  static void canon(const Obj&, std::ostream&) {}
  static void query(Env&, const Obj& sk, uint64_t seed) {
    LibScope ls;
    auto c = sk.compact((seed & 1) != 0);
    auto c2(c);
    auto c3(std::move(c));
    (void)c2.get_estimate(); (void)c3.get_estimate();
    if (seed & 2) { ToStringScope ts; (void)sk.to_string((seed & 4) != 0); }
  }
};

struct TupleCompactFamily {
  using Obj = TuCompact;
  static const char* name() { return "tuple-compact"; }
  static Obj* make(Env& e, uint64_t v, int reg) {
    TuUpdate u = build_tuple_update(e, v, reg);
    if (v & 4) tuple_feed(u, v, 20 + 30 * static_cast<unsigned>(v & 3));
    return construct<Obj>([&](void* m) { return new (m) Obj(u.compact((v & 2) != 0)); });
  }
  static TuUnion make_union(PA a) { return typename TuUnion::builder(ProbeUnionPolicy(), a).set_lg_k(6).build(); }
  static void update(Env&, Obj& sk, uint64_t seed, unsigned n) {
    PA a = [&] { LibScope ls; return sk.get_allocator(); }();
    typename TuUpdate::builder b(ProbePolicy(), a);
    TuUpdate u = [&] { LibScope ls; return b.set_lg_k(5).build(); }();
    tuple_feed(u, seed, n);
    LibScope ls;
    TuUnion un = make_union(a);
    un.update(sk);
    if (seed & 2) un.update(u); else un.update(u.compact((seed & 4) != 0));
    sk = un.get_result((seed & 1) != 0);
  }
  template <typename SrcT> static bool merge_ref(Env&, Obj& d, SrcT& s) {
    LibScope ls;
    TuUnion un = make_union(d.get_allocator());
    un.update(d); un.update(s);
    d = un.get_result(true);
    return true;
  }
  static bool merge_move(Env&, Obj& d, Obj&& s) {
    LibScope ls;
    TuUnion un = make_union(d.get_allocator());
    un.update(d); un.update(std::move(s));
    d = un.get_result(true);
    return true;
  }
  static bool reset(Obj&) { return false; }
  static Obj* serde(Env& e, const Obj& sk, uint64_t mode, int reg) {
    uint64_t seed = datasketches::DEFAULT_SEED;
    ProbeSerde sd;
    if (mode & 1) {
      std::stringstream ss(std::ios::in | std::ios::out | std::ios::binary);
      { LibScope ls; sk.serialize(ss, sd); }
      return construct<Obj>([&](void* m) { return new (m) Obj(Obj::deserialize(ss, seed, sd, e.alloc<Probe>(reg))); });
    }
    unsigned header = (mode & 2) ? 8 : 0;
    auto bytes = [&] { LibScope ls; return sk.serialize(header, sd); }();
    return construct<Obj>([&](void* m) { return new (m) Obj(Obj::deserialize(bytes.data() + header, bytes.size() - header, seed, sd, e.alloc<Probe>(reg))); });
  }
  static void observe(const Obj& sk, std::ostream& os) {
    tuple_show(sk, os);
    auto bytes = [&] { LibScope ls; return sk.serialize(0, ProbeSerde()); }();
    show_bytes(os, bytes.data(), bytes.size());
  }
  static void canon(const Obj& sk, std::ostream& os) { tuple_show(sk, os); }
  static void query(Env&, const Obj& sk, uint64_t seed) {
    LibScope ls;
    Obj c(sk, (seed & 1) != 0);
    (void)c.get_estimate();
    if (seed & 2) { ToStringScope ts; (void)sk.to_string((seed & 4) != 0); }
  }
};

template <typename Op> void tuple_op_feed(Op& op, PA a, uint64_t seed, unsigned n) {
  typename TuUpdate::builder b(ProbePolicy(), a);
  TuUpdate u = [&] { LibScope ls; return b.set_lg_k(static_cast<uint8_t>(5 + (seed >> 4 & 1))).build(); }();
  tuple_feed(u, seed, n);
  // an operand passed as a (non-const) lvalue is an input: it observes the same before and after
  std::ostringstream before, after;
  if ((seed & 3) == 0) tuple_show(u, before);
  TuCompact c = [&] { LibScope ls; return u.compact(true); }();
  if ((seed & 3) == 1) tuple_show(c, before);
  {
    LibScope ls;
    switch (seed & 3) {
      case 0: op.update(u); break;
      case 1: op.update(c); break;
      case 2: op.update(u.compact(true)); break;
      default: op.update(u.compact(false));
    }
  }
  if ((seed & 3) == 0) tuple_show(u, after);
  if ((seed & 3) == 1) tuple_show(c, after);
  if (before.str() != after.str()) alloc_error("operand-modified", "tuple set operation: an operand passed as an lvalue observes something else after update()");
}

struct TupleUnionFamily {
  using Obj = TuUnion;
  static const char* name() { return "tuple-union"; }
  static Obj* make(Env& e, uint64_t v, int reg) {
    return construct<Obj>([&](void* m) {
      typename Obj::builder b(ProbeUnionPolicy(), e.alloc<Probe>(reg));
      b.set_lg_k(static_cast<uint8_t>(5 + (v & 1))).set_resize_factor(static_cast<datasketches::theta_constants::resize_factor>((v >> 1) & 3));
      return new (m) Obj(b.build());
    });
  }
  static void update(Env&, Obj& u, uint64_t seed, unsigned n) {
    PA a = [&] { LibScope ls; return u.get_result().get_allocator(); }();
    tuple_op_feed(u, a, seed, n);
  }
  static bool merge_ref(Env&, Obj&, const Obj&) { return false; }
  static bool merge_move(Env&, Obj&, Obj&&) { return false; }
  static bool reset(Obj& u) { LibScope ls; u.reset(); return true; }
  static Obj* serde(Env&, const Obj&, uint64_t, int) { return nullptr; }
  static void observe(const Obj& u, std::ostream& os) {
    auto r = [&] { LibScope ls; return u.get_result(true); }();
    tuple_show(r, os);
  }
  static void canon(const Obj&, std::ostream&) {}
  static void query(Env&, const Obj& u, uint64_t) { LibScope ls; auto r = u.get_result(false); auto r2 = r; (void)r2.get_estimate(); }
};

struct TupleIntersectionFamily {
  using Obj = TuInter;
  static const char* name() { return "tuple-intersection"; }
  static Obj* make(Env& e, uint64_t, int reg) { return construct<Obj>([&](void* m) { return new (m) Obj(datasketches::DEFAULT_SEED, ProbeInterPolicy(), e.alloc<Probe>(reg)); }); }
  static void update(Env& e, Obj& x, uint64_t seed, unsigned n) { tuple_op_feed(x, e.alloc<Probe>(static_cast<int>(seed >> 8 & 1)), seed | 0x700, n + 60); }
  static bool merge_ref(Env&, Obj&, const Obj&) { return false; }
  static bool merge_move(Env&, Obj&, Obj&&) { return false; }
  static bool reset(Obj&) { return false; }
  static Obj* serde(Env&, const Obj&, uint64_t, int) { return nullptr; }
  static void observe(const Obj& x, std::ostream& os) {
    os << "has_result=" << x.has_result() << ' ';
    if (!x.has_result()) return;
    auto r = [&] { LibScope ls; return x.get_result(true); }();
    tuple_show(r, os);
  }
  static void canon(const Obj&, std::ostream&) {}
  static void query(Env&, const Obj& x, uint64_t) { if (x.has_result()) { LibScope ls; auto r = x.get_result(false); (void)r.get_estimate(); } }
};

// tuple A-not-B and the operands of the stateful tuple operators: an operand passed as a (non-const) lvalue is an input - it must
// observe exactly what it observed before the operation (the Probe summaries detect being read after a move)
using TuANotB = datasketches::tuple_a_not_b<Probe, PA>;
struct TupleANotBFamily {
  using Obj = TuANotB;
  static const char* name() { return "tuple-a-not-b"; }
  static Obj* make(Env& e, uint64_t, int reg) { return construct<Obj>([&](void* m) { return new (m) Obj(datasketches::DEFAULT_SEED, e.alloc<Probe>(reg)); }); }
  static void update(Env&, Obj&, uint64_t, unsigned) {}   // stateless operator
  static bool merge_ref(Env&, Obj&, const Obj&) { return false; }
  static bool merge_move(Env&, Obj&, Obj&&) { return false; }
  static bool reset(Obj&) { return false; }
  static Obj* serde(Env&, const Obj&, uint64_t, int) { return nullptr; }
  static void run(const Obj& x, std::ostream& os, uint64_t seed) {
    AllocRegistry scratch(7);
    all_registries().push_back(&scratch);
    {
      PA a(scratch);
      typename TuUpdate::builder b(ProbePolicy(), a);
      TuUpdate ua = b.set_lg_k(5).build(), ub = b.set_lg_k(5).build();
      tuple_feed(ua, 1 + seed, 90); tuple_feed(ub, 8 + seed, 40);
      TuCompact ca = ua.compact(false), cb = ub.compact(true);
      std::ostringstream before, after;
      tuple_show(ua, before); tuple_show(ca, before);
      auto r1 = [&] { LibScope ls; return x.compute(ua, ub, true); }();          // non-const lvalue operands, hash-based path
      auto r2 = [&] { LibScope ls; return x.compute(ca, cb, false); }();         // non-const lvalue compact operands
      tuple_show(ua, after); tuple_show(ca, after);
      if (before.str() != after.str()) alloc_error("operand-modified", "tuple a-not-b: an operand passed as an lvalue observes something else after compute()");
      auto r3 = [&] { LibScope ls; return x.compute(ua.compact(false), ub.compact(true), false); }();   // rvalue a
      tuple_show(r1, os); tuple_show(r2, os); tuple_show(r3, os);
    }
    all_registries().pop_back();
    if (!scratch.live.empty()) alloc_error("alloc-leak", "tuple a-not-b inputs: blocks left in the scratch allocator instance");
  }
  static void observe(const Obj& x, std::ostream& os) { run(x, os, 0); }
  static void canon(const Obj&, std::ostream&) {}
  static void query(Env&, const Obj& x, uint64_t seed) { std::ostringstream os; run(x, os, seed & 0xff); }
};

}  // namespace vf19
#endif
