#!/bin/bash
# tools/seed_round.sh <ID>... — imports (tools/seed_import.py) and runs (tools/seeded_run.sh) the seeds of round $SEED_ROUND (default 2) for the given property ids
for p in "$@"; do
  SEED_ROUND=${SEED_ROUND:-2} python3 /verif/tools/seed_import.py $p 2>&1 | tail -2
  for n in $((2*${SEED_ROUND:-2}-1)) $((2*${SEED_ROUND:-2})); do [ -d /verif/seeded/$p-$n ] && /verif/tools/seeded_run.sh /verif/seeded/$p-$n quick $p 2>&1 | grep -E "CAUGHT|MISSED"; done
done
