// vf/c19_track_alloc.hpp — stateful tracking allocator for C19 (value semantics and allocation).
//
// A track_alloc<T> carries a pointer to an AllocRegistry (the "user's allocator instance"). Every block handed out is
// recorded in that registry as address -> bytes; deallocate() must name a live block of that registry with the same
// byte size. Equality is identity of the registry, rebinding keeps the registry, and the allocator propagates on
// container copy assignment / move assignment / swap (so that standard containers keep "the allocator travels with
// the memory" and every remaining mismatch is in hand-written library code).
//
// A default-constructed track_alloc has NO registry: the library is expected to propagate the user's instance
// everywhere (the repository's own common/test/test_allocator.hpp throws from its default constructor for the same
// reason). Default construction alone is only counted; allocating or deallocating through such an instance is an error.
//
// Errors are never thrown from inside the allocator (deallocate runs in destructors): they are appended to a global
// list that the harness drains after every step (vf19::take_alloc_errors()).
//
// Blocks come from malloc/free so ASan still sees overflows and use after free; fresh blocks are filled with 0xA5 and
// released blocks with 0xDD first.
#ifndef VF_C19_TRACK_ALLOC_HPP
#define VF_C19_TRACK_ALLOC_HPP
#include <cstddef>
#include <cstdint>
#include <cstdio>
#include <cstdlib>
#include <cstring>
#include <map>
#include <memory>
#include <new>
#include <sstream>
#include <string>
#include <type_traits>
#include <vector>

namespace vf19 {

// ---------------------------------------------------------------- scopes used by the "bypass" counter
// g_lib_depth > 0: the harness is inside a call into the library. g_internal_depth > 0: inside harness bookkeeping
// (registries) or inside the tracking allocator itself. A malloc seen with lib>0 && internal==0 did not go through the
// supplied allocator ("bypass"; reported as a counter, see the harness).
struct Scopes {
  int lib_depth = 0;
  int internal_depth = 0;
  int to_string_depth = 0;     // inside a to_string() call: documented as not allocator-compliant, default-instance use is only counted
  uint64_t to_string_default_allocs = 0;
  const char* tag = "";        // name of the library call in progress (set by the family code), appended to error messages
  uint64_t bypass_mallocs = 0;
  uint64_t bypass_bytes = 0;
};
inline Scopes& scopes() { static Scopes s; return s; }
struct InternalScope {
  InternalScope() { ++scopes().internal_depth; }
  ~InternalScope() { --scopes().internal_depth; }
};
struct ToStringScope {   // implies LibScope
  ToStringScope() { ++scopes().lib_depth; ++scopes().to_string_depth; }
  ~ToStringScope() { --scopes().lib_depth; --scopes().to_string_depth; }
};
struct CallTag {   // LibScope + name of the call
  const char* prev;
  explicit CallTag(const char* t) : prev(scopes().tag) { scopes().tag = t; ++scopes().lib_depth; }
  ~CallTag() { scopes().tag = prev; --scopes().lib_depth; }
};
struct LibScope {
  LibScope() { ++scopes().lib_depth; }
  ~LibScope() { --scopes().lib_depth; }
};

// ---------------------------------------------------------------- registry
struct AllocRegistry {
  int id = 0;
  std::map<const void*, size_t> live;  // address -> bytes
  uint64_t n_alloc = 0, n_dealloc = 0;
  uint64_t bytes_live = 0, bytes_total = 0, bytes_peak = 0;
  explicit AllocRegistry(int i = 0) : id(i) {}
  AllocRegistry(const AllocRegistry&) = delete;
  AllocRegistry& operator=(const AllocRegistry&) = delete;
};

struct AllocErrors {
  std::vector<std::pair<std::string, std::string>> list;  // (check id, message)
  uint64_t total = 0;
  uint64_t default_constructed = 0;   // count of registry-less allocator objects created (not an error by itself)
  uint64_t default_allocs = 0;        // allocations through a registry-less allocator (error)
  uint64_t null_deallocs = 0;         // deallocate(nullptr, n): tolerated by std::allocator, only counted
};
inline AllocErrors& alloc_errors() { static AllocErrors e; return e; }
#if defined(VF_ASAN)
extern "C" void __sanitizer_print_stack_trace(void);
#endif
inline void alloc_error(const char* id, const std::string& msg) {
  InternalScope in;
#if defined(VF_ASAN)
  // triage aid: VF19_TRACE=1 prints the stack of every recorded allocator / item error (replay mode)
  static const bool trace = std::getenv("VF19_TRACE") != nullptr;
  if (trace) { fprintf(stderr, "VF19 %s: %s\n", id, msg.c_str()); __sanitizer_print_stack_trace(); }
#endif
  AllocErrors& e = alloc_errors();
  e.total++;
  if (e.list.size() < 64) e.list.emplace_back(id, *scopes().tag ? msg + " [during " + scopes().tag + "]" : msg);
}
// blocks handed out by registry-less allocators (so that their release can still be matched)
inline AllocRegistry& orphan_registry() { static AllocRegistry r(-1); return r; }
// every registry alive in the current case (to say where a foreign block belongs)
inline std::vector<AllocRegistry*>& all_registries() { static std::vector<AllocRegistry*> v; return v; }

inline std::string ptr_text(const void* p) { std::ostringstream os; os << p; return os.str(); }

inline void* raw_allocate(AllocRegistry* reg, size_t bytes, const char* type_name) {
  InternalScope in;
  if (!reg && scopes().to_string_depth > 0) {
    scopes().to_string_default_allocs++;
    reg = &orphan_registry();
  }
  if (!reg) {
    alloc_errors().default_allocs++;
    alloc_error("alloc-default-instance", std::string("allocate(") + std::to_string(bytes) + " bytes, " + type_name +
                ") through a default-constructed allocator: the user's allocator instance was not propagated");
    reg = &orphan_registry();
  }
  void* p = std::malloc(bytes ? bytes : 1);
  if (!p) throw std::bad_alloc();
  std::memset(p, 0xA5, bytes ? bytes : 1);
  bool fresh = reg->live.emplace(p, bytes).second;
  if (!fresh) alloc_error("alloc-registry", "malloc returned an address the registry holds as live: " + ptr_text(p));
  reg->n_alloc++;
  reg->bytes_live += bytes;
  reg->bytes_total += bytes;
  if (reg->bytes_live > reg->bytes_peak) reg->bytes_peak = reg->bytes_live;
  return p;
}

inline void raw_deallocate(AllocRegistry* reg, void* p, size_t bytes, const char* type_name) {
  InternalScope in;
  if (p == nullptr) {
    // allocator_traits::deallocate formally requires a pointer obtained from allocate(); std::allocator and the
    // repository's test_allocator tolerate nullptr, so this is only counted
    alloc_errors().null_deallocs++;
    return;
  }
  AllocRegistry* owner = nullptr;
  if (reg && reg->live.count(p)) owner = reg;
  if (!owner) {
    // find the true owner for the message
    AllocRegistry* where = nullptr;
    if (orphan_registry().live.count(p)) where = &orphan_registry();
    for (AllocRegistry* r : all_registries()) if (r->live.count(p)) where = r;
    if (!where) {
      alloc_error("dealloc-unknown-block", std::string("deallocate(") + ptr_text(p) + ", " + std::to_string(bytes) + " bytes, " + type_name +
                  ") names no live block of any registry (double release, or memory that never came from the allocator); block NOT freed");
      return;  // do not free: it is not ours
    }
    if (!reg && where == &orphan_registry()) {
      // released through the same kind of instance that allocated it (already reported, or inside to_string)
    } else if (!reg) {
      alloc_error("dealloc-default-instance", std::string("deallocate(") + std::to_string(bytes) + " bytes, " + type_name +
                  ") through a default-constructed allocator; the block belongs to registry " + std::to_string(where->id));
    } else {
      alloc_error("dealloc-wrong-instance", std::string("deallocate(") + std::to_string(bytes) + " bytes, " + type_name + ") through allocator instance " +
                  std::to_string(reg->id) + " but the block was allocated by instance " + std::to_string(where->id) + " (allocators compare unequal)");
    }
    owner = where;
  }
  auto it = owner->live.find(p);
  size_t have = it->second;
  if (have != bytes) {
    alloc_error("dealloc-size-mismatch", std::string("deallocate(") + ptr_text(p) + ", " + std::to_string(bytes) + " bytes, " + type_name +
                ") but the block was allocated with " + std::to_string(have) + " bytes");
  }
  owner->live.erase(it);
  owner->n_dealloc++;
  owner->bytes_live -= have;
  std::memset(p, 0xDD, have ? have : 1);
  std::free(p);
}

// ---------------------------------------------------------------- the allocator
template <typename T>
class track_alloc {
 public:
  using value_type = T;
  using pointer = T*;
  using const_pointer = const T*;
  using size_type = std::size_t;
  using difference_type = std::ptrdiff_t;
  using propagate_on_container_copy_assignment = std::true_type;
  using propagate_on_container_move_assignment = std::true_type;
  using propagate_on_container_swap = std::true_type;
  using is_always_equal = std::false_type;
  template <typename U> struct rebind { using other = track_alloc<U>; };

  track_alloc() noexcept : reg_(nullptr) { alloc_errors().default_constructed++; }
  explicit track_alloc(AllocRegistry& r) noexcept : reg_(&r) {}
  track_alloc(const track_alloc&) noexcept = default;
  track_alloc& operator=(const track_alloc&) noexcept = default;
  template <typename U> track_alloc(const track_alloc<U>& o) noexcept : reg_(o.registry()) {}

  T* allocate(size_type n) {
    if (n > static_cast<size_type>(-1) / sizeof(T)) throw std::bad_alloc();
    return static_cast<T*>(raw_allocate(reg_, n * sizeof(T), type_name()));
  }
  T* allocate(size_type n, const void*) { return allocate(n); }
  void deallocate(T* p, size_type n) noexcept { raw_deallocate(reg_, const_cast<typename std::remove_const<T>::type*>(p), n * sizeof(T), type_name()); }
  size_type max_size() const noexcept { return static_cast<size_type>(-1) / sizeof(T); }

  AllocRegistry* registry() const noexcept { return reg_; }
  static const char* type_name() { return __PRETTY_FUNCTION__; }

 private:
  AllocRegistry* reg_;
};
template <typename T, typename U> bool operator==(const track_alloc<T>& a, const track_alloc<U>& b) noexcept { return a.registry() == b.registry(); }
template <typename T, typename U> bool operator!=(const track_alloc<T>& a, const track_alloc<U>& b) noexcept { return a.registry() != b.registry(); }

// drains the error list: returns everything recorded since the last call (at most 64 entries are kept per step)
inline std::vector<std::pair<std::string, std::string>> take_alloc_errors(uint64_t* total = nullptr) {
  InternalScope in;
  AllocErrors& e = alloc_errors();
  std::vector<std::pair<std::string, std::string>> out;
  out.swap(e.list);
  if (total) *total = e.total;
  e.total = 0;
  return out;
}

// start of a case: forget everything (blocks still registered in the orphan registry were leaked by an earlier failing
// case; they are forgotten, not freed, LSan is the judge there)
inline void reset_alloc_tracking() {
  InternalScope in;
  AllocErrors& e = alloc_errors();
  e.list.clear(); e.total = 0; e.default_constructed = 0; e.default_allocs = 0; e.null_deallocs = 0;
  AllocRegistry& o = orphan_registry();
  for (auto& kv : o.live) std::free(const_cast<void*>(kv.first));
  o.live.clear(); o.n_alloc = o.n_dealloc = 0; o.bytes_live = o.bytes_total = o.bytes_peak = 0;
  all_registries().clear();
  scopes().bypass_mallocs = 0; scopes().bypass_bytes = 0; scopes().to_string_default_allocs = 0;
}

}  // namespace vf19

// ---------------------------------------------------------------- bypass counter (ASan builds only)
#if defined(VF_ASAN)
extern "C" int __sanitizer_install_malloc_and_free_hooks(void (*malloc_hook)(const volatile void*, size_t), void (*free_hook)(const volatile void*));
namespace vf19 {
inline void malloc_hook(const volatile void*, size_t n) {
  Scopes& s = scopes();
  if (s.lib_depth > 0 && s.internal_depth == 0) {
    s.bypass_mallocs++; s.bypass_bytes += n;
    // triage aid (replay mode): VF19_TRACE_BYPASS=1 prints where the library allocates without the supplied allocator
    static const bool trace = std::getenv("VF19_TRACE_BYPASS") != nullptr;
    if (trace) { ++s.internal_depth; fprintf(stderr, "VF19 bypass malloc(%zu)\n", n); __sanitizer_print_stack_trace(); --s.internal_depth; }
  }
}
inline void free_hook(const volatile void*) {}
inline bool install_bypass_hooks() {
  static int done = __sanitizer_install_malloc_and_free_hooks(&malloc_hook, &free_hook);
  return done != 0;
}
}  // namespace vf19
#else
namespace vf19 { inline bool install_bypass_hooks() { return false; } }
#endif

#endif
