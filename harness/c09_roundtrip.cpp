// C09 — serialization round-trips every sketch to an observationally identical one.
// States come from vf/families.hpp recipes (all 22 concrete sketch types / 16 serializable families).
#include "vf/families.hpp"

using vf::Case; using vf::Op;
namespace fam = vf::fam;

namespace {

void prop(const Case& cs) {
  int f = static_cast<int>(cs.get("fam", 0) % fam::NFAM);
  const char* fn = fam::name(f);
  unsigned hdr = static_cast<unsigned>(cs.get("hdr", 0) % 40);
  fam::P obj = fam::make(cs);
  int nv = obj->variants();
  std::vector<fam::Bytes> img(nv);
  // every format variant is exercised on a fresh build of the recipe, so that the documented side effects of one variant's
  // serializer (t-digest without buffer compresses, quantiles sort their buffer) cannot leak into another variant's check
  for (int v = nv - 1; v >= 0; --v) {
    if (v != nv - 1) obj = fam::make(cs);
    std::string who = std::string(fn) + " variant " + std::to_string(v);
    long adv = obj->advertised_size(v);
    // the two serializer overloads are separate code with the same documented side effects; which one runs first on the object is part
    // of the case (0: bytes then stream, 1: stream then bytes, 2/3: the stream image comes from its own fresh build of the recipe)
    const int order = static_cast<int>(vf::mix64(static_cast<uint64_t>(cs.get("cseed", 1)) * 31 + static_cast<uint64_t>(cs.get("seed", 1)) + static_cast<uint64_t>(v)) & 3);
    std::string simg;
    if (order == 1) simg = obj->stream(v);
    else if (order >= 2) { fam::P fresh = fam::make(cs); simg = fresh->stream(v); }
    img[v] = obj->bytes(0, v);
    if (order == 0) simg = obj->stream(v);
    vf::label(order == 0 ? "order:bytes-then-stream" : order == 1 ? "order:stream-then-bytes" : "order:stream-of-a-fresh-build");
    fam::Bytes himg; if (hdr > 0) himg = obj->bytes(hdr, v);
    bool unordered = obj->image_order_unspecified(v);
    VF_CHECK(simg.size() == img[v].size() && std::memcmp(simg.data(), img[v].data(), img[v].size()) == 0, "bytes-vs-stream", who << ": byte-vector image (" << img[v].size() << " bytes) and stream image (" << simg.size() << " bytes) differ");
    if (adv >= 0) VF_CHECK(static_cast<size_t>(adv) == img[v].size(), "advertised-size", who << ": get_serialized_size_bytes " << adv << " but the image has " << img[v].size() << " bytes");
    if (hdr > 0) {
      VF_CHECK(himg.size() == hdr + img[v].size(), "header-size", who << ": serialize(header " << hdr << ") has " << himg.size() << " bytes, image has " << img[v].size());
      VF_CHECK(std::memcmp(himg.data() + hdr, img[v].data(), img[v].size()) == 0, "header-image", who << ": bytes after the " << hdr << "-byte header differ from the image");
    }
    std::string obs = obj->observe();
    const std::string fk = obj->finding_key();
    // bytes path: exact-size heap block so that ASan sees any over-read
    uint8_t* blk = static_cast<uint8_t*>(malloc(img[v].size() ? img[v].size() : 1));
    std::memcpy(blk, img[v].data(), img[v].size());
    fam::P r1;
    try { r1 = obj->from_bytes(blk, img[v].size()); } catch (...) { free(blk); throw; }
    free(blk);
    // stream path with sentinel bytes appended
    std::string with_sentinel = simg + std::string("\xAB\xCD\xEF\x01SENTINEL", 12);
    std::istringstream is(with_sentinel, std::ios::binary);
    fam::P r2 = obj->from_stream(is);
    VF_CHECK(is.good(), "stream-state", who << ": stream not good after deserialize");
    VF_CHECK_K(static_cast<size_t>(is.tellg()) == simg.size(), "stream-consumed", fk, who << ": stream reader stopped at " << is.tellg() << ", image ends at " << simg.size());
    // re-serialization before observing the restored objects
    fam::Bytes again = r1->bytes(0, v);
    std::string o1 = r1->observe(), o2 = r2->observe();
    VF_CHECK_K(o1 == obs, "observe-bytes", fk, who << ": restored-from-bytes sketch differs:\n  original: " << obs.substr(0, 700) << "\n  restored: " << o1.substr(0, 700));
    VF_CHECK_K(o2 == obs, "observe-stream", fk, who << ": restored-from-stream sketch differs:\n  original: " << obs.substr(0, 700) << "\n  restored: " << o2.substr(0, 700));
    if (again != img[v]) {
      VF_CHECK_K(unordered && again.size() == img[v].size(), "reserialize", fk, who << ": re-serialized image differs (" << again.size() << " vs " << img[v].size() << " bytes)");
      fam::P r3 = obj->from_bytes(again.data(), again.size());
      VF_CHECK(r3->observe() == obs, "reserialize-unordered", who << ": re-serialized image (unordered layout) decodes to a different sketch");
      vf::label("unordered-layout-reordered");
    }
    std::string ev = obj->extra_view(img[v]);
    if (!ev.empty()) { VF_CHECK(ev == obs, "wrapped-view", who << ": wrapped view differs:\n  original: " << obs.substr(0, 500) << "\n  wrapped : " << ev.substr(0, 500)); vf::label("wrapped-view"); }
  }
  // deserialize-then-continue: same suffix on the original and on a restored copy, same coin and seed
  std::vector<Op> suffix;
  for (const Op& op : cs.ops) if (op.name == "cu" || op.name == "cm") { Op o = op; o.name = op.name == "cu" ? "u" : "m"; suffix.push_back(o); }
  if (!suffix.empty() && f != fam::F_AOD) {
    // both sides must start from the same state: a fresh build of the recipe whose only history is "serialize variant v"
    // (serializing and querying have documented side effects - t-digest compresses, quantiles sort their buffer - so the
    // object observed above is not used here)
    int v = static_cast<int>(cs.get("cv", 0) % nv);
    fam::P orig = fam::make(cs);
    fam::Bytes im = orig->bytes(0, v);
    const bool order_free = orig->continuation_order_sensitive(v);
    const std::string fk = orig->finding_key();
    fam::P r = orig->from_bytes(im.data(), im.size());
    uint64_t cseed = static_cast<uint64_t>(cs.get("cseed", 1));
    vf::own_randomness(cseed);
    for (const Op& op : suffix) orig->cont(op);
    std::string a = order_free ? orig->observe_order_free() : orig->observe_coarse();
    vf::own_randomness(cseed);
    for (const Op& op : suffix) r->cont(op);
    std::string b = order_free ? r->observe_order_free() : r->observe_coarse();
    VF_CHECK_K(a == b, "continue", fk, fn << " variant " << v << ": after the same " << suffix.size() << " further ops the original and the restored sketch differ:\n  original: " << a.substr(0, 700) << "\n  restored: " << b.substr(0, 700));
    vf::label("continued"); if (order_free) vf::label("continued-from-unordered-layout");
  }
  vf::label(std::string("family:") + fn);
  if (obj->beyond_exact()) vf::label("beyond-exact");
  if (hdr > 0) vf::label("header>0");
  if (obj->beyond_exact() || hdr > 0 || !suffix.empty()) vf::nontrivial();
}

rc::Gen<Case> gen() {
  using namespace vf;
  auto base = fam::recipe_gen(range(0, fam::NFAM - 1));
  auto nGen = rc::gen::weightedOneOf<int64_t>({{2, range(1, 12)}, {3, range(13, 300)}, {3, range(300, 3500)}});
  auto cu = rc::gen::map(rc::gen::tuple(nGen, range(0, 7), range(0, 1 << 20), range(0, 63)), [](std::tuple<int64_t, int64_t, int64_t, int64_t> t) { return Op{"cu", {std::get<0>(t), std::get<1>(t), std::get<2>(t), std::get<3>(t)}}; });
  auto cm = rc::gen::map(rc::gen::tuple(nGen, range(0, 7), range(0, 1 << 20), range(0, 63)), [](std::tuple<int64_t, int64_t, int64_t, int64_t> t) { return Op{"cm", {std::get<0>(t), std::get<1>(t), std::get<2>(t), std::get<3>(t)}}; });
  auto extra = rc::gen::tuple(rc::gen::weightedOneOf<int64_t>({{2, rc::gen::just<int64_t>(0)}, {3, rc::gen::elementOf(std::vector<int64_t>{1, 7, 8, 13})}}), range(0, 3), range(1, 1 << 20),
                              rc::gen::container<std::vector<Op>>(choose({{2, cu}, {1, cm}})));
  return rc::gen::map(rc::gen::tuple(base, rc::gen::scale(0.04, extra)), [](std::tuple<Case, std::tuple<int64_t, int64_t, int64_t, std::vector<Op>>> t) {
    Case c = std::get<0>(t); auto& e = std::get<1>(t);
    c.cfg.emplace_back("hdr", std::get<0>(e)); c.cfg.emplace_back("cv", std::get<1>(e)); c.cfg.emplace_back("cseed", std::get<2>(e));
    for (auto& op : std::get<3>(e)) c.ops.push_back(op);
    return c;
  });
}

// ---------------------------------------------------------------- instantiations and states outside the 22-type recipe layer
// count-min with weight types narrower / other than the default 8-byte one (the image stores weights as W), and frequent-items sketches
// right after a purge that removed every counter (non-empty by weight, no item tracked). Same round-trip contract.
template <typename W> void cm_typed(const Case& cs, const char* wname) {
  const uint8_t h = static_cast<uint8_t>(1 + cs.get("a", 0) % 5);
  const uint32_t b = static_cast<uint32_t>(3 + cs.get("b", 0) % 40);
  const unsigned hdr = static_cast<unsigned>(cs.get("hdr", 0) % 24);
  const uint64_t n = static_cast<uint64_t>(cs.get("n", 0)) % 200;
  datasketches::count_min_sketch<W> sk(h, b);
  vf::Rng r(static_cast<uint64_t>(cs.get("rnd", 1)));
  for (uint64_t i = 0; i < n; ++i) sk.update(static_cast<uint64_t>(r.below(60)), static_cast<W>(1 + r.below(3)));
  std::ostringstream who; who << "count_min_sketch<" << wname << "> " << int(h) << "x" << b << " after " << n << " updates";
  auto bytes = sk.serialize();
  std::ostringstream os(std::ios::binary); sk.serialize(os);
  const std::string simg = os.str();
  VF_CHECK(bytes.size() == sk.get_serialized_size_bytes(), "advertised-size", who.str() << ": get_serialized_size_bytes " << sk.get_serialized_size_bytes() << " but the byte image has " << bytes.size() << " bytes");
  VF_CHECK(simg.size() == bytes.size() && std::memcmp(simg.data(), bytes.data(), bytes.size()) == 0, "bytes-vs-stream", who.str() << ": byte-vector image (" << bytes.size() << " bytes) and stream image (" << simg.size() << " bytes) differ");
  auto hb = sk.serialize(hdr);
  VF_CHECK(hb.size() == hdr + bytes.size() && std::memcmp(hb.data() + hdr, bytes.data(), bytes.size()) == 0, "header-image", who.str() << ": serialize(header " << hdr << ") is not " << hdr << " reserved bytes followed by the image (" << hb.size() << " vs " << hdr + bytes.size() << " bytes)");
  auto same = [&](const datasketches::count_min_sketch<W>& x, const char* path) {
    VF_CHECK(x.get_num_hashes() == sk.get_num_hashes() && x.get_num_buckets() == sk.get_num_buckets() && x.get_total_weight() == sk.get_total_weight() && x.is_empty() == sk.is_empty(), "observe-" + std::string(path), who.str() << ": restored (" << path << ") configuration / total weight differ");
    VF_CHECK(std::equal(x.begin(), x.end(), sk.begin()), "observe-" + std::string(path), who.str() << ": restored (" << path << ") cells differ");
    for (uint64_t v = 0; v < 60; ++v) VF_CHECK(x.get_estimate(v) == sk.get_estimate(v), "observe-" + std::string(path), who.str() << ": restored (" << path << ") estimate of " << v << " differs");
  };
  uint8_t* blk = static_cast<uint8_t*>(malloc(bytes.size()));
  std::memcpy(blk, bytes.data(), bytes.size());
  try { auto r1 = datasketches::count_min_sketch<W>::deserialize(blk, bytes.size()); same(r1, "bytes"); } catch (...) { free(blk); throw; }
  free(blk);
  std::istringstream is(simg + std::string("SENTINEL"), std::ios::binary);
  auto r2 = datasketches::count_min_sketch<W>::deserialize(is);
  VF_CHECK(is.good() && static_cast<size_t>(is.tellg()) == simg.size(), "stream-consumed", who.str() << ": stream reader stopped at " << is.tellg() << ", image ends at " << simg.size());
  same(r2, "stream");
  vf::label(std::string("edge:count-min<") + wname + ">");
  if (n > 0) vf::nontrivial();
}
template <typename T> void fi_all_purged(const Case& cs, const char* tname, std::function<T(uint64_t)> item) {
  const uint8_t lg = static_cast<uint8_t>(3 + cs.get("a", 0) % 4);
  const uint64_t cap = (3ull << lg) / 4, w = 1 + static_cast<uint64_t>(cs.get("b", 0)) % 9;
  const uint64_t extra = static_cast<uint64_t>(cs.get("n", 0)) % 3;   // 0: stop right after the purge that empties the map
  datasketches::frequent_items_sketch<T> sk(lg, lg);
  for (uint64_t i = 0; i <= cap; ++i) sk.update(item(i), w);
  for (uint64_t i = 0; i < extra; ++i) sk.update(item(1000 + i), 1);
  std::ostringstream who; who << "frequent_items_sketch<" << tname << "> lg_max " << int(lg) << " after " << cap + 1 << " equal weights (+" << extra << "): active " << sk.get_num_active_items() << " total " << sk.get_total_weight();
  auto bytes = sk.serialize();
  std::ostringstream os(std::ios::binary); sk.serialize(os);
  const std::string simg = os.str();
  VF_CHECK(bytes.size() == sk.get_serialized_size_bytes(), "advertised-size", who.str() << ": get_serialized_size_bytes " << sk.get_serialized_size_bytes() << " but the byte image has " << bytes.size() << " bytes");
  VF_CHECK(simg.size() == bytes.size() && std::memcmp(simg.data(), bytes.data(), bytes.size()) == 0, "bytes-vs-stream", who.str() << ": byte-vector image (" << bytes.size() << " bytes) and stream image (" << simg.size() << " bytes) differ");
  auto same = [&](const datasketches::frequent_items_sketch<T>& x, const char* path) {
    VF_CHECK(x.get_total_weight() == sk.get_total_weight() && x.get_maximum_error() == sk.get_maximum_error() && x.get_num_active_items() == sk.get_num_active_items() && x.is_empty() == sk.is_empty(), "observe-" + std::string(path),
             who.str() << ": restored (" << path << ") total " << x.get_total_weight() << " max error " << x.get_maximum_error() << " active " << x.get_num_active_items());
    for (uint64_t i = 0; i <= cap; ++i) VF_CHECK(x.get_lower_bound(item(i)) == sk.get_lower_bound(item(i)) && x.get_upper_bound(item(i)) == sk.get_upper_bound(item(i)), "observe-" + std::string(path), who.str() << ": restored (" << path << ") bounds of item " << i << " differ");
  };
  auto r1 = datasketches::frequent_items_sketch<T>::deserialize(bytes.data(), bytes.size()); same(r1, "bytes");
  std::istringstream is(simg + std::string("SENTINEL"), std::ios::binary);
  auto r2 = datasketches::frequent_items_sketch<T>::deserialize(is);
  VF_CHECK(is.good() && static_cast<size_t>(is.tellg()) == simg.size(), "stream-consumed", who.str() << ": stream reader stopped at " << is.tellg() << ", image ends at " << simg.size());
  same(r2, "stream");
  vf::label(sk.get_num_active_items() == 0 && sk.get_total_weight() > 0 ? "edge:frequent-items-every-counter-purged" : "edge:frequent-items-after-purge");
  vf::nontrivial();
}
void prop_edge(const Case& cs) {
  switch (cs.get("kind", 0) % 6) {
    case 0: cm_typed<float>(cs, "float"); break;
    case 1: cm_typed<int32_t>(cs, "int32"); break;
    case 2: cm_typed<uint32_t>(cs, "uint32"); break;
    case 3: cm_typed<double>(cs, "double"); break;
    case 4: fi_all_purged<int64_t>(cs, "int64", [](uint64_t i) { return static_cast<int64_t>(i) - 2; }); break;
    default: fi_all_purged<std::string>(cs, "string", [](uint64_t i) { return "item-" + std::to_string(i) + std::string(i % 23, 'z'); }); break;
  }
}
rc::Gen<Case> gen_edge() {
  using namespace vf;
  return make_case({{"kind", pick({0, 1, 2, 3, 4, 5})}, {"a", range(0, 63)}, {"b", range(0, 1 << 10)}, {"n", range(0, 199)}, {"hdr", pick({0, 1, 4, 7, 8, 13})}, {"rnd", range(1, 1 << 20)}}, rc::gen::just(std::vector<Op>{}));
}

}  // namespace

int main(int argc, char** argv) {
  return vf::main_driver(argc, argv, "C09", "c09_roundtrip",
                         "case = a recipe (family out of 22 concrete types, configuration, update/merge batches -> reachable state: empty, single item, exact, "
                         "estimation, post-merge, every mode/flavor) + header size + continue suffix; checks: bytes == stream == advertised size, header prefix, "
                         "deserialize(bytes) and deserialize(stream + sentinel) observe equal to the original and the reader stops exactly at the image end, "
                         "identical re-serialization (or same decoded content for hash-table layouts), wrapped views, and identical observation after continuing "
                         "the same updates/merges on original and restored; non-trivial = state beyond exact mode or header > 0 or non-empty continue suffix; "
                         "distinct = distinct case text",
                         {{"roundtrip", gen, prop, 1.0}, {"edge_states", gen_edge, prop_edge, 0.02, 100}});
}
