// C18 — EBPPS sample size and bookkeeping are exact; inclusion proportional to weight.
//
// Sub-property "main": four sketches ("slots") with generated k live next to an exact reference model
//   (k, n, cumulative weight W, maximum weight, multiset of the ids that entered the slot's stream, "all weights
//   equal" flag). A generated history of single updates, bulk updates with weight patterns, refused / ignored
//   weights, merges in both directions (lvalue and rvalue, lighter into heavier and heavier into lighter, into and
//   from empty sketches, with smaller and larger k), serialization round trips (bytes, bytes with header, stream),
//   copies, moves and resets is applied to both. After EVERY single update: n, W, k, emptiness and
//   c = min(k, W / max w). After every op: every returned sample (get_result and iteration, several draws) has
//   floor(c) or ceil(c) items, all of them ids of the slot's stream with at most their stream multiplicity, and with
//   equal weights and n <= k the sample is the whole stream.
// Sub-property "incl" (weak, statistical): a short script (updates to three sketches, merges, round trips, updates
//   after merges) is replayed R times with R different seeds of the library's random source; the inclusion
//   frequency of every item in the final sample must be c * w_i / W within 5 sigma + 0.01.
//
// Weights: in "dyadic" mode every weight is a multiple of 1/8 below 2^31 and every sum stays below 2^53/8, so W is
// compared with ==. In "arbitrary" mode weights are generated doubles and W is compared with relative 1e-9.
//
// Known findings on the pinned tree (five keys below): the model carries one flag per finding that records whether the
// history has the SHAPE that triggers it (e.g. "an earlier merge's lighter input held the larger maximum"); a failing
// check is reported under a key only when the corresponding flag is set, otherwise unkeyed. Two of the findings can end in
// an out-of-bounds access inside a later merge; when (and only when) their key is listed as open, a merge with that exact
// shape is excluded before it is executed (KnownSkip), so that the worker survives. The shape is classified with public
// getters and the documented image layout only; no flag influences what a check asserts.
#include "vf/core.hpp"
#include <ebpps_sketch.hpp>
#include "vf/coin.hpp"
#include <map>
#include <sstream>
#include <limits>

using namespace datasketches;
using vf::Case; using vf::Op;

namespace {

// ---------------------------------------------------------------- known-finding keys (see the final report / out/proposed)
// internal_merge computes new_wt_max but never stores it in wt_max_ (ebpps_sketch_impl.hpp:221 / :271)
const char* KEY_STALE = "C18|ebpps|c-after-merge|update-or-merge-after-a-merge-whose-lighter-input-held-the-larger-max-weight";
// merge(non-empty, larger k) into an EMPTY sketch with smaller k: k_ is lowered but the adopted sample is not rescaled
const char* KEY_EMPTYDST = "C18|ebpps|c-after-merge|non-empty-sketch-merged-into-empty-sketch-with-smaller-k";
// merge(empty argument with smaller k): early return, k_ keeps the larger value
const char* KEY_EMPTYSRC = "C18|ebpps|merge-k|empty-argument-with-smaller-k";

// ebpps_sample::merge treats "c_ rounded to an integer" as "the two fractions add up to 1" and promotes a partial item to a full
// item although the fractions add up to ~0 (ebpps_sample_impl.hpp:147-155): data_ holds one item more than c_
const char* KEY_TINY = "C18|ebpps|sample-size|insertion-of-an-item-whose-share-of-c-is-below-the-rounding-error-of-c";

// internal_merge inserts each full item of the lighter input with probability new_rho * avg_wt; when that product rounds to
// 1 + eps, replace_content stores the item as a PARTIAL item with c_ = 1 + eps, and ebpps_sample::merge then adds 1 + eps to c_
// but at most a partial item to the data: data_ holds fewer than floor(c_) items; a later subsample() indexes past the end (SEGV)
const char* KEY_OVER1 = "C18|ebpps|sample-size|merge-where-rho-times-average-weight-of-the-lighter-input-rounds-above-1";

const int NS = 4;  // slots

// ---------------------------------------------------------------- item types
template <typename T> struct Codec;
template <> struct Codec<uint64_t> {
  static uint64_t make(uint64_t id) { return id ^ 0x5a5a000000000000ull; }
  static uint64_t id(const uint64_t& v) { return v ^ 0x5a5a000000000000ull; }
};
template <> struct Codec<uint32_t> {
  static uint32_t make(uint64_t id) { return static_cast<uint32_t>(id) + 7u; }
  static uint64_t id(const uint32_t& v) { return static_cast<uint64_t>(v - 7u); }
};
template <> struct Codec<std::string> {
  // "i<id>" padded to a length that depends on the id: short (SSO) and heap strings, up to 60 bytes
  static std::string make(uint64_t id) {
    std::string s = "i" + std::to_string(id) + ":";
    size_t len = s.size() + (vf::mix64(id) % 5 == 0 ? 20 + vf::mix64(id + 1) % 30 : vf::mix64(id + 2) % 6);
    uint64_t r = id;
    while (s.size() < len) { r = vf::mix64(r); s.push_back(static_cast<char>('a' + r % 26)); }
    return s;
  }
  static uint64_t id(const std::string& v) {
    if (v.size() < 3 || v[0] != 'i') return ~0ull;
    uint64_t x = 0; size_t i = 1;
    for (; i < v.size() && v[i] >= '0' && v[i] <= '9' && i < 20; ++i) x = x * 10 + static_cast<uint64_t>(v[i] - '0');
    if (i == 1 || i >= v.size() || v[i] != ':') return ~0ull;
    return x;
  }
};

// ---------------------------------------------------------------- weights
// single weights, dyadic (multiples of 1/8, <= 2^30)
double single_weight(uint64_t sel, bool arbitrary) {
  static const double tab[] = {1, 1, 1, 2, 3, 0.125, 0.5, 7, 8, 49, 100, 1000, 1048576.0, 1073741824.0, 2.5, 1.375};
  const size_t nt = sizeof(tab) / sizeof(tab[0]);
  if (sel < nt) return tab[sel];
  if (!arbitrary) return static_cast<double>(1 + vf::mix64(sel) % 64) / 8.0;
  vf::Rng r(sel);
  switch (r.below(6)) {
    case 4: return std::ldexp(1.0 + r.unit(), static_cast<int>(r.below(201)) - 100);   // 2^-100 .. 2^101: shares of c below rounding error
    case 5: return r.below(2) ? 1e-20 : 1e20;
    case 0: return 0.1 * static_cast<double>(1 + r.below(50));           // decimal fractions
    case 1: return std::ldexp(1.0 + r.unit(), static_cast<int>(r.below(41)) - 20);
    case 2: return 1.0 / static_cast<double>(1 + r.below(100));
    default: return r.unit() * 10.0 + 1e-3;
  }
}
const int NPATTERNS = 10;
// weight of the i-th of n items of a bulk op
double pattern_weight(int pattern, uint64_t i, uint64_t n, uint64_t seed, bool arbitrary) {
  switch (pattern) {
    case 0: return single_weight(seed % 14, false);                         // all equal
    case 1: return std::ldexp(1.0, static_cast<int>((i + seed) % 21));      // 2^i, cyclic
    case 2: {                                                               // heavy tailed (dyadic)
      double u = (static_cast<double>(vf::mix64(seed * 1315423911ull + i) >> 11) + 1.0) / 9007199254740993.0;
      double w = std::floor(8.0 / std::pow(u, 1.5));
      return std::min(w, 8.0 * 1073741824.0) / 8.0;
    }
    case 3: return static_cast<double>(i + 1);                              // increasing
    case 4: return static_cast<double>(n - i);                              // decreasing
    case 5: return i == seed % (n ? n : 1) ? 33554432.0 : 1.0;              // one giant item
    case 6: return (vf::mix64(seed + i) % 3 == 0) ? 0.0 : static_cast<double>(1 + vf::mix64(seed ^ i) % 8);  // zeros are ignored
    case 7: return static_cast<double>(1 + vf::mix64(seed + 77 * i) % 8);   // small integers
    case 8: return (vf::mix64(seed + i) % 8 == 0) ? 16.0 : 0.125 * static_cast<double>(1 + vf::mix64(seed + 3 * i) % 16);
    default:
      if (!arbitrary) return static_cast<double>(1 + vf::mix64(seed + 5 * i) % 40) / 8.0;
      return single_weight(1000 + vf::mix64(seed * 31 + i), true);
  }
}

// ---------------------------------------------------------------- model
struct Model {
  uint32_t k = 1;
  uint64_t n = 0;
  double W = 0, wmax = 0;
  std::map<uint64_t, uint32_t> cnt;  // id -> multiplicity in the slot's (merged) stream
  bool all_equal = true; double eqw = 0;
  // shapes of the known findings
  int stale_updates = 0;   // accepted updates since `stale` was set
  bool stale = false;      // a merge happened whose lighter input held the larger maximum, and no later weight >= max
  bool emptydst = false;   // the last op was a merge of a non-empty sketch with larger k into this EMPTY sketch
  bool over1 = false;      // some merge inserted a full item with probability 1 + eps
  bool tiny = false;       // some inserted item's share of c was below 1e-9 (absorbed by rounding when added to c)
  // coverage facts
  bool sampled = false, merged_nonempty = false, upd_after_merge = false;
  explicit Model(uint32_t kk = 1) : k(kk) {}
  double c() const { return n == 0 ? 0.0 : std::min(static_cast<double>(k), W / wmax); }
  void accept(uint64_t id, double w) {
    if (n == 0) { eqw = w; all_equal = true; } else if (w != eqw) all_equal = false;
    n++; W += w;
    // a weight >= the true maximum repairs a stale stored maximum, but only if no update ran with the stale value in between
    // (such an update leaves a wrong rho behind even when its own error in c is below the tolerance)
    if (w >= wmax) { wmax = w; if (stale_updates == 0) stale = false; }
    if (stale) stale_updates++;
    if (n > 1 && c() * w / W < 1e-9) tiny = true;
    cnt[id]++;
    if (n > k) sampled = true;
    if (merged_nonempty) upd_after_merge = true;
    emptydst = false;
  }
};

template <typename T> struct Slot {
  ebpps_sketch<T> sk;
  Model m;
  explicit Slot(uint32_t k) : sk(k), m(k) {}
};

struct Flags {
  bool arbitrary = false;
  bool frac_seen = false, sat_seen = false, wbound_seen = false, kept_checked = false, partial_ser = false;
  bool known_emptysrc_noted = false;
};

// a check on a sketch whose sample is already known (keyed findings KEY_OVER1 / KEY_TINY) to hold a different number of items
// than its c says: a failure there is a consequence of that finding, not a new one (e.g. deserialization rebuilds floor(c) items)
#define C18_CHECK_S(cond, id, model, msgexpr)                                                           \
  do {                                                                                                  \
    if ((model).over1) VF_CHECK_K(cond, id, KEY_OVER1, msgexpr << " (after a merge insertion with probability 1 + eps)");           \
    else if ((model).tiny) VF_CHECK_K(cond, id, KEY_TINY, msgexpr << " (after an insertion with a share of c below rounding error)"); \
    else VF_CHECK(cond, id, msgexpr);                                                                   \
  } while (0)

// inclusion frequencies: the same, and a stale stored maximum (KEY_STALE) also distorts them (wrong rho) even where the error in c
// stays below the tolerance of the c check
#define C18_CHECK_P(cond, id, model, msgexpr)                                                           \
  do {                                                                                                  \
    if ((model).stale && !(model).over1 && !(model).tiny) VF_CHECK_K(cond, id, KEY_STALE, msgexpr << " (after a merge whose lighter input held the larger maximum weight)"); \
    else C18_CHECK_S(cond, id, model, msgexpr);                                                         \
  } while (0)

bool close_rel(double a, double b, double rel) { return std::fabs(a - b) <= rel * std::max(std::fabs(a), std::fabs(b)); }

template <typename T>
void check_basic(const Slot<T>& s, Flags& f, const char* after) {
  const Model& m = s.m;
  const auto& sk = s.sk;
  VF_CHECK(sk.get_n() == m.n, "n-exact", "after " << after << ": get_n " << sk.get_n() << " model " << m.n);
  VF_CHECK(sk.get_k() == m.k, "k", "after " << after << ": get_k " << sk.get_k() << " model " << m.k);
  VF_CHECK(sk.is_empty() == (m.n == 0), "is-empty", "after " << after << ": is_empty " << sk.is_empty() << " model n " << m.n);
  double W = sk.get_cumulative_weight();
  if (!f.arbitrary) {
    VF_CHECK(W == m.W, "cumulative-weight-exact", "after " << after << ": cumulative weight " << W << " model " << m.W << " (dyadic weights, exact sum)");
  } else {
    VF_CHECK(close_rel(W, m.W, 1e-9), "cumulative-weight", "after " << after << ": cumulative weight " << W << " model " << m.W);
  }
  double c = sk.get_c(), ec = m.c();
  bool ok = (m.n == 0) ? (c == 0.0) : close_rel(c, ec, 1e-9);
  if (m.emptydst) {
    VF_CHECK_K(ok, "c-definition-merge-into-empty", KEY_EMPTYDST, "after " << after << ": c " << c << " but min(k, W/wmax) = min(" << m.k << ", " << m.W << "/" << m.wmax
               << ") = " << ec << " (non-empty sketch merged into an empty sketch with smaller k)");
  } else if (m.stale) {
    VF_CHECK_K(ok, "c-definition-after-merge", KEY_STALE, "after " << after << ": c " << c << " but min(k, W/wmax) = min(" << m.k << ", " << m.W << "/" << m.wmax
               << ") = " << ec << " (an earlier merge's lighter input held the larger maximum weight)");
  } else if (m.over1 || m.tiny) {
    // the sample already holds a different number of items than c says (keyed findings): a merge reads c and the items separately
    VF_CHECK_K(ok, "c-definition-after-sample-size-defect", (m.over1 ? KEY_OVER1 : KEY_TINY), "after " << after << ": c " << c << " but min(k, W/wmax) = min(" << m.k << ", " << m.W << "/" << m.wmax
               << ") = " << ec << " (after an insertion with probability 1 + eps / a share of c below rounding error)");
  } else {
    VF_CHECK(ok, "c-definition", "after " << after << ": c " << c << " but min(k, W/wmax) = min(" << m.k << ", " << m.W << "/" << m.wmax << ") = " << ec);
  }
  if (m.n) {
    if (c != std::floor(c)) f.frac_seen = true;
    if (W / m.wmax >= m.k) f.sat_seen = true; else f.wbound_seen = true;
  }
}

// one returned sample against the model
template <typename T, typename V>
void check_items(const Slot<T>& s, const V& items, const char* how) {
  const Model& m = s.m;
  double c = s.sk.get_c();
  size_t sz = items.size();
  bool size_ok = static_cast<double>(sz) == std::floor(c) || static_cast<double>(sz) == std::ceil(c);
  if (m.over1) {
    VF_CHECK_K(size_ok, "sample-size-after-merge-probability-above-1", KEY_OVER1, how << " returned " << sz << " items, c = " << c << " (n " << m.n << ", k " << m.k
               << "; an earlier merge inserted a full item with probability rho * avg_wt = 1 + eps)");
  } else if (m.tiny) {
    VF_CHECK_K(size_ok, "sample-size-after-tiny-insertion", KEY_TINY, how << " returned " << sz << " items, c = " << c << " (n " << m.n << ", k " << m.k
               << "; an earlier insertion had a share of c below 1e-9)");
  } else {
    VF_CHECK(size_ok, "sample-size", how << " returned " << sz << " items, c = " << c << " (n " << m.n << ", k " << m.k << ")");
  }
  std::map<uint64_t, uint32_t> got;
  for (const T& v : items) {
    uint64_t id = Codec<T>::id(v);
    auto it = m.cnt.find(id);
    VF_CHECK(it != m.cnt.end() && Codec<T>::make(id) == v, "item-from-input", how << " returned an item (id " << id << ") that was never given to this sketch");
    uint32_t g = ++got[id];
    VF_CHECK(g <= it->second, "item-multiplicity", how << " returned id " << id << " " << g << " times, it entered the stream " << it->second << " times");
  }
  if (m.all_equal && m.n <= m.k) {
    VF_CHECK(sz == m.n, "equal-weights-keep-all", how << ": equal weights " << m.eqw << ", n " << m.n << " <= k " << m.k << " but " << sz << " items returned (c " << c << ")");
    for (const auto& kv : m.cnt) {
      auto it = got.find(kv.first);
      VF_CHECK(it != got.end() && it->second == kv.second, "equal-weights-keep-all", how << ": id " << kv.first << " missing from the sample although weights are equal and n <= k");
    }
  }
}

template <typename T>
void check_sample(const Slot<T>& s, Flags& f, int draws) {
  for (int d = 0; d < draws; ++d) {
    auto r = s.sk.get_result();
    check_items(s, r, "get_result");
    std::vector<T> it_items;
    size_t guard = static_cast<size_t>(s.sk.get_c()) + 3;
    for (auto it = s.sk.begin(); it != s.sk.end(); ++it) {
      it_items.push_back(*it);
      VF_CHECK(it_items.size() <= guard, "iteration-ends", "iteration yields more than ceil(c)+2 items (c " << s.sk.get_c() << ")");
    }
    check_items(s, it_items, "iteration");
  }
  if (s.m.all_equal && s.m.n && s.m.n <= s.m.k) f.kept_checked = true;
}

// serde<arithmetic>::serialize calls memcpy(ptr, items, 0) with items == nullptr when a copied / deserialized sample holds no full
// item (0 < c < 1, only reachable through rounding, e.g. a single item of weight 49: (1/49)*49 < 1). UBSan's nonnull check
// aborts the process on that; it has no bearing on C18 (and no observable effect), so such sketches are not serialized here.
// Reported as a side note, see the C18 report.
template <typename T>
bool ser_ok(const ebpps_sketch<T>& sk) { return !(std::is_arithmetic<T>::value && sk.get_c() > 0.0 && sk.get_c() < 1.0); }

template <typename T>
std::vector<uint8_t> image_of(const ebpps_sketch<T>& sk) {
  auto b = sk.serialize();
  return std::vector<uint8_t>(b.begin(), b.end());
}

// the maximum weight as the sketch itself stores it (documented image layout: bytes 24..31); used only to classify the SHAPE of
// a merge for the known-finding keys, never as an oracle
template <typename T>
double stored_wmax(const Slot<T>& s) {
  if (s.sk.is_empty()) return 0.0;
  if (!ser_ok(s.sk)) return s.m.wmax;
  auto img = image_of(s.sk);
  double w = s.m.wmax;
  if (img.size() >= 32) std::memcpy(&w, img.data() + 24, 8);
  return w;
}

template <typename T>
void do_update(Slot<T>& s, uint64_t id, double w, bool rvalue) {
  if (rvalue) s.sk.update(Codec<T>::make(id), w);
  else { T item = Codec<T>::make(id); s.sk.update(item, w); }
  if (w != 0.0) s.m.accept(id, w);
}

// merge src into dst on both the sketches and the models; rvalue merges leave src as a fresh sketch with k = newk
template <typename T>
void do_merge(Slot<T>& dst, Slot<T>& src, bool rvalue, uint32_t newk, Flags& f) {
  Model& a = dst.m; Model& b = src.m;
  bool src_empty = b.n == 0, dst_empty = a.n == 0;
  // shapes
  bool swap = b.W > a.W;
  if (!src_empty && !dst_empty) {
    double heavy_max = swap ? b.wmax : a.wmax, light_max = swap ? a.wmax : b.wmax;
    bool heavy_stale = swap ? b.stale : a.stale;
    a.stale = heavy_stale || light_max > heavy_max;   // the heavier side's wt_max_ is the one that is kept
    a.stale_updates = heavy_stale ? (swap ? b.stale_updates : a.stale_updates) : 0;
    // insertions whose share of c is absorbed by rounding: a rounding-error partial item of the lighter input, or a lighter
    // input that is negligible altogether
    const Model& light = swap ? a : b;
    double lc = (swap ? dst.sk : src.sk).get_c(), lfrac = lc - std::floor(lc);
    if ((lfrac > 0 && lfrac < 1e-9) || std::min(a.k, b.k) * (light.W / (a.W + b.W)) / std::max(1.0, lc) < 1e-9) a.tiny = true;
    a.tiny = a.tiny || b.tiny;
    // shape of KEY_OVER1, classified with the public getters only: rho * (W / c of the lighter input) > 1 at some insertion step
    {
      const ebpps_sketch<T>& L = swap ? dst.sk : src.sk;
      const ebpps_sketch<T>& H = swap ? src.sk : dst.sk;
      // shape of KEY_STALE at a merge: the maxima the two sketches store are not the maxima of their streams (an earlier merge
      // dropped the larger one); the merge then works with a wrong rho and may index past the end of the sample
      double wm = std::max(stored_wmax(dst), stored_wmax(src));
      if (wm != std::max(a.wmax, b.wmax) && vf::known_keys().count(KEY_STALE)) throw vf::KnownSkip(KEY_STALE);
      double avg = L.get_cumulative_weight() / L.get_c(), kk = std::min(a.k, b.k), cum = H.get_cumulative_weight();
      bool over = false;
      for (double i = 0; i < std::floor(L.get_c()) && !over; ++i) { cum += avg; if (std::min(1.0 / wm, kk / cum) * avg > 1.0) over = true; }
      if (over) {
        // the merge itself can already index past the end of the sample (SEGV inside subsample); with the finding listed as open
        // the case is excluded before the call, otherwise the merge runs and the checks (or the sanitizer) report it
        if (vf::known_keys().count(KEY_OVER1)) throw vf::KnownSkip(KEY_OVER1);
        a.over1 = true;
      }
      a.over1 = a.over1 || b.over1;
    }
    a.merged_nonempty = true;
    a.emptydst = false;   // the first insertion step rescales the whole sample
    vf::label(swap ? "merge:heavier-into-lighter" : "merge:lighter-into-heavier");
  } else if (!src_empty && dst_empty) {
    a.stale = b.stale; a.stale_updates = b.stale_updates;
    a.tiny = b.tiny; a.over1 = b.over1;
    a.emptydst = b.k > a.k;
    a.merged_nonempty = b.merged_nonempty; a.upd_after_merge = b.upd_after_merge;
    vf::label("merge:into-empty");
  } else {
    vf::label("merge:from-empty");
  }
  bool emptysrc_smaller_k = src_empty && b.k < a.k;
  if (b.k < a.k) vf::label("merge:k-lowered");
  std::vector<uint8_t> before;
  bool cmp_image = !rvalue && ser_ok(src.sk);
  if (cmp_image) before = image_of(src.sk);
  if (rvalue) dst.sk.merge(std::move(src.sk)); else dst.sk.merge(src.sk);
  // model
  if (!src_empty) {
    if (dst_empty) { a.all_equal = b.all_equal; a.eqw = b.eqw; }
    else a.all_equal = a.all_equal && b.all_equal && a.eqw == b.eqw;
    a.n += b.n; a.W = a.W + b.W; a.wmax = std::max(a.wmax, b.wmax);
    for (const auto& kv : b.cnt) a.cnt[kv.first] += kv.second;
    a.sampled = a.sampled || b.sampled;
  }
  uint32_t mk = std::min(a.k, b.k);
  if (emptysrc_smaller_k) {
    // "Merging ... takes the smaller k": the early return for an empty argument keeps the larger k. Keyed; when the key is
    // listed as open the case continues with the sketch's own k (nothing else is affected by this finding).
    bool ok = dst.sk.get_k() == mk;
    vf::count("checks");
    if (!ok && vf::known_keys().count(KEY_EMPTYSRC) && dst.sk.get_k() == a.k) {
      if (!f.known_emptysrc_noted) { vf::stats().known_hits[KEY_EMPTYSRC]++; f.known_emptysrc_noted = true; }
      vf::label("known-finding-tolerated:empty-argument-k");
      mk = a.k;
    } else {
      VF_CHECK_K(ok, "merge-k-min-empty-argument", KEY_EMPTYSRC, "merge of an empty sketch with k " << b.k << " into a sketch with k " << a.k << ": get_k " << dst.sk.get_k() << ", smaller k is " << mk);
    }
  }
  a.k = mk;
  if (a.n > a.k) a.sampled = true;
  if (!rvalue) {
    if (cmp_image) VF_CHECK(image_of(src.sk) == before, "merge-argument-unchanged", "lvalue merge modified its const argument");
    vf::label("merge:lvalue");
  } else {
    src = Slot<T>(newk);
    vf::label("merge:rvalue");
  }
}

template <typename T>
void do_roundtrip(Slot<T>& s, int mode, Flags& f) {
  const auto& sk = s.sk;
  if (!ser_ok(sk)) { vf::label("roundtrip-skipped:c<1"); return; }
  unsigned hdr = mode == 1 ? 1 + static_cast<unsigned>(s.m.n % 23) : 0;
  auto bytes = sk.serialize(hdr);
  C18_CHECK_S(bytes.size() == hdr + sk.get_serialized_size_bytes(), "serialized-size", s.m, "serialize(" << hdr << ") gives " << bytes.size() << " bytes, get_serialized_size_bytes " << sk.get_serialized_size_bytes());
  std::stringstream ss(std::ios::in | std::ios::out | std::ios::binary);
  sk.serialize(ss);
  std::string simg = ss.str();
  C18_CHECK_S(simg.size() == bytes.size() - hdr && std::memcmp(simg.data(), bytes.data() + hdr, simg.size()) == 0, "stream-equals-bytes", s.m, "stream image differs from byte image");
  double c = sk.get_c();
  if (c != std::floor(c)) f.partial_ser = true;
  ebpps_sketch<T> back = (mode == 2) ? ebpps_sketch<T>::deserialize(ss) : ebpps_sketch<T>::deserialize(bytes.data() + hdr, bytes.size() - hdr);
  C18_CHECK_S(back.get_c() == c && back.get_n() == sk.get_n() && back.get_k() == sk.get_k() && back.get_cumulative_weight() == sk.get_cumulative_weight(),
           "roundtrip-fields", s.m, "round trip changed k/n/W/c: c " << back.get_c() << " vs " << c);
  auto img2 = image_of(back);
  C18_CHECK_S(img2.size() == simg.size() && std::memcmp(img2.data(), simg.data(), simg.size()) == 0, "roundtrip-image", s.m, "image of the deserialized sketch differs");
  s.sk = std::move(back);
}

uint32_t k_from(int64_t v) { return static_cast<uint32_t>(std::min<int64_t>(20000, std::max<int64_t>(1, v))); }

template <typename T>
void prop_main_t(const Case& cs) {
  Flags f;
  f.arbitrary = cs.get("wmode", 0) == 1;
  std::vector<Slot<T>> sl;
  for (int i = 0; i < NS; ++i) sl.emplace_back(k_from(cs.get("k" + std::to_string(i), 1 + i)));
  uint64_t next_id = 1;
  for (auto& s : sl) { check_basic(s, f, "construction"); check_sample(s, f, 1); }
  int nmerge = 0, nser = 0;
  auto fill = [&](Slot<T>& s, uint64_t n, int pattern, uint64_t seed, const char* what) {
    for (uint64_t i = 0; i < n; ++i) {
      double w = pattern_weight(pattern, i, n, seed, f.arbitrary);
      if (w == 0.0) vf::label("zero-weight-ignored");
      do_update(s, next_id++, w, i & 1);
      if (getenv("C18_TRACE_UPD")) { std::cerr.precision(17); std::cerr << what << " w=" << w << " -> c=" << s.sk.get_c() << "\n" << s.sk.items_to_string(); }
      check_basic(s, f, what);
      if (n <= 40 || i % 97 == 0 || i + 1 == n) check_sample(s, f, 1);
    }
  };
  // initial content of the four sketches (so that most merges join two non-empty sketches)
  for (int i = 0; i < NS; ++i) {
    uint64_t n = static_cast<uint64_t>(std::max<int64_t>(0, cs.get("fill" + std::to_string(i), 0))) % 500;
    fill(sl[i], n, static_cast<int>(static_cast<uint64_t>(cs.get("fpat" + std::to_string(i), 0)) % NPATTERNS), static_cast<uint64_t>(cs.get("seed", 1)) + 1000 * i, "initial update");
  }
  const bool trace = getenv("C18_TRACE") != nullptr;   // debugging aid for replays: prints every sketch before each op
  for (const Op& op : cs.ops) {
    if (trace) {
      std::cerr << "---- before op " << op.name; for (auto v : op.a) std::cerr << ' ' << v; std::cerr << "\n";
      for (int i = 0; i < NS; ++i) { std::cerr.precision(17); std::cerr << "slot " << i << " c=" << sl[i].sk.get_c() << " model: k=" << sl[i].m.k << " n=" << sl[i].m.n << " W=" << sl[i].m.W << " wmax=" << sl[i].m.wmax << "\n" << sl[i].sk.to_string() << sl[i].sk.items_to_string(); }
    }
    Slot<T>& s = sl[op.uarg(0) % NS];
    if (op.name == "upd") {
      double w = single_weight(op.uarg(1) % 4096, f.arbitrary);
      do_update(s, next_id++, w, op.uarg(1) & 1);
      check_basic(s, f, "update");
    } else if (op.name == "bulk") {
      uint64_t n = op.uarg(1) % 3000;
      int pattern = static_cast<int>(op.uarg(2) % NPATTERNS);
      uint64_t seed = op.uarg(3);
      fill(s, n, pattern, seed, "bulk update");
      vf::label(std::string("pattern:") + std::to_string(pattern));
    } else if (op.name == "bad") {
      static const double bad[] = {-1.0, -1e-300, std::numeric_limits<double>::quiet_NaN(), std::numeric_limits<double>::infinity(),
                                   -std::numeric_limits<double>::infinity(), -std::numeric_limits<double>::denorm_min()};
      uint64_t kind = op.uarg(1) % 8;
      if (kind < 6) {
        bool threw = false;
        try { s.sk.update(Codec<T>::make(next_id), bad[kind]); } catch (const std::invalid_argument&) { threw = true; }
        VF_CHECK(threw, "bad-weight-refused", "weight " << bad[kind] << " was not refused with invalid_argument");
        vf::label("bad-weight-refused");
      } else {
        s.sk.update(Codec<T>::make(next_id), kind == 6 ? 0.0 : -0.0);  // documented no-op
        vf::label("zero-weight-ignored");
      }
      next_id++;
      check_basic(s, f, "refused/ignored update");
    } else if (op.name == "merge") {
      size_t di = op.uarg(0) % NS, si = op.uarg(1) % NS;
      if (si == di) si = (di + 1) % NS;   // self-merge is outside the quantifier
      bool rvalue = op.uarg(2) & 1;
      do_merge(sl[di], sl[si], rvalue, k_from(op.arg(3, 8)), f);
      nmerge++;
      // the moved-from argument was replaced by a fresh sketch: give it new content
      if (rvalue) fill(sl[si], op.uarg(4) % 200, static_cast<int>(op.uarg(5) % NPATTERNS), op.uarg(4) * 31 + op.uarg(5), "refill update");
      check_basic(sl[di], f, "merge"); check_sample(sl[di], f, 1);
      // updates right after the merge (they use the merged maximum weight, rho and k)
      for (uint64_t j = 0, np = op.uarg(6) % 5; j < np; ++j) {
        do_update(sl[di], next_id++, single_weight((op.uarg(7) + 7 * j) % 4096, f.arbitrary), j & 1);
        check_basic(sl[di], f, "update after merge");
      }
      check_basic(sl[di], f, "merge"); check_basic(sl[si], f, "merge (argument)");
      check_sample(sl[si], f, 1);
    } else if (op.name == "ser") {
      do_roundtrip(s, static_cast<int>(op.uarg(1) % 3), f);
      nser++;
      check_basic(s, f, "round trip");
    } else if (op.name == "copy") {
      switch (op.uarg(1) % 3) {
        case 0: { ebpps_sketch<T> cp(s.sk); s.sk = std::move(cp); break; }
        case 1: { ebpps_sketch<T> cp(1); cp = s.sk; if (ser_ok(cp)) VF_CHECK(image_of(cp) == image_of(s.sk), "copy-equal", "copy-assigned sketch differs"); s.sk = cp; break; }
        default: { ebpps_sketch<T> mv(std::move(s.sk)); s.sk = std::move(mv); }
      }
      vf::label("copy/move");
      check_basic(s, f, "copy");
    } else if (op.name == "reset") {
      s.sk.reset();
      s.m = Model(s.m.k);
      vf::label("reset");
      check_basic(s, f, "reset");
    } else if (op.name == "query") {
      check_sample(s, f, 1 + static_cast<int>(op.uarg(1) % 6));
    } else continue;
    check_sample(s, f, 2);
  }
  bool sampled = false, merged = false, uam = false;
  for (auto& s : sl) {
    check_basic(s, f, "end"); check_sample(s, f, 2);
    sampled |= s.m.sampled; merged |= s.m.merged_nonempty; uam |= s.m.upd_after_merge;
  }
  if (nmerge) vf::label("merge");
  if (merged) vf::label("merge:both-non-empty");
  if (uam) vf::label("update-after-merge");
  if (nser) vf::label("roundtrip");
  if (f.partial_ser) vf::label("roundtrip-with-partial-item");
  if (sampled) vf::label("n>k");
  if (f.frac_seen) vf::label("fractional-c");
  if (f.sat_seen) vf::label("c=k");
  if (f.wbound_seen) vf::label("c=W/wmax<k");
  if (f.kept_checked) vf::label("equal-weights-kept");
  if (f.arbitrary) vf::label("arbitrary-weights");
  if (f.frac_seen && sampled && (uam || f.partial_ser)) vf::nontrivial();
}

void prop_main(const Case& cs) {
  vf::own_randomness(static_cast<uint64_t>(cs.get("seed", 1)));
  switch (cs.get("type", 0) % 3) {
    case 0: vf::label("type:u64"); prop_main_t<uint64_t>(cs); break;
    case 1: vf::label("type:string"); prop_main_t<std::string>(cs); break;
    default: vf::label("type:u32"); prop_main_t<uint32_t>(cs);
  }
}

// ---------------------------------------------------------------- inclusion frequencies (weak)
// script ops: "upd slot wsel", "merge dst src mode", "ser slot mode"; the sample of slot cfg.target is observed.
struct InclRun {
  Model m;                       // model of the target after the script
  std::vector<uint64_t> sample;  // ids in the observed sample
  std::map<uint64_t, double> wt; // weight of every id
  bool merged = false, uam = false;
  double c = 0;
};

InclRun incl_once(const Case& cs, uint64_t rep, bool first, Flags& f) {
  using T = uint64_t;
  const int N3 = 3;
  std::vector<Slot<T>> sl;
  for (int i = 0; i < N3; ++i) sl.emplace_back(static_cast<uint32_t>(std::min<int64_t>(8, std::max<int64_t>(1, cs.get("k" + std::to_string(i), 2)))));
  InclRun out;
  uint64_t next_id = 1;
  size_t nops = 0;
  for (const Op& op : cs.ops) {
    if (++nops > 24) break;
    Slot<T>& s = sl[op.uarg(0) % N3];
    if (op.name == "upd") {
      static const double tab[] = {1, 1, 2, 3, 0.5, 5, 1.5, 8};
      double w = tab[op.uarg(1) % 8];
      out.wt[next_id] = w;
      do_update(s, next_id++, w, false);
    } else if (op.name == "merge") {
      size_t di = op.uarg(0) % N3, si = op.uarg(1) % N3;
      if (si == di) si = (di + 1) % N3;
      uint32_t keepk = sl[si].m.k;
      bool rvalue = op.uarg(2) & 1;
      do_merge(sl[di], sl[si], rvalue, keepk, f);
      if (!rvalue) sl[si] = Slot<T>(keepk);  // every id lives in exactly one sketch
      if (first) check_basic(sl[di], f, "merge");
    } else if (op.name == "ser") {
      do_roundtrip(s, static_cast<int>(op.uarg(1) % 3), f);
    } else continue;
    if (first) check_basic(s, f, op.name.c_str());
  }
  size_t ti = static_cast<size_t>(cs.get("target", 0)) % N3;   // observed sketch: the preferred one unless it is empty, then the fullest
  if (sl[ti].m.n == 0) for (size_t i = 0; i < N3; ++i) if (sl[i].m.n > sl[ti].m.n) ti = i;
  Slot<T>& t = sl[ti];
  if (first) { check_basic(t, f, "script"); check_sample(t, f, 1); }
  out.m = t.m;
  out.c = t.sk.get_c();
  out.merged = t.m.merged_nonempty; out.uam = t.m.upd_after_merge;
  if (rep & 1) { for (auto it = t.sk.begin(); it != t.sk.end(); ++it) out.sample.push_back(Codec<T>::id(*it)); }
  else { for (const auto& v : t.sk.get_result()) out.sample.push_back(Codec<T>::id(v)); }
  return out;
}

void prop_incl(const Case& cs) {
  uint64_t seed = static_cast<uint64_t>(cs.get("seed", 1));
  uint64_t R = static_cast<uint64_t>(std::min<int64_t>(20000, std::max<int64_t>(200, cs.get("reps", 2000))));
  std::map<uint64_t, uint64_t> hits;
  double size_sum = 0;
  InclRun first;
  Flags f;
  for (uint64_t r = 0; r < R; ++r) {
    vf::own_randomness(vf::mix64(seed * 0x9e3779b97f4a7c15ull + r));
    InclRun run = incl_once(cs, r, r == 0, f);
    if (r == 0) first = run;
    for (uint64_t id : run.sample) hits[id]++;
    size_sum += static_cast<double>(run.sample.size());
    if (r == 0 && run.m.n == 0) { vf::label("empty-target"); return; }
  }
  const Model& m = first.m;
  double c = m.c();
  bool distinct_w = false, partial_prob = false;
  for (const auto& kv : m.cnt) {
    double w = first.wt[kv.first];
    double p = c * w / m.W;   // <= 1 because c <= W / wmax
    double freq = static_cast<double>(hits[kv.first]) / static_cast<double>(R);
    double tol = 5.0 * std::sqrt(std::max(0.0, p * (1 - p)) / static_cast<double>(R)) + 0.01;
    C18_CHECK_P(std::fabs(freq - p) <= tol, "inclusion-proportional-to-weight", m,
             "item " << kv.first << " weight " << w << " of W " << m.W << ", c " << c << ": inclusion frequency " << freq << " over " << R
             << " seeded repetitions, expected c*w/W = " << p << " +- " << tol);
    if (w != m.eqw) distinct_w = true;
    if (p < 0.999) partial_prob = true;
  }
  double mean_size = size_sum / static_cast<double>(R);
  C18_CHECK_P(std::fabs(mean_size - c) <= 5.0 * 0.5 / std::sqrt(static_cast<double>(R)) + 0.01, "mean-sample-size", m, "mean sample size " << mean_size << " over " << R << " repetitions, c = " << c);
  if (first.merged) vf::label("merge:both-non-empty");
  if (first.uam) vf::label("update-after-merge");
  if (distinct_w) vf::label("distinct-weights");
  if (m.n > m.k) vf::label("n>k");
  if (c != std::floor(c)) vf::label("fractional-c");
  if (distinct_w && partial_prob && m.n >= 3) vf::nontrivial();
}

// ---------------------------------------------------------------- generators
rc::Gen<int64_t> k_gen() {
  return rc::gen::weightedOneOf<int64_t>({{6, vf::range(1, 8)}, {4, vf::range(9, 50)}, {1, vf::range(51, 2000)}});
}

rc::Gen<int64_t> fill_gen() {
  return rc::gen::weightedOneOf<int64_t>({{2, vf::range(0, 0)}, {5, vf::range(1, 12)}, {3, vf::range(13, 120)}});
}

rc::Gen<Case> gen_main() {
  using namespace vf;
  auto slot = range(0, NS - 1);
  auto opg = choose({
      {7, op2("upd", slot, rc::gen::weightedOneOf<int64_t>({{5, range(0, 15)}, {2, range(16, 4095)}}))},
      {3, op4("bulk", slot, rc::gen::withSize([](int s) { return range(0, 6 + 3 * s); }), range(0, NPATTERNS - 1), range(0, 1 << 20))},
      {2, op4("bulk", slot, range(0, 12), range(0, NPATTERNS - 1), range(0, 1 << 20))},
      {5, rc::gen::exec([=]() {
         Op op{"merge", {}};
         op.a = {*slot, *slot, *range(0, 1), *k_gen(), *rc::gen::weightedOneOf<int64_t>({{1, range(0, 0)}, {4, range(1, 12)}, {2, range(13, 80)}}), *range(0, NPATTERNS - 1),
                 *rc::gen::weightedOneOf<int64_t>({{2, range(0, 0)}, {3, range(1, 4)}}), *rc::gen::weightedOneOf<int64_t>({{5, range(0, 15)}, {2, range(16, 4095)}})};
         return op;
       })},
      {1, op2("ser", slot, range(0, 2))},
      {1, rc::gen::map(rc::gen::tuple(slot, range(0, 99)), [](std::tuple<int64_t, int64_t> t) {
         int64_t s = std::get<0>(t), x = std::get<1>(t);
         if (x < 40) return Op{"copy", {s, x % 3}};
         if (x < 55) return Op{"reset", {s}};
         if (x < 75) return Op{"bad", {s, x % 8}};
         return Op{"query", {s, x % 6}};
       })},
  });
  return make_case({{"type", range(0, 2)},
                    {"wmode", rc::gen::weightedOneOf<int64_t>({{3, rc::gen::just<int64_t>(0)}, {1, rc::gen::just<int64_t>(1)}})},
                    {"seed", range(1, 1 << 30)},
                    {"k0", k_gen()}, {"k1", k_gen()}, {"k2", k_gen()}, {"k3", k_gen()},
                    {"fill0", fill_gen()}, {"fill1", fill_gen()}, {"fill2", fill_gen()}, {"fill3", fill_gen()},
                    {"fpat0", range(0, NPATTERNS - 1)}, {"fpat1", range(0, NPATTERNS - 1)}, {"fpat2", range(0, NPATTERNS - 1)}, {"fpat3", range(0, NPATTERNS - 1)}},
                   oplist(opg, 4, 0.3));
}

rc::Gen<Case> gen_incl() {
  using namespace vf;
  auto slot = range(0, 2);
  auto opg = choose({
      {8, op2("upd", slot, range(0, 7))},
      {3, op3("merge", slot, slot, range(0, 1))},
      {1, op2("ser", slot, range(0, 2))},
  });
  return make_case({{"seed", range(1, 1 << 30)}, {"reps", pick({1000, 2000, 4000})}, {"target", range(0, 2)},
                    {"k0", range(1, 6)}, {"k1", range(1, 6)}, {"k2", range(1, 6)}},
                   rc::gen::resize(40, oplist(opg, 4, 0.4)));
}

}  // namespace

int main(int argc, char** argv) {
  std::vector<vf::Sub> subs;
  subs.push_back({"main", gen_main, prop_main, 1.0});
  subs.push_back({"incl", gen_incl, prop_incl, 0.08});
  return vf::main_driver(argc, argv, "C18", "c18_ebpps",
                         "main: case = item type (u64/u32/string), weight mode, 4 sketches with generated k, op history (single and bulk weighted updates, "
                         "refused/zero weights, lvalue/rvalue merges in both directions incl. empty sides and differing k, byte/stream round trips, copies, resets); "
                         "exact model (k, n, W, max weight, id multiset) compared after every single update, samples after every op; "
                         "non-trivial = some sketch reached n > k, a fractional c was observed, and the history has an update after a merge of two non-empty sketches "
                         "or a round trip of a sketch holding a partial item. incl: script replayed R times with R seeds, inclusion frequency vs c*w/W; "
                         "non-trivial = >=3 items, distinct weights, some inclusion probability < 1; distinct = distinct case text",
                         subs);
}
