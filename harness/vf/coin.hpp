// vf/coin.hpp — the harness owns the sketches' internal fair coin (random_utils::random_bit, through the
// DATASKETCHES_VERIF hook) and the seed of random_utils::rand (through the library's own override_seed).
// Include AFTER at least one datasketches header (needs common_defs.hpp).
#ifndef VF_COIN_HPP
#define VF_COIN_HPP
#include <cstdint>
#include <vector>
#include <common_defs.hpp>
#include "core.hpp"

#ifndef DATASKETCHES_VERIF
#error "harnesses must be compiled with -DDATASKETCHES_VERIF"
#endif

namespace vf {

struct CoinState {
  bool scripted = false;
  std::vector<uint8_t> script;  // bits consumed in order; after the end: fallback bit
  size_t pos = 0;
  uint8_t fallback = 0;
  uint64_t prng = 0;
  uint64_t flips = 0;
};
inline CoinState& coin_state() { static CoinState s; return s; }
inline uint32_t coin_source(void*) {
  CoinState& s = coin_state();
  s.flips++;
  if (s.scripted) {
    if (s.pos < s.script.size()) return s.script[s.pos++] & 1u;
    s.pos++;
    return s.fallback;
  }
  s.prng += 0x9e3779b97f4a7c15ull;
  return static_cast<uint32_t>(mix64(s.prng) >> 63);
}
// pseudo-random but fully determined by `seed`
inline void coin_prng(uint64_t seed) {
  CoinState& s = coin_state();
  s.scripted = false; s.prng = mix64(seed); s.flips = 0; s.pos = 0;
  datasketches::random_utils::random_bit.source = &coin_source;
}
// explicit outcome sequence (exhaustive enumeration); bits beyond the script read as `fallback`
inline void coin_script(std::vector<uint8_t> bits, uint8_t fallback = 0) {
  CoinState& s = coin_state();
  s.scripted = true; s.script = std::move(bits); s.pos = 0; s.fallback = fallback; s.flips = 0;
  datasketches::random_utils::random_bit.source = &coin_source;
}
inline uint64_t coin_flips() { return coin_state().flips; }
// seeds the library's mt19937_64 (VarOpt, EBPPS, density shuffle, classic quantiles stride offset)
inline void rand_seed(uint64_t seed) {
  datasketches::random_utils::override_seed(seed);
  datasketches::random_utils::next_double.reset();
  datasketches::random_utils::next_uint64.reset();
}
// make every internal random draw of a case a function of one value
inline void own_randomness(uint64_t seed) { coin_prng(seed); rand_seed(mix64(seed ^ 0xabcdef)); }

}  // namespace vf
#endif
