// C17 — t-digest conserves weight, keeps exact extremes and is monotone.
//
// Sub-property "main": a generated history over 4 digest slots (own k each; double or float per case) of
//   single updates with edge values (NaN = ignored, +-inf = accepted, then only weight + crash-freedom are checked),
//   bulk value patterns (sorted, reversed, random, clusters, constant, heavy duplicates, zigzag, wide dynamic range,
//   chains of adjacent floating-point numbers, duplicate runs), merges in any shape (incl. self-merge, merges of
//   copies, different k), explicit compress, copies, fresh digests, serialize/deserialize round trips (bytes and
//   stream, with and without the buffer) after which the *deserialized* object carries the history on, and query
//   batteries. Queries and buffer-less serialization compress as a side effect, so the position of those ops in the
//   history is what decides where compressions (and the alternation of the merge direction) happen; therefore the
//   expensive battery runs only at generated "q" ops and at the end, the side-effect-free checks run after every op.
//   Model per slot: the multiset of accepted values (exact count, exact extremes).
// Sub-property "smallk": the same history language with one small k (10..20) for all digests, so that weighted centroids,
//   many compressions and direction changes happen within a few hundred values.
// Sub-property "acc": long streams (1e5..1e6 distinct values; sorted / reversed / shuffled / stride arrival; linear,
//   log-uniform or cubic spacing; 1..8 part digests merged sequentially, as a chain or as a balanced tree; optional
//   interleaved queries): rank error of get_rank and of get_quantile against the exact rank, bounded by a calibrated
//   multiple of the K_2 cluster size q(1-q)*Z/(2k) + 1/n, which is what makes the tails tighter than the middle
//   (weak, calibrated claim; constants and calibration next to acc_constants below).
//
// Findings of this harness on the pinned tree (both fixed in /repo since; the checks keep their keys):
//   * get_quantile interpolated between two centroids with the weights swapped (non-monotone quantiles, larger rank error):
//     KEY_QMONO, KEY_QACC, out/proposed/C17-1.diff, fixed by ed031f2; replays/C17-quantile-monotone-k10-sorted9.replay
//   * get_quantile one rounding step outside [min,max] (weighted_average not clamped): KEY_QRANGE, out/proposed/C17-2.diff,
//     fixed by e8f00b5; replays/C17-quantile-range-*.replay
// Keyed failures are recorded and raised at the END of the case, so that every other check of the case is still evaluated
// while a finding is open.
#include "vf/core.hpp"
#include <tdigest.hpp>
#include <limits>
#include <sstream>
#include <numeric>
#include <iomanip>
#include <memory>

using namespace datasketches;
using vf::Case; using vf::Op;

namespace {

// finding (fixed by ed031f2): see out/proposed/C17-1.diff
const char* const KEY_QMONO =
    "C17|tdigest|get_quantile decreases while the rank increases|two ranks between the same two centroids, at least one of weight>1";

// finding (fixed by e8f00b5): see out/proposed/C17-2.diff
const char* const KEY_QRANGE =
    "C17|tdigest|get_quantile one rounding step outside [min,max]|interpolation between two centroids with equal or nearly equal means at an extreme (constant stream, duplicates of min or max)";

// finding (fixed by ed031f2): same root cause and patch as KEY_QMONO (out/proposed/C17-1.diff)
const char* const KEY_QACC =
    "C17|tdigest|get_quantile rank error above the calibrated cluster-size bound on a long stream|rank between two centroids, answer at the wrong end of the pair";

template <typename T> struct Lim;
template <> struct Lim<double> { static constexpr double big = 1e150; static const char* name() { return "double"; } };
template <> struct Lim<float> { static constexpr double big = 1e18; static const char* name() { return "float"; } };

struct Deferred {  // a keyed (known-finding) failure is raised only at the end of the case, so every other check still runs
  bool set = false;
  std::string msg;
};

uint16_t k_from(int64_t v) {
  if (v < 10) return 10;
  if (v > 65535) return 65535;
  return static_cast<uint16_t>(v);
}
size_t capacity_of(uint16_t k) { return 2 * static_cast<size_t>(k) + (k < 30 ? 30 : 10); }  // what to_string calls "Centroids capacity"

// ---------------------------------------------------------------- to_string summary (side-effect free view)
struct Summary { long centroids = -1, buffered = -1, capacity = -1; int reverse = -1; };
template <typename T> Summary summary(const tdigest<T>& td) {
  Summary s;
  std::string str = td.to_string(false);
  std::istringstream in(str);
  std::string line;
  while (std::getline(in, line)) {
    size_t c = line.find(':');
    if (c == std::string::npos) continue;
    std::string key = line.substr(0, c), val = line.substr(c + 1);
    size_t a = key.find_first_not_of(" #"), b = key.find_last_not_of(' ');
    if (a == std::string::npos) continue;
    key = key.substr(a, b - a + 1);
    size_t v = val.find_first_not_of(' ');
    if (v == std::string::npos) continue;
    val = val.substr(v);
    if (key == "Centroids") s.centroids = atol(val.c_str());
    else if (key == "Buffered") s.buffered = atol(val.c_str());
    else if (key == "Centroids capacity") s.capacity = atol(val.c_str());
    else if (key == "Reverse Merge") s.reverse = val.rfind("true", 0) == 0 ? 1 : 0;
  }
  return s;
}

// ---------------------------------------------------------------- model
template <typename T> struct Slot {
  tdigest<T> td;
  uint16_t k;
  std::vector<T> vals;      // accepted values (NaN never enters)
  bool sorted = true;
  uint64_t n = 0;
  T mn = std::numeric_limits<T>::infinity(), mx = -std::numeric_limits<T>::infinity();
  bool tainted = false;     // an infinity was accepted: only weight and crash-freedom are claimed from here on
  uint64_t buf = 0;         // modelled buffer fill (labels only, re-synchronised from to_string)
  unsigned merges_in = 0;   // non-empty digests merged into this one (inherited through copies)
  explicit Slot(uint16_t kk) : td(kk), k(kk) {}
  void add_model(T v) {
    if (std::isinf(v)) tainted = true;
    if (!vals.empty() && v < vals.back()) sorted = false;
    vals.push_back(v);
    ++n;
    if (v < mn) mn = v;
    if (v > mx) mx = v;
  }
  void sort_model() { if (!sorted) { std::sort(vals.begin(), vals.end()); sorted = true; } }
};

struct CaseStats {
  unsigned merges = 0, self_merges = 0, compressions = 0, batteries = 0, big_batteries = 0, roundtrips = 0, nan_updates = 0, inf_updates = 0;
  unsigned merge_with_buffers = 0, merge_diff_k = 0, reverse_compress = 0, merged_battery = 0;
  uint32_t patterns = 0;
  size_t max_centroids = 0;
  bool centroid_sum_checked = false, weighted = false;
};

template <typename T, typename F> bool throws_runtime(F f) {
  try { f(); } catch (const std::runtime_error&) { return true; } catch (const std::exception&) { return false; }
  return false;
}
template <typename F> bool throws_invalid(F f) {
  try { f(); } catch (const std::invalid_argument&) { return true; } catch (const std::exception&) { return false; }
  return false;
}

// checks without side effects on the digest: run after every operation
template <typename T> void cheap_check(const Slot<T>& s, const char* after) {
  const tdigest<T>& td = s.td;
  VF_CHECK(td.get_total_weight() == s.n, "total-weight", "after " << after << ": total weight " << td.get_total_weight() << ", accepted values " << s.n);
  VF_CHECK(td.is_empty() == (s.n == 0), "is-empty", "after " << after << ": is_empty " << td.is_empty() << " with " << s.n << " accepted values");
  VF_CHECK(td.get_k() == s.k, "k", "after " << after << ": get_k " << td.get_k() << " configured " << s.k);
  if (s.n == 0) {
    VF_CHECK((throws_runtime<T>([&] { td.get_min_value(); })), "empty-min-throws", "get_min_value on an empty digest did not throw runtime_error");
    VF_CHECK((throws_runtime<T>([&] { td.get_max_value(); })), "empty-max-throws", "get_max_value on an empty digest did not throw runtime_error");
    return;
  }
  T mn = td.get_min_value(), mx = td.get_max_value();
  if (s.tainted) return;
  VF_CHECK(mn == s.mn, "min-exact", "after " << after << ": min " << mn << " exact " << s.mn << " (n=" << s.n << ")");
  VF_CHECK(mx == s.mx, "max-exact", "after " << after << ": max " << mx << " exact " << s.mx << " (n=" << s.n << ")");
}

const double RANK_TOL = 4 * std::numeric_limits<double>::epsilon();   // ranks are doubles in [0,1] for both value types

template <typename T> T next_up(T v) { return std::nextafter(v, std::numeric_limits<T>::infinity()); }
template <typename T> T next_down(T v) { return std::nextafter(v, -std::numeric_limits<T>::infinity()); }

// the query battery (compresses the digest as a side effect, like any query)
template <typename T> void battery(Slot<T>& s, uint64_t seed, CaseStats& cst, Deferred& def, Deferred& defr) {
  const tdigest<T>& td = s.td;
  const T inf = std::numeric_limits<T>::infinity();
  const T nan = std::numeric_limits<T>::quiet_NaN();
  if (s.n == 0) {
    T sp[1] = {0};
    VF_CHECK((throws_runtime<T>([&] { td.get_rank(0); })), "empty-rank-throws", "get_rank on an empty digest did not throw runtime_error");
    VF_CHECK((throws_runtime<T>([&] { td.get_quantile(0.5); })), "empty-quantile-throws", "get_quantile on an empty digest did not throw runtime_error");
    VF_CHECK((throws_runtime<T>([&] { td.get_CDF(sp, 1); })), "empty-cdf-throws", "get_CDF on an empty digest did not throw runtime_error");
    VF_CHECK((throws_runtime<T>([&] { td.get_PMF(sp, 1); })), "empty-pmf-throws", "get_PMF on an empty digest did not throw runtime_error");
    return;
  }
  vf::Rng r(seed);
  if (s.tainted) {  // infinities accepted: crash freedom (sanitizers) and weight only
    try { (void)td.get_rank(0); (void)td.get_rank(inf); (void)td.get_rank(-inf); } catch (const std::exception&) {}
    try { (void)td.get_quantile(r.unit()); (void)td.get_quantile(0); (void)td.get_quantile(1); } catch (const std::exception&) {}
    try { T sp[2] = {-1, 1}; (void)td.get_CDF(sp, 2); (void)td.get_PMF(sp, 2); } catch (const std::exception&) {}
    try { (void)td.serialize(0, false); } catch (const std::exception&) {}
    s.buf = 0;
    cheap_check(s, "queries on a digest holding infinities");
    vf::label("battery-tainted");
    return;
  }
  cst.batteries++;
  if (s.merges_in) cst.merged_battery++;
  // half of the batteries put get_quantile FIRST, before anything that compresses: a quantile query must fold the buffered values
  // in by itself (the other half starts with the rank grid below, so both orders of the first compress point are covered)
  if (seed & 1) {
    const T q0 = td.get_quantile(0), q1 = td.get_quantile(1), qm = td.get_quantile(0.5);
    VF_CHECK(q0 == s.mn, "quantile-first-q0", "first query after " << s.buf << " buffered values: get_quantile(0) = " << q0 << ", min " << s.mn << " (n=" << s.n << ")");
    VF_CHECK(q1 == s.mx, "quantile-first-q1", "first query after " << s.buf << " buffered values: get_quantile(1) = " << q1 << ", max " << s.mx << " (n=" << s.n << ")");
    VF_CHECK(qm >= s.mn && qm <= s.mx, "quantile-first-range", "get_quantile(0.5) = " << qm << " outside [min, max]");
    vf::label("battery-quantile-first");
  }
  s.sort_model();
  // ---- value grid: distinct inputs (all, or a sample plus both ends), midpoints, neighbours, outside values
  std::vector<T> dist;
  {
    std::vector<T> all;
    all.reserve(s.vals.size());
    for (T v : s.vals) if (all.empty() || all.back() != v) all.push_back(v);   // -0.0 == 0.0: one point
    const size_t cap = 160;
    if (all.size() <= cap) dist = all;
    else {
      std::vector<size_t> idx;
      for (size_t i = 0; i < 4; ++i) { idx.push_back(i); idx.push_back(all.size() - 1 - i); }
      size_t start = r.below(all.size() - 40);
      for (size_t i = 0; i < 30; ++i) idx.push_back(start + i);               // a dense run of neighbours
      while (idx.size() < cap) idx.push_back(r.below(all.size()));
      std::sort(idx.begin(), idx.end());
      idx.erase(std::unique(idx.begin(), idx.end()), idx.end());
      for (size_t i : idx) dist.push_back(all[i]);
    }
  }
  std::vector<T> grid;
  for (size_t i = 0; i < dist.size(); ++i) {
    grid.push_back(dist[i]);
    if (i + 1 < dist.size()) {
      T mid = dist[i] / 2 + dist[i + 1] / 2;
      if (mid > dist[i] && mid < dist[i + 1]) grid.push_back(mid);
      if (r.below(4) == 0) { grid.push_back(next_up(dist[i])); grid.push_back(next_down(dist[i + 1])); }
    }
  }
  const T span = s.mx - s.mn;
  grid.push_back(next_down(s.mn)); grid.push_back(next_up(s.mx));
  grid.push_back(s.mn - span - 1); grid.push_back(s.mx + span + 1);
  grid.push_back(static_cast<T>(-Lim<T>::big) * 4); grid.push_back(static_cast<T>(Lim<T>::big) * 4);
  grid.push_back(-std::numeric_limits<T>::max()); grid.push_back(std::numeric_limits<T>::max());
  grid.push_back(-inf); grid.push_back(inf);
  std::sort(grid.begin(), grid.end());
  grid.erase(std::unique(grid.begin(), grid.end()), grid.end());

  // ---- rank
  std::vector<double> rk(grid.size());
  for (size_t i = 0; i < grid.size(); ++i) {
    const T v = grid[i];
    const double x = td.get_rank(v);
    rk[i] = x;
    VF_CHECK(x >= 0.0 && x <= 1.0, "rank-range", "get_rank(" << v << ") = " << x << " outside [0,1] (n=" << s.n << ", k=" << s.k << ")");
    if (v < s.mn) VF_CHECK(x == 0.0, "rank-below-min", "get_rank(" << v << ") = " << x << " for a value below min " << s.mn);
    if (v > s.mx) VF_CHECK(x == 1.0, "rank-above-max", "get_rank(" << v << ") = " << x << " for a value above max " << s.mx);
    // Rounding allowance: get_rank evaluates (below + delta * (v - m1) / (m2 - m1)) / W left to right, and fl(fl(delta * a) / b) can
    // exceed delta by one unit in the last place when a is one step below b, i.e. the rank just below a centroid mean can come out
    // 6e-17 above the rank at the mean (seen in the first thorough run: adjacent doubles, k=11, n=27902). Not provably exact, so
    // a stated tolerance applies (README rule 3): 4 machine epsilons of the rank scale 1.0.
    if (i > 0) VF_CHECK(x >= rk[i - 1] - RANK_TOL, "rank-monotone", std::setprecision(17) << "get_rank(" << grid[i - 1] << ") = " << rk[i - 1] << " > get_rank(" << v << ") = " << x
                        << " (n=" << s.n << ", k=" << s.k << ")");
  }
  s.buf = 0;
  cheap_check(s, "rank queries");
  VF_CHECK(throws_invalid([&] { td.get_rank(nan); }), "rank-nan-refused", "get_rank(NaN) did not throw invalid_argument");

  // ---- centroid bound (after compression), from the side-effect-free summary
  Summary sm = summary(td);
  if (sm.centroids >= 0) {
    cst.max_centroids = std::max<size_t>(cst.max_centroids, static_cast<size_t>(sm.centroids));
    VF_CHECK(static_cast<size_t>(sm.centroids) <= capacity_of(s.k), "centroid-bound", "centroids " << sm.centroids << " > 2k+fudge = " << capacity_of(s.k)
             << " (k=" << s.k << ", n=" << s.n << ")");
    if (s.n > 4 * static_cast<uint64_t>(s.k) && static_cast<uint64_t>(sm.centroids) < s.n) cst.weighted = true;
  } else {
    vf::label("summary-unparsed");
  }

  // ---- quantile
  std::vector<double> ranks = {0.0, 1.0, 0.5, 1e-300, 1.0 - 1e-16, 0.5 / s.n, 1.0 / s.n, 1.0 - 1.0 / s.n, 1.0 - 0.5 / s.n, 2.0 / s.n, 1.5 / s.n};
  for (int i = 0; i < 40; ++i) ranks.push_back(r.unit());
  for (int sw = 0; sw < 3; ++sw) {  // fine sweeps: many ranks between the same two centroids
    double r0 = r.unit();
    double step = sw == 0 ? 0.125 / s.n : sw == 1 ? 1.0 / s.n : 1.0 / (64.0 * s.k);
    for (int j = 0; j < 40; ++j) { double x = r0 + j * step; if (x >= 0 && x <= 1) ranks.push_back(x); }
  }
  for (int i = 0; i < 12; ++i) {  // ranks at and around item boundaries
    uint64_t j = r.below(s.n + 1);
    ranks.push_back(static_cast<double>(j) / s.n);
    double h = (j + 0.5) / s.n; if (h <= 1) ranks.push_back(h);
  }
  for (double& x : ranks) x = std::min(1.0, std::max(0.0, x));   // n = 1: 2/n etc. lie outside the accepted domain
  std::sort(ranks.begin(), ranks.end());
  const double scale = std::max(std::fabs(static_cast<double>(s.mn)), std::fabs(static_cast<double>(s.mx)));
  // rounding allowance for the interpolation (x1*w1 + x2*w2)/(w1+w2): a few units in the last place of the larger extreme
  const double tol = 8.0 * static_cast<double>(std::numeric_limits<T>::epsilon()) * scale;
  T prevq = 0; double prevr = 0;
  for (size_t i = 0; i < ranks.size(); ++i) {
    const double rr = ranks[i];
    const T q = td.get_quantile(rr);
    // beyond the rounding allowance: plain failure; inside it (exact claim of the statement): known finding, deferred
    VF_CHECK(static_cast<double>(q) >= static_cast<double>(s.mn) - tol && static_cast<double>(q) <= static_cast<double>(s.mx) + tol, "quantile-range",
             std::setprecision(17) << "get_quantile(" << rr << ") = " << q << " outside [min,max] = [" << s.mn << "," << s.mx << "] (n=" << s.n << ", k=" << s.k << ")");
    if (!defr.set && !(q >= s.mn && q <= s.mx)) {
      std::ostringstream os;
      os << std::setprecision(17) << "get_quantile(" << rr << ") = " << q << " outside [min,max] = [" << s.mn << "," << s.mx << "] (" << Lim<T>::name() << ", n=" << s.n << ", k=" << s.k << ")";
      defr.set = true; defr.msg = os.str();
    }
    if (rr == 0.0) VF_CHECK(q == s.mn, "quantile-0-is-min", "get_quantile(0) = " << q << " min " << s.mn);
    if (rr == 1.0) VF_CHECK(q == s.mx, "quantile-1-is-max", "get_quantile(1) = " << q << " max " << s.mx);
    if (i > 0 && !def.set && !(static_cast<double>(q) >= static_cast<double>(prevq) - tol)) {
      std::ostringstream os;
      os << std::setprecision(17) << "get_quantile(" << prevr << ") = " << prevq << " > get_quantile(" << rr << ") = " << q << " (" << Lim<T>::name() << ", n=" << s.n
         << ", k=" << s.k << ", centroids=" << sm.centroids << ", tolerance " << tol << ")";
      def.set = true; def.msg = os.str();
    }
    prevq = q; prevr = rr;
  }
  VF_CHECK(throws_invalid([&] { td.get_quantile(-0.01); }), "quantile-rank-refused", "get_quantile(-0.01) did not throw invalid_argument");
  VF_CHECK(throws_invalid([&] { td.get_quantile(1.01); }), "quantile-rank-refused", "get_quantile(1.01) did not throw invalid_argument");

  // ---- CDF / PMF agree with rank
  {
    size_t m = static_cast<size_t>(r.below(21));
    std::vector<T> sp;
    if (m > 0) {
      std::vector<size_t> idx;
      for (size_t i = 0; i < m; ++i) idx.push_back(r.below(grid.size()));
      std::sort(idx.begin(), idx.end());
      idx.erase(std::unique(idx.begin(), idx.end()), idx.end());
      for (size_t i : idx) sp.push_back(grid[i]);
    }
    m = sp.size();
    auto cdf = td.get_CDF(sp.data(), static_cast<uint32_t>(m));
    auto pmf = td.get_PMF(sp.data(), static_cast<uint32_t>(m));
    VF_CHECK(cdf.size() == m + 1 && pmf.size() == m + 1, "cdf-size", "CDF/PMF sizes " << cdf.size() << "/" << pmf.size() << " for " << m << " split points");
    double sum = 0;
    for (size_t i = 0; i < m; ++i) {
      const double x = td.get_rank(sp[i]);
      VF_CHECK(cdf[i] == x, "cdf-is-rank", std::setprecision(17) << "CDF[" << i << "] = " << cdf[i] << " but get_rank(" << sp[i] << ") = " << x);
    }
    VF_CHECK(cdf[m] == 1.0, "cdf-last-is-1", "last CDF entry " << cdf[m]);
    for (size_t i = 0; i <= m; ++i) {
      const double expect = i == 0 ? cdf[0] : cdf[i] - cdf[i - 1];
      VF_CHECK(pmf[i] == expect, "pmf-is-rank-difference", std::setprecision(17) << "PMF[" << i << "] = " << pmf[i] << " expected " << expect);
      VF_CHECK(pmf[i] >= -RANK_TOL, "pmf-nonnegative", "PMF[" << i << "] = " << pmf[i]);
      sum += pmf[i];
    }
    VF_CHECK(std::fabs(sum - 1.0) <= 1e-12 * (m + 1), "pmf-sums-to-1", std::setprecision(17) << "PMF sums to " << sum);
    // refused split points: NaN, not increasing, duplicates
    if (grid.size() >= 2) {
      T bad1[2] = {grid[1], grid[0]};
      T bad2[2] = {grid[0], grid[0]};
      T bad3[2] = {grid[0], nan};
      VF_CHECK(throws_invalid([&] { td.get_CDF(bad1, 2); }), "splits-refused", "decreasing split points accepted by get_CDF");
      VF_CHECK(throws_invalid([&] { td.get_PMF(bad2, 2); }), "splits-refused", "duplicate split points accepted by get_PMF");
      VF_CHECK(throws_invalid([&] { td.get_CDF(bad3, 2); }), "splits-refused", "NaN split point accepted by get_CDF");
    }
  }
  cheap_check(s, "query battery");
  if (s.n >= 2 * static_cast<uint64_t>(s.k)) cst.big_batteries++;
}

// ---------------------------------------------------------------- value patterns
enum { P_SORTED, P_REVERSED, P_RANDOM, P_CLUSTERS, P_CONSTANT, P_DUPS, P_ZIGZAG, P_WIDE, P_ADJACENT, P_RUNS, P_BELL, P_NPATTERNS };

template <typename T> void fill_pattern(std::vector<T>& out, uint64_t n, int pat, uint64_t seed) {
  vf::Rng r(seed);
  static const double scales[] = {1, 1, 1e-3, 1e3, 1e6, 1e-20, 1e12};
  const double scale = scales[r.below(7)];
  double offset = 0;
  switch (r.below(6)) {
    case 0: offset = -scale * static_cast<double>(n) / 2; break;
    case 1: offset = 1e3 * scale; break;
    case 2: offset = -1e6 * scale; break;   // large offset, small steps: little precision left for the means
    default: break;
  }
  out.clear();
  out.reserve(n);
  auto put = [&](double x) { out.push_back(static_cast<T>(x)); };
  switch (pat) {
    case P_SORTED: for (uint64_t i = 0; i < n; ++i) put(offset + scale * static_cast<double>(i)); break;
    case P_REVERSED: for (uint64_t i = 0; i < n; ++i) put(offset + scale * static_cast<double>(n - 1 - i)); break;
    case P_RANDOM: for (uint64_t i = 0; i < n; ++i) put(offset + scale * r.unit() * 1000); break;
    case P_CLUSTERS: {
      const uint64_t c = 2 + r.below(4);
      double centers[6];
      for (uint64_t j = 0; j < c; ++j) centers[j] = offset + scale * (r.unit() * 2000 - 1000);
      const double spread = scale * (r.below(2) ? 1e-6 : 1e-2);
      for (uint64_t i = 0; i < n; ++i) put(centers[r.below(c)] + spread * (r.unit() - 0.5));
      break;
    }
    case P_CONSTANT: { const double cst = offset + scale * (r.unit() * 20 - 10) * (r.below(3) ? 1 : 0.1); for (uint64_t i = 0; i < n; ++i) put(cst); break; }
    case P_DUPS: { const uint64_t m = 1 + r.below(12); for (uint64_t i = 0; i < n; ++i) put(offset + scale * static_cast<double>(r.below(m))); break; }
    case P_ZIGZAG: for (uint64_t i = 0; i < n; ++i) put(offset + scale * static_cast<double>((i & 1) ? n - i : i)); break;
    case P_WIDE: for (uint64_t i = 0; i < n; ++i) { double m = std::exp(r.unit() * 60 - 30); put((r.below(2) ? m : -m) * scale); } break;
    case P_ADJACENT: {  // 64 adjacent floating-point numbers, drawn at random
      T nb[64];
      nb[0] = static_cast<T>(offset != 0 ? offset : scale * (1 + r.unit()));
      for (int j = 1; j < 64; ++j) nb[j] = next_up(nb[j - 1]);
      const uint64_t width = 2 + r.below(63);
      for (uint64_t i = 0; i < n; ++i) out.push_back(nb[r.below(width)]);
      break;
    }
    case P_RUNS: { const uint64_t run = 2 + r.below(40); for (uint64_t i = 0; i < n; ++i) put(offset + scale * static_cast<double>(i / run)); break; }
    case P_BELL: default: for (uint64_t i = 0; i < n; ++i) put(offset + scale * 100 * (r.unit() + r.unit() + r.unit() + r.unit() - 2)); break;
  }
}

template <typename T> T single_value(const Slot<T>& s, int sel, uint64_t arg) {
  const T inf = std::numeric_limits<T>::infinity();
  const T big = static_cast<T>(Lim<T>::big);
  switch (sel) {
    case 0: return static_cast<T>(static_cast<int64_t>(arg % 21) - 10);
    case 1: return static_cast<T>((vf::Rng(arg).unit() * 2 - 1) * 1000);
    case 2: return s.n && !s.tainted ? s.mn : T(0);
    case 3: return s.n && !s.tainted ? s.mx : T(0);
    case 4: return s.n && !s.tainted ? (arg & 1 ? next_down(s.mn) : static_cast<T>(s.mn - std::fabs(s.mn) - 1)) : T(-1);
    case 5: return s.n && !s.tainted ? (arg & 1 ? next_up(s.mx) : static_cast<T>(s.mx + std::fabs(s.mx) + 1)) : T(1);
    case 6: return std::numeric_limits<T>::quiet_NaN();
    case 7: return inf;
    case 8: return -inf;
    case 9: return arg & 1 ? T(-0.0) : T(0.0);
    case 10: return (arg & 1 ? -1 : 1) * std::numeric_limits<T>::denorm_min() * static_cast<T>(1 + (arg >> 1) % 5);
    case 11: return arg & 1 ? -big : big;
    case 12: return s.vals.empty() ? T(3) : s.vals[arg % s.vals.size()];
    default: return std::numeric_limits<T>::min() * static_cast<T>((arg & 1) ? -1 : 1);
  }
}
const int N_SINGLE = 14;

// ---------------------------------------------------------------- serialized image (documented layout of this library's own format)
template <typename T> struct Image { bool multi = false; uint32_t num_centroids = 0, num_buffered = 0; uint64_t weight_sum = 0; };
template <typename T> Image<T> parse_image(const uint8_t* p, size_t size) {
  Image<T> im;
  using W = typename tdigest<T>::W;
  if (size < 16 || p[0] != 2) return im;   // empty or single value
  im.multi = true;
  memcpy(&im.num_centroids, p + 8, 4);
  memcpy(&im.num_buffered, p + 12, 4);
  const size_t csz = sizeof(T) + sizeof(W);
  size_t off = 16 + 2 * sizeof(T);
  for (uint32_t i = 0; i < im.num_centroids && off + csz <= size; ++i, off += csz) { W w; memcpy(&w, p + off + sizeof(T), sizeof(W)); im.weight_sum += w; }
  return im;
}

const size_t MAX_MODEL = 400000;   // accepted values per slot (memory/time bound of the model)

template <typename T> void prop_main_t(const Case& cs) {
  std::vector<Slot<T>> sl;
  for (int i = 0; i < 4; ++i) sl.emplace_back(k_from(cs.get("k" + std::to_string(i), 100)));
  CaseStats cst;
  Deferred def, defr;
  for (auto& s : sl) cheap_check(s, "construction");
  auto note_flip = [&](Slot<T>& s, const Summary& before) {
    Summary after = summary(s.td);
    if (before.reverse >= 0 && after.reverse >= 0 && before.reverse != after.reverse) { cst.compressions++; if (before.reverse == 1) cst.reverse_compress++; }
    if (after.buffered >= 0) s.buf = static_cast<uint64_t>(after.buffered);
  };
  for (const Op& op : cs.ops) {
    const size_t d = op.uarg(0) % 4;
    Slot<T>& s = sl[d];
    if (op.name == "upd") {
      const int sel = static_cast<int>(op.uarg(1) % N_SINGLE);
      const T v = single_value(s, sel, op.uarg(2));
      if (s.n >= MAX_MODEL) continue;
      Summary before = summary(s.td);
      s.td.update(v);
      if (std::isnan(v)) cst.nan_updates++;
      else { s.add_model(v); if (std::isinf(v)) cst.inf_updates++; }
      note_flip(s, before);
      cheap_check(s, "update");
    } else if (op.name == "bulk") {
      uint64_t n = op.uarg(1) % 40001;
      const int pat = static_cast<int>(op.uarg(2) % P_NPATTERNS);
      if (s.n + n > MAX_MODEL) n = MAX_MODEL - std::min<uint64_t>(MAX_MODEL, s.n);
      std::vector<T> vals;
      fill_pattern(vals, n, pat, op.uarg(3));
      const uint64_t cap = 4 * capacity_of(s.k);
      for (T v : vals) {
        if (s.buf == cap) { cst.compressions++; s.buf = 0; }
        s.td.update(v);
        s.add_model(v);
        s.buf++;
      }
      if (n) cst.patterns |= 1u << pat;
      Summary sm = summary(s.td);
      if (sm.buffered >= 0 && static_cast<uint64_t>(sm.buffered) != s.buf) { vf::label("buffer-model-drift"); s.buf = static_cast<uint64_t>(sm.buffered); }
      cheap_check(s, "bulk update");
    } else if (op.name == "merge") {
      const size_t src = op.uarg(1) % 4;
      Slot<T>& o = sl[src];
      if (s.n + o.n > MAX_MODEL) continue;
      Summary before = summary(s.td);
      if (o.n) {
        cst.merges++;
        if (src == d) cst.self_merges++;
        if (s.buf && o.buf) cst.merge_with_buffers++;
        if (s.k != o.k) cst.merge_diff_k++;
      }
      const uint64_t on = o.n; const unsigned om = o.merges_in;
      s.td.merge(o.td);
      if (on) {
        std::vector<T> ov(o.vals.begin(), o.vals.begin() + static_cast<ptrdiff_t>(on));   // copy first: src may be the destination
        const bool ot = o.tainted;
        for (T v : ov) s.add_model(v);
        s.tainted = s.tainted || ot;
        s.merges_in += 1 + om;
      }
      note_flip(s, before);
      cheap_check(s, "merge (destination)");
      if (src != d) cheap_check(o, "merge (source must be unchanged)");
    } else if (op.name == "compress") {
      Summary before = summary(s.td);
      s.td.compress();
      note_flip(s, before);
      cheap_check(s, "compress");
    } else if (op.name == "copy") {
      const size_t src = op.uarg(1) % 4;
      if (src != d) { Slot<T> tmp(sl[src]); s = std::move(tmp); }
      else { tdigest<T> cp(s.td); s.td = cp; }
      cheap_check(s, "copy");
      vf::label("copy");
    } else if (op.name == "new") {
      Slot<T> fresh(s.k);
      s = std::move(fresh);
      cheap_check(s, "new");
    } else if (op.name == "ser") {
      const bool stream = op.uarg(1) & 1, with_buffer = op.uarg(1) & 2;
      Summary before = summary(s.td);
      if (stream) {
        std::stringstream ss(std::ios::in | std::ios::out | std::ios::binary);
        s.td.serialize(ss, with_buffer);
        note_flip(s, before);
        std::string bytes = ss.str();
        Image<T> im = parse_image<T>(reinterpret_cast<const uint8_t*>(bytes.data()), bytes.size());
        if (im.multi) {
          VF_CHECK(im.weight_sum + im.num_buffered == s.n, "centroid-weights-sum", "stream image: centroid weights " << im.weight_sum << " + buffered " << im.num_buffered << " != accepted " << s.n);
          if (!with_buffer) VF_CHECK(im.num_centroids <= capacity_of(s.k), "centroid-bound", "image holds " << im.num_centroids << " centroids, 2k+fudge = " << capacity_of(s.k));
          cst.centroid_sum_checked = true;
          cst.max_centroids = std::max<size_t>(cst.max_centroids, im.num_centroids);
        }
        tdigest<T> back = tdigest<T>::deserialize(ss);
        s.td = std::move(back);
      } else {
        (void)s.td.get_serialized_size_bytes(with_buffer);
        auto bytes = s.td.serialize(0, with_buffer);
        note_flip(s, before);
        Image<T> im = parse_image<T>(bytes.data(), bytes.size());
        if (im.multi) {
          VF_CHECK(im.weight_sum + im.num_buffered == s.n, "centroid-weights-sum", "byte image: centroid weights " << im.weight_sum << " + buffered " << im.num_buffered << " != accepted " << s.n);
          if (!with_buffer) VF_CHECK(im.num_centroids <= capacity_of(s.k), "centroid-bound", "image holds " << im.num_centroids << " centroids, 2k+fudge = " << capacity_of(s.k));
          cst.centroid_sum_checked = true;
          cst.max_centroids = std::max<size_t>(cst.max_centroids, im.num_centroids);
        }
        // fresh malloc block of exactly the image size: over-reads are visible to ASan
        std::unique_ptr<uint8_t[]> blk(new uint8_t[bytes.size()]);
        memcpy(blk.get(), bytes.data(), bytes.size());
        tdigest<T> back = tdigest<T>::deserialize(blk.get(), bytes.size());
        s.td = std::move(back);
      }
      cst.roundtrips++;
      Summary after = summary(s.td);
      if (after.buffered >= 0) s.buf = static_cast<uint64_t>(after.buffered);
      cheap_check(s, with_buffer ? "serialize(with buffer)/deserialize" : "serialize/deserialize");
    } else if (op.name == "q") {
      Summary before = summary(s.td);
      battery(s, op.uarg(1), cst, def, defr);
      note_flip(s, before);
    } else {
      continue;
    }
  }
  // final batteries
  for (size_t i = 0; i < sl.size(); ++i) {
    Summary before = summary(sl[i].td);
    battery(sl[i], vf::mix64(0xC17 + i), cst, def, defr);
    note_flip(sl[i], before);
  }
  // ---- labels
  if (cst.merges) vf::label("merge");
  if (cst.merges >= 3) vf::label("merges>=3");
  if (cst.self_merges) vf::label("self-merge");
  if (cst.merge_with_buffers) vf::label("merge-both-buffered");
  if (cst.merge_diff_k) vf::label("merge-different-k");
  if (cst.compressions >= 2) vf::label("compressions>=2");
  if (cst.compressions >= 10) vf::label("compressions>=10");
  if (cst.reverse_compress) vf::label("reverse-direction-compress");
  if (cst.roundtrips) vf::label("roundtrip");
  if (cst.nan_updates) vf::label("nan-update");
  if (cst.inf_updates) vf::label("inf-update");
  if (cst.big_batteries) vf::label("battery-n>=2k");
  if (cst.merged_battery) vf::label("battery-on-merged");
  if (cst.weighted) vf::label("weighted-centroids");
  if (cst.centroid_sum_checked) vf::label("image-weights-checked");
  if (cst.max_centroids > sl[0].k) vf::label("centroids>k");
  int np = 0; for (int p = 0; p < P_NPATTERNS; ++p) if (cst.patterns & (1u << p)) ++np;
  if (np >= 3) vf::label("patterns>=3");
  static const char* pn[] = {"sorted", "reversed", "random", "clusters", "constant", "dups", "zigzag", "wide", "adjacent", "runs", "bell"};
  for (int p = 0; p < P_NPATTERNS; ++p) if (cst.patterns & (1u << p)) vf::label(std::string("pat:") + pn[p]);
  vf::label(std::string("type:") + Lim<T>::name());
  if (cst.merges >= 1 && cst.compressions >= 2 && cst.merged_battery >= 1) vf::nontrivial();
  // ---- the deferred known finding
  VF_CHECK_K(!def.set, "quantile-monotone", KEY_QMONO, def.msg);
  VF_CHECK_K(!defr.set, "quantile-range-exact", KEY_QRANGE, defr.msg);
}

void prop_main(const Case& cs) {
  if (cs.get("type", 0) & 1) prop_main_t<float>(cs); else prop_main_t<double>(cs);
}

// ================================================================ accuracy on long streams (weak, calibrated)
// K_2 scale function with normaliser: a cluster around rank q holds at most q(1-q) * Z / (2k) of the weight,
// Z = 4 ln(n / 2k) + 24. The claimed bound is a fixed fraction of that figure plus a few items.
// Calibration (12 seeds x ~1000 cases, fast build, C17_CALIB=1), largest observed err / (cluster fraction + 1/n):
//   get_rank      class A 0.19, class B 0.61 (same on the tree before and after the get_quantile fix)
//   get_quantile  class A 0.25, class B 1.16 with the interpolation weights in the right order (out/proposed/C17-1.diff);
//                 1.02 / 3.13 on the tree with the swapped weights (answer at the wrong end of a centroid pair), hence the key.
// The constants below are at least twice the observed maxima.
// Orders that defeat the algorithm itself are not part of this claim: zigzag arrival (min, max, 2nd min, 2nd max, ...) of
// log-uniform values over e^40 gave a 6% rank error at the median for k = 500, sorted blocks in random order 2.2 cluster sizes,
// on both trees; the t-digest has no worst-case guarantee, so these are not findings.
// Bound: err <= C * (cluster fraction + 1/n); class A = sorted or reversed arrival of log-uniformly spaced values (and, for the
// calibration figures above, linearly spaced ones), class B = everything else that is generated here.
// Class A0 = sorted or reversed arrival of linearly spaced values: linear interpolation is then exact up to an item, observed
// get_rank error 0 and get_quantile error <= 0.67 items = 0.60 * (0.05 * cluster fraction + 1/n) over 8 seeds x ~400 streams;
// bound 1.5 * (0.05 * cluster fraction + 1/n). This is the sharp end of the claim: a half-cluster shift is 10x outside it.
struct AccC { double rank, quant, cf_scale; };
inline AccC acc_constants(int order, int dist) {
  if (order <= 1 && dist <= 1) return AccC{1.5, 1.5, 0.05};
  return (order <= 1 && dist <= 2) ? AccC{0.5, 0.6, 1.0} : AccC{1.3, 2.4, 1.0};
}
double cluster_fraction(double q, double k, double n) { return q * (1 - q) * (4 * std::log(n / (2 * k)) + 24) / (2 * k); }

struct Calib { double max_rank[64] = {0}, max_quant[64] = {0}; };
Calib& calib() { static Calib c; return c; }

template <typename T> void prop_acc_t(const Case& cs) {
  // the upper half of the 16-bit k range is part of the domain: 2k does not fit 16 bits there
  static const uint16_t ks[] = {10, 20, 50, 100, 200, 500, 1000, 32768, 32800, 65535};
  const uint16_t k = ks[static_cast<uint64_t>(cs.get("k", 3)) % 10];
  uint64_t n = static_cast<uint64_t>(std::min<int64_t>(1000000, std::max<int64_t>(100000, cs.get("n", 100000))));
  const int order = static_cast<int>(static_cast<uint64_t>(cs.get("order", 0)) % 4);
  const int dist = static_cast<int>(static_cast<uint64_t>(cs.get("dist", 0)) % 4);
  const uint64_t parts = 1 + static_cast<uint64_t>(cs.get("parts", 0)) % 8;
  const int tree = static_cast<int>(static_cast<uint64_t>(cs.get("tree", 0)) % 3);
  const uint64_t qevery = static_cast<uint64_t>(std::max<int64_t>(0, cs.get("qevery", 0)));
  const uint64_t seed = static_cast<uint64_t>(cs.get("seed", 1));
  vf::Rng r(seed);
  // sorted distinct values F[0..n)
  std::vector<T> F(n);
  for (uint64_t i = 0; i < n; ++i) {
    const double u = static_cast<double>(i) / static_cast<double>(n);
    double x;
    switch (dist) {
      case 0: x = static_cast<double>(i); break;
      case 1: x = 0.5 * static_cast<double>(i) - static_cast<double>(n) / 4; break;
      case 2: x = std::exp(6.0 * (u - 0.5)); break;   // log-uniform over a factor of 400
      default: { double c = 2 * u - 1; x = c * c * c; break; }
    }
    F[i] = static_cast<T>(x);
  }
  // arrival order
  std::vector<uint32_t> ord(n);
  std::iota(ord.begin(), ord.end(), 0u);
  switch (order) {
    case 0: break;
    case 1: std::reverse(ord.begin(), ord.end()); break;
    case 2: for (uint64_t i = n - 1; i > 0; --i) std::swap(ord[i], ord[r.below(i + 1)]); break;
    default: {  // stride permutation
      uint64_t stride = 7919;
      while (std::gcd(stride, n) != 1) ++stride;
      for (uint64_t i = 0; i < n; ++i) ord[i] = static_cast<uint32_t>((i * stride) % n);
      break;
    }
  }
  // feed the parts
  std::vector<tdigest<T>> td;
  for (uint64_t p = 0; p < parts; ++p) td.emplace_back(k);
  uint64_t fed = 0;
  for (uint64_t p = 0; p < parts; ++p) {
    const uint64_t hi = (p + 1 == parts) ? n : (p + 1) * (n / parts);
    for (; fed < hi; ++fed) {
      td[p].update(F[ord[fed]]);
      if (qevery && (fed % qevery) == qevery - 1) (void)td[p].get_rank(F[ord[fed]]);
    }
  }
  // merge tree
  if (tree == 0) { for (uint64_t p = 1; p < parts; ++p) td[0].merge(td[p]); }
  else if (tree == 1) { for (uint64_t p = parts - 1; p > 0; --p) td[p - 1].merge(td[p]); }
  else { for (uint64_t step = 1; step < parts; step *= 2) for (uint64_t p = 0; p + step < parts; p += 2 * step) td[p].merge(td[p + step]); }
  const tdigest<T>& t = td[0];
  VF_CHECK(t.get_total_weight() == n, "total-weight", "long stream: total weight " << t.get_total_weight() << " n " << n);
  VF_CHECK(t.get_min_value() == F[0] && t.get_max_value() == F[n - 1], "extremes", "long stream: min/max " << t.get_min_value() << "/" << t.get_max_value());
  std::vector<double> qs = {0.0001, 0.001, 0.01, 0.05, 0.1, 0.25, 0.5, 0.75, 0.9, 0.95, 0.99, 0.999, 0.9999};
  for (int i = 0; i < 6; ++i) qs.push_back(r.unit());
  const double dn0 = static_cast<double>(n);
  for (double e : {1.5, 2.9, 7.3, 40.7}) { qs.push_back(e / dn0); qs.push_back(1 - e / dn0); }   // the last few items on either side
  const AccC acc = acc_constants(order, dist);
  const double dn = static_cast<double>(n);
  const bool cal = !vf::env("C17_CALIB").empty();   // development aid: print error ratios, accuracy bounds switched off
  if (cal) vf::label("CALIBRATION-MODE-accuracy-bounds-off");
  Deferred qfail;
  for (double q : qs) {
    // rank of a stream value
    const uint64_t i = std::min<uint64_t>(n - 1, static_cast<uint64_t>(q * dn));
    const T v = F[i];
    const auto lo = std::lower_bound(F.begin(), F.end(), v) - F.begin();
    const auto hi = std::upper_bound(F.begin(), F.end(), v) - F.begin();
    const double truth = (static_cast<double>(lo) + static_cast<double>(hi)) / 2 / dn;
    const double est = t.get_rank(v);
    const double err = std::fabs(est - truth);
    const double cf = cluster_fraction(truth, k, dn);
    const double bound = cal ? 2.0 : acc.rank * (acc.cf_scale * cf + 1 / dn);   // C17_CALIB (development aid): report ratios, never fail
    if (cal) {
      double ratio = err / (cf + 1 / dn);
      if (ratio > calib().max_rank[order * 4 + dist]) { calib().max_rank[order * 4 + dist] = ratio; fprintf(stderr, "CALIB rank ratio %.4f err %.3g q %.4f k %u n %" PRIu64 " order %d dist %d parts %" PRIu64 " tree %d qevery %" PRIu64 " %s\n", ratio, err, truth, k, n, order, dist, parts, tree, qevery, Lim<T>::name()); }
    }
    VF_CHECK(err <= bound, "rank-accuracy", std::setprecision(10) << "get_rank error " << err << " at true rank " << truth << " exceeds " << bound << " (k=" << k << ", n=" << n << ", cluster fraction " << cf << ")");
    // true rank interval of the returned quantile
    const T x = t.get_quantile(q);
    const double a = static_cast<double>(std::lower_bound(F.begin(), F.end(), x) - F.begin()) / dn;
    const double b = static_cast<double>(std::upper_bound(F.begin(), F.end(), x) - F.begin()) / dn;
    const double qerr = q < a ? a - q : q > b ? q - b : 0.0;
    const double qcf = cluster_fraction(q, k, dn);
    const double qbound = cal ? 2.0 : acc.quant * (acc.cf_scale * qcf + 1 / dn);
    if (cal) {
      double ratio = qerr / (qcf + 1 / dn);
      if (ratio > calib().max_quant[order * 4 + dist]) { calib().max_quant[order * 4 + dist] = ratio; fprintf(stderr, "CALIB quant ratio %.4f err %.3g q %.4f k %u n %" PRIu64 " order %d dist %d parts %" PRIu64 " tree %d qevery %" PRIu64 " %s\n", ratio, qerr, q, k, n, order, dist, parts, tree, qevery, Lim<T>::name()); }
    }
    if (cal && order <= 1 && dist <= 1) {
      static double mx = 0; double r2 = qerr / (0.05 * qcf + 1 / dn);
      if (r2 > mx) { mx = r2; fprintf(stderr, "CALIB2 quantA0 ratio %.4f err %.3g items %.3f q %.6f k %u n %" PRIu64 " parts %" PRIu64 " tree %d qevery %" PRIu64 " %s\n", r2, qerr, qerr * dn, q, k, n, parts, tree, qevery, Lim<T>::name()); }
    }
    if (!qfail.set && !(qerr <= qbound)) {
      std::ostringstream os;
      os << std::setprecision(10) << "get_quantile(" << q << ") = " << x << " has true rank in [" << a << "," << b << "], error " << qerr << " exceeds " << qbound << " (k=" << k << ", n=" << n << ")";
      qfail.set = true; qfail.msg = os.str();
    }
  }
  Summary sm = summary(t);
  if (sm.centroids >= 0) VF_CHECK(static_cast<size_t>(sm.centroids) <= capacity_of(k), "centroid-bound", "long stream: centroids " << sm.centroids << " > " << capacity_of(k) << " (k=" << k << ", n=" << n << ")");
  static const char* on[] = {"sorted", "reversed", "shuffled", "stride"};
  vf::label(std::string("acc-order:") + on[order]);
  vf::label(std::string("acc-type:") + Lim<T>::name());
  if (parts > 1) vf::label("acc-merged");
  if (qevery) vf::label("acc-interleaved-queries");
  if (n >= 500000) vf::label("acc-n>=5e5");
  if (k >= 32768) vf::label("acc-k>=32768");
  vf::nontrivial();
  VF_CHECK_K(!qfail.set, "quantile-accuracy", KEY_QACC, qfail.msg);
}

void prop_acc(const Case& cs) {
  if (cs.get("type", 0) & 1) prop_acc_t<float>(cs); else prop_acc_t<double>(cs);
}

// ================================================================ generators
rc::Gen<int64_t> k_gen() {
  return rc::gen::weightedOneOf<int64_t>({{6, vf::pick({10, 11, 20, 29, 30, 31, 50, 100, 200})}, {3, vf::range(10, 300)}, {1, vf::pick({500, 1000, 1000, 4000, 32767, 32768, 40000, 65535})}});
}

rc::Gen<Case> gen_main() {
  using namespace vf;
  auto slot = range(0, 3);
  // single-value selectors: NaN frequent, infinities rare (they end the finite-value claims for that digest)
  auto sel = rc::gen::weightedOneOf<int64_t>({{30, range(0, 5)}, {6, rc::gen::just<int64_t>(6)}, {1, range(7, 8)}, {12, range(9, 13)}});
  auto nsmall = range(0, 60);
  auto nmid = range(0, 3000);
  auto nbig = rc::gen::withSize([](int s) { return range(0, 400 + 390 * s); });
  auto pat = range(0, P_NPATTERNS - 1);
  auto sd = range(0, 1 << 30);
  auto other = rc::gen::map(rc::gen::tuple(slot, range(1, 3)), [](std::tuple<int64_t, int64_t> t) {   // merge from a different slot
    return Op{"merge", {std::get<0>(t), (std::get<0>(t) + std::get<1>(t)) % 4}};
  });
  auto opg = choose({
      {5, op3("upd", slot, sel, sd)},
      {4, op4("bulk", slot, nsmall, pat, sd)},
      {5, op4("bulk", slot, nmid, pat, sd)},
      {4, op4("bulk", slot, nbig, pat, sd)},
      {7, other},
      {1, op2("merge", slot, slot)},
      {2, op1("compress", slot)},
      {2, op2("copy", slot, slot)},
      {1, op1("new", slot)},
      {3, op2("ser", slot, range(0, 3))},
      {4, op2("q", slot, sd)},
  });
  return make_case({{"type", range(0, 1)}, {"k0", k_gen()}, {"k1", k_gen()}, {"k2", k_gen()}, {"k3", k_gen()}}, oplist(opg, 4, 0.4));
}

// same history language, all four digests with the same small k so that compressions, weighted centroids and
// direction changes happen with few values
rc::Gen<Case> gen_smallk() {
  using namespace vf;
  auto slot = range(0, 2);
  auto sel = rc::gen::weightedOneOf<int64_t>({{30, range(0, 5)}, {4, rc::gen::just<int64_t>(6)}, {10, range(9, 13)}});
  auto pat = range(0, P_NPATTERNS - 1);
  auto sd = range(0, 1 << 30);
  auto opg = choose({
      {3, op3("upd", slot, sel, sd)},
      {8, op4("bulk", slot, range(0, 900), pat, sd)},
      {7, op2("merge", slot, slot)},
      {2, op1("compress", slot)},
      {1, op2("copy", slot, slot)},
      {2, op2("ser", slot, range(0, 3))},
      {4, op2("q", slot, sd)},
  });
  auto kk = pick({10, 10, 12, 20});
  return rc::gen::mapcat(kk, [=](int64_t k) {
    return make_case({{"type", range(0, 1)}, {"k0", rc::gen::just(k)}, {"k1", rc::gen::just(k)}, {"k2", rc::gen::just(k)}, {"k3", rc::gen::just(k)}}, oplist(opg, 4, 0.3));
  });
}

rc::Gen<Case> gen_acc() {
  using namespace vf;
  return make_case({{"type", range(0, 1)}, {"k", rc::gen::weightedOneOf<int64_t>({{7, range(0, 6)}, {2, range(7, 9)}})}, {"n", rc::gen::weightedOneOf<int64_t>({{3, range(100000, 300000)}, {1, range(300000, 1000000)}})},
                    {"order", range(0, 3)}, {"dist", range(0, 3)}, {"parts", range(0, 7)}, {"tree", range(0, 2)},
                    {"qevery", rc::gen::weightedOneOf<int64_t>({{2, rc::gen::just<int64_t>(0)}, {1, range(1, 5000)}})}, {"seed", range(1, 1 << 30)}},
                   rc::gen::just(std::vector<Op>{}));
}

// ---------------------------------------------------------------- very large total weights through the merge tree
// A digest merged with itself (or with a copy of itself) doubles every weight: d doublings of an m-value digest stand for the stream in which
// each value occurs 2^d times. Total weight, extremes, and the coherence of the answers are known without a model of 2^d * m values.
// tdigest<float> counts weights in 32 bits, so its totals stay below 2^31; tdigest<double> goes to 2^45.
template <typename T> void huge_weight(const Case& cs, const char* tname) {
  static const uint16_t KS[] = {10, 20, 50, 100, 200};
  const uint16_t k = KS[static_cast<uint64_t>(cs.get("k", 0)) % 5];
  const uint64_t m = 1 + static_cast<uint64_t>(cs.get("m", 0)) % 60;
  const int dmax = std::is_same<T, float>::value ? 30 : 45;
  int d = static_cast<int>(static_cast<uint64_t>(cs.get("d", 0)) % (dmax + 1));
  while (d > 0 && (m << d) >= (std::is_same<T, float>::value ? (1ull << 31) : (1ull << 46))) --d;
  const int via = static_cast<int>(cs.get("via", 0) % 3);
  tdigest<T> td(k);
  vf::Rng r(static_cast<uint64_t>(cs.get("seed", 1)) + 17);
  std::vector<T> vals;
  for (uint64_t i = 0; i < m; ++i) { const T v = static_cast<T>(static_cast<double>(r.below(4001)) * 0.25 - 500.0); vals.push_back(v); td.update(v); }
  std::sort(vals.begin(), vals.end());
  for (int j = 0; j < d; ++j) {
    if (via == 0) td.merge(td);
    else if (via == 1) { tdigest<T> cp(td); td.merge(cp); }
    else { tdigest<T> cp(td); cp.merge(td); td = std::move(cp); }
  }
  // a few single values on top (new maxima / minima): totals like 2^25 + 2 need more significant bits than the doubled weights alone
  const uint64_t extra = static_cast<uint64_t>(cs.get("extra", 0)) % 5;
  for (uint64_t j = 0; j < extra; ++j) { const T v = (j & 1) ? static_cast<T>(vals.front() - 1 - static_cast<T>(j)) : static_cast<T>(vals.back() + 1 + static_cast<T>(j)); td.update(v); vals.push_back(v); std::sort(vals.begin(), vals.end()); }
  const uint64_t total = (m << d) + extra;
  std::ostringstream c; c << "tdigest<" << tname << "> k=" << k << " " << m << " values doubled " << d << " times + " << extra << " single values (total weight " << total << "): ";
  const std::string ctx = c.str();
  VF_CHECK(static_cast<uint64_t>(td.get_total_weight()) == total, "total-weight", ctx << "get_total_weight " << td.get_total_weight());
  VF_CHECK(!td.is_empty() && td.get_min_value() == vals.front() && td.get_max_value() == vals.back(), "min-exact", ctx << "min " << td.get_min_value() << " max " << td.get_max_value() << " expected " << vals.front() << " " << vals.back());
  VF_CHECK(td.get_quantile(0.0) == vals.front() && td.get_quantile(1.0) == vals.back(), "quantile-extremes", ctx << "quantile(0) " << td.get_quantile(0.0) << " quantile(1) " << td.get_quantile(1.0) << ", min " << vals.front() << " max " << vals.back());
  T pq = vals.front();
  for (int i = 0; i <= 200; ++i) {
    const double rk = i < 100 ? i / 100.0 : 1.0 - std::ldexp(1.0, -(i - 99));   // the upper tail is approached geometrically (ranks within a few weights of 1)
    if (rk < 0 || rk > 1) continue;
    const T q = td.get_quantile(rk);
    VF_CHECK(q >= vals.front() && q <= vals.back(), "quantile-range", ctx << "quantile(" << rk << ") = " << q << " outside [min, max]");
    if (i < 100) { VF_CHECK(q >= pq, "quantile-monotone", ctx << "quantile decreases at rank " << rk << ": " << pq << " -> " << q); pq = q; }
  }
  {
    // the geometric tail is increasing in rank too
    T pt = td.get_quantile(0.5);
    for (int i = 1; i <= 60; ++i) { const double rk = 1.0 - std::ldexp(1.0, -i); const T q = td.get_quantile(rk); VF_CHECK(q >= pt, "quantile-monotone", ctx << "quantile decreases towards rank 1 at " << rk << ": " << pt << " -> " << q); pt = q; }
    VF_CHECK(td.get_quantile(1.0) >= pt, "quantile-monotone", ctx << "quantile(1) " << td.get_quantile(1.0) << " below quantile just under 1 " << pt);
  }
  double pr = -1;
  for (size_t i = 0; i < vals.size(); ++i) {
    const double rk = td.get_rank(vals[i]);
    VF_CHECK(rk >= 0 && rk <= 1 && rk >= pr - 1e-12, "rank-monotone", ctx << "rank(" << vals[i] << ") = " << rk << " after " << pr);
    pr = std::max(pr, rk);
  }
  vf::label(std::string("huge-weight:") + tname);
  if (total >= (1ull << 25)) vf::label("total-weight>=2^25");
  if (total >= (1ull << 25)) vf::nontrivial();
}
void prop_huge(const Case& cs) {
  if (cs.get("type", 0) & 1) huge_weight<float>(cs, "float"); else huge_weight<double>(cs, "double");
}
rc::Gen<Case> gen_huge() {
  using namespace vf;
  return make_case({{"type", pick({0, 1})}, {"k", pick({0, 1, 2, 3, 4})}, {"m", range(0, 59)}, {"d", rc::gen::weightedOneOf<int64_t>({{1, range(0, 20)}, {3, range(21, 45)}})}, {"via", pick({0, 1, 2})}, {"extra", pick({0, 1, 2, 3, 4})}, {"seed", range(1, 1 << 20)}},
                   rc::gen::just(std::vector<Op>{}));
}

}  // namespace

int main(int argc, char** argv) {
  std::vector<vf::Sub> subs;
  subs.push_back({"main", gen_main, prop_main, 0.61});
  subs.push_back({"smallk", gen_smallk, prop_main, 0.36});
  subs.push_back({"acc", gen_acc, prop_acc, 0.03});
  subs.push_back({"huge_weight", gen_huge, prop_huge, 0.05, 100});
  return vf::main_driver(argc, argv, "C17", "c17_tdigest",
                         "case = value type (double/float) + k per digest slot + generated history over 4 digests (edge-value updates incl. NaN/inf, 11 bulk value "
                         "patterns, merges in any shape, compress, copy, serialize/deserialize round trips that carry the history on, query batteries); exact "
                         "multiset model per digest; side-effect-free checks after every op, full rank/quantile/CDF/PMF battery at generated points and at the end; "
                         "non-trivial = at least one merge of a non-empty digest AND at least two compressions AND a full battery on a digest that received a merge "
                         "(sub 'acc': every long-stream accuracy case); distinct = distinct case text",
                         subs);
}
