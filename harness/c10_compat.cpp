// C10 (parts b, c, d) — old images stay readable; hashing matches the published definitions.
//   hashes : reference MurmurHash3_x64_128 / XXH64 (vf/ref_hash.hpp, written from the published definitions) vs the library over
//            generated (bytes, seed) pairs covering every tail length, published test vectors, seed hash
//   corpus : every image of /verif/corpus (written ONCE by the baseline release, see corpus/README) must deserialize on the
//            bytes, stream and wrap paths to the frozen observation; and where the current writer still produces the baseline
//            bytes for the recipe it must keep doing so
//   shipped: the 15 reference images shipped in the repository's test directories (KLL v1, classic quantiles v0.3.0..0.8.3,
//            Theta v1/v2 from Java, t-digest reference big-endian formats): facts in their names + frozen observation
// Corpus generation modes (not part of any check): VF_CORPUS_GEN=<dir> writes images+recipes with the tree the binary was
// built from; VF_CORPUS_FREEZE=<dir> adds the observation of every image as decoded by the tree the binary was built from.
#include "vf/families.hpp"
#include <MurmurHash3.h>
#include <xxhash64.h>
#include <fstream>

using vf::Case; using vf::Op;
namespace fam = vf::fam;
using namespace datasketches;

namespace {

std::string corpus_dir() { return vf::env("VF_CORPUS", "/verif/corpus"); }
std::string repo_dir() { return vf::env("VERIF_REPO", "/repo"); }

fam::Bytes read_file(const std::string& p) {
  std::ifstream in(p, std::ios::binary);
  if (!in) throw std::runtime_error("cannot open " + p);
  return fam::Bytes((std::istreambuf_iterator<char>(in)), std::istreambuf_iterator<char>());
}

// ------------------------------------------------------------------ hashes
void prop_hash(const Case& cs) {
  uint64_t len = static_cast<uint64_t>(cs.get("len", 0)) % 300;
  uint64_t seed = cs.get("seedsel", 0) == 0 ? 9001ull : cs.get("seedsel", 0) == 1 ? 0ull : vf::mix64(static_cast<uint64_t>(cs.get("seedsel", 0)));
  vf::Rng r(static_cast<uint64_t>(cs.get("data", 1)));
  std::string data(len, '\0');
  for (auto& ch : data) ch = static_cast<char>(r.next() & 0xff);
  HashState hs; MurmurHash3_x64_128(data.data(), data.size(), seed, hs);
  vf::H128 ref = vf::ref_murmur3_128(data.data(), data.size(), seed);
  VF_CHECK(hs.h1 == ref.h1 && hs.h2 == ref.h2, "murmur3", "MurmurHash3_x64_128 of " << len << " bytes, seed " << seed << ": library " << std::hex << hs.h1 << ":" << hs.h2 << " published definition " << ref.h1 << ":" << ref.h2);
  uint64_t x = XXHash64::hash(data.data(), data.size(), seed), xr = vf::ref_xxh64(data.data(), data.size(), seed);
  VF_CHECK(x == xr, "xxhash64", "XXH64 of " << len << " bytes, seed " << seed << ": library " << std::hex << x << " published definition " << xr);
  VF_CHECK(compute_seed_hash(seed) == vf::ref_seed_hash(seed), "seed-hash", "seed hash of " << seed);
  // streaming form of the library's XXHash64 (used by the Bloom filter for multi-part input) agrees with the one-shot form
  { XXHash64 h(seed); size_t cut = len ? r.below(len + 1) : 0; h.add(data.data(), cut); h.add(data.data() + cut, data.size() - cut); VF_CHECK(h.hash() == xr, "xxhash64-streaming", "streaming XXH64 split at " << cut << " of " << len); }
  vf::label(len % 16 == 0 ? "len%16==0" : "tail"); if (len >= 32) vf::label("len>=32");
  if (len > 0) vf::nontrivial();
}
// ------------------------------------------------------------------ typed inputs
// "hashing of each input type matches the published definitions": one item of every supported input type (edge values included) is
// offered through the typed update overloads of every hash-based sketch; what the sketch retains must be the MurmurHash3 of the
// documented canonical form (integers sign-extended to 64 bits, floats as canonical double bits, strings / bytes as they are)
template <typename SK, typename V> void feed_kv(SK& sk, const vf::Item& it, const V& val) {
  switch (it.type) {
    case vf::T_U64: sk.update(static_cast<uint64_t>(it.raw), val); break;
    case vf::T_I64: sk.update(static_cast<int64_t>(it.raw), val); break;
    case vf::T_U32: sk.update(static_cast<uint32_t>(it.raw), val); break;
    case vf::T_I32: sk.update(static_cast<int32_t>(static_cast<uint32_t>(it.raw)), val); break;
    case vf::T_U16: sk.update(static_cast<uint16_t>(it.raw), val); break;
    case vf::T_I16: sk.update(static_cast<int16_t>(static_cast<uint16_t>(it.raw)), val); break;
    case vf::T_U8: sk.update(static_cast<uint8_t>(it.raw), val); break;
    case vf::T_I8: sk.update(static_cast<int8_t>(static_cast<uint8_t>(it.raw)), val); break;
    case vf::T_F64: sk.update(vf::item_double(it.raw), val); break;
    case vf::T_F32: sk.update(vf::item_float(it.raw), val); break;
    case vf::T_STR: sk.update(vf::item_string(it.raw), val); break;
    default: { std::string b = vf::item_bytes(it.raw); sk.update(static_cast<const void*>(b.data()), b.size(), val); }
  }
}
void prop_typed(const Case& cs) {
  vf::Item it{static_cast<int>(static_cast<uint64_t>(cs.get("type", 0)) % vf::T_NTYPES), static_cast<uint64_t>(cs.get("raw", 0))};
  const uint64_t seed = cs.get("seedsel", 0) == 0 ? 9001ull : vf::mix64(static_cast<uint64_t>(cs.get("seedsel", 0)));
  vf::H128 h; const bool counted = vf::ref_item_hash(it, seed, h);
  const uint64_t want = h.h1 >> 1;
  std::ostringstream who; who << "item type " << it.type << " raw " << it.raw << " seed " << seed;
  auto expect = [&](const std::vector<uint64_t>& got, const char* fam) {
    if (!counted || want == 0) { VF_CHECK(got.empty() || !counted == false, "typed-ignored", who.str() << ": " << fam); return; }
    VF_CHECK(got.size() == 1 && got[0] == want, "typed-input-hash", fam << ", " << who.str() << ": retained " << (got.empty() ? 0 : got[0]) << " (" << got.size() << " entries), MurmurHash3 of the canonical form >> 1 is " << want);
  };
  { auto sk = update_theta_sketch::builder().set_seed(seed).build(); vf::feed(sk, it); std::vector<uint64_t> g; for (auto x : sk) g.push_back(x); expect(g, "theta"); }
  { auto sk = update_tuple_sketch<double>::builder().set_seed(seed).build(); feed_kv(sk, it, 1.0); std::vector<uint64_t> g; for (const auto& e : sk) g.push_back(e.first); expect(g, "tuple"); }
  { auto sk = update_array_of_doubles_sketch::builder(1).set_seed(seed).build(); std::vector<double> v(1, 1.0); feed_kv(sk, it, v); std::vector<uint64_t> g; for (const auto& e : sk) g.push_back(e.first); expect(g, "array of doubles"); }
  // HLL (fixed seed 9001): the coupon of the single item, through the sketch and through the union
  uint32_t coupon = 0; const bool hc = vf::ref_hll_item_coupon(it, coupon);
  auto hll_coupons = [](const hll_sketch& sk) { auto b = sk.serialize_compact(); std::vector<uint32_t> c; if (b.size() >= 8 && (b[7] & 3) == 0) for (size_t i = 8; i + 4 <= b.size(); i += 4) c.push_back(vf::ref_le32(b.data() + i)); return c; };
  { hll_sketch sk(12); vf::feed(sk, it); auto c = hll_coupons(sk); VF_CHECK(hc ? (c.size() == 1 && c[0] == coupon) : c.empty(), "typed-input-coupon", "hll sketch, " << who.str() << ": coupons " << c.size() << (c.empty() ? 0u : c[0]) << " expected " << coupon); }
  { hll_union u(12); vf::feed(u, it); auto c = hll_coupons(u.get_result()); VF_CHECK(hc ? (c.size() == 1 && c[0] == coupon) : c.empty(), "typed-input-coupon", "hll union, " << who.str() << ": coupons " << c.size() << " expected " << coupon); }
  vf::label("typed:" + std::to_string(it.type));
  if (counted) vf::nontrivial();
}
rc::Gen<Case> gen_typed() { using namespace vf; return make_case({{"type", range(0, T_NTYPES - 1)}, {"raw", raw_gen()}, {"seedsel", range(0, 3)}}, rc::gen::just(std::vector<Op>{})); }

void prop_vectors(const Case&) {
  struct V { const char* s; uint64_t h1, h2; };
  // published MurmurHash3_x64_128 vectors (seed 0)
  static const V mv[] = {{"", 0, 0}, {"hello", 0xcbd8a7b341bd9b02ull, 0x5b1e906a48ae1d19ull},
                         {"The quick brown fox jumps over the lazy dog", 0xe34bbc7bbc071b6cull, 0x7a433ca9c49a9347ull}};
  for (const V& v : mv) {
    HashState hs; MurmurHash3_x64_128(v.s, strlen(v.s), 0, hs);
    VF_CHECK(hs.h1 == v.h1 && hs.h2 == v.h2, "murmur3-vector", "MurmurHash3_x64_128(\"" << v.s << "\") = " << std::hex << hs.h1 << ":" << hs.h2);
    vf::H128 r = vf::ref_murmur3_128(v.s, strlen(v.s), 0);
    VF_CHECK(r.h1 == v.h1 && r.h2 == v.h2, "murmur3-vector-ref", "reference implementation disagrees with the published vector for \"" << v.s << "\"");
  }
  struct X { const char* s; uint64_t seed, h; };
  static const X xv[] = {{"", 0, 0xef46db3751d8e999ull}, {"a", 0, 0xd24ec4f1a98c6e5bull}, {"abc", 0, 0x44bc2cf5ad770999ull}};
  for (const X& v : xv) {
    VF_CHECK(XXHash64::hash(v.s, strlen(v.s), v.seed) == v.h, "xxhash64-vector", "XXH64(\"" << v.s << "\") = " << std::hex << XXHash64::hash(v.s, strlen(v.s), v.seed));
    VF_CHECK(vf::ref_xxh64(v.s, strlen(v.s), v.seed) == v.h, "xxhash64-vector-ref", "reference implementation disagrees with the published vector for \"" << v.s << "\"");
  }
  vf::nontrivial();
}
void enum_vectors(std::function<bool(const Case&)> run) { if (vf::env_long("VF_WORKER", 0) == 0) { Case c; c.set("vectors", 1); run(c); } }

// ------------------------------------------------------------------ corpus
struct Entry { std::string file; int variant; std::string recipe; uint64_t obs_hash; bool writer_same; bool frozen; std::string obs_head; };

std::vector<Entry> load_manifest(const std::string& dir) {
  std::vector<Entry> v;
  std::ifstream in(dir + "/manifest.txt");
  std::string line; Entry cur; bool have = false;
  // plain text records:  image <file> <variant> <obs_hash|-> <writer_same 0/1|->   followed by the recipe lines and "end"
  while (std::getline(in, line)) {
    if (line.rfind("image ", 0) == 0) {
      std::istringstream ls(line); std::string tag, h, w; cur = Entry(); ls >> tag >> cur.file >> cur.variant >> h >> w;
      cur.frozen = h != "-"; cur.obs_hash = cur.frozen ? strtoull(h.c_str(), nullptr, 16) : 0; cur.writer_same = w == "1"; have = true;
    } else if (line == "end") { if (have) v.push_back(cur); have = false; }
    else if (have) cur.recipe += line + "\n";
  }
  return v;
}

void prop_corpus(const Case& cs) {
  static const std::vector<Entry> man = load_manifest(corpus_dir());
  size_t idx = static_cast<size_t>(cs.get("entry", 0));
  VF_CHECK(idx < man.size(), "corpus-index", "corpus entry " << idx << " of " << man.size());
  const Entry& e = man[idx];
  Case recipe = Case::parse(e.recipe);
  int f = static_cast<int>(recipe.get("fam", 0) % fam::NFAM);
  const char* fn = fam::name(f);
  fam::Bytes img = read_file(corpus_dir() + "/" + e.file);
  fam::P proto = fam::make(recipe);
  std::string who = std::string(fn) + " " + e.file;
  // bytes path (exact-size block), stream path, wrapped view
  uint8_t* blk = static_cast<uint8_t*>(malloc(img.size() ? img.size() : 1)); std::memcpy(blk, img.data(), img.size());
  fam::P r1; try { r1 = proto->from_bytes(blk, img.size()); } catch (...) { free(blk); throw; } free(blk);
  std::string o1 = r1->observe();
  VF_CHECK(vf::fnv1a(o1) == e.obs_hash, "baseline-image-bytes", who << ": baseline image decodes to a different sketch than when the corpus was frozen: " << o1.substr(0, 400));
  std::istringstream is(std::string(img.begin(), img.end()), std::ios::binary);
  fam::P r2 = proto->from_stream(is);
  VF_CHECK(vf::fnv1a(r2->observe()) == e.obs_hash, "baseline-image-stream", who << ": baseline image read from a stream decodes to a different sketch");
  std::string ev = proto->extra_view(img);
  if (!ev.empty()) VF_CHECK(vf::fnv1a(ev) == e.obs_hash, "baseline-image-wrap", who << ": wrapped view of the baseline image differs: " << ev.substr(0, 300));
  // the state rebuilt from the recipe by the current tree has the same content (deterministic families)
  fam::Bytes now = proto->bytes(0, e.variant);
  if (e.writer_same) {
    VF_CHECK(now == img, "writer-drift", who << ": the current writer no longer produces the baseline bytes for this recipe (" << now.size() << " vs " << img.size() << " bytes)");
    vf::label("writer-compared");
  } else vf::label("writer-differs-since-baseline");
  vf::label(std::string("family:") + fn);
  if (img.size() > 8) vf::nontrivial();
}
void enum_corpus(std::function<bool(const Case&)> run) {
  std::vector<Entry> man = load_manifest(corpus_dir());
  long w = vf::env_long("VF_WORKER", 0), nw = std::max<long>(1, vf::env_long("VF_NWORKERS", 1));
  for (size_t i = 0; i < man.size(); ++i) { if (static_cast<long>(i % nw) != w) continue; Case c; c.set("entry", static_cast<int64_t>(i)); if (!run(c)) return; }
}

// ------------------------------------------------------------------ shipped reference images
struct Shipped { const char* path; int kind; uint64_t k, n; };  // kind: 0 kll float, 1 tdigest double, 2 tdigest float, 3 quantiles double, 4 theta
const Shipped SHIPPED[] = {
    {"kll/test/kll_sketch_float_one_item_v1.sk", 0, 200, 1},
    {"tdigest/test/tdigest_ref_k100_n10000_double.sk", 1, 100, 10000}, {"tdigest/test/tdigest_ref_k100_n10000_float.sk", 2, 100, 10000},
    {"quantiles/test/Qk128_n50_v0.3.0.sk", 3, 128, 50}, {"quantiles/test/Qk128_n50_v0.6.0.sk", 3, 128, 50}, {"quantiles/test/Qk128_n50_v0.8.0.sk", 3, 128, 50}, {"quantiles/test/Qk128_n50_v0.8.3.sk", 3, 128, 50},
    {"quantiles/test/Qk128_n1000_v0.3.0.sk", 3, 128, 1000}, {"quantiles/test/Qk128_n1000_v0.6.0.sk", 3, 128, 1000}, {"quantiles/test/Qk128_n1000_v0.8.0.sk", 3, 128, 1000}, {"quantiles/test/Qk128_n1000_v0.8.3.sk", 3, 128, 1000},
    {"theta/test/theta_compact_empty_from_java_v1.sk", 4, 0, 0}, {"theta/test/theta_compact_empty_from_java_v2.sk", 4, 0, 0},
    {"theta/test/theta_compact_estimation_from_java_v1.sk", 4, 0, 8192}, {"theta/test/theta_compact_estimation_from_java_v2.sk", 4, 0, 8192}};
const size_t NSHIPPED = sizeof(SHIPPED) / sizeof(SHIPPED[0]);

std::string observe_shipped(const Shipped& s, const fam::Bytes& img, bool stream) {
  std::istringstream is(std::string(img.begin(), img.end()), std::ios::binary);
  std::ostringstream o;
  switch (s.kind) {
    case 0: { auto sk = stream ? kll_sketch<float>::deserialize(is) : kll_sketch<float>::deserialize(img.data(), img.size()); o << fam::observe_quantiles<kll_sketch<float>, float, std::less<float>>(sk, fam::probes_for<float>()); break; }
    case 1: { auto sk = stream ? tdigest<double>::deserialize(is) : tdigest<double>::deserialize(img.data(), img.size()); fam::TdObj<double> t(std::move(sk)); o << t.observe(); break; }
    case 2: { auto sk = stream ? tdigest<float>::deserialize(is) : tdigest<float>::deserialize(img.data(), img.size()); fam::TdObj<float> t(std::move(sk)); o << t.observe(); break; }
    case 3: {
      auto sk = stream ? quantiles_sketch<double>::deserialize(is) : quantiles_sketch<double>::deserialize(img.data(), img.size());
      o << "k=" << sk.get_k() << " n=" << sk.get_n() << " retained=" << sk.get_num_retained() << " min=" << fam::num(sk.get_min_item()) << " max=" << fam::num(sk.get_max_item());
      std::vector<std::pair<double, uint64_t>> e; for (auto it = sk.begin(); it != sk.end(); ++it) e.emplace_back((*it).first, (*it).second);
      std::sort(e.begin(), e.end()); uint64_t w = 0; for (auto& x : e) { o << ' ' << fam::num(x.first) << ':' << x.second; w += x.second; } o << " wsum=" << w;
      for (double r : {0.0, 0.25, 0.5, 0.75, 1.0}) o << " q(" << r << ")=" << fam::num(sk.get_quantile(r));
      break;
    }
    default: { auto sk = stream ? compact_theta_sketch::deserialize(is) : compact_theta_sketch::deserialize(img.data(), img.size()); o << fam::ThetaObj::obs(sk); if (!stream) { auto w = wrapped_compact_theta_sketch::wrap(img.data(), img.size()); if (fam::ThetaObj::obs(w) != fam::ThetaObj::obs(sk)) o << " WRAP-DIFFERS"; } }
  }
  return o.str();
}

std::map<std::string, uint64_t> load_shipped_hashes() {
  std::map<std::string, uint64_t> m; std::ifstream in(corpus_dir() + "/shipped.txt"); std::string p, h;
  while (in >> p >> h) m[p] = strtoull(h.c_str(), nullptr, 16);
  return m;
}

void prop_shipped(const Case& cs) {
  static const std::map<std::string, uint64_t> frozen = load_shipped_hashes();
  size_t idx = static_cast<size_t>(cs.get("file", 0)) % NSHIPPED;
  const Shipped& s = SHIPPED[idx];
  fam::Bytes img = read_file(repo_dir() + "/" + s.path);
  std::string a = observe_shipped(s, img, false), b = observe_shipped(s, img, true);
  VF_CHECK(a == b, "shipped-bytes-vs-stream", s.path << ": bytes and stream readers disagree");
  VF_CHECK(a.find("WRAP-DIFFERS") == std::string::npos, "shipped-wrap", s.path << ": wrapped view differs from the deserialized sketch");
  // facts in the file name
  if (s.kind == 0 || s.kind == 3) VF_CHECK(a.find("k=" + std::to_string(s.k) + " n=" + std::to_string(s.n) + " ") == 0, "shipped-name-facts", s.path << ": expected k=" << s.k << " n=" << s.n << ", observed " << a.substr(0, 60));
  if (s.kind == 1 || s.kind == 2) VF_CHECK(a.find("k=" + std::to_string(s.k) + " w=" + std::to_string(s.n) + " ") == 0, "shipped-name-facts", s.path << ": expected k=" << s.k << " weight=" << s.n << ", observed " << a.substr(0, 60));
  if (s.kind == 4) {
    bool empty = a.find(" empty=1 ") != std::string::npos;
    VF_CHECK(empty == (s.n == 0), "shipped-name-facts", s.path << ": emptiness " << empty);
    if (s.n) VF_CHECK(a.find("theta64=9223372036854775807 ") == std::string::npos, "shipped-name-facts", s.path << ": expected estimation mode");
  }
  auto it = frozen.find(s.path);
  VF_CHECK(it != frozen.end(), "shipped-frozen-missing", s.path << ": no frozen observation in corpus/shipped.txt");
  VF_CHECK(vf::fnv1a(a) == it->second, "shipped-observation", s.path << ": decodes to a different sketch than when frozen: " << a.substr(0, 300));
  vf::label(std::string("shipped:") + s.path);
  vf::nontrivial();
}
void enum_shipped(std::function<bool(const Case&)> run) {
  long w = vf::env_long("VF_WORKER", 0), nw = std::max<long>(1, vf::env_long("VF_NWORKERS", 1));
  for (size_t i = 0; i < NSHIPPED; ++i) { if (static_cast<long>(i % nw) != w) continue; Case c; c.set("file", static_cast<int64_t>(i)); if (!run(c)) return; }
}

// ------------------------------------------------------------------ corpus generation / freezing (tools, not checks)
Case corpus_recipe(int f, int i) {
  vf::Rng r(static_cast<uint64_t>(f) * 100003ull + static_cast<uint64_t>(i) * 7919ull + 17);
  Case c;
  c.set("fam", f); c.set("a", static_cast<int64_t>(r.below(1 << 16))); c.set("b", static_cast<int64_t>(r.below(1 << 16))); c.set("c", static_cast<int64_t>(r.below(1 << 16)));
  c.set("seed", (i % 5 == 4) ? 7 : 0); c.set("rnd", static_cast<int64_t>(1 + r.below(1 << 20)));
  static const int64_t sizes[] = {0, 1, 2, 5, 9, 40, 130, 700, 2500, 6000};
  int nops = i == 0 ? 0 : 1 + static_cast<int>(r.below(3));
  for (int k = 0; k < nops; ++k) {
    Op op; op.name = (k > 0 && r.below(3) == 0) ? "m" : "u";
    int64_t n = sizes[(i + k * 3) % 10]; if (i < 10 && k == 0) n = sizes[i];
    op.a = {n, static_cast<int64_t>(r.below(8)), static_cast<int64_t>(r.below(1 << 20)), static_cast<int64_t>(r.below(64))};
    c.ops.push_back(op);
  }
  return c;
}

int corpus_gen(const std::string& dir) {
  int per = static_cast<int>(vf::env_long("VF_CORPUS_PER_FAMILY", 24));
  std::ofstream man(dir + "/manifest.txt");
  size_t total = 0, count = 0;
  for (int f = 0; f < fam::NFAM; ++f) for (int i = 0; i < per; ++i) {
    Case c = corpus_recipe(f, i);
    fam::P o0 = fam::make(c); int nv = o0->variants();
    for (int v = nv - 1; v >= 0; --v) {
      fam::P o = (v == nv - 1) ? std::move(o0) : fam::make(c);
      fam::Bytes img = o->bytes(0, v);
      if (img.size() > 40000) continue;
      std::string file = std::string(fam::name(f)) + "_" + std::to_string(i) + ".v" + std::to_string(v) + ".bin";
      std::ofstream out(dir + "/" + file, std::ios::binary); out.write(reinterpret_cast<const char*>(img.data()), static_cast<std::streamsize>(img.size()));
      man << "image " << file << " " << v << " - -\n" << c.text() << "end\n";
      total += img.size(); ++count;
    }
  }
  printf("corpus: %zu images, %zu bytes\n", count, total);
  return 0;
}
int corpus_freeze(const std::string& dir) {
  std::vector<Entry> man = load_manifest(dir);
  std::ofstream out(dir + "/manifest.txt.new");
  size_t same = 0;
  for (const Entry& e : man) {
    Case recipe = Case::parse(e.recipe);
    fam::Bytes img = read_file(dir + "/" + e.file);
    fam::P proto = fam::make(recipe);
    fam::P r = proto->from_bytes(img.data(), img.size());
    std::string o = r->observe();
    bool ws = proto->bytes(0, e.variant) == img;
    same += ws;
    if (e.frozen && vf::fnv1a(o) != e.obs_hash) printf("OBSERVATION CHANGED since the last freeze: %s\n", e.file.c_str());
    if (e.frozen && ws != e.writer_same) printf("writer %s the baseline bytes now: %s\n", ws ? "reproduces" : "no longer reproduces", e.file.c_str());
    char h[32]; snprintf(h, sizeof h, "%llx", static_cast<unsigned long long>(vf::fnv1a(o)));
    out << "image " << e.file << " " << e.variant << " " << h << " " << (ws ? 1 : 0) << "\n" << e.recipe << "end\n";
  }
  out.close();
  rename((dir + "/manifest.txt.new").c_str(), (dir + "/manifest.txt").c_str());
  std::ofstream sh(dir + "/shipped.txt");
  for (size_t i = 0; i < NSHIPPED; ++i) { fam::Bytes img = read_file(repo_dir() + "/" + SHIPPED[i].path); char h[32]; snprintf(h, sizeof h, "%llx", static_cast<unsigned long long>(vf::fnv1a(observe_shipped(SHIPPED[i], img, false)))); sh << SHIPPED[i].path << " " << h << "\n"; }
  printf("frozen %zu images, %zu still written identically by this tree\n", man.size(), same);
  return 0;
}

rc::Gen<Case> gen_hash() {
  using namespace vf;
  return make_case({{"len", rc::gen::weightedOneOf<int64_t>({{3, range(0, 40)}, {2, range(41, 299)}})}, {"seedsel", range(0, 1000)}, {"data", range(1, 1 << 30)}}, rc::gen::just(std::vector<Op>{}));
}

}  // namespace

int main(int argc, char** argv) {
  if (!vf::env("VF_CORPUS_GEN").empty()) return corpus_gen(vf::env("VF_CORPUS_GEN"));
  if (!vf::env("VF_CORPUS_FREEZE").empty()) return corpus_freeze(vf::env("VF_CORPUS_FREEZE"));
  std::vector<vf::Sub> subs;
  subs.push_back({"hashes", gen_hash, prop_hash, 1.0});
  subs.push_back({"typed_inputs", gen_typed, prop_typed, 0.1});
  subs.push_back(vf::Sub{"hash_vectors", nullptr, prop_vectors, 1.0, -1, enum_vectors});
  subs.push_back(vf::Sub{"corpus", nullptr, prop_corpus, 1.0, -1, enum_corpus});
  subs.push_back(vf::Sub{"shipped", nullptr, prop_shipped, 1.0, -1, enum_shipped});
  return vf::main_driver(argc, argv, "C10", "c10_compat",
                         "hashes: generated (bytes of length 0..299, seed) pairs: library MurmurHash3_x64_128 / XXH64 / seed hash vs an independent implementation of the "
                         "published definitions + published test vectors; corpus: EVERY image of the committed baseline corpus (written once by the baseline release) on "
                         "the bytes, stream and wrap paths vs its frozen observation, and writer drift for recipes the tree still reproduces; shipped: the 15 reference "
                         "images in the repository; non-trivial = non-empty input / image longer than 8 bytes; distinct = distinct case text",
                         subs);
}
