#!/usr/bin/env python3
"""Prints a markdown table of the seeded defects under /verif/seeded and which check caught them (from results.txt)."""
import glob, json, os, re
rows = []
for d in sorted(glob.glob('/verif/seeded/C*-*')):
    m = json.load(open(d + '/meta.json'))
    res = {}
    if os.path.exists(d + '/results.txt'):
        for l in open(d + '/results.txt'):
            mm = re.search(r'\[(C\d+) (\w+)\] exit (\d+) (CAUGHT|MISSED) ?(check=\S+)?', l)
            if mm: res[(mm.group(1), mm.group(2))] = (mm.group(4), (mm.group(5) or '').replace('check=', ''))
    patch = open(d + '/patch.diff').read()
    files = sorted(set(re.findall(r'^\+\+\+ b/(\S+)', patch, re.M)))
    last = list(res.items())[-1] if res else None
    verdict = f"{last[1][0]} by {last[0][0]} {last[0][1]} (`{last[1][1]}`)" if last else "not run"
    hist = "; ".join(f"{k[0]} {k[1]}: {v[0]}" for k, v in res.items())
    rows.append((os.path.basename(d), ", ".join(os.path.basename(f) for f in files), m.get('needs_to_manifest', '')[:160].replace('|', '/'), verdict))
print("| seeded change | file | needs to manifest | result |\n|---|---|---|---|")
for r in rows: print("| " + " | ".join(r) + " |")
