// C20 — Density sketch keeps exact counts and is exact before its first compaction.
//
// A case is a history over a pool of 4 sketches of one (T, kernel, dim) plus one "alien" sketch of dimension dim+1:
// single / bulk updates (clusters, grids, duplicates, far-apart points whose kernel value underflows to 0, huge
// magnitudes), wrong-dimension points, merges (copy / move / merge of a copy of itself / merge of the alien sketch),
// copies, queries. Next to every sketch runs a model: exact n, the multiset of all points ever offered to the
// lineage, and "a compaction has happened in the lineage" (observed exactly: every compaction draws exactly one bit
// from the hooked coin, so compactions == coin flips). After EVERY op the whole state of the touched sketches is checked.
#include "vf/core.hpp"
#include <density_sketch.hpp>
#include "vf/coin.hpp"
#include <limits>
#include <memory>

using namespace datasketches;
using vf::Case; using vf::Op;

namespace {

// one key for every consequence of the same root cause (a compaction may drop EVERY point; is_empty() is then true
// although n > 0, so get_estimate refuses and merge(other) ignores other's n)
const char* KEY_DROPPED_ALL = "C20|density|sketch with n>0 reports is_empty (estimate refused, merge drops its n)|a compaction dropped every retained point (kernel value 0 between the points)";
const char* KEY_WRONG_QUERY = "C20|density|get_estimate accepts a query point of the wrong dimension|query.size() != dim";

// get_estimate computes the weight of a level as the int expression (1 << height): undefined from height 31 on, i.e. for a
// sketch with more than 31 levels (UBSan would abort the process, so the harness refuses to go there and reports the
// state instead). The iterator uses 1ULL << height: undefined from 64 on. Only kernels with negative values get there
// with small inputs: every compaction may then promote ALL points, so the number of levels grows linearly with n.
const char* KEY_LEVEL_INT = "C20|density|get_estimate computes the level weight as int (1 << height), undefined for more than 31 levels|signed user kernel, every compaction promotes all points";
const char* KEY_LEVEL_64 = "C20|density|weight 2^level of the iterator (1ULL << height) not representable for more than 64 levels|signed user kernel, every compaction promotes all points";

uint64_t g_kernel_bad_dim = 0;  // user kernel called with a vector whose size is not the configured dimension

// ------------------------------------------------------------------ user-supplied kernels (stateful)
enum { K_LAPLACE = 0, K_CONST, K_BOX, K_SCALED_GAUSS, K_COS, K_NMODES };
const char* kmode_name(int m) { static const char* n[] = {"laplace", "const", "box", "scaled-gauss", "cos(signed)"}; return n[m]; }
template <typename T>
struct UserKernel {
  int mode = K_LAPLACE;
  T h = 1;          // bandwidth, or the constant
  uint32_t dim = 0;
  T operator()(const std::vector<T>& a, const std::vector<T>& b) const {
    if (a.size() != dim || b.size() != dim) g_kernel_bad_dim++;
    const size_t n = std::min(a.size(), b.size());
    T l1 = 0, l2 = 0;
    for (size_t i = 0; i < n; ++i) { T d = a[i] - b[i]; l1 += std::fabs(d); l2 += d * d; }
    switch (mode) {
      case K_CONST: return h;
      case K_BOX: return l2 < h * h ? T(1) : T(0);
      case K_SCALED_GAUSS: return std::exp(-l2 / (2 * h * h));
      case K_COS: return std::cos(l1 / h);
      default: return std::exp(-l1 / h);
    }
  }
};

// reference value of the configured kernel; tolk = relative tolerance of one reference evaluation
template <typename T>
double kref(const gaussian_kernel<T>&, const std::vector<T>& a, const std::vector<T>& b, double& tolk) {
  // independent of the library functor: exp(-||a-b||^2) in double. The library accumulates in T: for float the
  // exponent carries a relative error of a few 2^-24, i.e. an absolute error <= ~1e-5 for exponents < 104 (beyond
  // that the float result is 0/denormal and the absolute allowance below applies).
  double s = 0;
  for (size_t i = 0; i < a.size(); ++i) { double d = static_cast<double>(a[i]) - static_cast<double>(b[i]); s += d * d; }
  tolk = sizeof(T) == 4 ? 3e-4 : 1e-11;
  return std::exp(-s);
}
template <typename T>
double kref(const UserKernel<T>& k, const std::vector<T>& a, const std::vector<T>& b, double& tolk) {
  tolk = 0;  // the user kernel IS the definition (a pure function); only summation error remains
  return static_cast<double>(k(a, b));
}
template <typename T> bool k_nonneg(const gaussian_kernel<T>&) { return true; }
template <typename T> bool k_nonneg(const UserKernel<T>& k) { return k.mode != K_COS; }
template <typename T> gaussian_kernel<T> k_for_dim(const gaussian_kernel<T>& k, uint32_t) { return k; }
template <typename T> UserKernel<T> k_for_dim(UserKernel<T> k, uint32_t d) { k.dim = d; return k; }

template <typename T>
std::vector<uint64_t> bits_of(const std::vector<T>& p) {
  std::vector<uint64_t> r(p.size());
  for (size_t i = 0; i < p.size(); ++i) { uint64_t b = 0; std::memcpy(&b, &p[i], sizeof(T)); r[i] = b; }
  return r;
}
template <typename T>
std::string show(const std::vector<T>& p) {
  std::ostringstream os; os.precision(17); os << "[";
  for (size_t i = 0; i < p.size(); ++i) os << (i ? "," : "") << p[i];
  os << "]"; return os.str();
}

struct Flags {
  bool compaction = false, levels3 = false, merge_nonempty = false, merge_est = false, merge_move = false, merge_self = false,
       merge_alien = false, wrong_dim = false, exact_mean = false, est_query = false, zero_kernel = false, dup = false, copy = false;
  uint64_t max_levels = 1;
};

template <typename T, typename K>
struct Harness {
  using Sk = density_sketch<T, K>;
  using Pt = std::vector<T>;
  struct Slot {
    std::unique_ptr<Sk> sk;
    K kern;                   // the kernel object handed to this sketch
    uint16_t k = 2;
    uint32_t dim = 1;
    uint64_t n = 0;
    std::vector<Pt> inputs;   // every point offered to this lineage, in level-0 order while exact
    bool compacted = false;   // a compaction happened in this lineage
  };
  static const int NSLOT = 4, ALIEN = 4;
  K kernel;
  uint32_t dim;
  std::vector<Slot> slots;
  Flags f;
  std::vector<std::pair<int, std::pair<int64_t, uint64_t>>> wrong_queries;  // deferred wrong-dimension queries (slot, (delta, seed))
  bool allow_huge;

  Harness(const K& kern, uint32_t d, const Case& cs) : kernel(kern), dim(d), allow_huge(k_nonneg(kern)) {
    slots.resize(NSLOT + 1);
    for (int i = 0; i <= NSLOT; ++i) {
      Slot& s = slots[i];
      int64_t k = cs.get("k" + std::to_string(i == ALIEN ? 0 : i), 4);
      s.k = static_cast<uint16_t>(std::min<int64_t>(300, std::max<int64_t>(2, k)));
      s.dim = i == ALIEN ? dim + 1 : dim;
      fresh(s);
    }
  }
  void fresh(Slot& s) {
    s.kern = k_for_dim(kernel, s.dim);
    s.sk.reset(new Sk(s.k, s.dim, s.kern));
    s.n = 0; s.inputs.clear(); s.compacted = false;
  }

  // ---------------------------------------------------------------- points
  Pt make_point(uint32_t d, int64_t pattern, uint64_t seed, const Slot& s) const {
    vf::Rng r(seed);
    Pt p(d);
    int pat = static_cast<int>(((pattern % 6) + 6) % 6);
    if (pat == 4 && !allow_huge) pat = 0;
    switch (pat) {
      case 0: {  // three clusters
        double c = static_cast<double>(r.below(3)) * 1.5;
        for (auto& x : p) x = static_cast<T>(c + (r.unit() - 0.5) * 0.8);
        break;
      }
      case 1:  // coarse grid: many exact duplicates
        for (auto& x : p) x = static_cast<T>((static_cast<double>(r.below(5)) - 2.0) * 0.5);
        break;
      case 2:  // an earlier input of this lineage
        if (!s.inputs.empty() && s.inputs[0].size() == d) { p = s.inputs[r.below(s.inputs.size())]; break; }
        for (auto& x : p) x = static_cast<T>(r.unit());
        break;
      case 3:  // far apart: kernel value between two distinct ones underflows to exactly 0
        for (auto& x : p) x = static_cast<T>((static_cast<double>(r.below(7)) - 3.0) * 40.0);
        break;
      case 4: {  // huge / tiny magnitudes (squared distance overflows to +inf in T), finite coordinates only
        const double big = sizeof(T) == 4 ? 1e30 : 1e200;
        const double tiny = sizeof(T) == 4 ? 1e-42 : 1e-320;
        for (auto& x : p) { uint64_t c = r.below(5); x = static_cast<T>(c == 0 ? big : c == 1 ? -big : c == 2 ? tiny : c == 3 ? -0.0 : 0.25); }
        break;
      }
      default:  // wide uniform
        for (auto& x : p) x = static_cast<T>((r.unit() - 0.5) * 12.0);
    }
    return p;
  }

  // ---------------------------------------------------------------- state check
  struct Shape { uint64_t levels = 0; std::vector<uint64_t> sizes; uint64_t k = 0, dimv = 0, n = 0, retained = 0; };
  Shape parse_shape(const Sk& sk) {
    auto str = sk.to_string(true, false);
    Shape sh;
    std::istringstream in(std::string(str.c_str()));
    std::string line; bool in_levels = false;
    while (std::getline(in, line)) {
      unsigned long long a = 0, b = 0;
      if (sscanf(line.c_str(), "   K              : %llu", &a) == 1) sh.k = a;
      else if (sscanf(line.c_str(), "   Dim            : %llu", &a) == 1) sh.dimv = a;
      else if (sscanf(line.c_str(), "   N              : %llu", &a) == 1) sh.n = a;
      else if (sscanf(line.c_str(), "   Retained items : %llu", &a) == 1) sh.retained = a;
      else if (sscanf(line.c_str(), "   Levels         : %llu", &a) == 1) sh.levels = a;
      else if (line.find("height: size") != std::string::npos) in_levels = true;
      else if (line.find("### End sketch levels") != std::string::npos) in_levels = false;
      else if (in_levels && sscanf(line.c_str(), "   %llu: %llu", &a, &b) == 2) {
        VF_CHECK(a == sh.sizes.size(), "to-string-levels", "level lines out of order: " << line);
        sh.sizes.push_back(b);
      }
    }
    return sh;
  }

  // must run before anything that iterates or estimates (see KEY_LEVEL_INT)
  Shape guard_levels(Slot& s, const std::string& after) {
    static const uint64_t max_int_levels = static_cast<uint64_t>(std::min<long>(64, std::max<long>(1, vf::env_long("C20_MAX_LEVELS", 31))));
    Shape sh = parse_shape(*s.sk);
    VF_CHECK_K(sh.levels <= 64, "level-weight-unrepresentable", KEY_LEVEL_64, "after " << after << ": " << sh.levels << " levels (n " << s.n << ", k " << s.k
               << "): iteration would evaluate 1ULL << " << (sh.levels - 1));
    VF_CHECK_K(sh.levels <= max_int_levels, "level-weight-overflow", KEY_LEVEL_INT, "after " << after << ": " << sh.levels << " levels (n " << s.n << ", k " << s.k
               << "): get_estimate would evaluate the int expression 1 << " << (sh.levels - 1));
    return sh;
  }

  void check_state(Slot& s, const std::string& after, bool full) {
    const Sk& sk = *s.sk;
    VF_CHECK(sk.get_n() == s.n, "n-exact", "after " << after << ": get_n " << sk.get_n() << " model " << s.n);
    VF_CHECK(sk.get_k() == s.k && sk.get_dim() == s.dim, "config", "k/dim " << sk.get_k() << "/" << sk.get_dim());
    Shape sh = guard_levels(s, after);
    VF_CHECK(sh.levels >= 1 && sh.levels == sh.sizes.size(), "to-string-levels", "Levels " << sh.levels << " level lines " << sh.sizes.size());
    VF_CHECK(sh.n == s.n && sh.k == s.k && sh.dimv == s.dim && sh.retained == sk.get_num_retained(), "to-string-summary",
             "summary N/K/Dim/Retained " << sh.n << "/" << sh.k << "/" << sh.dimv << "/" << sh.retained);
    const uint64_t retained = sk.get_num_retained();
    // iteration: count, dimension, weight = 2^level (levels known from to_string: iteration runs level by level)
    uint64_t cnt = 0, lvl = 0, in_lvl = 0, sumw = 0;
    std::vector<std::vector<uint64_t>> R;
    bool all_w1 = true;
    for (auto it = sk.begin(); it != sk.end(); ++it) {
      const auto pr = *it;
      ++cnt;
      VF_CHECK(cnt <= retained, "retained-iter", "after " << after << ": iteration yields more than get_num_retained " << retained);
      while (lvl < sh.sizes.size() && in_lvl >= sh.sizes[lvl]) { ++lvl; in_lvl = 0; }
      VF_CHECK(lvl < sh.sizes.size(), "retained-iter", "iteration yields more points than the level sizes add up to");
      ++in_lvl;
      VF_CHECK(pr.second == (1ull << lvl), "weight-level", "after " << after << ": point #" << cnt << " of level " << lvl << " carries weight " << pr.second);
      VF_CHECK(pr.first.size() == s.dim, "point-dim", "after " << after << ": retained point of dimension " << pr.first.size() << " in a sketch of dimension " << s.dim);
      VF_CHECK(it->second == pr.second && it->first == pr.first, "iter-arrow", "operator-> differs from operator*");
      if (pr.second != 1) all_w1 = false;
      sumw += pr.second;
      if (full) R.push_back(bits_of(pr.first));
    }
    VF_CHECK(cnt == retained, "retained-iter", "after " << after << ": get_num_retained " << retained << " but iteration yields " << cnt);
    uint64_t tot = 0; for (auto z : sh.sizes) tot += z;
    VF_CHECK(tot == retained, "retained-levels", "level sizes add up to " << tot << ", get_num_retained " << retained);
    VF_CHECK(retained <= static_cast<uint64_t>(s.k) * sh.levels, "retained-bound", "after " << after << ": retained " << retained << " > k " << s.k << " x levels " << sh.levels);
    if (s.n == 0) {
      VF_CHECK(retained == 0 && sk.is_empty() && sk.begin() == sk.end(), "empty-sketch", "sketch with n=0 not empty");
      VF_CHECK(!sk.is_estimation_mode(), "estimation-mode-flag", "sketch with n=0 in estimation mode");
    } else {
      VF_CHECK_K(!sk.is_empty(), "empty-flag", KEY_DROPPED_ALL, "after " << after << ": is_empty() is true for a sketch with n=" << s.n << " (retained " << retained << ", k " << s.k << ")");
    }
    VF_CHECK(sk.is_estimation_mode() == s.compacted, "estimation-mode-flag", "after " << after << ": is_estimation_mode " << sk.is_estimation_mode()
             << " but compactions in the lineage: " << s.compacted);
    if (!sk.is_estimation_mode() || !s.compacted) {
      // exact: every input is retained with weight 1
      VF_CHECK(retained == s.n && all_w1 && sumw == s.n, "exact-retains-all", "after " << after << ": before any compaction retained " << retained << " of n " << s.n << " (sum of weights " << sumw << ")");
    }
    if (sh.levels > f.max_levels) f.max_levels = sh.levels;
    if (full) {
      // retained multiset is a sub-multiset of the inputs (equal while exact)
      std::vector<std::vector<uint64_t>> I;
      I.reserve(s.inputs.size());
      for (const auto& p : s.inputs) I.push_back(bits_of(p));
      std::sort(I.begin(), I.end()); std::sort(R.begin(), R.end());
      size_t i = 0;
      for (size_t j = 0; j < R.size(); ++j) {
        while (i < I.size() && I[i] < R[j]) ++i;
        VF_CHECK(i < I.size() && I[i] == R[j], "retained-subset", "after " << after << ": a retained point (sorted #" << j << ") is not among the inputs, or is retained more often than it was offered");
        ++i;
      }
      if (!s.compacted) VF_CHECK(R.size() == I.size(), "exact-retains-all", "exact sketch misses inputs");
    }
  }

  // ---------------------------------------------------------------- query
  void query(Slot& s, const Pt& q, const std::string& after) {
    const Sk& sk = *s.sk;
    if (s.n == 0) {
      bool threw = false;
      try { (void)sk.get_estimate(q); } catch (const std::exception&) { threw = true; }
      VF_CHECK(threw, "empty-estimate-refused", "get_estimate on a sketch with n=0 returned a value");
      return;
    }
    guard_levels(s, after);
    T est = 0;
    bool threw = false; std::string what;
    try { est = sk.get_estimate(q); } catch (const std::exception& e) { threw = true; what = e.what(); }
    if (threw) {
      VF_CHECK_K(!(sk.get_num_retained() == 0), "estimate-refused", KEY_DROPPED_ALL, "after " << after << ": get_estimate throws '" << what << "' on a sketch with n=" << s.n << " retained 0");
      VF_CHECK(false, "estimate-refused", "after " << after << ": get_estimate throws '" << what << "' on a sketch with n=" << s.n);
    }
    VF_CHECK(std::isfinite(est), "estimate-finite", "after " << after << ": estimate " << est << " at " << show(q));
    if (k_nonneg(kernel)) VF_CHECK(est >= 0, "estimate-nonneg", "after " << after << ": estimate " << est << " < 0 for a non-negative kernel");
    const double eps = std::numeric_limits<T>::epsilon();
    const double tiny = sizeof(T) == 4 ? 1e-36 : 1e-300;
    // (a) estimate = sum over the visible points of weight * K(p, q) / n  (same kernel object, same order)
    {
      T acc = 0; double sabs = 0; uint64_t cnt = 0;
      for (auto it = sk.begin(); it != sk.end(); ++it) {
        const auto pr = *it;
        T kv = s.kern(pr.first, q);
        acc += static_cast<T>(pr.second) * kv / static_cast<T>(s.n);
        sabs += static_cast<double>(pr.second) * std::fabs(static_cast<double>(kv)) / static_cast<double>(s.n);
        ++cnt;
      }
      double tol = 4 * eps * (cnt + 2) * sabs + tiny;
      VF_CHECK(std::fabs(static_cast<double>(est) - static_cast<double>(acc)) <= tol, "estimate-weights",
               "after " << after << ": estimate " << est << " but sum of weight*K/n over the iterated points = " << acc << " (n " << s.n << ", retained " << cnt << ")");
      if (s.compacted) f.est_query = true;
    }
    // (b) until the first compaction: exact mean of the kernel over ALL inputs (independent reference for the Gaussian)
    if (!s.compacted) {
      double sum = 0, sabs = 0, tolk = 0;
      bool zero = false;
      for (const auto& p : s.inputs) {
        double kv = kref(s.kern, p, q, tolk);
        sum += kv; sabs += std::fabs(kv);
        if (kv == 0) zero = true;
      }
      double mean = sum / static_cast<double>(s.n), mabs = sabs / static_cast<double>(s.n);
      double tol = (tolk + 4 * eps * (s.inputs.size() + 2)) * mabs + tiny;
      VF_CHECK(std::fabs(static_cast<double>(est) - mean) <= tol, "exact-mean",
               "after " << after << ": no compaction yet, estimate " << est << " but mean kernel over the " << s.n << " inputs = " << mean << " at " << show(q));
      f.exact_mean = true;
      if (zero) f.zero_kernel = true;
    }
  }

  void auto_query(Slot& s, uint64_t seed, const std::string& after) {
    if (s.n == 0) return;
    vf::Rng r(seed);
    Pt q = (r.below(2) && !s.inputs.empty()) ? s.inputs[r.below(s.inputs.size())] : make_point(s.dim, static_cast<int64_t>(r.below(6)), r.next(), s);
    query(s, q, after + "/auto-query");
  }

  // ---------------------------------------------------------------- ops
  void do_update(Slot& s, const Pt& p, bool as_rvalue) {
    uint64_t fl = vf::coin_flips();
    if (as_rvalue) { Pt tmp(p); s.sk->update(std::move(tmp)); } else s.sk->update(p);
    s.n++; s.inputs.push_back(p);
    if (vf::coin_flips() != fl) { s.compacted = true; f.compaction = true; }
  }

  void run(const Case& cs) {
    const size_t CAP = 30000;  // inputs tracked per lineage (memory / time); ops that would exceed it are skipped
    size_t opi = 0;
    for (const Op& op : cs.ops) {
      ++opi;
      std::string after = op.name + "#" + std::to_string(opi);
      const bool last = &op == &cs.ops.back();
      int a = static_cast<int>(op.uarg(0) % NSLOT);
      Slot& s = slots[a];
      std::vector<int> touched{a};
      if (op.name == "upd") {
        if (s.inputs.size() >= CAP) continue;
        Pt p = make_point(dim, op.arg(1), op.uarg(2), s);
        if ((op.arg(1) % 6 + 6) % 6 == 2) f.dup = true;
        do_update(s, p, op.uarg(2) & 1);
      } else if (op.name == "bulk") {
        uint64_t n = op.uarg(1) % 1000;
        if (s.inputs.size() + n > CAP) continue;
        vf::Rng r(op.uarg(3));
        for (uint64_t i = 0; i < n; ++i) {
          Pt p = make_point(dim, op.arg(2), r.next(), s);
          do_update(s, p, i & 1);
          if (i % 64 == 63) VF_CHECK(s.sk->get_n() == s.n, "n-exact", "inside bulk: get_n " << s.sk->get_n() << " model " << s.n);
        }
      } else if (op.name == "wrong") {
        // a point of any other dimension (including 0) must be refused and must leave the sketch unchanged
        int64_t delta = op.arg(1) % 4; if (delta == 0) delta = 1;
        int64_t d = static_cast<int64_t>(dim) + delta; if (d < 0) d = 0;
        if (d == static_cast<int64_t>(dim)) d = dim + 1;
        Pt p = make_point(static_cast<uint32_t>(d), 5, op.uarg(2), s);
        bool refused = false;
        uint64_t fl = vf::coin_flips();
        try { if (op.uarg(2) & 1) s.sk->update(std::move(p)); else s.sk->update(p); } catch (const std::exception&) { refused = true; }
        VF_CHECK(refused, "wrong-dim-refused", "update accepted a point of dimension " << d << " (sketch dimension " << dim << ")");
        VF_CHECK(vf::coin_flips() == fl, "wrong-dim-refused", "a refused point triggered a compaction");
        f.wrong_dim = true;
      } else if (op.name == "merge") {
        int b = static_cast<int>(op.uarg(1) % (NSLOT + 1));
        int mode = static_cast<int>(op.uarg(2) % 4);  // 0 const&, 1 rvalue (source slot is rebuilt afterwards), 2 const& of a copy, 3 non-const lvalue (source must stay intact: it is checked afterwards like every touched slot)
        Slot& src = slots[b];
        if (s.inputs.size() + src.inputs.size() > CAP) continue;
        const uint64_t n_before = s.n, n_src = src.n;
        const bool src_compacted = src.compacted, src_dropped_all = src.n > 0 && src.sk->get_num_retained() == 0;
        uint64_t fl = vf::coin_flips();
        bool threw = false;
        std::vector<Pt> src_inputs = src.inputs;
        try {
          if (b == a || mode == 2) { Sk cp(*src.sk); s.sk->merge(static_cast<const Sk&>(cp)); if (b == a) f.merge_self = true; }
          else if (mode == 1 && b != ALIEN) { s.sk->merge(std::move(*src.sk)); fresh(src); f.merge_move = true; }
          else if (mode == 3) { s.sk->merge(*src.sk); vf::label("merge-nonconst-lvalue"); }
          else s.sk->merge(static_cast<const Sk&>(*src.sk));
        } catch (const std::invalid_argument&) { threw = true; }
        if (b == ALIEN) {
          f.merge_alien = true;
          // a sketch of another dimension: a refusal must leave the target unchanged; if it is accepted the generic
          // invariants (every visible point has the configured dimension) decide
          VF_CHECK(!threw || n_src > 0, "merge-alien", "merging an empty sketch of another dimension throws");
        } else {
          VF_CHECK(!threw, "merge-refused", "merge of a sketch of the same dimension throws invalid_argument");
        }
        if (!threw) {
          if (src_dropped_all)
            VF_CHECK_K(s.sk->get_n() == n_before + n_src, "merge-adds-n", KEY_DROPPED_ALL, "after " << after << ": merge of a sketch with n=" << n_src << " (retained 0) into n=" << n_before << " gives n=" << s.sk->get_n());
          VF_CHECK(s.sk->get_n() == n_before + n_src, "merge-adds-n", "after " << after << ": merge of n=" << n_src << " into n=" << n_before << " gives n=" << s.sk->get_n());
          s.n += n_src;
          s.inputs.insert(s.inputs.end(), src_inputs.begin(), src_inputs.end());
          if (src_compacted) { s.compacted = true; if (n_src) f.merge_est = true; }
          if (n_before && n_src) f.merge_nonempty = true;
        }
        if (vf::coin_flips() != fl) { s.compacted = true; f.compaction = true; }
        touched.push_back(b);
      } else if (op.name == "alien") {
        Slot& al = slots[ALIEN];
        uint64_t n = op.uarg(1) % 40;
        if (al.inputs.size() + n > 2000) continue;
        vf::Rng r(op.uarg(2));
        for (uint64_t i = 0; i < n; ++i) do_update(al, make_point(al.dim, static_cast<int64_t>(r.below(4)), r.next(), al), i & 1);
        touched = {ALIEN};
      } else if (op.name == "copy") {
        if (op.uarg(1) & 1) { Sk cp(*s.sk); *s.sk = cp; }                               // copy construct + copy assign
        else { Sk tmp(std::move(*s.sk)); s.sk.reset(new Sk(std::move(tmp))); }           // move construct twice
        f.copy = true;
      } else if (op.name == "ser") {
        // the sketch is replaced by what its serialized image decodes to, given the same kernel object (every later estimate is still
        // compared with the model's kernel). Not for a state with a trailing empty level: the image cannot express it (open finding,
        // keyed in C09/C11) and the k * levels bound of the restored sketch would differ.
        std::string t(s.sk->to_string(true, false).c_str());
        size_t e = t.rfind("### End sketch levels"), l = e == std::string::npos ? e : t.rfind(": ", e);
        const bool trailing_empty = s.sk->is_estimation_mode() && l != std::string::npos && std::atoi(t.c_str() + l + 2) == 0;
        if (trailing_empty || s.n == 0) continue;
        if (op.uarg(1) & 1) { std::stringstream ss(std::ios::in | std::ios::out | std::ios::binary); s.sk->serialize(ss); s.sk.reset(new Sk(Sk::deserialize(ss, s.kern))); }
        else { auto b = s.sk->serialize(); s.sk.reset(new Sk(Sk::deserialize(b.data(), b.size(), s.kern))); }
        vf::label("round-trip");
      } else if (op.name == "query") {
        Pt q;
        vf::Rng r(op.uarg(2));
        if (op.arg(1) % 7 == 6 && !s.inputs.empty()) q = s.inputs[r.below(s.inputs.size())];
        else q = make_point(dim, op.arg(1) % 6, r.next(), s);
        query(s, q, after);
      } else if (op.name == "wrongq") {
        // thinned to 1 in 4: the finding is keyed and a listed key excludes the (already fully checked) case
        if (op.uarg(2) % 4 == 0) wrong_queries.push_back({a, {op.arg(1), op.uarg(2)}});
        continue;
      } else continue;
      for (int t : touched) {
        Slot& x = slots[t];
        check_state(x, after, last || x.inputs.size() <= 1500 || (opi % 8) == 0);
        auto_query(x, vf::mix64(opi * 7919 + static_cast<uint64_t>(t)), after);
      }
      VF_CHECK(g_kernel_bad_dim == 0, "kernel-dim", "after " << after << ": the kernel was called with a vector of the wrong dimension");
    }
    // final: full check of every sketch
    for (int t = 0; t <= NSLOT; ++t) { check_state(slots[t], "end", true); auto_query(slots[t], 77 + t, "end"); }
  }

  // deferred: query points of the wrong dimension (run after everything else, labels included, because the finding is
  // keyed: a listed key skips the rest of the case). Only LONGER points are used with the library's Gaussian functor: it reads
  // query[0..dim) unchecked, a shorter one is an out-of-bounds read (reported in prose, not generated).
  void run_wrong_queries() {
    for (const auto& wq : wrong_queries) {
      Slot& s = slots[wq.first];
      if (s.n == 0 || s.sk->get_num_retained() == 0) continue;
      guard_levels(s, "end/wrong-dim-query");
      int64_t delta = wq.second.first % 3; if (delta == 0) delta = 1;
      if (delta < 0 && !std::is_same<K, UserKernel<T>>::value) delta = -delta;
      int64_t d = static_cast<int64_t>(dim) + delta; if (d < 0) d = 0;
      Pt q = make_point(static_cast<uint32_t>(d), 5, wq.second.second, s);
      bool refused = false; T v = 0;
      uint64_t bad = g_kernel_bad_dim;
      try { v = s.sk->get_estimate(q); } catch (const std::exception&) { refused = true; }
      g_kernel_bad_dim = bad;
      VF_CHECK_K(refused, "wrong-dim-query", KEY_WRONG_QUERY, "get_estimate accepted a query point of dimension " << d << " (sketch dimension " << dim << ") and returned " << v);
    }
  }
};

template <typename T, typename K>
void run_typed(const Case& cs, const K& kernel, uint32_t dim) {
  Harness<T, K> h(kernel, dim, cs);
  h.run(cs);
  const Flags& f = h.f;
  if (f.compaction) vf::label("compaction");
  if (f.max_levels >= 3) vf::label("levels>=3");
  if (f.max_levels >= 6) vf::label("levels>=6");
  if (f.max_levels >= 16) vf::label("levels>=16");
  if (f.merge_nonempty) vf::label("merge-nonempty");
  if (f.merge_est) vf::label("merge-of-compacted");
  if (f.merge_move) vf::label("merge-move");
  if (f.merge_self) vf::label("merge-self-copy");
  if (f.merge_alien) vf::label("merge-other-dim");
  if (f.wrong_dim) vf::label("wrong-dim-point");
  if (f.exact_mean) vf::label("exact-mean-checked");
  if (f.est_query) vf::label("estimation-query");
  if (f.zero_kernel) vf::label("kernel-underflow-0");
  if (f.dup) vf::label("duplicates");
  if (f.copy) vf::label("copy");
  if (!h.wrong_queries.empty()) vf::label("wrong-dim-query");
  vf::count("compactions", vf::coin_flips());
  if (f.compaction && f.est_query && (f.exact_mean || f.merge_nonempty)) vf::nontrivial();
  h.run_wrong_queries();
}

void prop(const Case& cs) {
  g_kernel_bad_dim = 0;
  vf::own_randomness(static_cast<uint64_t>(cs.get("rnd", 1)));
  int64_t coin = cs.get("coin", 2);
  if (coin == 0) { vf::coin_script({}, 0); vf::label("coin=0"); }
  else if (coin == 1) { vf::coin_script({}, 1); vf::label("coin=1"); }
  else vf::label("coin=prng");
  uint32_t dim = static_cast<uint32_t>(std::min<int64_t>(5, std::max<int64_t>(1, cs.get("dim", 1))));
  bool is_float = cs.get("ty", 0) & 1;
  int64_t kern = cs.get("kern", 0);
  vf::label(is_float ? "T=float" : "T=double");
  vf::label("dim=" + std::to_string(dim));
  if (kern <= 0) {
    vf::label("kernel=gaussian(library)");
    if (is_float) run_typed<float>(cs, gaussian_kernel<float>(), dim); else run_typed<double>(cs, gaussian_kernel<double>(), dim);
  } else {
    int mode = static_cast<int>((kern - 1) % K_NMODES);
    static const double hs[] = {1.0, 0.5, 2.0, 0.75};
    double h = hs[((kern - 1) / K_NMODES) % 4];
    vf::label(std::string("kernel=user:") + kmode_name(mode));
    if (is_float) { UserKernel<float> k; k.mode = mode; k.h = static_cast<float>(h); k.dim = dim; run_typed<float>(cs, k, dim); }
    else { UserKernel<double> k; k.mode = mode; k.h = h; k.dim = dim; run_typed<double>(cs, k, dim); }
  }
}

rc::Gen<int64_t> kgen() {
  return rc::gen::weightedOneOf<int64_t>({{5, vf::range(2, 6)}, {4, vf::range(7, 24)}, {2, vf::range(25, 64)}, {1, vf::range(65, 300)}});
}
rc::Gen<int64_t> patgen() {  // 0 cluster 1 grid 2 duplicate 3 far 4 huge 5 wide
  return rc::gen::weightedOneOf<int64_t>({{5, vf::pick({0})}, {3, vf::pick({1})}, {2, vf::pick({2})}, {1, vf::pick({3})}, {1, vf::pick({4})}, {3, vf::pick({5})}});
}

rc::Gen<Case> gen_main() {
  using namespace vf;
  auto slot = rc::gen::weightedOneOf<int64_t>({{3, rc::gen::just<int64_t>(0)}, {3, rc::gen::just<int64_t>(1)}, {2, rc::gen::just<int64_t>(2)}, {1, rc::gen::just<int64_t>(3)}});
  auto sd = range(0, (1ll << 40));
  auto opg = choose({
      {6, op3("upd", slot, patgen(), sd)},
      {5, op4("bulk", slot, rc::gen::withSize([](int s) { return range(1, 12 + 4 * s); }), patgen(), sd)},
      {2, op4("bulk", slot, range(1, 40), patgen(), sd)},
      {2, op3("wrong", slot, range(-3, 3), sd)},
      {5, op3("merge", slot, slot, range(0, 3))},
      {2, op2("ser", slot, range(0, 1))},
      {1, op3("merge", slot, pick({4}), range(0, 3))},
      {1, op3("alien", pick({0}), range(0, 39), sd)},
      {1, op2("copy", slot, range(0, 1))},
      {4, op3("query", slot, range(0, 6), sd)},
      {1, op3("wrongq", slot, range(-2, 2), sd)},
  });
  return make_case({{"ty", range(0, 1)},
                    {"kern", rc::gen::weightedOneOf<int64_t>({{4, rc::gen::just<int64_t>(0)}, {5, range(1, 4 * K_NMODES)}})},
                    {"dim", rc::gen::weightedOneOf<int64_t>({{3, range(1, 2)}, {2, range(3, 5)}})},
                    {"k0", kgen()}, {"k1", kgen()}, {"k2", kgen()}, {"k3", kgen()},
                    {"coin", rc::gen::weightedOneOf<int64_t>({{1, rc::gen::just<int64_t>(0)}, {1, rc::gen::just<int64_t>(1)}, {5, rc::gen::just<int64_t>(2)}})},
                    {"rnd", range(0, (1ll << 40))}},
                   oplist(opg, 4, 0.8));
}

// deep level stacks: a kernel with negative values and tiny k, where a compaction can promote every point
// (levels grow linearly with n), and the non-negative kernels with k = 2..4 for comparison (levels ~ log n)
rc::Gen<Case> gen_deep() {
  using namespace vf;
  auto slot = range(0, 2);
  auto sd = range(0, (1ll << 40));
  auto opg = choose({
      {6, op4("bulk", slot, range(100, 999), pick({0, 1, 1, 5}), sd)},
      {2, op3("upd", slot, pick({0, 1, 2, 5}), sd)},
      {4, op3("merge", slot, slot, range(0, 3))},
      {2, op3("query", slot, range(0, 6), sd)},
  });
  return make_case({{"ty", range(0, 1)},
                    {"kern", rc::gen::weightedOneOf<int64_t>({{3, pick({5, 10, 15, 20})}, {1, range(0, 4)}})},
                    {"dim", range(1, 5)},
                    {"k0", rc::gen::weightedOneOf<int64_t>({{2, range(2, 4)}, {1, range(20, 200)}})},
                    {"k1", rc::gen::weightedOneOf<int64_t>({{2, range(2, 4)}, {1, range(8, 40)}})},
                    {"k2", range(2, 3)}, {"k3", range(2, 4)},
                    {"coin", pick({0, 1, 1, 2})},
                    {"rnd", range(0, (1ll << 40))}},
                   oplist(opg, 6, 0.3));
}

}  // namespace

int main(int argc, char** argv) {
  std::vector<vf::Sub> subs;
  subs.push_back({"main", gen_main, prop, 1.0});
  subs.push_back({"deep", gen_deep, prop, 0.04});
  return vf::main_driver(argc, argv, "C20", "c20_density",
                         "case = (T in {float,double}, kernel in {library Gaussian, user Laplace/const/box/scaled Gaussian/signed cos with a bandwidth}, dim 1..5, "
                         "k per sketch 2..300, coin = all 0 / all 1 / seeded, seed of the shuffle) + op history over 4 sketches and one of another dimension "
                         "(updates from clusters/grids/duplicates/far/huge points, wrong-dimension points, merge by const&/rvalue/self-copy/other-dimension, copy, queries); "
                         "n, iteration, weights 2^level, k x levels bound, sub-multiset of inputs and the estimate are checked after every op against exact counters; "
                         "non-trivial = at least one compaction happened AND an estimate was checked on a compacted sketch AND (the exact mean was checked on a "
                         "not-yet-compacted sketch OR two non-empty sketches were merged); distinct = distinct case text",
                         subs);
}
