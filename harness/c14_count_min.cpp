// C14 — Count-min never under-estimates and is linear under merge.
//
// Model, run next to the real objects (5 sketches per case: 4 with the case's configuration, 1 "odd" one that differs
// in exactly one of buckets / hashes / seed / shape):
//   * exact counters: truth[item bytes] = net weight, total = sum |w| of the accepted updates;
//   * an independent cell array: row seeds re-derived with the same std::default_random_engine /
//     uniform_int_distribution calls the constructor documents, cell = row*buckets + (H_row(item).h1 mod buckets) with
//     H = the reference MurmurHash3 of vf/ref_hash.hpp. The array seen through begin()/end() must equal it exactly
//     after every operation (weights are integers or multiples of 1/4 and every total stays below 2^50, so all
//     arithmetic, including double, is exact and order-independent);
//   * the update stream of every sketch (merges concatenate streams); a fresh sketch fed the concatenation must have
//     exactly the same cells, total weight and estimates as the merged one.
// Checked for items: est == min over rows of the model cells (both directions), and for streams without negative
// weights true <= est <= total; always lb <= est <= ub and ub == est + get_relative_error()*total (documented formula).
// Refusals: self merge and any configuration mismatch must throw std::invalid_argument and leave both sketches
// untouched; num_buckets < 3 and num_hashes*num_buckets >= 2^30 must be refused by the constructor.
// Statistical (weak) sub-check: over >= 2000 distinct items the fraction with est - true > relative_error*total
// is at most e^-num_hashes (+ stated slack + 5 sigma).
#include "vf/core.hpp"
#include "vf/items.hpp"
#include <count_min.hpp>
#include <limits>
#include <map>
#include <memory>
#include <random>
#include <sstream>
#include <type_traits>
#include <unordered_map>

using namespace datasketches;
using vf::Case; using vf::Op;

namespace {

const int NSLOTS = 5;            // 0..3 base configuration, 4 = odd configuration
const int64_t WA_MAX = int64_t(1) << 36;
const double TOTAL_CAP = 1125899906842624.0;  // 2^50 (in weight units; doubles use multiples of 0.25 -> still exact)

// ---------------------------------------------------------------- items
struct It { int kind; uint64_t raw; };  // 0 u64, 1 i64, 2 std::string, 3 (void*, size)

std::string le8(uint64_t v) { std::string s(8, '\0'); for (int i = 0; i < 8; ++i) s[i] = static_cast<char>(v >> (8 * i)); return s; }
std::string key_of(const It& it) {
  switch (it.kind) {
    case 0: case 1: return le8(it.raw);
    case 2: return vf::item_string(it.raw);                      // raw 0 -> empty string (documented as ignored)
    default:
      if (it.raw < 8) { std::string s(it.raw, '\0'); for (size_t i = 0; i < s.size(); ++i) s[i] = static_cast<char>(0x41 + it.raw + i); return s; }  // lengths 0..7
      if (it.raw < 24) return le8(it.raw - 8);                  // deliberately the same bytes as the integer item raw-8
      return vf::item_bytes(it.raw);
  }
}

uint64_t seed_from(int64_t sel) {
  switch (sel) {
    case 0: return DEFAULT_SEED;
    case 1: return 0;
    case 2: return 1;
    case 3: return 2147483647ull;               // modulus of minstd_rand0
    case 4: return std::numeric_limits<uint64_t>::max();
    default: return vf::mix64(static_cast<uint64_t>(sel));
  }
}

template <typename W> W weight_from(int64_t wa, bool neg_ok) {
  if (wa > WA_MAX) wa = WA_MAX;
  if (wa < -WA_MAX) wa = -WA_MAX;
  if (wa < 0 && (!neg_ok || std::is_unsigned<W>::value)) wa = -wa;
  if (std::is_floating_point<W>::value) return static_cast<W>(static_cast<double>(wa) * 0.25);
  return static_cast<W>(wa);
}
template <typename W> W wabs(W w) { return w < W(0) ? static_cast<W>(W(0) - w) : w; }

// ---------------------------------------------------------------- stream elements (for the concatenation replay)
struct El { int type; It it; int64_t wa; bool dflt; uint64_t n, pattern, seed; };  // type 0 single, 1 bulk

// expands one element into (item, weight-code, default-weight?) triples
template <typename F> void expand(const El& e, F&& f) {
  if (e.type == 0) { f(e.it, e.wa, e.dflt); return; }
  vf::Rng r(vf::mix64(e.seed) ^ (e.pattern * 0x9e3779b97f4a7c15ull));
  const uint64_t base = vf::mix64(e.seed + 77);
  for (uint64_t i = 0; i < e.n; ++i) {
    switch (e.pattern % 7) {
      case 0: f(It{0, vf::mix64(base + i) | (1ull << 40)}, 1, true); break;                         // fresh u64 keys, default weight
      case 1: {                                                                                        // skewed repeats from a pool
        uint64_t pool = std::max<uint64_t>(1, e.n / 8);
        uint64_t u = r.below(pool), v = r.below(pool);
        f(It{static_cast<int>(e.seed & 1), 1000 * (e.seed % 16) + std::min(u, v)}, static_cast<int64_t>(1 + r.below(8)), false);
        break;
      }
      case 2: f(It{2, vf::mix64(base + i) | 4096}, static_cast<int64_t>(1 + r.below(4)), false); break;  // fresh strings
      case 3: f(It{static_cast<int>(r.below(2)), r.below(10)}, static_cast<int64_t>(1 + r.below(1000000)), false); break;  // heavy hitters on the small pool
      case 4: {                                                                                        // all kinds from the small pool, signed weight codes
        int64_t w = static_cast<int64_t>(r.below(12));
        if (r.below(3) == 0) w = -w;
        f(It{static_cast<int>(r.below(4)), r.below(64)}, w, r.below(5) == 0);
        break;
      }
      case 5: f(It{3, vf::mix64(base + i) | (1ull << 41)}, static_cast<int64_t>(1 + r.below(3)), false); break;  // fresh byte items
      default: f(It{1, static_cast<uint64_t>(-static_cast<int64_t>(1 + r.below(200)))}, static_cast<int64_t>(r.below(3)), false); break;  // negative int64 items, weights 0..2
    }
  }
}

// ---------------------------------------------------------------- typed calls
template <typename W> void real_update(count_min_sketch<W>& sk, const It& it, const std::string& key, W w, bool dflt) {
  switch (it.kind) {
    case 0: if (dflt) sk.update(static_cast<uint64_t>(it.raw)); else sk.update(static_cast<uint64_t>(it.raw), w); break;
    case 1: if (dflt) sk.update(static_cast<int64_t>(it.raw)); else sk.update(static_cast<int64_t>(it.raw), w); break;
    case 2: if (dflt) sk.update(key); else sk.update(key, w); break;
    default: sk.update(static_cast<const void*>(key.data()), key.size(), dflt ? W(1) : w);
  }
}
uint64_t u64_of(const std::string& key) { uint64_t v = 0; for (int i = 7; i >= 0; --i) v = (v << 8) | static_cast<unsigned char>(key[i]); return v; }
template <typename W> void typed_query(const count_min_sketch<W>& sk, int kind, const std::string& key, W& est, W& lb, W& ub) {
  switch (kind) {
    case 0: { uint64_t v = u64_of(key); est = sk.get_estimate(v); lb = sk.get_lower_bound(v); ub = sk.get_upper_bound(v); break; }
    case 1: { int64_t v = static_cast<int64_t>(u64_of(key)); est = sk.get_estimate(v); lb = sk.get_lower_bound(v); ub = sk.get_upper_bound(v); break; }
    case 2: est = sk.get_estimate(key); lb = sk.get_lower_bound(key); ub = sk.get_upper_bound(key); break;
    default: est = sk.get_estimate(key.data(), key.size()); lb = sk.get_lower_bound(key.data(), key.size()); ub = sk.get_upper_bound(key.data(), key.size());
  }
}

// ---------------------------------------------------------------- model
struct HashCfg {
  uint8_t h; uint32_t b; uint64_t seed;
  std::vector<uint64_t> row_seeds;
  std::unordered_map<std::string, std::vector<uint32_t>> cache;  // never iterated
  HashCfg(uint8_t h_, uint32_t b_, uint64_t s_) : h(h_), b(b_), seed(s_) {
    // "Adds the global seed to all hash functions": seeds drawn from default_random_engine(seed), uniform over uint64
    std::default_random_engine rng(seed);
    std::uniform_int_distribution<uint64_t> d(0, std::numeric_limits<uint64_t>::max());
    for (unsigned i = 0; i < h; ++i) row_seeds.push_back(d(rng) + seed);
  }
  bool same(const HashCfg& o) const { return h == o.h && b == o.b && seed == o.seed; }
  void compute(const std::string& key, std::vector<uint32_t>& out) const {
    out.resize(h);
    for (unsigned r = 0; r < h; ++r) out[r] = static_cast<uint32_t>(vf::ref_murmur3_128(key.data(), key.size(), row_seeds[r]).h1 % b);
  }
  const std::vector<uint32_t>& locs(const std::string& key, std::vector<uint32_t>& tmp) {
    if (h > 32) { compute(key, tmp); return tmp; }
    auto f = cache.find(key);
    if (f != cache.end()) return f->second;
    if (cache.size() >= 30000) { compute(key, tmp); return tmp; }
    auto& v = cache[key];
    compute(key, v);
    return v;
  }
};

template <typename W> struct Entry { W net = 0; int kind = 0; };

template <typename W> struct Slot {
  std::shared_ptr<HashCfg> hc;
  std::unique_ptr<count_min_sketch<W>> sk;
  std::vector<W> cells;
  W total = 0;
  std::map<std::string, Entry<W>> truth;
  bool has_neg = false;
  std::vector<El> stream;
  bool stream_ok = true;
  uint64_t stream_updates = 0;
  int merges = 0;
  uint32_t kinds_mask = 0;
};

struct Flags { bool over = false, merged_nonempty = false, ser_nonempty = false, concat = false; uint64_t updates = 0; };

template <typename W> void model_update(Slot<W>& s, const It& it, const std::string& key, W w) {
  s.total = static_cast<W>(s.total + wabs(w));
  std::vector<uint32_t> tmp;
  const std::vector<uint32_t>& l = s.hc->locs(key, tmp);
  const size_t b = s.hc->b;
  for (size_t r = 0; r < l.size(); ++r) { W& c = s.cells[r * b + l[r]]; c = static_cast<W>(c + w); }
  Entry<W>& e = s.truth[key];
  e.kind = it.kind;
  e.net = static_cast<W>(e.net + w);
  if (w < W(0)) s.has_neg = true;
  s.kinds_mask |= 1u << it.kind;
}

template <typename W> W model_min(Slot<W>& s, const std::string& key) {
  std::vector<uint32_t> tmp;
  const std::vector<uint32_t>& l = s.hc->locs(key, tmp);
  const size_t b = s.hc->b;
  W m = s.cells[l[0]];
  for (size_t r = 1; r < l.size(); ++r) { W c = s.cells[r * b + l[r]]; if (c < m) m = c; }
  return m;
}

template <typename W> void check_item(Slot<W>& s, const std::string& key, int kind, Flags& fl, const char* after) {
  const count_min_sketch<W>& sk = *s.sk;
  if (kind == 2 && key.empty()) {  // "Empty strings are not inserted into the sketch": all three answers are 0
    VF_CHECK(sk.get_estimate(key) == W(0) && sk.get_lower_bound(key) == W(0) && sk.get_upper_bound(key) == W(0), "empty-string-zero", "empty string has a non-zero answer");
    return;
  }
  W est, lb, ub;
  typed_query(sk, kind, key, est, lb, ub);
  W est_v = sk.get_estimate(static_cast<const void*>(key.data()), key.size());
  VF_CHECK(est == est_v, "overload-agree", "after " << after << ": typed estimate " << est << " != byte-form estimate " << est_v << " (kind " << kind << ", " << key.size() << " bytes)");
  W mm = model_min(s, key);
  VF_CHECK(est == mm, "estimate-is-row-min", "after " << after << ": estimate " << est << " != min over rows of the model cells " << mm << " (kind " << kind << ", " << key.size()
           << " bytes, h=" << int(s.hc->h) << " b=" << s.hc->b << ")");
  auto f = s.truth.find(key);
  W tr = f == s.truth.end() ? W(0) : f->second.net;
  if (!s.has_neg) {
    VF_CHECK(tr <= est, "never-under", "after " << after << ": estimate " << est << " < true weight " << tr);
    VF_CHECK(est <= s.total, "at-most-total", "after " << after << ": estimate " << est << " > total weight " << s.total);
    VF_CHECK(tr <= ub, "ub-covers-true", "upper bound " << ub << " < true weight " << tr);
    if (est > tr) fl.over = true;
  }
  VF_CHECK(lb <= est && est <= ub, "bounds-order", "after " << after << ": lb " << lb << " est " << est << " ub " << ub);
  double expect_ub = static_cast<double>(est) + sk.get_relative_error() * static_cast<double>(s.total);
  VF_CHECK(std::fabs(static_cast<double>(ub) - expect_ub) <= 1.0 + 1e-9 * std::fabs(expect_ub), "ub-formula",
           "upper bound " << ub << " is not est + relative_error*total = " << expect_ub);
}

// full comparison of one slot with its model; items: the touched ones + a deterministic sample (or all)
template <typename W> void check_slot(Slot<W>& s, const std::vector<std::pair<std::string, int>>& touched, bool all_items, Flags& fl, const char* after) {
  const count_min_sketch<W>& sk = *s.sk;
  const HashCfg& hc = *s.hc;
  VF_CHECK(sk.get_num_hashes() == hc.h && sk.get_num_buckets() == hc.b && sk.get_seed() == hc.seed, "config", "getters differ from the construction arguments");
  VF_CHECK(std::fabs(sk.get_relative_error() - std::exp(1.0) / hc.b) <= 1e-12, "relative-error", "relative error " << sk.get_relative_error() << " for " << hc.b << " buckets");
  VF_CHECK(sk.get_total_weight() == s.total, "total-weight", "after " << after << ": total weight " << sk.get_total_weight() << " != sum of |w| " << s.total);
  VF_CHECK(sk.is_empty() == (s.total == W(0)), "is-empty", "after " << after << ": is_empty " << sk.is_empty() << " with total " << s.total);
  size_t i = 0, n = s.cells.size();
  for (auto it = sk.begin(); it != sk.end(); ++it, ++i) {
    if (i >= n) break;
    if (!(*it == s.cells[i])) {
      VF_CHECK(false, "cells", "after " << after << ": cell " << i << " (row " << i / hc.b << ", bucket " << i % hc.b << ") holds " << *it << ", model " << s.cells[i]
               << " (h=" << int(hc.h) << " b=" << hc.b << ")");
    }
  }
  vf::count("checks", n);
  VF_CHECK(i == n && static_cast<size_t>(sk.end() - sk.begin()) == n, "cell-count", "array has " << (sk.end() - sk.begin()) << " cells, expected " << n);
  for (const auto& t : touched) check_item(s, t.first, t.second, fl, after);
  size_t budget = all_items ? std::max<size_t>(200, 400000 / hc.h) : std::max<size_t>(8, std::min<size_t>(48, 6000 / hc.h));
  size_t stride = std::max<size_t>(1, (s.truth.size() + budget - 1) / budget);
  size_t k = 0;
  for (auto it = s.truth.begin(); it != s.truth.end(); ++it, ++k) {
    if (k % stride) continue;
    check_item(s, it->first, it->second.kind, fl, after);
  }
  for (uint64_t j = 0; j < 3; ++j) check_item(s, le8(vf::mix64(0xDEADull + j + s.truth.size())), static_cast<int>(j & 1), fl, after);  // (almost surely) never inserted
}

// one sketch fed the concatenated streams == the merged sketch
template <typename W> void check_concat(Slot<W>& s, bool neg_ok, Flags& fl) {
  if (!s.stream_ok || s.stream_updates * s.hc->h > 1500000) { vf::label("concat-skipped"); return; }
  count_min_sketch<W> fresh(s.hc->h, s.hc->b, s.hc->seed);
  for (const El& e : s.stream) expand(e, [&](const It& it, int64_t wa, bool dflt) { real_update(fresh, it, key_of(it), weight_from<W>(wa, neg_ok), dflt); });
  const count_min_sketch<W>& sk = *s.sk;
  VF_CHECK(fresh.get_total_weight() == sk.get_total_weight(), "concat-total", "merged total " << sk.get_total_weight() << " != total of one sketch fed the concatenation " << fresh.get_total_weight());
  auto a = sk.begin(); auto b = fresh.begin(); size_t i = 0;
  for (; a != sk.end() && b != fresh.end(); ++a, ++b, ++i) {
    if (!(*a == *b)) VF_CHECK(false, "concat-cells", "cell " << i << ": merged " << *a << " != concatenation " << *b << " (after " << s.merges << " merges)");
  }
  VF_CHECK(a == sk.end() && b == fresh.end(), "concat-cells", "array lengths differ");
  size_t stride = std::max<size_t>(1, s.truth.size() / std::max<size_t>(20, 20000 / s.hc->h)), k = 0;
  for (auto it = s.truth.begin(); it != s.truth.end(); ++it, ++k) {
    if (k % stride) continue;
    W e1, l1, u1, e2, l2, u2;
    if (it->second.kind == 2 && it->first.empty()) continue;
    typed_query(sk, it->second.kind, it->first, e1, l1, u1);
    typed_query(fresh, it->second.kind, it->first, e2, l2, u2);
    VF_CHECK(e1 == e2 && l1 == l2 && u1 == u2, "concat-estimates", "estimate/bounds of merged sketch (" << e1 << "," << l1 << "," << u1 << ") != concatenation (" << e2 << "," << l2 << "," << u2 << ")");
  }
  fl.concat = true;
  vf::label("concat-replayed");
}

template <typename W> void make_slot(Slot<W>& s, std::shared_ptr<HashCfg> hc) {
  s = Slot<W>();
  s.hc = hc;
  s.sk.reset(new count_min_sketch<W>(hc->h, hc->b, hc->seed));
  s.cells.assign(static_cast<size_t>(hc->h) * hc->b, W(0));
}

template <typename W> const char* wname();
template <> const char* wname<int64_t>() { return "W=int64"; }
template <> const char* wname<uint64_t>() { return "W=uint64"; }
template <> const char* wname<double>() { return "W=double"; }

template <typename W> void run_history(const Case& cs, size_t cell_cap) {
  uint8_t h = static_cast<uint8_t>(std::min<int64_t>(255, std::max<int64_t>(1, cs.get("h", 3))));
  uint32_t b = static_cast<uint32_t>(std::min<int64_t>(5000, std::max<int64_t>(3, cs.get("b", 16))));
  if (static_cast<size_t>(h) * b > cell_cap) b = static_cast<uint32_t>(std::max<size_t>(3, cell_cap / h));
  uint64_t seed = seed_from(cs.get("seed", 0));
  bool neg_ok = (cs.get("neg", 0) & 1) && std::is_signed<W>::value;
  auto base = std::make_shared<HashCfg>(h, b, seed);
  // odd configuration: differs in exactly one respect (or has the same number of cells in another shape)
  uint8_t oh = h; uint32_t ob = b; uint64_t os = seed;
  int odd = static_cast<int>(cs.get("odd", 1));
  switch (odd) {
    case 2: oh = static_cast<uint8_t>(h < 255 ? h + 1 : h - 1); break;
    case 3: os = seed + 1; break;
    case 4: if (b % 2 == 0 && b / 2 >= 3 && h <= 127) { oh = static_cast<uint8_t>(2 * h); ob = b / 2; } else if (h % 2 == 0) { oh = h / 2; ob = 2 * b; } else ob = b + 1; break;
    case 5: os = seed + 2147483647ull; break;  // same minstd_rand0 state, different seed
    case 6: case 7: {  // another seed with the SAME 16-bit seed hash (what an image carries): still another set of hash functions
      os = seed + 1;
      for (int tries = 0; tries < 4000000 && vf::ref_seed_hash(os) != vf::ref_seed_hash(seed); ++tries) ++os;
      if (vf::ref_seed_hash(os) == vf::ref_seed_hash(seed)) vf::label("odd:seed-with-the-same-seed-hash");
      break;
    }
    default: ob = b + 1;
  }
  auto oddc = std::make_shared<HashCfg>(oh, ob, os);
  std::vector<Slot<W>> slots(NSLOTS);
  for (int i = 0; i < NSLOTS; ++i) make_slot(slots[i], i == NSLOTS - 1 ? oddc : base);
  Flags fl;
  std::vector<std::pair<std::string, int>> touched;
  for (int i = 0; i < NSLOTS; ++i) check_slot(slots[i], touched, false, fl, "construction");

  auto apply = [&](Slot<W>& s, const El& e) {  // feeds one stream element to the real sketch and the model
    double bound = 0;
    uint64_t cnt = 0;
    expand(e, [&](const It&, int64_t wa, bool dflt) { bound += dflt ? 1.0 : std::fabs(static_cast<double>(std::max<int64_t>(-WA_MAX, std::min<int64_t>(WA_MAX, wa)))); ++cnt; });
    if (static_cast<double>(s.total) + bound > TOTAL_CAP) { vf::label("weight-cap"); return; }
    uint64_t idx = 0;
    expand(e, [&](const It& it, int64_t wa, bool dflt) {
      std::string key = key_of(it);
      W w = dflt ? W(1) : weight_from<W>(wa, neg_ok);
      real_update(*s.sk, it, key, w, dflt);
      bool keep = idx < 16 || idx + 8 >= cnt;   // first and last items of a bulk are re-queried right after the op
      ++idx;
      if (keep) touched.emplace_back(key, it.kind);
      if (it.kind == 2 && key.empty()) return;  // "Empty strings are not inserted into the sketch"
      model_update(s, it, key, w);
    });
    s.stream_updates += cnt;
    fl.updates += cnt;
    if (s.stream.size() < 600) s.stream.push_back(e); else s.stream_ok = false;
  };

  // optional initial content (bit i of "pre" = slot i starts with a small bulk stream), so that merges and
  // serialization points mostly see non-empty sketches
  const uint64_t pre = static_cast<uint64_t>(cs.get("pre", 0));
  for (int i = 0; i < NSLOTS; ++i) {
    if (!((pre >> i) & 1)) continue;
    touched.clear();
    apply(slots[i], El{1, It{0, 0}, 0, false, std::min<uint64_t>(30 + (pre * 7 + i * 13) % 90, std::max<uint64_t>(10, 20000 / h)), (pre / 32 + i) % 7, pre + i});
    check_slot(slots[i], touched, false, fl, "prefill");
  }
  if (pre % 32) vf::label("prefilled");

  for (const Op& op : cs.ops) {
    touched.clear();
    int si = static_cast<int>(op.uarg(0) % NSLOTS);
    Slot<W>& s = slots[si];
    if (op.name == "upd" || op.name == "upd1") {
      El e{0, It{static_cast<int>(op.uarg(1) % 4), op.uarg(2)}, op.arg(3, 1), op.name == "upd1", 0, 0, 0};
      apply(s, e);
    } else if (op.name == "bulk") {
      uint64_t n = op.uarg(1) % 3001;
      n = std::min<uint64_t>(n, std::max<uint64_t>(40, 50000 / s.hc->h));
      El e{1, It{0, 0}, 0, false, n, op.uarg(2) % 7, op.uarg(3)};
      apply(s, e);
      vf::label("bulk");
    } else if (op.name == "merge") {
      int oi = static_cast<int>(op.uarg(1) % NSLOTS);
      Slot<W>& o = slots[oi];
      bool self = si == oi, compat = s.hc->same(*o.hc);
      if (self || !compat) {
        bool threw = false;
        try { s.sk->merge(*o.sk); } catch (const std::invalid_argument&) { threw = true; }
        VF_CHECK(threw, self ? "self-merge-refused" : "incompatible-merge-refused",
                 "merge of slot " << oi << " (h=" << int(o.hc->h) << " b=" << o.hc->b << " seed=" << o.hc->seed << ") into slot " << si << " (h=" << int(s.hc->h) << " b=" << s.hc->b
                 << " seed=" << s.hc->seed << ") was not refused with std::invalid_argument");
        vf::label(self ? "merge-self-refused" : "merge-incompatible-refused");
        if (!self) check_slot(o, touched, false, fl, "refused merge (source)");
      } else if (static_cast<double>(s.total) + static_cast<double>(o.total) > TOTAL_CAP) {
        vf::label("weight-cap");
        continue;
      } else {
        bool both = s.total != W(0) && o.total != W(0);
        s.sk->merge(*o.sk);
        for (size_t i = 0; i < s.cells.size(); ++i) s.cells[i] = static_cast<W>(s.cells[i] + o.cells[i]);
        s.total = static_cast<W>(s.total + o.total);
        for (const auto& kv : o.truth) { Entry<W>& e = s.truth[kv.first]; e.net = static_cast<W>(e.net + kv.second.net); e.kind = kv.second.kind; }
        s.has_neg = s.has_neg || o.has_neg;
        s.kinds_mask |= o.kinds_mask;
        if (s.stream.size() + o.stream.size() <= 600 && o.stream_ok) s.stream.insert(s.stream.end(), o.stream.begin(), o.stream.end()); else s.stream_ok = false;
        s.stream_updates += o.stream_updates;
        s.merges += 1 + o.merges;
        if (both) { fl.merged_nonempty = true; vf::label("merge-nonempty"); }
        vf::label("merge-ok");
        if (s.merges >= 3) vf::label("merge-tree>=3");
        check_slot(o, touched, false, fl, "merge (source)");
      }
    } else if (op.name == "ser") {
      int mode = static_cast<int>(op.uarg(1) % 3);
      unsigned hdr = mode == 2 ? static_cast<unsigned>(op.uarg(2) % 40) : 0;
      const count_min_sketch<W>& sk = *s.sk;
      size_t expect = 16 + (s.total == W(0) ? 0 : sizeof(W) * (1 + s.cells.size()));
      VF_CHECK(sk.get_serialized_size_bytes() == expect, "serialized-size", "get_serialized_size_bytes " << sk.get_serialized_size_bytes() << " expected " << expect);
      auto bytes = sk.serialize(hdr);
      VF_CHECK(bytes.size() == hdr + expect, "serialized-size", "serialize(" << hdr << ") gave " << bytes.size() << " bytes, expected " << hdr + expect);
      std::ostringstream os(std::ios::binary);
      sk.serialize(os);
      std::string img = os.str();
      VF_CHECK(img.size() == expect && std::memcmp(img.data(), bytes.data() + hdr, expect) == 0, "stream-equals-bytes", "stream image (" << img.size() << " bytes) differs from the byte image");
      // a different seed is refused when its 16-bit seed hash differs
      uint64_t other = s.hc->seed + 1 + op.uarg(2) % 5;
      if (vf::ref_seed_hash(other) != vf::ref_seed_hash(s.hc->seed)) {
        bool threw = false;
        try { auto x = count_min_sketch<W>::deserialize(bytes.data() + hdr, bytes.size() - hdr, other); (void)x; } catch (const std::invalid_argument&) { threw = true; }
        VF_CHECK(threw, "wrong-seed-refused", "deserialize with seed " << other << " accepted an image written with seed " << s.hc->seed);
      }
      if (mode == 1) {
        std::istringstream is(img, std::ios::binary);
        s.sk.reset(new count_min_sketch<W>(count_min_sketch<W>::deserialize(is, s.hc->seed)));
        vf::label("ser-stream");
      } else {
        s.sk.reset(new count_min_sketch<W>(count_min_sketch<W>::deserialize(bytes.data() + hdr, bytes.size() - hdr, s.hc->seed)));
        vf::label(hdr ? "ser-bytes-header" : "ser-bytes");
      }
      if (s.total != W(0)) { fl.ser_nonempty = true; vf::label("ser-nonempty"); } else vf::label("ser-empty");
    } else if (op.name == "copy") {
      if (op.uarg(1) & 1) { count_min_sketch<W> cp(*s.sk); s.sk.reset(new count_min_sketch<W>(std::move(cp))); }
      else { count_min_sketch<W> cp(s.hc->h, s.hc->b, s.hc->seed); cp = *s.sk; *s.sk = std::move(cp); }
      vf::label("copy");
    } else if (op.name == "verify") {
      if (s.merges > 0) check_concat(s, neg_ok, fl);
    } else if (op.name == "fresh") {
      make_slot(s, s.hc);
      vf::label("fresh");
    } else continue;
    check_slot(s, touched, false, fl, op.name.c_str());
  }
  touched.clear();
  for (int i = 0; i < NSLOTS; ++i) {
    check_slot(slots[i], touched, true, fl, "end");
    if (slots[i].merges > 0) check_concat(slots[i], neg_ok, fl);
  }
  uint32_t kinds = 0; bool any_neg = false;
  for (auto& s : slots) { kinds |= s.kinds_mask; any_neg = any_neg || s.has_neg; }
  int nk = __builtin_popcount(kinds);
  vf::label(wname<W>());
  if (fl.over) vf::label("overestimate");
  if (any_neg) vf::label("neg-weights");
  if (nk >= 3) vf::label("kinds>=3");
  if (h > 8) vf::label("h>8");
  if (h == 1) vf::label("h=1");
  if (b > 300) vf::label("b>300");
  if (fl.over && (fl.merged_nonempty || fl.ser_nonempty)) vf::label("collision+merge/ser");
  if (fl.over || fl.merged_nonempty) vf::nontrivial();
}

void prop_with_cap(const Case& cs, size_t cap) {
  switch (cs.get("wt", 0) % 3) {
    case 0: run_history<int64_t>(cs, cap); break;
    case 1: run_history<uint64_t>(cs, cap); break;
    default: run_history<double>(cs, cap);
  }
}
void prop_main(const Case& cs) { prop_with_cap(cs, 150000); }
void prop_large(const Case& cs) { prop_with_cap(cs, 1300000); }

// ---------------------------------------------------------------- constructor domain
template <typename W> void run_ctor(const Case& cs) {
  uint64_t h = static_cast<uint64_t>(std::min<int64_t>(255, std::max<int64_t>(1, cs.get("h", 2))));
  int kind = static_cast<int>(cs.get("kind", 0) % 4);
  uint64_t b;
  const uint64_t LIM = 1ull << 30, TWO32 = 1ull << 32;
  if (kind == 0) {
    b = static_cast<uint64_t>(cs.get("m", 0)) % 3;                          // fewer than 3 buckets
  } else if (kind == 1) {                                                    // 2^30 <= h*b < 2^32: no wrap-around
    uint64_t lo = (LIM + h - 1) / h, hi = (TWO32 - 1) / h;
    b = lo + vf::mix64(static_cast<uint64_t>(cs.get("m", 0))) % (hi - lo + 1);
    if (cs.get("j", 0) % 3 == 0) b = lo + static_cast<uint64_t>(cs.get("j", 0) / 3) % std::min<uint64_t>(4, hi - lo + 1);  // right at the limit
  } else if (kind == 2) {                                                    // h*b >= 2^32, b still a uint32
    if (h < 2) h = 2;
    uint64_t m = 1 + static_cast<uint64_t>(cs.get("m", 0)) % (h - 1);       // number of wraps, 1..h-1
    b = (m * TWO32 + h - 1) / h + static_cast<uint64_t>(cs.get("j", 0)) % 8;
    if (b > 0xffffffffull) b = 0xffffffffull;
  } else {
    b = 3 + static_cast<uint64_t>(cs.get("m", 0)) % 200;                     // ordinary
  }
  uint64_t product = h * b;
  uint32_t wrapped = static_cast<uint32_t>(product);
  // memory guard of the harness: a (defective) 32-bit size computation must not make us allocate gigabytes
  if (product >= LIM && wrapped < LIM && wrapped > (1u << 20)) { vf::label("ctor-skipped-memory-guard"); return; }
  uint64_t seed = seed_from(cs.get("seed", 0));
  bool threw = false;
  std::unique_ptr<count_min_sketch<W>> sk;
  try { sk.reset(new count_min_sketch<W>(static_cast<uint8_t>(h), static_cast<uint32_t>(b), seed)); } catch (const std::invalid_argument&) { threw = true; }
  if (b < 3) {
    VF_CHECK(threw, "ctor-few-buckets-refused", "constructor accepted " << b << " buckets");
    vf::label("ctor-few-buckets");
  } else if (product >= LIM) {
    if (product >= TWO32) {
      vf::label("ctor-wrap");
      VF_CHECK_K(threw, "ctor-limit-refused", "C14|count_min|ctor|num_hashes*num_buckets >= 2^32 (product wraps in 32 bits)|accepted instead of invalid_argument",
                 "constructor accepted num_hashes=" << h << " num_buckets=" << b << " (" << product << " cells >= 2^30); array holds " << (sk->end() - sk->begin()) << " cells");
    } else {
      vf::label("ctor-limit");
      VF_CHECK(threw, "ctor-limit-refused", "constructor accepted num_hashes=" << h << " num_buckets=" << b << " (" << product << " cells >= 2^30)");
    }
  } else {
    VF_CHECK(!threw, "ctor-accepts", "constructor refused num_hashes=" << h << " num_buckets=" << b);
    VF_CHECK(sk->get_num_hashes() == h && sk->get_num_buckets() == b && sk->get_seed() == seed, "config", "getters");
    VF_CHECK(static_cast<uint64_t>(sk->end() - sk->begin()) == product, "cell-count", "array size");
    for (auto it = sk->begin(); it != sk->end(); ++it) VF_CHECK(*it == W(0), "fresh-cells-zero", "fresh sketch has a non-zero cell");
    VF_CHECK(sk->is_empty() && sk->get_total_weight() == W(0), "fresh-empty", "fresh sketch not empty");
    VF_CHECK(sk->get_estimate(static_cast<uint64_t>(cs.get("m", 0))) == W(0) && sk->get_estimate(std::string("x")) == W(0), "fresh-estimate-zero", "fresh sketch estimates non-zero");
    VF_CHECK(sk->get_serialized_size_bytes() == 16 && sk->serialize().size() == 16, "serialized-size", "empty image is not 16 bytes");
    vf::label("ctor-ordinary");
    vf::nontrivial();
  }
  if (product >= LIM || b < 3) vf::nontrivial();
}
void prop_ctor(const Case& cs) {
  switch (cs.get("wt", 0) % 3) {
    case 0: run_ctor<int64_t>(cs); break;
    case 1: run_ctor<uint64_t>(cs); break;
    default: run_ctor<double>(cs);
  }
}

// ---------------------------------------------------------------- statistical sub-check (weak)
// N >= 2000 distinct items; the number of items whose over-estimate exceeds relative_error*total must not exceed
// N*p + 5*sqrt(N*p*(1-p)) + max(3, 0.05*N*p) with p = e^-num_hashes (Markov bound per row, independent rows).
void prop_stat(const Case& cs) {
  uint8_t h = static_cast<uint8_t>(std::min<int64_t>(6, std::max<int64_t>(1, cs.get("h", 2))));
  uint64_t N = static_cast<uint64_t>(std::min<int64_t>(6000, std::max<int64_t>(2000, cs.get("n", 2000))));
  // load N/b from 1/8 to 8, denser around the tight region 0.3..1
  int64_t ls = cs.get("load", 8) % 24;
  static const double loads[24] = {0.125, 0.2, 0.25, 0.3, 0.33, 0.36, 0.37, 0.38, 0.4, 0.45, 0.5, 0.6, 0.7, 0.74, 0.8, 0.9, 1.0, 1.1, 1.3, 1.6, 2.0, 3.0, 5.0, 8.0};
  uint32_t b = static_cast<uint32_t>(std::max<double>(3.0, std::floor(static_cast<double>(N) / loads[ls])));
  uint64_t seed = seed_from(cs.get("seed", 0));
  int wpat = static_cast<int>(cs.get("wpat", 0) % 4);
  int parts = static_cast<int>(1 + cs.get("parts", 0) % 3);
  uint64_t iseed = static_cast<uint64_t>(cs.get("iseed", 1));
  std::vector<count_min_sketch<uint64_t>> sks;
  for (int p = 0; p < parts; ++p) sks.emplace_back(h, b, seed);
  std::vector<uint64_t> w(N);
  vf::Rng r(vf::mix64(iseed));
  uint64_t total = 0;
  for (uint64_t i = 0; i < N; ++i) {
    switch (wpat) {
      case 0: w[i] = 1; break;
      case 1: w[i] = 1 + r.below(10); break;
      case 2: w[i] = 1 + N / (1 + i); break;                       // zipf-like
      default: w[i] = (i % 100 == 0) ? 1000 : 1;                   // 1% heavy
    }
    total += w[i];
    sks[r.below(parts)].update(vf::mix64(iseed * 7919 + i), w[i]);
  }
  for (int p = 1; p < parts; ++p) sks[0].merge(sks[p]);
  const count_min_sketch<uint64_t>& sk = sks[0];
  VF_CHECK(sk.get_total_weight() == total, "total-weight", "total " << sk.get_total_weight() << " != " << total);
  double thr = sk.get_relative_error() * static_cast<double>(total);
  uint64_t bad = 0;
  for (uint64_t i = 0; i < N; ++i) {
    uint64_t est = sk.get_estimate(vf::mix64(iseed * 7919 + i));
    VF_CHECK(est >= w[i] && est <= total, "never-under", "estimate " << est << " true " << w[i] << " total " << total);
    if (static_cast<double>(est - w[i]) > thr) ++bad;
  }
  double p = std::exp(-static_cast<double>(h));
  double allowed = N * p + 5.0 * std::sqrt(N * p * (1 - p)) + std::max(3.0, 0.05 * N * p);
  // evidence of how close the search gets to the bound
  double ratio = static_cast<double>(bad) / (N * p);
  if (ratio > 0.9) vf::label("stat:bad>90%-of-bound"); else if (ratio > 0.75) vf::label("stat:bad>75%-of-bound"); else if (ratio > 0.5) vf::label("stat:bad>50%-of-bound"); else if (bad > 0) vf::label("stat:bad>0");
  VF_CHECK(static_cast<double>(bad) <= allowed, "error-confidence", bad << " of " << N << " items over-estimated by more than relative_error*total=" << thr << "; allowed " << allowed
           << " (h=" << int(h) << " b=" << b << ")");
  vf::label("stat");
  if (bad > 0) vf::nontrivial();
}

// ---------------------------------------------------------------- generators
rc::Gen<int64_t> weight_gen() {
  using namespace vf;
  return rc::gen::weightedOneOf<int64_t>({{2, rc::gen::just<int64_t>(0)}, {6, range(1, 20)}, {2, range(21, 1000000)}, {1, range(1000001, WA_MAX)},
                                          {3, range(-20, -1)}, {1, range(-WA_MAX, -21)}});
}
rc::Gen<int64_t> item_raw_gen() {
  using namespace vf;
  return rc::gen::weightedOneOf<int64_t>({{6, range(0, 12)}, {3, range(0, 63)}, {1, raw_gen()}});
}
rc::Gen<Op> op_gen() {
  using namespace vf;
  // skewed so that sketches accumulate content before they are merged/serialized; slot 4 is the odd configuration
  auto slot = rc::gen::weightedOneOf<int64_t>({{5, rc::gen::just<int64_t>(0)}, {4, rc::gen::just<int64_t>(1)}, {2, rc::gen::just<int64_t>(2)}, {1, rc::gen::just<int64_t>(3)}, {2, rc::gen::just<int64_t>(4)}});
  return choose({
      {5, op4("upd", slot, range(0, 3), item_raw_gen(), weight_gen())},
      {2, op3("upd1", slot, range(0, 3), item_raw_gen())},
      {3, op4("bulk", slot, rc::gen::withSize([](int s) { return range(1, 30 + 30 * s); }), range(0, 6), range(0, 1 << 20))},
      {6, op2("merge", slot, range(0, NSLOTS - 1))},
      {2, op3("ser", slot, range(0, 2), range(0, 39))},
      {1, op2("copy", slot, range(0, 1))},
      {1, op1("verify", slot)},
      {1, rc::gen::map(range(0, 99), [](int64_t x) { return x < 30 ? Op{"fresh", {x % NSLOTS}} : Op{"verify", {x % NSLOTS}}; })},
  });
}
rc::Gen<Case> gen_main() {
  using namespace vf;
  return make_case({{"h", rc::gen::weightedOneOf<int64_t>({{8, range(1, 8)}, {3, range(9, 32)}, {1, range(33, 255)}})},
                    {"b", rc::gen::weightedOneOf<int64_t>({{4, range(3, 16)}, {4, range(17, 300)}, {2, range(301, 5000)}})},
                    {"seed", rc::gen::weightedOneOf<int64_t>({{2, rc::gen::just<int64_t>(0)}, {2, range(1, 4)}, {3, range(5, 1 << 20)}})},
                    {"wt", range(0, 2)},
                    {"neg", rc::gen::weightedOneOf<int64_t>({{2, rc::gen::just<int64_t>(0)}, {1, rc::gen::just<int64_t>(1)}})},
                    {"odd", range(1, 7)},
                    {"pre", rc::gen::weightedOneOf<int64_t>({{1, rc::gen::just<int64_t>(0)}, {3, range(1, 32 * 7 - 1)}})}},
                   oplist(op_gen(), 4, 0.4));
}
rc::Gen<Case> gen_large() {
  using namespace vf;
  return make_case({{"h", rc::gen::weightedOneOf<int64_t>({{1, range(1, 16)}, {2, range(17, 255)}})},
                    {"b", range(1000, 5000)},
                    {"seed", range(0, 1 << 20)},
                    {"wt", range(0, 2)},
                    {"neg", pick({0, 0, 0, 1})},
                    {"odd", range(1, 7)},
                    {"pre", range(0, 32 * 7 - 1)}},
                   oplist(op_gen(), 2, 0.12));
}
rc::Gen<Case> gen_ctor() {
  using namespace vf;
  return make_case({{"h", rc::gen::weightedOneOf<int64_t>({{3, range(1, 8)}, {2, range(9, 255)}, {1, pick({2, 3, 4, 128, 255})}})},
                    {"kind", range(0, 3)},
                    {"m", range(0, 1 << 20)},
                    {"j", range(0, 23)},
                    {"seed", range(0, 8)},
                    {"wt", range(0, 2)}},
                   rc::gen::just(std::vector<Op>{}));
}
rc::Gen<Case> gen_stat() {
  using namespace vf;
  return make_case({{"h", rc::gen::weightedOneOf<int64_t>({{3, range(1, 2)}, {2, range(3, 4)}, {1, range(5, 6)}})},
                    {"n", range(2000, 6000)},
                    {"load", range(0, 23)},
                    {"seed", range(0, 1 << 20)},
                    {"wpat", range(0, 3)},
                    {"parts", range(0, 2)},
                    {"iseed", range(1, 1 << 30)}},
                   rc::gen::just(std::vector<Op>{}));
}

// ---------------------------------------------------------------- integer weights beyond 2^53
// The main history keeps totals below 2^50 so that one model serves the double weight type too. Integral weight types take any 64-bit
// weight: single updates between 2^53 and 2^60 with low bits set (not representable as a double), two sketches, merge, both
// serialized forms; totals and counters are kept in 128-bit integers.
template <typename W> void big_weights(const Case& cs) {
  vf::Rng r(static_cast<uint64_t>(cs.get("seed", 1)));
  const uint8_t h = static_cast<uint8_t>(1 + r.below(5)); const uint32_t b = static_cast<uint32_t>(3 + r.below(40));
  count_min_sketch<W> a(h, b), c(h, b);
  unsigned __int128 total = 0; std::map<uint64_t, unsigned __int128> truth;
  const uint64_t nupd = 1 + static_cast<uint64_t>(cs.get("n", 3)) % 6;
  for (uint64_t i = 0; i < nupd; ++i) {
    const uint64_t item = r.below(5);
    const uint64_t w = ((1ull << 53) + (r.next() % (1ull << 59))) | 1ull;
    ((i & 1) ? a : c).update(item, static_cast<W>(w));
    total += w; truth[item] += w;
  }
  auto check = [&](const count_min_sketch<W>& sk, unsigned __int128 tot, const std::map<uint64_t, unsigned __int128>& tr, const char* what) {
    VF_CHECK(static_cast<unsigned __int128>(static_cast<uint64_t>(sk.get_total_weight())) == tot, "big-weight-total", what << ": total weight " << sk.get_total_weight() << " is not the exact sum of the update weights (low 64 bits " << static_cast<uint64_t>(tot) << ")");
    for (const auto& kv : tr) {
      const unsigned __int128 est = static_cast<uint64_t>(sk.get_estimate(kv.first));
      VF_CHECK(est >= kv.second && est <= tot, "big-weight-estimate", what << ": estimate " << static_cast<uint64_t>(est) << " of item " << kv.first << " outside [true weight, total weight]");
    }
  };
  a.merge(c);
  check(a, total, truth, "merged sketch");
  auto bytes = a.serialize();
  check(count_min_sketch<W>::deserialize(bytes.data(), bytes.size()), total, truth, "sketch restored from bytes");
  std::stringstream ss(std::ios::in | std::ios::out | std::ios::binary); a.serialize(ss);
  check(count_min_sketch<W>::deserialize(ss), total, truth, "sketch restored from a stream");
  vf::label(std::is_signed<W>::value ? "big-weights:int64" : "big-weights:uint64");
  vf::nontrivial();
}
void prop_big(const Case& cs) { if (cs.get("w", 0) & 1) big_weights<int64_t>(cs); else big_weights<uint64_t>(cs); }
rc::Gen<Case> gen_big() { using namespace vf; return make_case({{"seed", range(1, 1 << 30)}, {"n", range(0, 5)}, {"w", range(0, 1)}}, rc::gen::just(std::vector<Op>{})); }

}  // namespace

int main(int argc, char** argv) {
  std::vector<vf::Sub> subs;
  subs.push_back({"main", gen_main, prop_main, 1.0});
  subs.push_back({"big_weights", gen_big, prop_big, 0.1});
  subs.push_back({"large", gen_large, prop_large, 0.04, 60});
  subs.push_back({"ctor", gen_ctor, prop_ctor, 0.15});
  subs.push_back({"stat", gen_stat, prop_stat, 0.08});
  return vf::main_driver(argc, argv, "C14", "c14_count_min",
                         "case = configuration (num_hashes, num_buckets, seed, weight type W in {int64,uint64,double}, negative weights allowed?, odd configuration) + "
                         "generated history over 5 sketches (typed single updates over u64/i64/string/byte items incl. default weight and weight 0, bulk streams, merges "
                         "incl. self and incompatible ones, serialize/deserialize bytes|stream|header, copy/assign, concatenation replay); every touched sketch is "
                         "compared cell by cell with an independent reference-hash model after every op; non-trivial (main/large) = some tracked item is really "
                         "over-estimated through a hash collision, or two non-empty sketches were merged; ctor: every case (refusal or ordinary construction) counts; "
                         "stat: at least one item exceeded the error threshold; distinct = distinct case text",
                         subs);
}
