"""Per-property configuration: harness units, tier budgets, evidence level."""

ASSUME_COMMON = [
    "reference MurmurHash3/XXHash64 in harness/vf/ref_hash.hpp written from the published definitions",
    "clang 14 ASan/UBSan(-alignment)/LSan report every memory error they are documented to catch",
    "rapidcheck generators are the only source of randomness; a run is a function of the tree and VERIF_SEED",
]

PROPS = {
    "C01": {
        "level": "exploration",
        "units": [
            {"harness": "c01_theta_update",
             "quick": {"cases": 1600, "maxsize": 100},
             "thorough": {"cases": 60000, "maxsize": 100}},
        ],
        "require_labels": {"rebuild": 0.05, "p-screened": 0.05},
        "assumptions": ASSUME_COMMON,
        "manifest": {
            "text": "Generated histories of typed updates/trim/reset/compact/copy over generated builder settings; after every operation the full retained set, theta, emptiness, estimate and compact forms are compared with an independent reference-hash model (set equality, no tolerances). Evidence of absence within the explored bounds only.",
            "note": "Trusted: the reference MurmurHash3 and canonical-form rules in harness/vf (cross-checked by C10), clang sanitizers, rapidcheck. lg_k>13 is sampled sparsely (sub 'large'), X1 resize limited to lg_k<=20.",
            "technique": "property-based testing (rapidcheck) with a reference-hash model oracle, stateful op histories",
        },
    },
}

NOT_APPLICABLE = {}
